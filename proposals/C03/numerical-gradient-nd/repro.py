"""C03 - `NumericalGradient` raises `IndexError` on spaces with more than one axis

Run with plain ODL:  python repro.py   (exit code 1 = defect present)
"""
import odl

bad = 0
for sp in (odl.rn(3), odl.rn((2, 3)), odl.uniform_discr([0, 0], [1, 1], [2, 2])):
    g = odl.solvers.NumericalGradient(odl.solvers.L2NormSquared(sp))
    try:
        print(sp.shape, g(sp.one()))
    except Exception as e:
        bad += 1
        print(sp.shape, 'raises %s: %s' % (type(e).__name__, e))
raise SystemExit(1 if bad else 0)

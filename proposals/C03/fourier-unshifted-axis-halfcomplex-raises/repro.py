"""C03 - half-complex `FourierTransform` with an un-shifted non-halved axis raises on every call (root cause KF-C18-7)

Run with plain ODL:  python repro.py   (exit code 1 = defect present)
"""
import odl

X = odl.uniform_discr([-1, -1], [1, 1], [2, 3])
bad = 0
for impl in ('numpy', 'pyfftw'):
    try:
        A = odl.trafos.FourierTransform(X, shift=[False, True], impl=impl)
    except ValueError:
        continue                    # back-end not installed
    try:
        A(X.one())
        A.inverse(A.range.one())
        print(impl, 'ok')
    except Exception as e:
        bad += 1
        print(impl, 'call raises %s: %s' % (type(e).__name__, str(e)[:110]))
raise SystemExit(1 if bad else 0)

"""C03 - `Huber` on array-weighted spaces: the functional and its gradient operator raise `ValueError` (root cause KF-C20-5)

Run with plain ODL:  python repro.py   (exit code 1 = defect present)
"""
import numpy as np
import odl

sp = odl.rn(3, weighting=np.array([1.0, 2.0, 0.5]))
f = odl.solvers.Huber(sp, 0.5)
x = sp.element([1.5, 0.75, 0.25])
bad = 0
for name, call in (('value', lambda: f(x)), ('gradient', lambda: f.gradient(x)), ('derivative', lambda: f.derivative(x)(sp.one()))):
    try:
        print(name, call())
    except Exception as e:
        bad += 1
        print(name, 'raises %s: %s' % (type(e).__name__, e))
raise SystemExit(1 if bad else 0)

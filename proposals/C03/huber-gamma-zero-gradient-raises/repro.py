"""C03 - the gradient operator of `Huber(space, gamma=0)` raises `ZeroDivisionError` on every call

Run with plain ODL:  python repro.py   (exit code 1 = defect present)
"""
import odl

bad = 0
for sp, x in ((odl.rn(3), [1.5, -2.0, 0.25]), (odl.ProductSpace(odl.rn(2), 2), [[3.0, 1.0], [4.0, -1.0]])):
    f = odl.solvers.Huber(sp, gamma=0)
    print('value', f(x))
    try:
        print('gradient', f.gradient(x))
    except Exception as e:
        bad += 1
        print('gradient raises %s: %s' % (type(e).__name__, e))
raise SystemExit(1 if bad else 0)

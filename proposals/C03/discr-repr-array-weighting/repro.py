"""C03 - on array-weighted discretised spaces bad input / bad `out` is "rejected" with `AttributeError` (`DiscretizedSpace.__repr__` raises)

Run with plain ODL:  python repro.py   (exit code 1 = defect present)
"""
import numpy as np
import odl

X = odl.uniform_discr(0, 1, 3, weighting=np.array([1.0, 2.0, 0.5]))
bad = 0
try:
    repr(X)
except Exception as e:
    bad += 1
    print('repr(space) raises %s: %s' % (type(e).__name__, e))
A = odl.IdentityOperator(X)
for what, call in (('bad input', lambda: A([1.0, 2.0])), ('bad out', lambda: A(X.one(), out=odl.rn(5).element()))):
    try:
        call()
    except odl.OpTypeError as e:
        print(what, 'rejected with', type(e).__name__)
    except Exception as e:
        bad += 1
        print(what, 'raises %s instead of an OpTypeError' % type(e).__name__)
raise SystemExit(1 if bad else 0)

"""C03 - `MatrixOperator(x, out=y)` raises when the range data type is wider than the result of `matrix.dot(x)`

Run with plain ODL:  python repro.py   (exit code 1 = defect present)
"""
import numpy as np
import odl

op = odl.MatrixOperator(np.array([[1, 2, 0], [-1, 0, 3]]), range=odl.rn(2))
x = op.domain.element([1, 2, 3])
print(op.domain.dtype, '->', op.range.dtype, ' out-of-place:', op(x))
try:
    out = op.range.element()
    op(x, out=out)
    print('in-place:', out)
    bad = 0
except Exception as e:
    bad = 1
    print('in-place raises %s: %s' % (type(e).__name__, e))
raise SystemExit(bad)

"""C03 - `proximal_l1` on a complex space with an element-valued step raises `TypeError`

Run with plain ODL:  python repro.py   (exit code 1 = defect present)
"""
import odl

S = odl.solvers
bad = 0
for sp in (odl.rn(3), odl.cn(3), odl.uniform_discr(0, 1, 3, dtype=complex)):
    sig = sp.element([0.5, 1.0, 2.0])
    x = sp.element([1, -0.25, 3])
    try:
        print(sp, S.proximal_l1(sp, lam=2.0)(sig)(x))
    except Exception as e:
        bad += 1
        print(sp, 'raises %s: %s' % (type(e).__name__, str(e).replace('\n', ' ')[:70]))
raise SystemExit(1 if bad else 0)

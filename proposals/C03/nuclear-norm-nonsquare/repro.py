"""C03 - `NuclearNorm` / `IndicatorNuclearNormUnitBall` raise on matrix fields with fewer rows than columns

Run with plain ODL:  python repro.py   (exit code 1 = defect present)
"""
import numpy as np
import odl

bad = 0
for n, m in ((3, 2), (2, 3), (1, 2)):
    sp = odl.ProductSpace(odl.ProductSpace(odl.rn(3), m), n)
    f = odl.solvers.NuclearNorm(sp, 1, 2)
    x = sp.element(np.arange(n * m * 3, dtype=float).reshape(n, m, 3) % 5 + 0.5)
    try:
        print((n, m), 'value', f(x), ' proximal in space:', f.proximal(0.5)(x) in sp)
    except Exception as e:
        bad += 1
        print((n, m), 'raises %s: %s' % (type(e).__name__, str(e).replace('\n', ' ')[:80]))
raise SystemExit(1 if bad else 0)

"""C05 - `MultiplyOperator.adjoint` raises for a scalar multiplicand on a field and on complex non-power product spaces

Run with plain ODL:  python repro.py   (exit code 1 = defect present)
"""
import odl

bad = 0
for fld, a in ((odl.RealNumbers(), -1.5), (odl.ComplexNumbers(), 0.5 + 2j)):
    op = odl.MultiplyOperator(a, domain=fld, range=fld)
    try:
        print(fld, 'adjoint(1) =', op.adjoint(1.0), ' expected', a.conjugate() if isinstance(a, complex) else a)
    except Exception as e:
        bad += 1
        print(fld, '.adjoint raises %s: %s' % (type(e).__name__, e))
ps = odl.ProductSpace(odl.cn(2), odl.cn(3))
v = ps.element([[1 + 2j, -1j], [2, 1j, 1 - 1j]])
x = ps.element([[1, 2], [1j, 1, 0]])
y = ps.element([[1j, 1], [2, 2, 1 + 1j]])
op = odl.MultiplyOperator(v)
try:
    print('<Ax,y> =', op(x).inner(y), ' <x,A*y> =', x.inner(op.adjoint(y)))
except Exception as e:
    bad += 1
    print('cn(2) x cn(3): .adjoint raises %s: %s' % (type(e).__name__, e))
raise SystemExit(1 if bad else 0)

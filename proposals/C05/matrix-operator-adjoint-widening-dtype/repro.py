"""C05 - `MatrixOperator.adjoint` raises `ValueError` when the range data type is wider than the domain data type

Run with plain ODL:  python repro.py   (exit code 1 = defect present)
"""
import numpy as np
import odl

bad = 0
cases = {
    'complex matrix, real domain': lambda: odl.MatrixOperator(np.array([[1 + 1j, 2.0], [0, -1j]]), domain=odl.rn(2)),
    'float32 matrix, float64 range': lambda: odl.MatrixOperator(np.eye(2, dtype='float32'), range=odl.rn(2)),
    'int matrix, float range': lambda: odl.MatrixOperator(np.array([[1, 2], [0, 1]]), range=odl.rn(2)),
}
for name, mk in cases.items():
    op = mk()
    print(name, ':', op.domain.dtype, '->', op.range.dtype, ' A(e0) =', op(op.domain.element([1, 0])))
    try:
        op.adjoint
        print('   adjoint ok')
    except NotImplementedError:
        print('   no adjoint offered (fine)')
    except Exception as e:
        bad += 1
        print('   .adjoint raises %s: %s' % (type(e).__name__, str(e)[:100]))
raise SystemExit(1 if bad else 0)

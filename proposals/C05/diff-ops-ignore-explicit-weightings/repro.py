"""C05 - finite-difference adjoints ignore explicit (array / product-space) weightings - widening of KF-C05-1

Run with plain ODL:  python repro.py   (exit code 1 = defect present)
"""
import numpy as np
import odl

bad = 0
X = odl.uniform_discr(0, 2, 4, weighting=np.array([1.0, 2.0, 0.5, 4.0]))
A = odl.PartialDerivative(X, 0, pad_mode='symmetric')
x, y = X.element([1, 2, 0, -1]), X.element([0.5, 1, 1, 2])
l, r = A(x).inner(y), x.inner(A.adjoint(y))
print('array-weighted space:  <Ax,y> =', l, ' <x,A*y> =', r)
bad += abs(l - r) > 1e-9
X = odl.uniform_discr(0, 2, 4)
V = odl.ProductSpace(X, 1, weighting=2.0)
G = odl.Gradient(X, V)
x, y = X.element([1, 2, 0, -1]), V.element([[0.5, 1, 1, 2]])
l, r = G(x).inner(y), x.inner(G.adjoint(y))
print('weighted range of the gradient:  <Gx,y> =', l, ' <x,G*y> =', r)
bad += abs(l - r) > 1e-9
raise SystemExit(1 if bad else 0)

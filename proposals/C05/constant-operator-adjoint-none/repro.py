"""C05 - `ConstantOperator(0).adjoint` returns `None`

Run with plain ODL:  python repro.py   (exit code 1 = defect present)
"""
import odl

op = odl.ConstantOperator(odl.rn(2).zero(), domain=odl.rn(3), range=odl.rn(2))
print('is_linear:', op.is_linear, ' adjoint:', op.adjoint)
bad = op.adjoint is None
if not bad:
    x, y = op.domain.element([1, 2, 3]), op.range.element([4, 5])
    print('<Ax,y> =', op(x).inner(y), ' <x,A*y> =', x.inner(op.adjoint(y)))
    bad = op(x).inner(y) != x.inner(op.adjoint(y))
raise SystemExit(1 if bad else 0)

"""C05 - `WaveletTransform.adjoint` is the scaled inverse for every `pad_mode`, but the discrete transform with boundary extension is not orthogonal

Run with plain ODL:  python repro.py   (exit code 1 = defect present)
"""
import numpy as np
import odl

X = odl.uniform_discr(0, 4, 8)
bad = 0
for wavelet, pad in (('db2', 'pywt_periodic'), ('haar', 'symmetric'), ('db2', 'constant'), ('db2', 'symmetric'), ('db2', 'periodic'), ('sym2', 'order1')):
    W = odl.trafos.WaveletTransform(X, wavelet, nlevels=1, pad_mode=pad)
    rng = np.random.default_rng(0)
    x = X.element(rng.standard_normal(8))
    y = W.range.element(rng.standard_normal(W.range.size))
    l, r = W(x).inner(y), x.inner(W.adjoint(y))
    print('%-5s %-14s <Wx,y> = %+.6f  <x,W*y> = %+.6f' % (wavelet, pad, l, r))
    bad += abs(l - r) > 1e-9
raise SystemExit(1 if bad else 0)

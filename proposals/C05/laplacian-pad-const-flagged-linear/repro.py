"""C05 - `Laplacian(pad_mode='constant', pad_const != 0)` is affine but flagged linear and returns an adjoint

Run with plain ODL:  python repro.py   (exit code 1 = defect present)
"""
import odl

sp = odl.uniform_discr(0, 2, 4)
L = odl.Laplacian(sp, pad_mode='constant', pad_const=1.5)
print('is_linear:', L.is_linear, ' L(0) =', L(sp.zero()))
bad = L.is_linear and L(sp.zero()).norm() != 0
if L.is_linear:
    x, y = sp.element([1, 2, 0, -1]), sp.element([0.5, 1, 1, 2])
    print('<Lx,y> =', L(x).inner(y), ' <x,L*y> =', x.inner(L.adjoint(y)))
raise SystemExit(1 if bad else 0)

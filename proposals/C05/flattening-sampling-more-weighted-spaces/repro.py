"""C05 - flattening / sampling adjoints on further weighted spaces - widening of KF-C05-4 and KF-C05-6

Run with plain ODL:  python repro.py   (exit code 1 = defect present)
"""
import numpy as np
import odl

bad = 0
X = odl.cn(3, weighting=np.array([1.0, 2.0, 0.5]))
for name, A in (('FlatteningOperator', odl.FlatteningOperator(X)), ('FlatteningOperator.inverse', odl.FlatteningOperator(X).inverse),
                ('SamplingOperator', odl.SamplingOperator(X, [[0, 2]]))):
    x = A.domain.element(np.arange(A.domain.size) + 1.0)
    y = A.range.element(np.arange(A.range.size) * 1j + 2.0)
    l, r = A(x).inner(y), x.inner(A.adjoint(y))
    print(name, 'on cn(3, weighting=array):  <Ax,y> =', l, ' <x,A*y> =', r)
    bad += abs(l - r) > 1e-9
X = odl.uniform_discr(0, 1, 2, weighting=3.0)
A = odl.FlatteningOperator(X)
x, y = X.element([1, 2]), A.range.element([3, 5])
l, r = A(x).inner(y), x.inner(A.adjoint(y))
print('FlatteningOperator on uniform_discr(weighting=3.0):  <Ax,y> =', l, ' <x,A*y> =', r)
bad += abs(l - r) > 1e-9
raise SystemExit(1 if bad else 0)

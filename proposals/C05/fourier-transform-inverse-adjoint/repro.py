"""C05 - `FourierTransformInverse.adjoint` is its inverse - widening of KF-C05-3

Run with plain ODL:  python repro.py   (exit code 1 = defect present)
"""
import odl

X = odl.uniform_discr(-1, 1, 4, dtype='complex128')
A = odl.trafos.FourierTransform(X).inverse
x = A.domain.element([1, 2j, 0, -1])
y = A.range.element([0.5, 1, 1j, 2])
l, r = A(x).inner(y), x.inner(A.adjoint(y))
print(type(A).__name__, ' <Ax,y> =', l, ' <x,A*y> =', r)
raise SystemExit(1 if abs(l - r) > 1e-9 else 0)

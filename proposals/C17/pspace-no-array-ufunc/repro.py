"""Plain ODL, no harness:  /venv/bin/python repro.py   (exit 1 = defect present)

ProductSpaceElement takes part in the NumPy ufunc protocol only through __array__ / __array_wrap__:
NumPy converts the element to an ndarray, computes, and asks __array_wrap__ to put the result array back
into `self.space`.
"""
import numpy as np
import odl

np.seterr(all='ignore')
bad = False


def attempt(label, call, check):
    global bad
    try:
        res = call()
        ok = check(res)
        print(label, '->', type(res).__name__, np.asarray(res).dtype if not isinstance(res, tuple) else '', 'ok' if ok else 'WRONG')
        bad |= not ok
    except Exception as e:
        print(label, 'raises', type(e).__name__ + ':', str(e)[:80])
        bad = True


ps = odl.ProductSpace(odl.rn(3), 2)
x = ps.element([[1, -2, 3], [4, 5, -6]])
y = ps.element([[1, 1, 1], [2, 2, 2]])
xa, ya = x.asarray(), y.asarray()
out = ps.element()
attempt('np.add(x, y, out=<element>)', lambda: np.add(x, y, out=out), lambda r: r is out and np.array_equal(out.asarray(), xa + ya))
attempt('np.add.reduce(x)  [axis 0]', lambda: np.add.reduce(x), lambda r: np.array_equal(np.asarray(r), np.add.reduce(xa)))
attempt('np.add.reduce(x, axis=1)', lambda: np.add.reduce(x, axis=1), lambda r: np.array_equal(np.asarray(r), np.add.reduce(xa, axis=1)))
attempt('np.add.reduceat(x, [0, 1], axis=1)', lambda: np.add.reduceat(x, [0, 1], axis=1),
        lambda r: np.array_equal(np.asarray(r), np.add.reduceat(xa, [0, 1], axis=1)))
attempt('np.add.at(x, [0], 2.0)', lambda: np.add.at(x, [0], 2.0), lambda r: x[0].asarray().tolist() == [3, 0, 5])
attempt('np.isfinite(x)  [dtype bool]', lambda: np.isfinite(x), lambda r: np.asarray(r).dtype == bool)
attempt('np.greater(x, y)  [dtype bool]', lambda: np.greater(x, y), lambda r: np.asarray(r).dtype == bool)
pc = odl.ProductSpace(odl.cn(3), 2)
z = pc.element([[1 + 1j, -2, 3], [4, 5j, -6]])
attempt('np.absolute(z)  [complex -> float]', lambda: np.absolute(z), lambda r: np.asarray(r).dtype == float)
pi = odl.ProductSpace(odl.tensor_space(3, dtype=int), 2)
v = pi.element([[1, 2, 3], [4, 5, 6]])
print('np.sqrt(v) on an integer power space:', np.asarray(np.sqrt(v)).tolist(), ' NumPy on the array:', np.round(np.sqrt(v.asarray()), 3).tolist())
bad |= not np.allclose(np.asarray(np.sqrt(v)), np.sqrt(v.asarray()))
print('np.true_divide(v, 2):', np.asarray(np.true_divide(v, 2)).tolist(), ' NumPy:', (v.asarray() / 2).tolist())
bad |= not np.allclose(np.asarray(np.true_divide(v, 2)), v.asarray() / 2)
print('DEFECT PRESENT' if bad else 'ok')
raise SystemExit(1 if bad else 0)

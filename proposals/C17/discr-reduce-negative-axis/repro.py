"""Plain ODL, no harness:  /venv/bin/python repro.py   (exit 1 = defect present)"""
import numpy as np
import odl

space = odl.uniform_discr([0, 0], [1, 2], (2, 3))
x = space.element([[1, -2, 3], [4, 5, -6]])
bad = False
for axis in (1, -1, 0, -2, (0, -1)):
    ref = np.add.reduce(x.asarray(), axis=axis)
    try:
        res = np.add.reduce(x, axis=axis)
        ok = np.array_equal(np.asarray(res), ref)
        print('np.add.reduce(x, axis=%r) ->' % (axis,), type(res).__name__, np.asarray(res).tolist(), 'ok' if ok else 'WRONG')
        bad |= not ok
    except Exception as e:
        print('np.add.reduce(x, axis=%r) raises' % (axis,), type(e).__name__ + ':', e, ' (NumPy on the array:', ref.tolist(), ')')
        bad = True
try:
    print('x.ufuncs.sum(axis=-1) ->', x.ufuncs.sum(axis=-1))
except Exception as e:
    print('x.ufuncs.sum(axis=-1) raises', type(e).__name__)
    bad = True
print('DEFECT PRESENT' if bad else 'ok')
raise SystemExit(1 if bad else 0)

"""Plain ODL, no harness:  /venv/bin/python repro.py   (exit 1 = defect present)"""
import numpy as np
import odl

pspace = odl.ProductSpace(odl.rn(3), 2)
x = pspace.element([[1.5, -2.25, 3], [4, 5.5, -6]])
ref = np.modf(x.asarray())
bad = False
try:
    frac, whole = x.ufuncs.modf()
    ok = np.array_equal(frac.asarray(), ref[0]) and np.array_equal(whole.asarray(), ref[1])
    print('x.ufuncs.modf() ->', frac.asarray().tolist(), whole.asarray().tolist(), 'ok' if ok else 'WRONG')
    bad |= not ok
except Exception as e:
    print('x.ufuncs.modf() raises', type(e).__name__ + ':', e)
    bad = True
try:
    o1, o2 = pspace.element(), pspace.element()
    r1, r2 = x.ufuncs.modf(out1=o1, out2=o2)
    ok = r1 is o1 and r2 is o2 and np.array_equal(o1.asarray(), ref[0])
    print('x.ufuncs.modf(out1=, out2=) ->', 'ok' if ok else 'WRONG')
    bad |= not ok
except Exception as e:
    print('x.ufuncs.modf(out1=, out2=) raises', type(e).__name__ + ':', e)
    bad = True
print('(tensor level works:', [a.asarray().tolist() for a in x[0].ufuncs.modf()], ')')
print('DEFECT PRESENT' if bad else 'ok')
raise SystemExit(1 if bad else 0)

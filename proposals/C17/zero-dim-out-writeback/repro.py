"""Plain ODL, no harness:  /venv/bin/python repro.py   (exit 1 = defect present)"""
import numpy as np
import odl

bad = False
x = odl.rn((2, 3)).element([[1, -2, 3], [4, 5, -6]])
d = odl.uniform_discr([0, 0], [1, 1], (2, 3)).element(x.asarray())
for elem in (x, d):
    for label, out in (('0-d ndarray', np.empty(())), ('rn(()) element', odl.rn(()).element())):
        try:
            res = np.add.reduce(elem, axis=None, out=out)
            ok = res is out and float(np.asarray(out)) == 5.0
            print(type(elem).__name__, 'np.add.reduce(x, axis=None, out=<%s>) ->' % label, np.asarray(out), 'ok' if ok else 'WRONG')
            bad |= not ok
        except Exception as e:
            print(type(elem).__name__, 'np.add.reduce(x, axis=None, out=<%s>) raises' % label, type(e).__name__ + ':', e)
            bad = True
ref = np.empty(())
np.add.reduce(x.asarray(), axis=None, out=ref)
print('NumPy on the array writes', ref)
print('DEFECT PRESENT' if bad else 'ok')
raise SystemExit(1 if bad else 0)

"""Plain ODL, no harness:  /venv/bin/python repro.py   (exit 1 = defect present)"""
import numpy as np
import odl

x = odl.uniform_discr(0, 1, 2).element([0, 3])
y = odl.uniform_discr(0, 2, 3).element([1, 3, 5])
bad = False
for uf in (np.add, np.equal, np.less, np.logical_and, np.greater_equal):
    ref = uf.outer(x.asarray(), y.asarray())
    try:
        res = uf.outer(x, y)
        ok = np.array_equal(res.asarray(), ref) and res.dtype == ref.dtype and res.shape == ref.shape
        print('np.%s.outer(x, y) ->' % uf.__name__, res.space, 'ok' if ok else 'WRONG')
        bad |= not ok
    except Exception as e:
        print('np.%s.outer(x, y) raises' % uf.__name__, type(e).__name__ + ':', str(e)[:90])
        bad = True
print('(np.equal(x, x) works:', np.equal(x, x).space, ')')
print('DEFECT PRESENT' if bad else 'ok')
raise SystemExit(1 if bad else 0)

"""Plain ODL, no harness:  /venv/bin/python repro.py   (exit 1 = defect present)"""
import numpy as np
from odl.discr.discr_utils import nearest_interpolator, linear_interpolator
from odl.discr.grid import sparse_meshgrid

f = np.arange(6.).reshape(2, 3)
cv = [np.array([0., 1.]), np.array([0., .5, 1.])]
bad = 0
for name, mk in (('nearest', nearest_interpolator), ('linear', linear_interpolator)):
    itp = mk(f, cv)
    ref = [itp([0.3, 0.4]), itp([0.3, 0.6])]                       # single points
    try:
        got = itp(sparse_meshgrid([0.3], [0.4, 0.6])).ravel().tolist()
        print(name, 'single points', ref, '| 1 x 2 mesh grid', got)
        bad += not np.allclose(ref, got)
    except Exception as e:
        bad += 1
        print(name, 'single points', ref, '| 1 x 2 mesh grid raises', type(e).__name__, e)
    print(name, '2 x 1 mesh grid', itp(sparse_meshgrid([0.3, 0.7], [0.4])).ravel().tolist())
print('DEFECT PRESENT' if bad else 'ok')
raise SystemExit(1 if bad else 0)

"""Plain ODL, no harness:  /venv/bin/python repro.py   (exit 1 = defect present)"""
import numpy as np
import odl
from odl.discr.discr_utils import sampling_function, point_collocation


def f(x, *, out=None):          # keyword-only `out`: accepted by _check_func_out_arg (kwonlyargs branch)
    if out is None:
        return x[0] ** 2 + 0 * x[0]
    out[:] = x[0] ** 2


bad = 0
for ndim in (1, 2):
    space = odl.uniform_discr([0] * ndim, [1] * ndim, [4] * ndim)
    sf = sampling_function(f, space.domain, out_dtype=float)
    print(ndim, 'out-of-place:', np.asarray(point_collocation(sf, space.meshgrid)).ravel()[:4])
    out = np.empty(space.shape)
    try:
        point_collocation(sf, space.meshgrid, out=out)
        print(ndim, 'in-place    :', out.ravel()[:4])
    except Exception as e:
        bad += 1
        print(ndim, 'in-place    : raises', type(e).__name__, e)
print('DEFECT PRESENT' if bad else 'ok')
raise SystemExit(1 if bad else 0)

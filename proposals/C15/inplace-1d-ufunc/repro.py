"""Plain ODL, no harness:  /venv/bin/python repro.py   (exit 1 = defect present)"""
import numpy as np
import odl
from odl.discr.discr_utils import sampling_function, point_collocation

space = odl.uniform_discr(0, 1, 4)
sf = sampling_function(np.negative, space.domain, out_dtype=float)
print('out-of-place:', np.asarray(point_collocation(sf, space.meshgrid)))
print('element     :', space.element(np.negative))
bad = 0
for name, pts in (('mesh grid', space.meshgrid), ('point array', space.points().T)):
    out = np.empty(space.shape)
    try:
        point_collocation(sf, pts, out=out)
        print('in-place', name, ':', out)
    except Exception as e:
        bad += 1
        print('in-place', name, ': raises', type(e).__name__, e)
print('DEFECT PRESENT' if bad else 'ok')
raise SystemExit(1 if bad else 0)

"""Plain ODL, no harness:  /venv/bin/python repro.py   (exit 1 = defect present)"""
import numpy as np
import odl

bad = 0
for name, f in (('lambda x: x', lambda x: x), ('lambda x: x[0]', lambda x: x[0])):
    space = odl.uniform_discr(0, 1, 4)
    grid_before = space.grid.coord_vectors[0].copy()
    e = space.element(f)
    shares = np.shares_memory(e.asarray(), space.grid.coord_vectors[0])
    e *= 2                                              # the caller modifies ITS element
    changed = not np.array_equal(space.grid.coord_vectors[0], grid_before)
    print(name, '| element shares memory with the grid:', shares, '| grid after e *= 2:', space.grid.coord_vectors[0])
    try:
        print('   next space.element(f):', space.element(f))
    except Exception as ex:
        print('   next space.element(f) raises', type(ex).__name__, str(ex)[:80])
    bad += shares or changed
print('DEFECT PRESENT' if bad else 'ok')
raise SystemExit(1 if bad else 0)

"""Plain ODL, no harness:  /venv/bin/python repro.py   (exit 1 = defect present)"""
import numpy as np
from odl.discr.discr_utils import nearest_interpolator
from odl.discr.grid import sparse_meshgrid

cv = [np.array([0., 1., 3.])]
bad = 0
for dt in ('U3', 'U40'):
    f = np.array(['a', 'bb', 'ccc'], dtype=dt)
    itp = nearest_interpolator(f, cv)
    for name, x in (('single point', 0.6), ('point array', np.array([0.6, 2.5])), ('mesh grid', sparse_meshgrid(np.array([0.6, 2.5])))):
        try:
            print(dt, name, '->', itp(x))
        except Exception as e:
            bad += 1
            print(dt, name, '-> raises', type(e).__name__, str(e)[:90])
print('DEFECT PRESENT' if bad else 'ok')
raise SystemExit(1 if bad else 0)

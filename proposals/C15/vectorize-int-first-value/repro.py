"""Plain ODL, no harness:  /venv/bin/python repro.py   (exit 1 = defect present)"""
import numpy as np
import odl


@odl.util.vectorize
def f(x):
    return x[0] if x[0] > 0.5 else 0          # Python int 0 at the first grid points


space = odl.uniform_discr(0, 1, 4)
native = space.element(lambda x: np.where(x[0] > 0.5, x[0], 0))
deco = space.element(f)
print('natively vectorised :', native)
print('@odl.util.vectorize :', deco)
bad = not np.array_equal(native.asarray(), deco.asarray())
print('DEFECT PRESENT' if bad else 'ok')
raise SystemExit(1 if bad else 0)

"""Plain ODL, no harness."""
import sys
import numpy as np
import odl

M = odl.ProductSpace(odl.ProductSpace(odl.rn(2), 2), 2)
f = odl.solvers.NuclearNorm(M, 1, np.inf)
x = M.element([[[3.0, 0.0], [4.0, 1.0]], [[-3.0, 2.0], [4.0, 0.5]]])
sigma = 0.5
p = f.proximal(sigma)(x)
F = lambda z: f(z) + (z - x).norm() ** 2 / (2 * sigma)
best = F(p)
rng = np.random.RandomState(0)
for t in np.linspace(0, 1, 21):
    z = p + t * (x - p)
    best = min(best, F(z))
for _ in range(2000):
    z = p + 0.25 * M.element(rng.choice([-1, -0.5, -0.25, 0, 0.25, 0.5, 1], size=(2, 2, 2)))
    best = min(best, F(z))
print('F(p) =', F(p), ' best probe =', best)
bad = best < F(p) - 1e-6
print('REPRODUCED' if bad else 'NOT-REPRODUCED')
sys.exit(1 if bad else 0)

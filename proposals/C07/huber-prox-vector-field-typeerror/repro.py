"""Plain ODL, no harness."""
import sys
import odl

V = odl.uniform_discr(0, 2, 2) ** 2
f = odl.solvers.Huber(V, 0.5)
x = V.element([[3.0, 0.25], [4.0, 0.0]])
print('f(x) =', f(x), ' grad =', f.gradient(x))
try:
    p = f.proximal(1.0)(x)
    print('prox =', p)
    print('NOT-REPRODUCED')
    sys.exit(0)
except TypeError as e:
    print('TypeError:', str(e)[:100])
    print('REPRODUCED')
    sys.exit(1)

"""Plain ODL, no harness."""
import sys
import odl

X = odl.rn(3)
f = odl.solvers.IndicatorSumConstraint(X, sum_value=1)
try:
    p = f.proximal(0.5)(X.element([3.0, -0.5, 1.0]))
    print('prox =', p, ' f(prox) =', f(p))
    print('NOT-REPRODUCED')
    sys.exit(0)
except AttributeError as e:
    print('AttributeError:', e)
    print('REPRODUCED')
    sys.exit(1)

"""Plain ODL, no harness."""
import sys
import odl

X = odl.rn(3)
g = X.element([1.0, -0.5, 1.0])
P = odl.solvers.proximal_convex_conj_l1(X, lam=2.0, g=g)
x = X.element([3.0, -0.5, 0.25])
print('scalar sigma:', P(0.5)(x))
try:
    print('element sigma:', P(X.element([0.5, 2.0, 0.5]))(x))
    print('NOT-REPRODUCED')
    sys.exit(0)
except Exception as e:
    print(type(e).__name__, str(e)[:120])
    print('REPRODUCED')
    sys.exit(1)

"""Plain ODL, no harness: LpNorm(inf).proximal and IndicatorLpUnitBall(1).proximal on a weighted space."""
import sys
import numpy as np
import odl

bad = 0
X = odl.rn(2, weighting=4.0)
x = X.element([3.0, -0.5])
sigma = 2.0

f = odl.solvers.LpNorm(X, np.inf)
p = f.proximal(sigma)(x)
F = lambda z: f(z) + (z - x).norm() ** 2 / (2 * sigma)
z = X.element([2.5, -0.5])                       # true minimiser: max|z| + (4/4)(z1-3)^2 -> z1 = 5/2
print('LpNorm(inf): p =', p, ' F(p) =', F(p), ' F(z) =', F(z), ' z =', z)
if F(z) < F(p) - 1e-6:
    print('  -> a probe has a smaller objective than the proximal point')
    bad = 1

g = odl.solvers.IndicatorLpUnitBall(X, 1)
q = g.proximal(sigma)(x)
print('IndicatorLpUnitBall(1): prox =', q, ' f(prox) =', g(q), ' weighted 1-norm =', odl.solvers.L1Norm(X)(q))
if not np.isfinite(g(q)):
    print('  -> the proximal of the indicator does not land in the set')
    bad = 1
print('REPRODUCED' if bad else 'NOT-REPRODUCED')
sys.exit(bad)

"""IndicatorGroupL1UnitBall(pspace, exponent=inf).proximal on a WEIGHTED power space leaves the constraint set.

The functional is the indicator of {z : max_j w_j |z_j(t)| <= 1 for all t} (its own _call, through PointwiseNorm, which
takes the component weights w_j from pspace.weighting - documented in PointwiseNorm).  Its proximal is
proximal_convex_conj_l1(space), which clips every component to [-1, 1] and never looks at the weights.
Plain ODL, no harness.  Exit code 1 = defect present.
"""
import sys
import numpy as np
import odl

bad = 0
X = odl.uniform_discr(0, 1, 2)
for weighting in ([1.0, 4.0], 4.0, [0.25, 1.0]):
    P = odl.ProductSpace(X, 2, weighting=weighting)
    f = odl.solvers.IndicatorGroupL1UnitBall(P, exponent=np.inf)
    x = P.element([[3.0, -0.5], [0.5, 3.0]])
    p = f.proximal(0.5)(x)
    print('weighting', weighting, ' p =', [list(pi) for pi in p], ' f(p) =', f(p))
    if not np.isfinite(f(p)):
        bad += 1
    else:
        # feasible, but is it the closest feasible point (norm of P)?  the true projection clips to [-1/w_j, 1/w_j]
        w = np.broadcast_to(np.asarray(weighting, dtype=float), (2,))
        z = P.element([np.clip(xi.asarray(), -1 / wj, 1 / wj) for xi, wj in zip(x, w)])
        assert f(z) == 0
        if (z - x).norm() < (p - x).norm() - 1e-9:
            print('   feasible point closer to x: |z-x| =', (z - x).norm(), ' < |p-x| =', (p - x).norm())
            bad += 1
    # the same object is what GroupL1Norm(exponent=1).convex_conj returns
    g = odl.solvers.GroupL1Norm(P, exponent=1).convex_conj
    if not np.isfinite(g(g.proximal(0.5)(x))):
        print('   GroupL1Norm(P, exponent=1).convex_conj: f(prox(x)) = inf as well')
print('DEFECT' if bad else 'ok')
sys.exit(1 if bad else 0)

"""Plain ODL, no harness."""
import sys
import numpy as np
import odl

X = odl.rn(3)
f = odl.solvers.IndicatorSumConstraint(X, sum_value=0)
with np.errstate(all='ignore'):
    p = f.proximal(1.0)(X.element([3.0, 1.0, 2.0]))
    print('prox =', p, ' sum =', p.ufuncs.sum(), ' f(prox) =', f(p), ' f([1,-1,0]) =', f(X.element([1.0, -1.0, 0.0])))
    bad = not np.isfinite(f(p))
print('REPRODUCED' if bad else 'NOT-REPRODUCED')
sys.exit(1 if bad else 0)

"""Inverse of a real-to-complex (halfcomplex=False) DFT raises with the pyFFTW back-end; and `.inverse`
always selects pyFFTW because `impl` is not propagated."""
import numpy as np
import odl

space = odl.uniform_discr(0, 1, 4, dtype='float64')
x = np.array([1.0, 2.0, 0.0, -1.0])
for impl in ('numpy', 'pyfftw'):
    fwd = odl.trafos.DiscreteFourierTransform(space, halfcomplex=False, impl=impl)
    y = np.fft.fft(x)
    inv = fwd.inverse
    print('forward impl = %s, forward.inverse.impl = %s' % (fwd.impl, inv.impl))
    try:
        print('  recovered:', np.allclose(inv(y), x))
    except Exception as e:
        print('  inverse raised %s: %s' % (type(e).__name__, e))
inv = odl.trafos.DiscreteFourierTransformInverse(space, halfcomplex=False, impl='numpy')
print('explicit numpy inverse recovers:', np.allclose(inv(np.fft.fft(x)), x))

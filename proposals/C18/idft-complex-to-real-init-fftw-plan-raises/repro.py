"""init_fftw_plan() raises on the inverse of a real, not half-complex pyFFTW DFT (the call itself works)."""
import numpy as np
import odl

space = odl.uniform_discr(0, 1, 4, dtype='float64')
x = np.array([1.0, 2.0, 0.0, -1.0])
fwd = odl.trafos.DiscreteFourierTransform(space, halfcomplex=False, impl='pyfftw')
inv = fwd.inverse
print('inverse works without a plan:', np.allclose(inv(np.fft.fft(x)), x))
try:
    inv.init_fftw_plan()
    print('plan created; inverse still right:', np.allclose(inv(np.fft.fft(x)), x))
except Exception as e:
    print('inv.init_fftw_plan() raised %s: %s' % (type(e).__name__, str(e)[:90]))

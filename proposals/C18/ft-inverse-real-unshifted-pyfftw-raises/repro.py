"""FourierTransform(real space, halfcomplex=False, shift=False, impl='pyfftw').inverse raises."""
import numpy as np
import odl

space = odl.uniform_discr(-1, 1, 4, dtype='float64')
x = np.array([1.0, 2.0, 0.0, -1.0])
for impl in ('numpy', 'pyfftw'):
    ft = odl.trafos.FourierTransform(space, halfcomplex=False, shift=False, impl=impl)
    y = ft(x)
    try:
        print(impl, 'inverse(ft(x)) == x:', np.allclose(ft.inverse(y), x))
    except Exception as e:
        print(impl, 'inverse raised %s: %s' % (type(e).__name__, str(e)[:100]))

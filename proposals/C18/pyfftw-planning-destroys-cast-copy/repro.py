"""First call of a pyFFTW-backed DFT on REAL input with halfcomplex=False returns zeros."""
import numpy as np
import odl
import pyfftw

pyfftw.forget_wisdom()           # state of a fresh interpreter (also true without this line)
space = odl.uniform_discr(0, 1, 5, dtype='float64')
x = np.array([1.0, 2.0, 0.0, -1.0, 3.0])
ref = np.fft.fft(x)
op_np = odl.trafos.DiscreteFourierTransform(space, halfcomplex=False, impl='numpy')
op_fw = odl.trafos.DiscreteFourierTransform(space, halfcomplex=False, impl='pyfftw')
print('numpy  first call == numpy.fft.fft :', np.allclose(op_np(x), ref))
y1 = op_fw(x)
print('pyfftw first call == numpy.fft.fft :', np.allclose(y1, ref), ' values:', np.asarray(y1))
print('pyfftw second call == numpy.fft.fft:', np.allclose(op_fw(x), ref))

"""DiscreteFourierTransformInverse (half-complex, >= 2 axes, pyFFTW) overwrites its INPUT element."""
import numpy as np
import odl

space = odl.uniform_discr([0, 0], [1, 1], (3, 4), dtype='float64')
x = np.arange(12.0).reshape(3, 4) % 5 - 2
fwd = odl.trafos.DiscreteFourierTransform(space, halfcomplex=True, impl='numpy')
inv = fwd.inverse                     # pyfftw (impl is not propagated); same with impl='pyfftw' given explicitly
y = fwd(x)
y_before = y.copy()
back = inv(y)
print('inverse impl:', inv.impl)
print('input recovered        :', np.allclose(back, x))
print('argument y unchanged   :', np.allclose(y, y_before), ' max change %.3g' % np.abs((y - y_before).asarray()).max())
print('second inverse(y) right:', np.allclose(inv(y), x))

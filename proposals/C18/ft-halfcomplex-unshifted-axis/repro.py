"""FourierTransform, half-complex, an un-shifted axis other than the halved one (allowed by the
constructor and the documentation): silently wrong values (NumPy) / AssertionError (pyFFTW)."""
import numpy as np
import odl

space = odl.uniform_discr([-1, -1], [1, 1], (3, 4), dtype='float64')
x = np.arange(12.0).reshape(3, 4) % 5 - 2
full = odl.trafos.FourierTransform(space, halfcomplex=False, shift=[False, True], impl='numpy')
ref = full(x).asarray()[:, :3]        # the half-complex result is the first n//2+1 columns of the full one
for impl in ('numpy', 'pyfftw'):
    ft = odl.trafos.FourierTransform(space, halfcomplex=True, shift=[False, True], impl=impl)
    try:
        y = ft(x)
        print(impl, 'half-complex values equal the full transform:', np.allclose(y, ref),
              ' max difference %.3g' % np.abs(y.asarray() - ref).max())
        try:
            print(impl, 'inverse recovers x:', np.allclose(ft.inverse(y), x))
        except Exception as e:
            print(impl, 'inverse raised %s' % type(e).__name__)
    except Exception as e:
        print(impl, 'call raised %s' % type(e).__name__)
ok = odl.trafos.FourierTransform(space, halfcomplex=True, shift=[True, True], impl='numpy')
okfull = odl.trafos.FourierTransform(space, halfcomplex=False, shift=[True, True], impl='numpy')
print('all axes shifted: half-complex equals full:', np.allclose(ok(x), okfull(x).asarray()[:, :3]))

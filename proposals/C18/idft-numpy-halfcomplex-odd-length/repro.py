"""DiscreteFourierTransformInverse(impl='numpy', halfcomplex=True) fails for odd lengths."""
import numpy as np
import odl

space = odl.uniform_discr(0, 1, 5, dtype='float64')
x = np.array([1.0, 2.0, 0.0, -1.0, 3.0])
fwd = odl.trafos.DiscreteFourierTransform(space, halfcomplex=True, impl='numpy')
inv = odl.trafos.DiscreteFourierTransformInverse(space, domain=fwd.range, halfcomplex=True, impl='numpy')
y = fwd(x)
try:
    print('recovered:', np.allclose(inv(y), x))
except Exception as e:
    print('inverse raised %s: %s' % (type(e).__name__, e))
space = odl.uniform_discr(0, 1, 4, dtype='float64')
fwd = odl.trafos.DiscreteFourierTransform(space, halfcomplex=True, impl='numpy')
inv = odl.trafos.DiscreteFourierTransformInverse(space, domain=fwd.range, halfcomplex=True, impl='numpy')
print('even length recovered:', np.allclose(inv(fwd([1.0, 2.0, 0.0, -1.0])), [1.0, 2.0, 0.0, -1.0]))

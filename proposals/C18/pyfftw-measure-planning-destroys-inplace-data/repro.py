"""pyFFTW back-end, call keyword planning_effort='measure' (or 'patient'): the first call of a fresh
FourierTransform / FourierTransformInverse (not half-complex) returns garbage; pyfftw_call(a, a, ...) too."""
import numpy as np
import odl
import pyfftw
from odl.trafos.backends import pyfftw_call

space = odl.uniform_discr([-1, -1], [1, 1], (8, 8), dtype='complex128')
x = space.element(lambda p: np.exp(-p[0] ** 2 - 2 * p[1] ** 2) * (1 + 1j * p[0]))
ref = odl.trafos.FourierTransform(space, impl='numpy')(x)
for effort in ('estimate', 'measure'):
    pyfftw.forget_wisdom()            # state of a fresh interpreter
    ft = odl.trafos.FourierTransform(space, impl='pyfftw')
    y1 = ft(x, planning_effort=effort)
    y2 = ft(x, planning_effort=effort)
    print('%-8s first call: distance to numpy result %.3g ; second call: %.3g'
          % (effort, (y1 - ref).norm(), (y2 - ref).norm()))
pyfftw.forget_wisdom()
ft = odl.trafos.FourierTransform(space, impl='pyfftw')
ft.init_fftw_plan('measure')
print('after init_fftw_plan("measure"): %.3g' % (ft(x, planning_effort='measure') - ref).norm())
pyfftw.forget_wisdom()
inv = odl.trafos.FourierTransform(space, impl='pyfftw').inverse
print('inverse, measure, first call: distance to x %.3g' % (inv(ref, planning_effort='measure') - x).norm())
for effort in ('estimate', 'measure'):
    pyfftw.forget_wisdom()
    a = np.arange(8.0) + 1j
    want = np.fft.fft(a)
    pyfftw_call(a, a, planning_effort=effort)      # documented: array_out "may be aliased with array_in"
    print('pyfftw_call(a, a, planning_effort=%r) equals numpy.fft.fft: %s' % (effort, np.allclose(a, want)))

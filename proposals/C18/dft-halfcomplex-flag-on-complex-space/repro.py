"""DiscreteFourierTransform(complex space, halfcomplex=True): documented "no effect", actually unusable."""
import numpy as np
import odl

space = odl.uniform_discr(0, 1, 4, dtype='complex128')
x = np.array([1, 2j, -1, 3], dtype=complex)
for impl in ('numpy', 'pyfftw'):
    try:
        op = odl.trafos.DiscreteFourierTransform(space, halfcomplex=True, impl=impl)
    except ValueError as e:
        print(impl, 'constructor raised:', e)
        continue
    print(impl, 'halfcomplex property:', op.halfcomplex, ' range shape:', op.range.shape, '(domain shape %s)' % (space.shape,))
    try:
        y = op(x)
        print(impl, 'equals numpy.fft.fft:', np.allclose(y, np.fft.fft(x)))
    except Exception as e:
        print(impl, 'call raised %s: %s' % (type(e).__name__, e))

import numpy as np, odl
bad = 0
for n in (5, 200):
    x = odl.rn(n).element(np.arange(n, dtype=float)); x[1] = np.inf
    for name, y in [('x*2', x * 2), ('-x', -x), ('x/2', x / 2), ('assign', odl.rn(n).element().__class__ and (lambda z: (z.assign(x), z)[1])(odl.rn(n).element()))]:
        ok = np.isinf(y[1])
        print(n, name, y[1], 'ok' if ok else 'WRONG (expected +-inf)')
        bad += not ok
print('REPRODUCED' if bad else 'NOT-REPRODUCED')

import numpy as np, odl
# min_x 1/2||x - b||^2  s.t.  L x = 0   <=>  f = 0, h = 1/2||.-b||^2, g = indicator{0}, L = [[1, -1]]
# and the pure saddle problem  f = 0, h = 0, g = indicator{0}
X = odl.rn(2); Y = odl.rn(1)
L = odl.MatrixOperator(np.array([[1.0, -1.0]]), domain=X, range=Y)
f = odl.solvers.ZeroFunctional(X)
g = odl.solvers.IndicatorZero(Y)
for name, h in [('h=0', odl.solvers.ZeroFunctional(X)),
                ('h=l2sq', 0.5 * odl.solvers.L2NormSquared(X).translated([3.0, 1.0]))]:
    tau, sigma = 0.5, [0.5]          # tau*sigma*||L||^2 = 0.5 < 1
    x = X.element([3.0, 1.0])
    res = []
    odl.solvers.forward_backward_pd(x, f, [g], [L], h, tau, sigma, niter=400,
                                    callback=lambda z: res.append(abs(L(z)[0])))
    print(name, 'residual |Lx| after 100, 200, 400 it:', res[99], res[199], res[399], 'x =', x)

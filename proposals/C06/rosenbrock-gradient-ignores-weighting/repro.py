"""C06 - `RosenbrockFunctional.gradient` (and its Hessian) ignore the weighting of the space

Run with plain ODL:  python repro.py   (exit code 1 = defect present)
"""
import odl

bad = 0
for w in (None, 2.0, [1.0, 2.0, 0.5]):
    sp = odl.rn(3) if w is None else odl.rn(3, weighting=w)
    f = odl.solvers.RosenbrockFunctional(sp, scale=2.0)
    x, d, h = sp.element([1.3, 0.7, 1.9]), sp.element([0.5, -1.0, 0.75]), 1e-6
    fd, an = (f(x + h * d) - f(x - h * d)) / (2 * h), f.derivative(x)(d)
    print('weighting', w, ' central difference', round(fd, 6), ' derivative(x)(d)', round(an, 6))
    bad += abs(fd - an) > 1e-4
raise SystemExit(1 if bad else 0)

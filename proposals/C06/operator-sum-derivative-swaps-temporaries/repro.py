"""C06 - `OperatorSum.derivative` hands `tmp_dom` / `tmp_ran` over in the wrong order

Run with plain ODL:  python repro.py   (exit code 1 = defect present)
"""
import numpy as np
import odl

M = odl.MatrixOperator(np.array([[1.0, 2.0, 0.0], [-1.0, 0.5, 3.0]]))
A = M * odl.PowerOperator(odl.rn(3), 2)          # R^3 -> R^2, nonlinear
B = odl.PowerOperator(odl.rn(2), 3) * M
x, d = odl.rn(3).element([1, 2, 3]), odl.rn(3).element([1, 0, 0])
bad = 0
for kw in ({'tmp_ran': odl.rn(2).element()}, {'tmp_dom': odl.rn(3).element()}):
    S = odl.OperatorSum(A, B, **kw)
    try:
        print(sorted(kw), 'derivative(x)(d) =', S.derivative(x)(d), ' central difference =', (S(x + 1e-6 * d) - S(x - 1e-6 * d)) / 2e-6)
    except Exception as e:
        bad += 1
        print(sorted(kw), 'derivative(x) raises %s: %s' % (type(e).__name__, str(e)[:90]))
raise SystemExit(1 if bad else 0)

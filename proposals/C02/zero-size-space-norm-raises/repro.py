"""C02: norm() / dist() of a zero-size tensor space raise (the only element is 0, so the norm is 0).

Run with plain ODL:  python repro.py   (exit code 1 = defect present)
"""
import numpy as np
import odl

bad = 0
for p in (1, 2, 3, float('inf')):
    for kw in ({}, {'weighting': 2.0}, {'weighting': np.zeros(0)}):
        s = odl.rn(0, exponent=p, **kw)
        x = s.zero()
        for what, fn in (('norm', lambda: x.norm()), ('dist', lambda: x.dist(x))):
            try:
                v = fn()
                bad += v != 0
            except Exception as e:
                bad += 1
                print('rn(0, exponent=%s, %s).zero().%s() raises %s: %s' % (p, kw, what, type(e).__name__, str(e)[:70]))
print('inner works:', odl.rn(0).zero().inner(odl.rn(0).zero()), ' ProductSpace(rn(0), 2) norm:',
      odl.ProductSpace(odl.rn(0), 2).zero().norm())
raise SystemExit(1 if bad else 0)

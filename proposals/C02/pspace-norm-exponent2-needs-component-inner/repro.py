"""C02: the norm of a product space with exponent 2 goes through inner() and raises when a component
space has no inner product, although the documented norm sqrt(sum_k w_k ||x_k||^2) only needs the
component norms (and dist() of the same space works).

Run with plain ODL:  python repro.py   (exit code 1 = defect present)
"""
import odl

bad = 0
for kwargs in ({}, {'weighting': 3.0}, {'weighting': [2.0, 0.5]}):
    ps = odl.ProductSpace(odl.rn(2, exponent=1), 2, **kwargs)        # default exponent of the product: 2.0
    x = ps.element([[3, -4], [1, 1]])                                # component 1-norms: 7 and 2
    try:
        print(kwargs, 'norm =', x.norm())
    except NotImplementedError as e:
        bad += 1
        print(kwargs, 'norm raises NotImplementedError:', e)
    if 'weighting' not in kwargs or not isinstance(kwargs['weighting'], list):
        print(kwargs, 'dist(x, 0) =', x.dist(ps.zero()), '(documented norm: sqrt(w*(49 + 4)))')
raise SystemExit(1 if bad else 0)

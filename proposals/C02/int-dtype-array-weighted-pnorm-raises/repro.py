"""C02: integer tensor space with array weighting and exponent not in {2, inf}: norm() / dist() raise.

Run with plain ODL:  python repro.py   (exit code 1 = defect present)
"""
import numpy as np
import odl

bad = 0
for p in (1, 3, 1.5):
    s = odl.tensor_space(3, dtype=int, weighting=np.array([1, 2, 3]), exponent=p)
    x = s.element([1, -2, 3])
    try:
        print('p =', p, 'norm =', x.norm(), ' expected', (1 * 1 + 2 * 2 ** p + 3 * 3 ** p) ** (1 / p))
    except Exception as e:
        bad += 1
        print('p =', p, 'norm raises %s: %s' % (type(e).__name__, str(e)[:90]))
print('constant weighting works:', odl.tensor_space(3, dtype=int, weighting=2.0, exponent=1).element([1, -2, 3]).norm())
raise SystemExit(1 if bad else 0)

"""C02: a discretised space whose cell volume is exactly 1.0 ignores the boundary-cell fractions.

Run with plain ODL:  python repro.py   (exit code 1 = defect present)
"""
import odl

bad = 0
# cell side (2 - 0) / (3 - 1) = 1: both boundary cells are cut in half, the domain volume is 2
s = odl.uniform_discr(0, 2, 3, nodes_on_bdry=True)
one = s.one()
print('cell volume', s.cell_volume, 'fractions', s.partition.boundary_cell_fractions,
      '||1||^2 =', one.norm() ** 2, '<1,1> =', one.inner(one), 'domain volume =', s.domain.volume)
bad += abs(one.norm() ** 2 - s.domain.volume) > 1e-9

# the same grid with cell side 2 (cell volume 2): correct
t = odl.uniform_discr(0, 4, 3, nodes_on_bdry=True)
print('cell volume', t.cell_volume, '||1||^2 =', t.one().norm() ** 2, 'domain volume =', t.domain.volume)
bad += abs(t.one().norm() ** 2 - t.domain.volume) > 1e-9

# 2-d, per-side flags, cell volume (1/2) * 2 = 1
u = odl.uniform_discr([0, 0], [1.25, 5], (3, 3), nodes_on_bdry=[(True, False), (False, True)])
x = u.element([[1, 2, 3], [4, 5, 6], [7, 8, 9]])
print('cell volume', u.cell_volume, '||1||^2 =', u.one().norm() ** 2,
      'domain volume =', u.domain.volume)
bad += abs(u.one().norm() ** 2 - u.domain.volume) > 1e-9
raise SystemExit(1 if bad else 0)

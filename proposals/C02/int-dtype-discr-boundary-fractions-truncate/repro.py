"""C02: integer discretised space with cut boundary cells: the boundary fractions are multiplied INTO an integer
copy of the data and truncated.

Run with plain ODL:  python repro.py   (exit code 1 = defect present)
"""
import odl

bad = 0
for p in (1, 2, 3):
    s = odl.uniform_discr(0, 1, 3, dtype=int, nodes_on_bdry=True, exponent=p)     # weights (1/4, 1/2, 1/4)
    x = s.element([1, 2, 3])
    exp = (0.5 * 1 + 2 ** p + 0.5 * 3 ** p) / 2
    print('p =', p, ' norm^p =', x.norm() ** p, ' expected', exp,
          (' inner(x, x) = %s' % x.inner(x)) if p == 2 else '')
    bad += abs(x.norm() ** p - exp) > 1e-9
t = odl.uniform_discr(0, 1, 3, dtype=int, nodes_on_bdry=True)
print('||one||^2 =', t.one().norm() ** 2, ' domain volume', t.domain.volume)
raise SystemExit(1 if bad else 0)

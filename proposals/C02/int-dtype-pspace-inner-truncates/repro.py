"""C02: product space over integer component spaces: component inner products are stored in an INTEGER array
and truncated before they are summed.

Run with plain ODL:  python repro.py   (exit code 1 = defect present)
"""
import odl

ps = odl.ProductSpace(odl.tensor_space(2, dtype=int, weighting=0.5), 2)
x = ps.element([[1, 0], [0, 1]])
print('component inner products:', [xi.inner(xi) for xi in x])
print('product inner:', x.inner(x), ' norm^2:', x.norm() ** 2, ' expected 1.0;  dist^2 to 0:', x.dist(ps.zero()) ** 2)
raise SystemExit(0 if abs(x.inner(x) - 1.0) < 1e-12 else 1)

"""Plain ODL, no harness:  /venv/bin/python repro.py   (exit 1 = defect present)"""
import numpy as np
import odl

apart = odl.uniform_partition(0, 2 * np.pi, 8)
dpart = odl.uniform_partition(-3, 3, 6)
bad = False

# 1. Parallel2dGeometry: slicing with a non-zero translation
geom = odl.tomo.Parallel2dGeometry(apart, dpart, det_pos_init=(3, 4), translation=(1, -2))
angle = geom.angles[3]
before = geom.det_refpoint(angle).copy()
print('det_pos_init before slicing      :', geom.det_pos_init)
sub = geom[2:5]
print('det_pos_init after slicing       :', geom.det_pos_init, ' (original object!)')
print('det_pos_init of the slice        :', sub.det_pos_init)
print('det_refpoint original (before)   :', before)
print('det_refpoint original (after)    :', geom.det_refpoint(angle))
print('det_refpoint slice               :', sub.det_refpoint(angle))
bad |= not np.allclose(sub.det_refpoint(angle), before)
bad |= not np.allclose(geom.det_refpoint(angle), before)

# 2. the constructors add the translation IN PLACE to an array owned by the caller
p0 = np.array([1.0, 2.0, -6.0])
dpart2 = odl.uniform_partition([-3, -2], [3, 2], (6, 4))
g3 = odl.tomo.Parallel3dAxisGeometry(apart, dpart2, axis=(3, 0, 4), det_pos_init=p0, translation=(0.5, 0, -1))
print('caller array after construction  :', p0, ' (was [1, 2, -6])')
bad |= not np.array_equal(p0, [1.0, 2.0, -6.0])
ref = g3.det_refpoint(g3.angles[3]).copy()
s3 = g3[2:5]
print('3d-axis det_refpoint orig / slice:', ref, s3.det_refpoint(g3.angles[3]))
bad |= not np.allclose(s3.det_refpoint(g3.angles[3]), ref)

print('DEFECT PRESENT' if bad else 'ok')
raise SystemExit(1 if bad else 0)

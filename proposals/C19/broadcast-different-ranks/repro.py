"""Plain ODL, no harness:  /venv/bin/python repro.py   (exit 1 = defect present)

Documented (Geometry.det_point_position, det_to_src): "broadcasting is supported within both parameters
and between them. The precise definition of the shape is broadcast(bcast_mparam, bcast_dparam).shape + (ndim,)".
"""
import numpy as np
import odl

apart = odl.uniform_partition(0, 2 * np.pi, 8)
geoms = {
    'Parallel2dGeometry': (odl.tomo.Parallel2dGeometry(apart, odl.uniform_partition(-3, 3, 6)), 0.5),
    'FanBeamGeometry': (odl.tomo.FanBeamGeometry(apart, odl.uniform_partition(-3, 3, 6), 5, 3), 0.5),
    'ConeBeamGeometry': (odl.tomo.ConeBeamGeometry(apart, odl.uniform_partition([-3, -2], [3, 2], (6, 4)), 5, 3),
                         (0.5, 0.25)),
}
bad = False
for name, (geom, d0) in geoms.items():
    one = geom.det_point_position(1.0, d0)
    cases = {'angle scalar, dparam (2, 1)': (1.0, np.full((2, 1), 0.5) if np.isscalar(d0) else
                                             (np.full((2, 1), 0.5), np.full((2, 1), 0.25)), (2, 1)),
             'angle (1, 3), dparam scalar': (np.full((1, 3), 1.0), d0, (1, 3)),
             'angle (2,), dparam (2, 1)': (np.full(2, 1.0), np.full((2, 1), 0.5) if np.isscalar(d0) else
                                           (np.full((2, 1), 0.5), np.full((2, 1), 0.25)), (2, 2))}
    for label, (a, d, shape) in cases.items():
        for fn in (geom.det_point_position, geom.det_to_src):
            try:
                res = fn(a, d)
                ok = res.shape == shape + (geom.ndim,)
                if fn == geom.det_point_position:
                    ok = ok and np.allclose(res, one)
                print(name, fn.__name__, label, '->', res.shape, 'ok' if ok else 'WRONG')
                bad |= not ok
            except Exception as e:
                print(name, fn.__name__, label, 'raises', type(e).__name__ + ':', str(e)[:60])
                bad = True
print('DEFECT PRESENT' if bad else 'ok')
raise SystemExit(1 if bad else 0)

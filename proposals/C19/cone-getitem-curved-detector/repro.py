"""Plain ODL, no harness:  /venv/bin/python repro.py   (exit 1 = defect present)"""
import numpy as np
import odl

apart = odl.uniform_partition(0, 2 * np.pi, 8)
bad = False
for curv, dpart in [((8, None), odl.uniform_partition([-0.5, -2], [0.5, 2], (6, 4))),
                    ((8, 8), odl.uniform_partition([-0.5, -0.5], [0.5, 0.5], (6, 4)))]:
    geom = odl.tomo.ConeBeamGeometry(apart, dpart, src_radius=5, det_radius=3, det_curvature_radius=curv)
    try:
        sub = geom[2:5]
        a = sub.angles[0]
        same = np.allclose(sub.det_point_position(a, [0.2, 0.1]), geom.det_point_position(a, [0.2, 0.1]))
        print(curv, 'geom[2:5] ok, same detector points:', same)
        bad |= not same
    except Exception as e:
        print(curv, 'geom[2:5] raises', type(e).__name__ + ':', e)
        bad = True
print('DEFECT PRESENT' if bad else 'ok')
raise SystemExit(1 if bad else 0)

"""Plain ODL, no harness:  /venv/bin/python repro.py   (exit 1 = defect present)

CylindricalDetector / SphericalDetector .surface docstring: "If ``param`` is a single parameter, the returned array
has shape ``(3,)``, otherwise ``broadcast(*param).shape + (3,)``."  Geometry.det_point_position: "broadcasting is
supported within both parameters and between them".
"""
import numpy as np
import odl
from odl.tomo.geometry.detector import CylindricalDetector, Flat2dDetector, SphericalDetector

part = odl.uniform_partition([-1, -1], [1, 1], (8, 8))
axes = [(1, 0, 0), (0, 0, 1)]
dets = {'Flat2dDetector': Flat2dDetector(part, axes=axes),
        'CylindricalDetector': CylindricalDetector(part, axes=axes, radius=8.0),
        'SphericalDetector': SphericalDetector(part, axes=axes, radius=8.0)}
params = {'(scalar, array(3))': (0.1, np.array([0.1, 0.2, 0.3])),
          '(array(2, 1), array(1, 3))': (np.full((2, 1), 0.1), np.full((1, 3), 0.2)),
          '(array(3), array(2, 3))': (np.full(3, 0.1), np.full((2, 3), 0.2))}
bad = False
for dname, det in dets.items():
    for pname, p in params.items():
        want = np.broadcast(*p).shape + (3,)
        for fn in ('surface', 'surface_deriv', 'surface_normal'):
            try:
                res = getattr(det, fn)(p)
                ok = res.shape == (want if fn != 'surface_deriv' else want[:-1] + (2, 3))
                single = getattr(det, fn)([float(np.ravel(np.broadcast_to(p[0], want[:-1]))[-1]),
                                           float(np.ravel(np.broadcast_to(p[1], want[:-1]))[-1])])
                ok = ok and np.allclose(res.reshape((-1,) + single.shape)[-1], single)
                print(dname, fn, pname, '->', res.shape, 'ok' if ok else 'WRONG')
                bad |= not ok
            except Exception as e:
                print(dname, fn, pname, 'raises', type(e).__name__ + ':', str(e)[:70])
                bad = True
apart = odl.uniform_partition(0, 2 * np.pi, 8)
geom = odl.tomo.ConeBeamGeometry(apart, part, 5, 3, det_curvature_radius=(8, None))
try:
    print('ConeBeamGeometry(cylindrical).det_point_position(0.5, (0.1, array(3))) ->',
          geom.det_point_position(0.5, (0.1, np.array([0.1, 0.2, 0.3]))).shape)
except Exception as e:
    print('ConeBeamGeometry(cylindrical).det_point_position(0.5, (0.1, array(3))) raises', type(e).__name__)
    bad = True
print('DEFECT PRESENT' if bad else 'ok')
raise SystemExit(1 if bad else 0)

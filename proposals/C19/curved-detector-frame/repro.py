"""Plain ODL, no harness:  /venv/bin/python repro.py   (exit 1 = defect present)"""
import numpy as np
import odl
from odl.tomo.geometry.detector import CylindricalDetector, SphericalDetector

bad = False
apart = odl.uniform_partition(0, 2 * np.pi, 8)
dpart = odl.uniform_partition([-1, -2], [1, 2], (8, 4))

# 1. a cone beam geometry with a curved detector cannot be constructed for a generic rotation axis:
#    the default detector axes computed by ODL itself are perpendicular only up to rounding
for axis in [(0, 0, 1), (2, 2, 1), (1, 1, 1), (0.3, 0.2, 0.7)]:
    try:
        odl.tomo.ConeBeamGeometry(apart, dpart, 5, 3, axis=axis, det_curvature_radius=(8, None))
        print('axis', axis, 'ok')
    except ValueError as e:
        print('axis', axis, 'raises ValueError:', str(e).splitlines()[0][:60], '...')
        bad = True

# 2. explicit perpendicular axes for which the second default axis has to be turned by 180 degrees:
#    the surface is no longer aligned with the given axes
axes = [(0, 0.8, -0.6), (0, 0.6, 0.8)]
for cls in (CylindricalDetector, SphericalDetector):
    det = cls(dpart, axes=axes, radius=10.0)
    deriv = det.surface_deriv([0.0, 0.0])
    tangents = deriv / np.linalg.norm(deriv, axis=1, keepdims=True)
    print(cls.__name__, 'axes given', np.array(axes).tolist(), ' surface tangents at 0:', np.round(tangents, 3).tolist())
    bad |= not np.allclose(tangents, axes)
print('DEFECT PRESENT' if bad else 'ok')
raise SystemExit(1 if bad else 0)

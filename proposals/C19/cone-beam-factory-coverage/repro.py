"""Plain ODL, no harness:  /venv/bin/python repro.py   (exit 1 = defect present)

cone_beam_geometry / helical_geometry docstring: "The detector is centered around 0, and its size is chosen
such that the whole ``space`` is covered with lines."  Project every corner of the volume from the source
onto the flat detector, for every angle of the returned geometry.
"""
import numpy as np
import odl


def worst_excess(geom, space, horizontal_only=False):
    lo = np.atleast_1d(geom.det_partition.min_pt)
    hi = np.atleast_1d(geom.det_partition.max_pt)
    worst = np.full(len(lo), -np.inf)
    for ang in geom.angles:
        src, ref = geom.src_position(ang), geom.det_refpoint(ang)
        axes = np.atleast_2d(geom.det_axis(ang) if space.ndim == 2 else geom.det_axes(ang))
        for c in space.domain.corners():
            # src + s (c - src) = ref + sum_i u_i axes_i
            A = np.column_stack([c - src] + [-ax for ax in axes])
            uv = np.linalg.solve(A, ref - src)[1:]
            worst = np.maximum(worst, np.maximum(lo - uv, uv - hi))
    return worst[:1] if horizontal_only else worst


bad = False
for lo, hi, shape in [([-1, -1], [1, 1], (8, 8)), ([0, -1], [3, 1], (12, 8)), ([-1, -1, -1], [1, 1, 1], (8, 8, 8)),
                      ([-1, 0, -2], [1, 2, 1], (8, 8, 6))]:
    space = odl.uniform_discr(lo, hi, shape)
    geom = odl.tomo.cone_beam_geometry(space, src_radius=5.0, det_radius=3.0)
    exc = worst_excess(geom, space)
    print('cone_beam_geometry', lo, hi, 'detector', geom.det_partition.min_pt, geom.det_partition.max_pt,
          'corners outside by', np.round(exc, 4))
    bad |= bool(np.any(exc > 1e-9))
    if space.ndim == 3:
        geom = odl.tomo.helical_geometry(space, src_radius=5.0, det_radius=3.0, num_turns=2)
        exc = worst_excess(geom, space, horizontal_only=True)
        print('helical_geometry  ', lo, hi, 'horizontal excess', np.round(exc, 4))
        bad |= bool(np.any(exc > 1e-9))
print('DEFECT PRESENT' if bad else 'ok')
raise SystemExit(1 if bad else 0)

"""Plain ODL, no harness:  /venv/bin/python repro.py   (exit 1 = defect present)

euler_matrix docstring: "If any of the angle parameters is an array, the shape of the returned array is
broadcast(phi, theta, psi).shape + (ndim, ndim)".
"""
import numpy as np
import odl
from odl.tomo.util.utility import euler_matrix

bad = False
cases = {'phi, theta scalars, psi array(2)': (0.1, 0.2, np.array([0.3, 0.4])),
         'phi array (2, 1), theta scalar, psi array(3)': (np.full((2, 1), 0.1), 0.2, np.array([0.3, 0.4, 0.5])),
         'phi array(2), theta, psi scalars': (np.array([0.1, 0.2]), 0.2, 0.3)}
for label, (phi, theta, psi) in cases.items():
    shape = np.broadcast(phi, theta, psi).shape + (3, 3)
    try:
        mat = euler_matrix(phi, theta, psi)
        idx = tuple(s - 1 for s in shape[:-2])
        single = euler_matrix(np.broadcast_to(phi, shape[:-2])[idx], theta, np.broadcast_to(psi, shape[:-2])[idx])
        ok = mat.shape == shape and np.allclose(mat[idx], single)
        print(label, '->', mat.shape, 'ok' if ok else 'WRONG')
        bad |= not ok
    except Exception as e:
        print(label, 'raises', type(e).__name__ + ':', str(e)[:70])
        bad = True

apart = odl.uniform_partition([0, 0, 0], [7, 7, 7], (3, 3, 3))
dpart = odl.uniform_partition([-3, -2], [3, 2], (6, 4))
geom = odl.tomo.Parallel3dEulerGeometry(apart, dpart)
try:
    res = geom.det_refpoint((0.1, 0.2, np.array([0.3, 0.4])))
    print('Parallel3dEulerGeometry.det_refpoint((0.1, 0.2, array(2))) ->', res.shape)
    bad |= res.shape != (2, 3)
except Exception as e:
    print('Parallel3dEulerGeometry.det_refpoint((0.1, 0.2, array(2))) raises', type(e).__name__)
    bad = True
print('DEFECT PRESENT' if bad else 'ok')
raise SystemExit(1 if bad else 0)

"""Plain ODL, no harness:  /venv/bin/python repro.py   (exit 1 = behaviour present)

The array-valued attributes of a geometry are the internal arrays themselves and they are writable.
"""
import numpy as np
import odl

apart = odl.uniform_partition(0, 2 * np.pi, 8)
dpart2 = odl.uniform_partition([-3, -2], [3, 2], (6, 4))
bad = False
for attr in ('translation', 'axis', 'src_to_det_init', 'det_axes_init'):
    geom = odl.tomo.ConeBeamGeometry(apart, dpart2, 5, 3, axis=(3, 0, 4), translation=(1, -2, 3))
    before = geom.det_point_position(0.5, [0.5, 0.25]).copy()
    rot_ok = np.allclose(geom.rotation_matrix(0.5) @ geom.rotation_matrix(0.5).T, np.eye(3))
    try:
        getattr(geom, attr)[...] = 7.5       # e.g. a user "re-using" the returned array as scratch space
        refused = False
    except ValueError:
        refused = True
    after = geom.det_point_position(0.5, [0.5, 0.25])
    rot = geom.rotation_matrix(0.5)
    same = np.allclose(before, after, equal_nan=True)
    print('geom.%s[...] = 7.5 :' % attr, 'refused (read-only)' if refused else 'accepted',
          '| det_point_position', 'unchanged' if same else 'CHANGED',
          '| rotation matrix orthonormal:', bool(np.allclose(rot @ rot.T, np.eye(3))))
    bad |= not same
print('BEHAVIOUR PRESENT' if bad else 'ok')
raise SystemExit(1 if bad else 0)

"""Plain ODL, no harness:  /venv/bin/python repro.py   (exit 1 = defect present)

A geometry must not depend on what the caller does, after construction, with the arrays it passed in.
"""
import numpy as np
import odl

apart = odl.uniform_partition(0, 2 * np.pi, 8)
dpart = odl.uniform_partition(-3, 3, 6)
dpart2 = odl.uniform_partition([-3, -2], [3, 2], (6, 4))
bad = False


def check(label, make, arrays, query):
    global bad
    before_args = [a.copy() for a in arrays]
    geom = make()
    if any(not np.array_equal(a, b) for a, b in zip(arrays, before_args)):
        print(label, ': the constructor MODIFIED the caller\'s array:', [b.tolist() for b in before_args], '->',
              [a.tolist() for a in arrays])
        bad = True
    before = query(geom).copy()
    for a in arrays:
        a[...] = 7.5            # the caller re-uses its array
    after = query(geom)
    same = np.array_equal(before, after)
    print(label, ': query before', np.round(before, 3).tolist(), 'after the caller overwrote its array',
          np.round(after, 3).tolist(), 'ok' if same else 'CHANGED')
    bad |= not same


t = np.array([1.0, -2.0])
check('Parallel2dGeometry(translation=<ndarray>)', lambda: odl.tomo.Parallel2dGeometry(apart, dpart, translation=t), [t],
      lambda g: g.det_refpoint(0.5))
t3 = np.array([1.0, -2.0, 3.0])
check('ConeBeamGeometry(translation=<ndarray>)', lambda: odl.tomo.ConeBeamGeometry(apart, dpart2, 5, 3, translation=t3), [t3],
      lambda g: g.src_position(0.5))
e = np.array([3.0, 4.0])
check('FanBeamGeometry(src_to_det_init=<ndarray (3, 4)>)',
      lambda: odl.tomo.FanBeamGeometry(apart, dpart, 5, 3, src_to_det_init=e), [e], lambda g: g.src_position(0.5))
e3 = np.array([4.0, 0.0, -3.0])
check('ConeBeamGeometry(src_to_det_init=<ndarray (4, 0, -3)>)',
      lambda: odl.tomo.ConeBeamGeometry(apart, dpart2, 5, 3, src_to_det_init=e3), [e3], lambda g: g.det_refpoint(0.5))
M = np.array([[0.6, -0.8, 1.0], [0.8, 0.6, -2.0]])
check('Parallel2dGeometry.frommatrix(<ndarray>)', lambda: odl.tomo.Parallel2dGeometry.frommatrix(apart, dpart, M), [M],
      lambda g: g.det_refpoint(0.5))
print('DEFECT PRESENT' if bad else 'ok')
raise SystemExit(1 if bad else 0)

"""Plain ODL, no harness:  /venv/bin/python repro.py   (exit 1 = defect present)

Parallel2dGeometry docstring (Notes): "If ``det_pos_init == (0, 0)``, no rotation is performed."
"""
import numpy as np
import odl

apart = odl.uniform_partition(0, np.pi, 10)
dpart = odl.uniform_partition(-1, 1, 20)
dpart2 = odl.uniform_partition([-1, -1], [1, 1], (20, 20))
apart3 = odl.uniform_partition([0, 0, 0], [1, 1, 1], (2, 2, 2))
bad = False
cases = [('Parallel2dGeometry(det_pos_init=(0, 0))',
          lambda: odl.tomo.Parallel2dGeometry(apart, dpart, det_pos_init=(0, 0))),
         ('Parallel2dGeometry(det_pos_init=(0, 0), det_axis_init=(.6, .8), translation=(1, 2))',
          lambda: odl.tomo.Parallel2dGeometry(apart, dpart, det_pos_init=(0, 0), det_axis_init=(.6, .8), translation=(1, 2))),
         ('Parallel3dEulerGeometry(det_pos_init=(0, 0, 0), det_axes_init=...)',
          lambda: odl.tomo.Parallel3dEulerGeometry(apart3, dpart2, det_pos_init=(0, 0, 0), det_axes_init=[(1, 0, 0), (0, 0, 1)]))]
for label, make in cases:
    try:
        geom = make()
        print(label, '-> ok, det_refpoint(0.5) =', geom.det_refpoint(0.5) if geom.motion_params.ndim == 1 else geom.det_refpoint((0.5, 0.5, 0.5)))
    except Exception as e:
        print(label, 'raises', type(e).__name__ + ':', e)
        bad = True
print('(Parallel3dAxisGeometry accepts it:', odl.tomo.Parallel3dAxisGeometry(apart, dpart2, det_pos_init=(0, 0, 0)).det_refpoint(0.5), ')')
print('DEFECT PRESENT' if bad else 'ok')
raise SystemExit(1 if bad else 0)

"""ufunc functional on RealNumbers: derivative(point) is documented to be an operator but is a float."""
import numpy as np
import odl

f = odl.ufunc_ops.sin()                      # functional on RealNumbers()
d = f.derivative(0.5)
print('type of derivative(0.5):', type(d).__name__)
try:
    val = d(2.0)
except TypeError as e:
    raise SystemExit('BUG: derivative(point) is not an operator: %s' % e)
assert abs(val - 2.0 * np.cos(0.5)) < 1e-12

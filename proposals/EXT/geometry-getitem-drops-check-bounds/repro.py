"""geom[indices] does not keep check_bounds=False."""
import numpy as np
import odl

apart = odl.uniform_partition(0, 2 * np.pi, 8)
d1 = odl.uniform_partition(-1, 1, 4)
d2 = odl.uniform_partition([-1, -1], [1, 1], [4, 4])
geoms = [odl.tomo.Parallel2dGeometry(apart, d1, check_bounds=False),
         odl.tomo.Parallel3dAxisGeometry(apart, d2, check_bounds=False),
         odl.tomo.FanBeamGeometry(apart, d1, 3, 5, check_bounds=False),
         odl.tomo.ConeBeamGeometry(apart, d2, 3, 5, check_bounds=False)]
for g in geoms:
    sub = g[2:6]
    par = 5.0 if g.detector.ndim == 1 else [5.0, 0.0]
    print(type(g).__name__, 'check_bounds:', g.check_bounds, '-> sliced:', sub.check_bounds,
          '| detector:', g.detector.check_bounds, '-> sliced:', sub.detector.check_bounds)
    g.detector.surface(par)                       # fine: checks are off
    try:
        sub.detector.surface(par)
    except ValueError as ex:
        print('   sliced geometry RAISES', str(ex)[:70])

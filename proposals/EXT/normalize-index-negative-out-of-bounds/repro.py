"""normalized_index_expression does not reject integers below -n; with int_to_slice=True they silently select another
entry. Run with the interpreter that has ODL installed:  python repro.py  (exit code 1 = defect present)."""
import numpy as np
import odl
from odl.util.normalize import normalized_index_expression

bad = 0
x = np.arange(3)

# documented: "Error checking with respect to a given shape", shape = "Target shape for error checking of
# out-of-bounds indices".  3 is rejected (IndexError) - -5 is out of bounds as well (NumPy: IndexError)
try:
    res = normalized_index_expression(-5, (3,))
    print('normalized_index_expression(-5, (3,)) returned', res, '- expected an error (x[-5] raises IndexError)')
    bad += 1
except IndexError:
    pass

# with int_to_slice=True the result silently selects ANOTHER entry
try:
    res = normalized_index_expression(-5, (3,), int_to_slice=True)
    print('normalized_index_expression(-5, (3,), int_to_slice=True) returned', res, 'which selects', x[res])
    bad += 1
except IndexError:
    pass

# consumer: RectPartition.__getitem__ hands out the wrong cell instead of raising
part = odl.uniform_partition(0, 3, 3)
try:
    sub = part[-5]
    print('uniform_partition(0, 3, 3)[-5] returned', sub, '- expected IndexError (there are only 3 cells)')
    bad += 1
except IndexError:
    pass
part2 = odl.uniform_partition([0, 0], [2, 2], (2, 2))
try:
    sub = part2[-4, 0]
    print('uniform_partition([0, 0], [2, 2], (2, 2))[-4, 0] returned', sub)
    bad += 1
except IndexError:
    pass

print('DEFECT PRESENT' if bad else 'ok')
raise SystemExit(1 if bad else 0)

import numpy as np
from odl.contrib.fom.util import filter_image_sep2d
for img, fh, fv in [(np.ones((3, 3), 'float32'), np.ones(2), np.ones(2)),
                    (np.ones((3, 3), int), np.ones(2, int), np.ones(2, int))]:
    r = filter_image_sep2d(img, fh, fv)
    doc = np.result_type(img, fh, fv)
    print(img.dtype, fh.dtype, fv.dtype, '->', r.dtype, '| documented np.result_type(image, fh, fv) =', doc,
          'OK' if r.dtype == doc else 'DEFECT')

"""mlem / osmlem: a domain element(-like) given as `sensitivities` is indexed per subset instead of being used as the
`A^T 1` term.  Plain ODL, fresh interpreter."""
import numpy as np
import odl

space = odl.rn(2)
A = odl.MatrixOperator(np.array([[1.0, 2.0], [3.0, 1.0], [1.0, 1.0]]))
data = A.range.element([2, 4, 1])
default = A.adjoint(A.range.one())          # the documented default: A^T 1 = (5, 4)
print('A^T 1 =', default)

x = space.one()
odl.solvers.mlem(A, x, data, niter=1)
print('default sensitivities              :', x)
for name, s in [('the same values as an element   ', default), ('the same values as an ndarray    ', default.asarray()),
                ('the same values as a list       ', [5.0, 4.0])]:
    x = space.one()
    odl.solvers.mlem(A, x, data, niter=1, sensitivities=s)
    print(name, ' :', x)
# documented formula x / s * A^T(data / A x) with s = (5, 4), x = (1, 1):  (55/30, 5/3) / (5, 4) ... printed for reference
Ax = A(space.one())
print('x / s * A^T(data / A x)            :', (space.one() / default) * A.adjoint(data / Ax))
print('what is computed: division by the SCALAR s[0] = 5 in both components:', A.adjoint(data / Ax) / 5.0)

# a domain with two axes: the "element-like" array is indexed to a row, the in-place division is refused
dom = odl.uniform_discr([0, 0], [1, 1], (2, 1))
A2 = odl.MatrixOperator(np.array([[1.0, 2.0], [3.0, 1.0], [1.0, 1.0]]), domain=dom, axis=0)
x = dom.one()
try:
    odl.solvers.mlem(A2, x, A2.range.element([[2], [4], [1]]), niter=1, sensitivities=np.array([[5.0], [4.0]]))
    print('2-d domain, ndarray sensitivities  :', x)
except TypeError as exc:
    print('2-d domain, ndarray sensitivities  : TypeError', str(exc).splitlines()[0][:60], '...')

import numpy as np
from odl.contrib.fom.util import filter_image_sep2d
img = np.arange(10.0).reshape(2, 5)
# fv has 3 <= image.shape[1] = 5 taps: allowed by the docstring
try:
    print(filter_image_sep2d(img, [1.0], [1.0, 1.0, 1.0]))
    print("OK")
except ValueError as e:
    print("DEFECT: ValueError:", e)

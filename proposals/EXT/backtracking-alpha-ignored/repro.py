"""BacktrackingLineSearch ignores its `alpha` argument unless estimate_step=True (plain ODL, fresh interpreter).

"alpha: The initial guess for the step length."  The example of the class docstring with alpha=0.5: the first candidate
0.5 already fulfils the decrease condition, so 0.5 has to be returned; candidates above alpha must never be tried."""
import odl

r3 = odl.rn(3)
func = odl.solvers.L2NormSquared(r3)
x = r3.element([1, 2, 3])
d = r3.element([-1, -1, -1])

tried = []
probe = lambda y: (tried.append(float((y - x).norm() / d.norm())), func(y))[1]     # records the step of every trial

for alpha in (1.0, 0.5, 0.25, 4.0):
    del tried[:]
    ls = odl.solvers.BacktrackingLineSearch(probe, alpha=alpha)
    step = ls(x, d, dir_derivative=-12)
    print('alpha=%-5s returned %-6s trial steps %s' % (alpha, step, [round(t, 4) for t in tried[1:]]))

# a second call on the same object (history): still 1.0, although neither the initial guess nor the last step is 1.0
ls = odl.solvers.BacktrackingLineSearch(func, alpha=0.5)
print('two calls, alpha=0.5, estimate_step=False:', ls(x, d), ls(x, d))
ls = odl.solvers.BacktrackingLineSearch(func, alpha=0.5, estimate_step=True)
print('two calls, alpha=0.5, estimate_step=True :', ls(x, d), ls(x, d))

"""OperatorTest cannot be constructed / run on a non-linear operator: the norm estimate needs op.adjoint.
This is the module's own __main__ example (odl/diagnostics/operator.py)."""
import odl
from odl.diagnostics import OperatorTest

space = odl.uniform_discr([0, 0], [1, 1], [3, 3])
op = odl.PowerOperator(space, 4)          # domain == range, no adjoint (non-linear)

for label, fn in [('OperatorTest(op)', lambda: OperatorTest(op, verbose=False)),
                  ('OperatorTest(op, operator_norm=10).run_tests()',
                   lambda: OperatorTest(op, operator_norm=10, verbose=False).run_tests()),
                  ('odl.power_method_opnorm(op, maxiter=2)', lambda: odl.power_method_opnorm(op, maxiter=2))]:
    try:
        fn()
        print(label, '-> ok')
    except Exception as e:
        print('BUG:', label, 'raises', type(e).__name__, ':', str(e)[:90])

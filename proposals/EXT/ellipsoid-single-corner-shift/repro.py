import numpy as np
import odl

space = odl.uniform_discr([0, 0], [8, 8], [8, 8])
ell = [[1.0, 0.5, 0.5, 0.0, 0.0, 0.0]]
full = odl.phantom.ellipsoid_phantom(space, ell).asarray()
shifted = odl.phantom.ellipsoid_phantom(space, ell, min_pt=[2, 2]).asarray()
# documented: new_min_pt = min_pt, new_max_pt = space.max_pt + (min_pt - space.min_pt): a shift by two cells
expected = np.zeros_like(full)
expected[2:, 2:] = full[:-2, :-2]
print(shifted.astype(int))
print('pixels: full %d, documented shift %d, returned %d' % (full.sum(), expected.sum(), shifted.sum()))
assert np.array_equal(shifted, expected), 'a single min_pt rescales the phantom instead of shifting it'

import numpy as np
import odl
box = odl.IntervalProd([0, 0], [1, 1])
pts = np.array([[0.5, 1.05],      # (d, N): the points (0.5, 0.5) and (1.05, 0.5); the second one is 0.05 outside
                [0.5, 0.5]])
g = odl.RectGrid([0.5, 1.05], [0.5])
print('meshgrid, atol=0.1:', box.contains_all(g.meshgrid, atol=0.1))        # True
print('grid,     atol=0.1:', box.contains_all(g, atol=0.1))                 # True
print('array,    atol=0.1:', box.contains_all(pts, atol=0.1))               # False  <- same points, tolerance ignored
print('nested,   atol=0.1:', box.contains_all(pts.tolist(), atol=0.1))      # False
print('point,    atol=0.1:', box.contains_all([1.05, 0.5], atol=0.1))       # False
print('approx_contains   :', box.approx_contains([1.05, 0.5], atol=0.1))    # True
assert box.contains_all(g.meshgrid, atol=0.1) and not box.contains_all(pts, atol=0.1)

"""CallbackStore(results=lst): after reset() the caller-owned list is neither cleared nor used any more.
Run: PYTHONPATH=/repo /venv/bin/python repro.py   (exit code 1 = defect present)"""
import sys
import odl

lst = []
cb = odl.solvers.CallbackStore(results=lst)      # "results : List in which to store the iterates."
x = odl.rn(2).element([1, 0])
cb(x)
cb.reset()                                       # "Clear the results list." / "Reset the callback to its initial state."
x[:] = [2, 0]
cb(x)
print('caller-owned list:', lst)
print('callback.results :', cb.results, ' same object:', cb.results is lst)
ok = (cb.results is lst) and len(lst) == 1 and lst[0][0] == 2
print('OK' if ok else 'DEFECT: the list passed as `results` still holds the pre-reset iterate and does not receive new ones')
sys.exit(0 if ok else 1)

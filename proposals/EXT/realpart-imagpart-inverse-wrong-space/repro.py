"""RealPart / ImagPart on a complex space: .inverse is built on the complex DOMAIN instead of the real RANGE."""
import odl

c3 = odl.cn(3)
for cls in (odl.RealPart, odl.ImagPart):
    op = cls(c3)
    inv = op.inverse
    print(cls.__name__, ': range', op.range, ' inverse.domain', inv.domain, ' inverse.adjoint', inv.adjoint)
    try:
        print('   inverse * op =', inv * op)
    except Exception as ex:
        print('   inverse * op raises', type(ex).__name__, ':', str(ex)[:120])
    assert inv.domain == op.range, 'the (pseudo-)inverse of A : X -> Y must be defined on Y'

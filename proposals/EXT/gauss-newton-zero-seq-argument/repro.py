"""gauss_newton: (1) the default `zero_seq` is ONE generator shared by all calls, (2) `zero_seq` is documented as an
iterable but a list is rejected.  Plain ODL, fresh interpreter."""
import numpy as np
import odl
from odl.solvers.iterative.iterative import gauss_newton, exp_zero_seq

space = odl.rn(2)
A = odl.MatrixOperator(np.array([[2.0, 1.0], [1.0, 3.0]]))
rhs = space.element([1, 2])

# (1) three identical calls that rely on the default, and the same call with the documented default spelled out
for n in range(3):
    x = space.zero()
    gauss_newton(A, x, rhs, 1)
    print('call %d with the default zero_seq      :' % (n + 1), x)
x = space.zero()
gauss_newton(A, x, rhs, 1, zero_seq=exp_zero_seq(2.0))
print('zero_seq=exp_zero_seq(2.0) spelled out :', x)
# exact value of the first step with t = 1/2:  (A^T A + I/2)^-1 A^T rhs = (28/131, 74/131)
print('expected (t_0 = 1/2)                   :', [28 / 131, 74 / 131])

# (2) "zero_seq : iterable, optional"
x = space.zero()
try:
    gauss_newton(A, x, rhs, 2, zero_seq=[0.5, 0.25])
    print('list accepted:', x)
except TypeError as exc:
    print('zero_seq=[0.5, 0.25] ->', type(exc).__name__, exc)

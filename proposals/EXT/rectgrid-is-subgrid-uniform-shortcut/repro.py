import odl
sub = odl.uniform_grid(0, 5, 5)        # 0, 1.25, 2.5, 3.75, 5
sup = odl.uniform_grid(0, 5, 6)        # 0, 1, 2, 3, 4, 5
print('sub.is_subgrid(sup, atol=0.25):', sub.is_subgrid(sup, atol=0.25))      # True
print('sup.approx_contains(2.5, 0.25):', sup.approx_contains(2.5, 0.25))      # False: 2.5 is 0.5 away from 2 and 3
# the documented criterion, evaluated point by point
print('all points within atol        :', all(sup.approx_contains(p, 0.25) for p in sub.points()))
assert sub.is_subgrid(sup, atol=0.25) and not sup.approx_contains(2.5, 0.25)

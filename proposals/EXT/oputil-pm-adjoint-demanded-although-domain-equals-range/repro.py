"""power_method_opnorm: no adjoint should be needed when domain == range (docstring), but it is evaluated anyway."""
import odl

space = odl.rn(2)
op = odl.ufunc_ops.square(space)          # nonlinear, domain == range, no adjoint
try:
    est = odl.power_method_opnorm(op, xstart=[1, 2], maxiter=4)
except odl.OpNotImplementedError as e:
    raise SystemExit('BUG: adjoint demanded although domain == range: %s' % e)
print('estimate', est)

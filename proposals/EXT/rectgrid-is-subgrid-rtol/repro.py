import odl
sub = odl.RectGrid([0, 512.00390625, 1024])         # 512 + 2**-8, exactly representable
sup = odl.RectGrid([0, 512, 1000, 1024])
print('sub.is_subgrid(sup)          :', sub.is_subgrid(sup))                     # True
print('sub.is_subgrid(sup, atol=0.0):', sub.is_subgrid(sup, atol=0.0))           # True
print('512.00390625 in sup          :', 512.00390625 in sup)                     # False
print('sup.approx_contains(.., 0.0) :', sup.approx_contains(512.00390625, 0.0))  # False
assert sub.is_subgrid(sup) and 512.00390625 not in sup

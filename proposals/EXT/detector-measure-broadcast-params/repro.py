"""surface_measure of the 2-d detectors raises for parameters of different shapes (broadcast forms)."""
import numpy as np
import odl
from odl.tomo.geometry.detector import Flat2dDetector, CylindricalDetector, SphericalDetector

part = odl.uniform_partition([-1, -1], [1, 1], [4, 4])
axes = [(1, 0, 0), (0, 0, 1)]
for det in (Flat2dDetector(part, axes), CylindricalDetector(part, axes, 2.0), SphericalDetector(part, axes, 2.0)):
    name = type(det).__name__
    for label, param in (('(array, scalar)', (np.array([0.0, 0.5, 1.0]), 0.25)),
                         ('meshgrid (2,1) x (1,3)', (np.zeros((2, 1)), np.zeros((1, 3))))):
        # every other method accepts the form and returns broadcast(*param).shape + tail
        print(name, label, 'surface ->', det.surface(param).shape, ' normal ->', det.surface_normal(param).shape)
        try:
            print('   surface_measure ->', det.surface_measure(param).shape)
        except Exception as ex:
            print('   surface_measure RAISES', type(ex).__name__, str(ex)[:70])

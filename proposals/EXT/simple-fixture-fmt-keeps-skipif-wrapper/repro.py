"""simple_fixture(name, params, fmt=...): skipif-wrapped parameters are not unwrapped for the ids when fmt is given."""
import pytest
from odl.util.testutils import simple_fixture

wrap = pytest.mark.skipif('False', reason='never')
ids_default = simple_fixture('impl', [wrap('pyfftw'), 'numpy'])._pytestfixturefunction.ids
ids_fmt = simple_fixture('impl', [wrap('pyfftw'), 'numpy'], fmt='{name}-{value}')._pytestfixturefunction.ids
print('default ids:', ids_default)
print('fmt ids    :', ids_fmt)
assert ids_default == (" impl='pyfftw' ", " impl='numpy' ")
if ids_fmt != ('impl-pyfftw', 'impl-numpy'):
    print('BUG: documented "Arguments wrapped in a pytest.skipif decorator are unwrapped for the generation of the test IDs",')
    print('     with fmt the id is built from the MarkDecorator object itself')

"""SpaceTest.element_copy: when copy() returns a different element the diagnostic does not report it; the failure
message has an invalid format spec ('{:s5s}'), so it raises ValueError after printing "Completed all test cases"."""
import contextlib
import io

import numpy as np
import odl
from odl.diagnostics import SpaceTest
from odl.space.npy_tensors import NumpyTensor, NumpyTensorSpace


class BadCopyTensor(NumpyTensor):
    def copy(self):
        return self.space.element(self.data + 1.0)      # a copy that is not equal to the original


class BadCopySpace(NumpyTensorSpace):
    @property
    def element_type(self):
        return BadCopyTensor


space = BadCopySpace(3, dtype=float)
x = space.one()
print('x.copy() == x ?', x.copy() == x)
buf = io.StringIO()
try:
    with contextlib.redirect_stdout(buf):
        SpaceTest(space, verbose=True).element_copy()
    print(buf.getvalue())
    print('no exception (fixed)' if 'FAILED' in buf.getvalue() else 'not reported')
except ValueError as e:
    print(buf.getvalue())
    print('BUG: element_copy raised ValueError(%s) instead of reporting the wrong copy; printed verdict above' % e)

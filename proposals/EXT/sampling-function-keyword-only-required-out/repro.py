"""An in-place-only function whose `out` is keyword-only and REQUIRED is classified as having an optional out, so every
out-of-place evaluation calls it without out.  Plain ODL, no harness."""
import numpy as np
import odl
from odl.discr.discr_utils import sampling_function, _check_func_out_arg


def f(x, *, out):
    out[...] = x[0] + x[1]


print('_check_func_out_arg(f) = (has_out, out_is_optional) =', _check_func_out_arg(f), ' - out is required')
space = odl.uniform_discr([0, 0], [2, 3], (2, 3))
w = sampling_function(f, space.domain, out_dtype='float64')
out = np.empty((2, 3))
w(space.meshgrid, out=out)
print('in place      :', out.tolist())
try:
    print('out of place  :', w(space.meshgrid).tolist())
    print('space.element :', space.element(f))
except TypeError as e:
    print('out of place  : TypeError:', e)
    raise SystemExit(1)

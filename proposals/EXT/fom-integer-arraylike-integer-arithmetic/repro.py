from odl.contrib.fom import (mean_squared_error, mean_absolute_error, standard_deviation_difference)
print(mean_squared_error([1, 0, 0, 0], [0, 2, 1.5, 0]), "expected 1.8125 (float data gives",
      mean_squared_error([1.0, 0, 0, 0], [0, 2, 1.5, 0]), ")")
print(mean_absolute_error([1, 2], [0.5, 0]), "expected 1.25")
print(standard_deviation_difference([0, 0], [3, 4], normalized=True), "expected 1.0 (float data gives",
      standard_deviation_difference([0.0, 0.0], [3, 4], normalized=True), ")")

"""A vector-valued function given as ONE callable returning a tuple of components (the `vec_valued` spelling of the
point_collocation docstring) fails out of place (a) for every out_dtype other than float64 and (b) when no component
depends on all variables but all have the same shape (all constants / all functions of x[0] only), while the same
function given as a list of member functions, or called with `out=`, works.  Plain ODL, no harness."""
import numpy as np
import odl
from odl.discr.discr_utils import sampling_function
from odl.discr.grid import sparse_meshgrid

domain = odl.IntervalProd([0, 0], [8, 8])
mesh = sparse_meshgrid([1., 2.], [3., 4., 5.])
bad = 0


def show(label, fn):
    global bad
    try:
        print(label, np.asarray(fn()).tolist())
    except Exception as e:
        bad += 1
        print(label, type(e).__name__ + ':', e)


def vec_valued(x):                                    # docstring example
    return (x[0] - 1., 0., x[0] + x[1])


# (a) dtype of the result
show('float64  :', lambda: sampling_function(vec_valued, domain, out_dtype=(float, (3,)))(mesh))
show('float32  :', lambda: sampling_function(vec_valued, domain, out_dtype=('float32', (3,)))(mesh))
show('complex  :', lambda: sampling_function(vec_valued, domain, out_dtype=(complex, (3,)))(mesh))
out32 = np.empty((3, 2, 3), dtype='float32')
show('float32 in place:', lambda: sampling_function(vec_valued, domain, out_dtype=('float32', (3,)))(mesh, out=out32))


# (b) broadcasting of components that have the same shape
def only_x0(x):
    return (x[0], 2 * x[0])


def consts(x):
    return (1.0, 2.0)


show('list of members (x0, 2 x0):', lambda: sampling_function([lambda x: x[0], lambda x: 2 * x[0]], domain)(mesh))
show('one callable    (x0, 2 x0):', lambda: sampling_function(only_x0, domain, out_dtype=(float, (2,)))(mesh))
show('list of members (1, 2)    :', lambda: sampling_function([1.0, 2.0], domain)(mesh))
show('one callable    (1, 2)    :', lambda: sampling_function(consts, domain, out_dtype=(float, (2,)))(mesh))
out = np.empty((2, 2, 3))
show('one callable (1, 2) in place:', lambda: sampling_function(consts, domain, out_dtype=(float, (2,)))(mesh, out=out))
pts = np.array([[1., 2.], [3., 4.]])                  # two points: the in-place broadcast "succeeds" along the wrong axis
out2 = np.empty((2, 2))
sampling_function(consts, domain, out_dtype=(float, (2,)))(pts, out=out2)
print('two points in place, expected [[1, 1], [2, 2]]:', out2.tolist())
bad += out2.tolist() != [[1.0, 1.0], [2.0, 2.0]]
raise SystemExit(1 if bad else 0)

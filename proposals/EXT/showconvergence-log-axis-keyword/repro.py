"""CallbackShowConvergence(logx=True) / (logy=True) raise TypeError with current matplotlib (keyword nonposx / nonposy
was removed in matplotlib 3.5).  Run: MPLBACKEND=Agg PYTHONPATH=/repo /venv/bin/python repro.py  (exit 1 = defect)"""
import sys
import matplotlib
matplotlib.use('Agg')
import odl

bad = 0
for opt in ('logx', 'logy'):
    try:
        cb = odl.solvers.CallbackShowConvergence(lambda x: 1.0, **{opt: True})
        cb(None)
        print(opt, 'ok, scale:', cb.ax.get_xscale() if opt == 'logx' else cb.ax.get_yscale())
    except Exception as e:
        bad += 1
        print(opt, 'raises', type(e).__name__, e)
print('matplotlib', matplotlib.__version__)
sys.exit(1 if bad else 0)

"""normalized_nodes_on_bdry: the branch that rejects a sequence of the wrong length formats its message with an
undefined name `shape` and dies with NameError.  python repro.py  (exit code 1 = defect present)."""
import numpy as np
import odl
from odl.util.normalize import normalized_nodes_on_bdry

bad = 0


def expect_rejection(what, fn):
    global bad
    try:
        r = fn()
        print(what, 'returned', r)
    except (ValueError, TypeError):
        return
    except NameError as ex:
        print(what, '-> NameError:', ex)
        bad += 1


# "The length of the sequence must be ndim" (uniform_partition) - a ValueError like for every other malformed input
expect_rejection('normalized_nodes_on_bdry([True, False, True], length=2)',
                 lambda: normalized_nodes_on_bdry([True, False, True], length=2))
expect_rejection('uniform_partition([0, 0], [1, 1], (3, 3), nodes_on_bdry=[True, False, True])',
                 lambda: odl.uniform_partition([0, 0], [1, 1], (3, 3), nodes_on_bdry=[True, False, True]))
expect_rejection('uniform_discr_fromdiscr(uniform_discr(0, 1, 3), shape=3, nodes_on_bdry=[True, False, True])',
                 lambda: odl.uniform_discr_fromdiscr(odl.uniform_discr(0, 1, 3), shape=3,
                                                     nodes_on_bdry=[True, False, True]))
# the flat one-axis spelling (left, right) given as an array: same broken branch
expect_rejection('uniform_partition(0, 1, 3, nodes_on_bdry=np.array([True, False]))',
                 lambda: odl.uniform_partition(0, 1, 3, nodes_on_bdry=np.array([True, False])))

print('DEFECT PRESENT' if bad else 'ok')
raise SystemExit(1 if bad else 0)

"""as_scipy_functional: gradient of a functional on a 2-axis space is not a linear array; scipy's minimize fails."""
import numpy as np
import odl
from scipy.optimize import minimize

space = odl.rn((2, 3))
func = odl.solvers.L2NormSquared(space)
f, grad = odl.as_scipy_functional(func, return_gradient=True)
x0 = np.arange(6.0)
print('f(x0) =', f(x0), ' grad(x0).shape =', np.shape(grad(x0)))
try:
    res = minimize(f, x0=x0, jac=grad)
except ValueError as e:
    raise SystemExit('BUG: scipy minimize with the wrapped gradient failed: %s' % e)
assert np.allclose(res.x, 0, atol=1e-5)

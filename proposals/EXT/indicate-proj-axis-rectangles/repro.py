import numpy as np
import odl
from scipy import ndimage

space = odl.uniform_discr([0, 0], [1, 1], [8, 16])
phantom = odl.phantom.indicate_proj_axis(space).asarray()
counts = [ndimage.label(phantom.sum(axis=k) > 0)[1] for k in range(2)]
print('rectangles in the projections along axis 0, 1:', counts, '(documented: [1, 2])')
assert counts == [1, 2]

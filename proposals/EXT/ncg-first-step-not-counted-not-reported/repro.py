"""conjugate_gradient_nonlinear: the first step of every cycle is neither counted against `maxiter` nor reported to
the callback (plain ODL, fresh interpreter)."""
import numpy as np
import odl

space = odl.rn(2)
A = np.array([[2.0, 1.0], [1.0, 3.0]])
b = np.array([1.0, -1.0])
f = odl.solvers.QuadraticForm(operator=odl.MatrixOperator(A / 2), vector=space.element(-b))   # 1/2 x^T A x - b^T x


class CountingStep(odl.solvers.LineSearch):
    """constant step; counts how often the solver asks for a step = how many updates of x it performs"""
    calls = 0

    def __call__(self, x, direction, dir_derivative):
        self.calls += 1
        return 0.125


for maxiter, nreset in [(0, 0), (1, 0), (3, 0), (4, 1)]:
    x = space.element([3.0, -2.0])
    seen = []
    rule = CountingStep()
    odl.solvers.conjugate_gradient_nonlinear(f, x, line_search=rule, maxiter=maxiter, nreset=nreset,
                                             callback=lambda v: seen.append(v.asarray().copy()))
    print('maxiter=%d nreset=%d: %d updates of x, %d callback calls, x moved: %s'
          % (maxiter, nreset, rule.calls, len(seen), not np.array_equal(x.asarray(), [3.0, -2.0])))

# the first iterate never reaches the callback
x = space.element([3.0, -2.0])
seen = []
odl.solvers.conjugate_gradient_nonlinear(f, x, line_search=0.125, maxiter=2, callback=lambda v: seen.append(v.asarray().copy()))
x1 = np.array([3.0, -2.0]) - 0.125 * (A.dot([3.0, -2.0]) - b)            # steepest-descent step = first CG iterate
print('first iterate', x1, 'callback saw', [list(v) for v in seen])

"""NumericalDerivative(op, point)(0) raises OpRangeError instead of returning 0."""
import odl

space = odl.rn(2)
op = odl.ufunc_ops.square(space)
deriv = odl.solvers.NumericalDerivative(op, [1, 2], step=0.5)
try:
    y = deriv(space.zero())
except odl.OpRangeError as e:
    raise SystemExit('BUG: zero direction raised: %s' % e)
print(y)
assert y == space.zero()

"""lincomb with an operand that shares memory with `out` through a different object gives wrong values
(>= 100 entries).  Documentation: LinearSpace.lincomb "Implement out[:] = a * x1 + b * x2 ... The elements out, x1 and
x2 may be aligned"; NumpyTensor.__getitem__ "the returned object is a writable view into the original tensor"."""
import numpy as np
import odl

for n in (3, 100, 50000):
    x = odl.rn((2, n)).element(np.arange(2 * n, dtype=float).reshape(2, n))
    expected = 2 * x.asarray()[0] + 3 * x.asarray()[1]
    # x[0] is a view; every x[0] is a new wrapper object of the same memory
    x[0].lincomb(2, x[0], 3, x[1])
    ok1 = np.array_equal(x.asarray()[0], expected)

    y = odl.rn(n).element(np.arange(n, dtype=float))
    v = y[:]                                  # a second wrapper of y's memory
    exp2 = -1 * y.asarray() + 3 * y.asarray()
    y.lincomb(-1, y, 3, v)                    # out is x1, x2 shares its memory
    ok2 = np.array_equal(y.asarray(), exp2)

    z = odl.rn(n).element(np.arange(n, dtype=float))
    zz = z.space.element(z.asarray())         # documented: wraps without copying
    exp3 = 0 * z.asarray() + 1 * z.asarray()
    z.space.lincomb(0, z, 1, zz, out=z)
    ok3 = np.array_equal(z.asarray(), exp3)
    print(n, 'x[0].lincomb(2, x[0], 3, x[1]):', ok1, '| y.lincomb(-1, y, 3, y[:]):', ok2,
          '| lincomb(0, z, 1, element(z.data), out=z):', ok3)

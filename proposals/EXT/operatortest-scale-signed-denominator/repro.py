"""OperatorTest._scale_invariance divides by the SIGNED scale: failures for negative scalars are never reported,
and on complex spaces with a user-supplied operator_norm the test raises TypeError."""
import contextlib
import io

import numpy as np
import odl
from odl.diagnostics import OperatorTest


class AbsOp(odl.Operator):
    """A(x) = |x| (pointwise), declared linear.  A(-x) = A(x) != -A(x): not homogeneous."""

    def __init__(self, space):
        super(AbsOp, self).__init__(space, space, linear=True)

    def _call(self, x):
        return np.abs(np.asarray(x))


space = odl.rn(3)
op = AbsOp(space)
x = space.one()
print('||A(-1 * x) - (-1) * A(x)|| / (|-1| ||A|| ||x||) =', (op(-1 * x) - (-1) * op(x)).norm() / (1 * 1.0 * x.norm()))

buf = io.StringIO()
with contextlib.redirect_stdout(buf):
    OperatorTest(op, operator_norm=1.0, verbose=True)._scale_invariance()
out = buf.getvalue()
print(out)
assert 'FAILED' not in out, 'fixed: the negative scalar is reported'
print('BUG 1: homogeneity "Completed all test cases" although A(-x) != -A(x) (documented error = 2.0 >> tol = 1e-5);')
print('       RealNumbers().examples contains -1.0, its denominator ||A|| * scale * ||x|| is negative, error < 0 <= tol.')

# complex spaces: the quotient is complex, `error > self.tol` raises for a Python-float operator_norm
cop = odl.MatrixOperator(np.array([[1.0, 2.0j], [0.0, 1.0]]))
try:
    with contextlib.redirect_stdout(io.StringIO()):
        OperatorTest(cop, operator_norm=3.0, verbose=False).linear()
    print('complex space: no exception (fixed)')
except TypeError as e:
    print('BUG 2: OperatorTest(complex operator, operator_norm=3.0).linear() raises TypeError:', e)

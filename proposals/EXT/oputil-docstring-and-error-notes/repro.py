import odl
space = odl.rn(2)
try:
    odl.solvers.NumericalGradient(odl.solvers.L2NormSquared(space), method='foo')
except Exception as e:
    print('1.', type(e).__name__, e)
try:
    odl.ufunc_ops.absolute().gradient
except Exception as e:
    print('3.', type(e).__name__, e)

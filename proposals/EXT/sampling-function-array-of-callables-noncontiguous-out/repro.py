"""sampling_function(<nested list of callables>, ...)(x, out=out) silently leaves `out` untouched when the value shape
has two or more axes and `out` is not C-contiguous (Fortran order or a strided view).  Plain ODL, no harness."""
import numpy as np
import odl
from odl.discr.discr_utils import sampling_function

domain = odl.IntervalProd([0, 0], [8, 8])
funcs = [[lambda x: x[0], lambda x: x[1], 1], [0, lambda x: x[0] * x[1], lambda x: x[0] + x[1]]]     # value shape (2, 3)
w = sampling_function(funcs, domain)
pts = np.array([[1., 2.], [3., 4.]])
ref = w(pts)
print('out of place      :', ref.tolist())
for name, out in (('C order', np.full((2, 3, 2), -77.0)), ('F order', np.full((2, 3, 2), -77.0, order='F')),
                  ('strided view', np.full((4, 6, 4), -77.0)[::2, ::2, ::2])):
    ret = w(pts, out=out)
    print('%-18s:' % name, 'returned is out:', ret is out, ' equals out-of-place result:', np.array_equal(out, ref),
          ' first entries:', out.ravel()[:3].tolist())
raise SystemExit(0 if np.array_equal(out, ref) else 1)

"""ProductSpaceOperator.__getitem__(int): "a row is extracted as a ReductionOperator" - raises (or returns an operator
with the wrong range) when the row has an absent entry in a column whose factor space differs from the row's range.
Run with plain ODL:  python repro.py"""
import numpy as np
import odl

r2, r1 = odl.rn(2), odl.rn(1)
I2, I1 = odl.IdentityOperator(r2), odl.IdentityOperator(r1)
ROW = odl.MatrixOperator(np.array([[1.0, 2.0]]), domain=r2, range=r1)      # rn(2) -> rn(1)

P = odl.ProductSpaceOperator([[I2, None],
                              [ROW, I1]])          # rn(2) x rn(1) -> rn(2) x rn(1)
x = P.domain.element([[1, 2], [3]])
print('P(x)      =', P(x))
print('P[1](x)   =', P[1](x), '  (row without absent entry: fine)')
bad = 0
try:
    row0 = P[0]                                     # row 0 = [I2, None]; the None sits in the rn(1) column
    print('P[0](x)   =', row0(x))
except ValueError as exc:
    bad += 1
    print('P[0] raised ValueError:', exc)

# a row of absent entries only: no exception, but the "row" maps into the DOMAIN factor instead of the range factor
Q = odl.ProductSpaceOperator([[ROW], [None]], range=odl.ProductSpace(r1, r1))   # rn(2) -> rn(1) x rn(1)
row1 = Q[1]
print('Q.range[1] =', Q.range[1], '  Q[1].range =', row1.range)
if row1.range != Q.range[1]:
    bad += 1
print('DEFECT REPRODUCED' if bad else 'not reproduced')

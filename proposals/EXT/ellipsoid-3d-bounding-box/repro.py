import numpy as np
import odl
from odl.tomo.util.utility import euler_matrix

space = odl.uniform_discr([-1] * 3, [1] * 3, [9, 9, 9])
ell = [[1.0, 0.8, 0.15, 0.15, 0, 0, 0, np.pi / 2, np.pi / 2, 0]]
phantom = odl.phantom.ellipsoid_phantom(space, ell).asarray()

# brute force: x is inside iff R^T x lies in the axis-aligned ellipsoid, R = euler_matrix(phi, theta, psi)
R = euler_matrix(np.pi / 2, np.pi / 2, 0)
t = np.linspace(-1, 1, 9)
X = np.stack(np.meshgrid(t, t, t, indexing='ij'), -1)
Y = X.dot(R)
inside = ((Y[..., 0] / 0.8) ** 2 + (Y[..., 1] / 0.15) ** 2 + (Y[..., 2] / 0.15) ** 2 <= 1).astype(float)
print('points inside the ellipsoid :', int(inside.sum()))
print('points marked by the phantom:', int(phantom.sum()))
assert np.array_equal(phantom, inside), 'rotated ellipsoid is clipped by its bounding box'

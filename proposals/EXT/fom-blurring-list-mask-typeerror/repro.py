import odl
from odl.contrib.fom import blurring, mean_squared_error
space = odl.rn(4)
x = space.element([3, 4, 0, 0])
print(mean_squared_error(x, space.zero(), mask=[1, 1, 0, 0]))   # list masks are fine here
try:
    print(blurring(x, space.zero(), mask=[1, 1, 0, 0]))
except TypeError as e:
    print("DEFECT: TypeError:", e)

"""Bound methods are rejected as functions to be sampled ("*args not allowed in function signature") although they are
callables without *args.  Plain ODL, no harness."""
import odl
from odl.discr.discr_utils import sampling_function


class Model(object):
    def __init__(self, c):
        self.c = c

    def evaluate(self, x):
        return x[0] + self.c * x[1]


m = Model(2.0)
space = odl.uniform_discr([0, 0], [2, 3], (2, 3))
print('as a lambda    :', space.element(lambda x: m.evaluate(x)))
bad = 0
for label, call in (('space.element(m.evaluate)', lambda: space.element(m.evaluate)),
                    ('sampling_function(m.evaluate, domain)', lambda: sampling_function(m.evaluate, space.domain)(space.meshgrid))):
    try:
        print(label, '->', call())
    except TypeError as e:
        bad += 1
        print(label, '-> TypeError:', e)
raise SystemExit(1 if bad else 0)

"""power_method_opnorm stops after one evaluation when ||A x0/|x0| || happens to equal ||x0||."""
import numpy as np
import odl


class Diag(odl.Operator):
    """self-adjoint operator x -> d * x whose adjoint is the operator itself"""

    def __init__(self, space, d):
        super(Diag, self).__init__(space, space, linear=True)
        self.d = np.asarray(d, dtype=float)

    def _call(self, x):
        return self.range.element(self.d * x.asarray())

    @property
    def adjoint(self):
        return self


space = odl.rn(2)
op = Diag(space, [0.0, 1.25])            # operator norm 1.25
a = odl.power_method_opnorm(op, xstart=[0.6, 0.8], maxiter=100)
b = odl.power_method_opnorm(op, xstart=[3.0, 4.0], maxiter=100)
print('xstart=(0.6, 0.8):', a, '  xstart=(3, 4):', b, '  true norm: 1.25')
assert abs(a - 1.25) < 1e-3, 'BUG: estimate %r depends on the scaling of xstart (stopped after the first evaluation)' % a

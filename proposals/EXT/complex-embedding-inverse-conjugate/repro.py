"""ComplexEmbedding on a complex space: .inverse scales with the conjugate of the scalar instead of its reciprocal."""
import numpy as np
import odl

c3 = odl.cn(3)
op = odl.ComplexEmbedding(c3, scalar=1 + 2j)
x = c3.element([1, 2j, 3 - 1j])
print('op.inverse(op(x)) =', op.inverse(op(x)))
print('x                 =', x)
assert np.allclose(op.inverse(op(x)).asarray(), x.asarray()), 'inverse(op(x)) != x (it is |scalar|^2 * x)'

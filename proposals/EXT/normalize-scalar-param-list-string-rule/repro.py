"""normalized_scalar_param_list: the disambiguation rules of the docstring are not the ones the function applies.
python repro.py  (exit code 1 = docstring and behaviour disagree)."""
from odl.util.normalize import normalized_scalar_param_list

bad = 0
# docstring: "If len(param) == length != 1, then param is interpreted as sequence of parameters" and
# "(e.g. 'abc' with length=3 will be interpreted as equivalent to ['a', 'b', 'c'])"
res = normalized_scalar_param_list('abc', 3)
if res != ['a', 'b', 'c']:
    print("normalized_scalar_param_list('abc', 3) ->", res, "  docstring: ['a', 'b', 'c']")
    bad += 1
res = normalized_scalar_param_list('10', 2, param_conv=int)
if res != [1, 0]:
    print("normalized_scalar_param_list('10', 2, param_conv=int) ->", res, '  docstring rule 3: [1, 0]')
    bad += 1
# docstring: "Otherwise, param is interpreted as a single parameter" - the function raises instead
try:
    res = normalized_scalar_param_list([1, 2], 3)
    if res != [[1, 2]] * 3:
        print('normalized_scalar_param_list([1, 2], 3) ->', res)
        bad += 1
except ValueError as ex:
    print('normalized_scalar_param_list([1, 2], 3) raises ValueError  docstring rule 4: [[1, 2], [1, 2], [1, 2]]')
    bad += 1

print('DOCSTRING AND BEHAVIOUR DISAGREE' if bad else 'ok')
raise SystemExit(1 if bad else 0)

"""apply_on_boundary(only_once=True) applies the function TWICE to an axis of size 1 (left and right boundary are the
same points).  python repro.py  (exit code 1 = defect present)."""
import numpy as np
from odl.util.numerics import apply_on_boundary

bad = 0
# "only_once: If True, ensure that each boundary point appears in exactly one slice."
for shape in [(1,), (1, 3), (3, 1), (2, 1, 2)]:
    arr = np.ones(shape)
    res = apply_on_boundary(arr, lambda x: x / 2)          # only_once=True is the default
    # every point of these arrays is a boundary point: each has to be halved exactly once
    vals = sorted(set(res.ravel().tolist()))
    if vals != [0.5]:
        print('shape', shape, '-> values', vals, '(expected only 0.5)')
        print(res)
        bad += 1

print('DEFECT PRESENT' if bad else 'ok')
raise SystemExit(1 if bad else 0)

"""bfgs_method(num_store=0) keeps EVERY correction pair instead of none (plain ODL, fresh interpreter).

"num_store: Maximum number of correction factors to store."  With no stored correction the inverse Hessian estimate
stays the initial one (identity): the method is steepest descent with the given line search."""
import numpy as np
import odl

space = odl.rn(2)
A = np.array([[2.0, 1.0], [1.0, 3.0]])
b = np.array([1.0, -1.0])
f = odl.solvers.QuadraticForm(operator=odl.MatrixOperator(A / 2), vector=space.element(-b))   # 1/2 x^T A x - b^T x


def run(solver, **kw):
    x = space.element([3.0, -2.0])
    its = []
    solver(f, x, line_search=0.125, maxiter=3, callback=lambda v: its.append(v.asarray().copy()), **kw)
    return its


sd = run(odl.solvers.steepest_descent)
full = run(odl.solvers.bfgs_method)
zero = run(odl.solvers.bfgs_method, num_store=0)
one = run(odl.solvers.bfgs_method, num_store=1)
for t in range(3):
    print('t=%d  steepest descent %-26s bfgs(num_store=0) %-26s full bfgs %-26s' % (t + 1, sd[t], zero[t], full[t]))
print('num_store=0 equals steepest descent:', np.allclose(zero, sd))
print('num_store=0 equals full BFGS       :', np.allclose(zero, full))
print('python: [1, 2, 3][-0:] ==', [1, 2, 3][-0:])

"""power_method_opnorm(maxiter=None) is documented ("iterate until convergence") but raises."""
import numpy as np
import odl

op = odl.MatrixOperator(np.array([[2.0, 1.0], [1.0, 3.0]]))
try:
    est = odl.power_method_opnorm(op, xstart=[1, 2], maxiter=None)
except ValueError as e:
    raise SystemExit('BUG: maxiter=None raised ValueError: %s' % e)
print('estimate', est, 'true norm', np.linalg.norm(op.matrix, 2))
assert abs(est - np.linalg.norm(op.matrix, 2)) < 1e-3

"""odl.contrib.solvers.spdhg.pdhg cannot be called at all: it passes `fun_select` positionally to spdhg_generic."""
import numpy as np
import odl
from odl.contrib.solvers.spdhg import pdhg

X = odl.rn(2)
A = odl.MatrixOperator(np.array([[1., 2.], [0., 1.]]))
f = 0.5 * odl.solvers.L2NormSquared(A.range).translated([1, 2])
g = 0.5 * odl.solvers.L2NormSquared(X)
x = X.element([1, 1])
try:
    pdhg(x, f, g, A, 1.0, 1.0, 3)
    # documented: [CP2011a] Alg. 1 with dual extrapolation; tau = sigma = theta = 1, three iterations from y = 0
    print('x =', x, ' expected [0, 1] (SpdhgSem!PdhgDirect, exact)')
except TypeError as e:
    print('RAISES TypeError:', e)

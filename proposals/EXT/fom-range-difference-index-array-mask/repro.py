import numpy as np
from odl.contrib.fom import range_difference
data = [5.0, 1.0, 9.0, 7.0, 3.0]
gt = [0.0, 1.0, 0.0, 0.0, 2.0]
# ROI = pixels 0, 2, 3: ranges 9-5 = 4 and 0 -> 4.0
try:
    print(range_difference(data, gt, mask=[0, 2, 3]), "expected 4.0")
except IndexError as e:
    print("DEFECT: IndexError:", e)

"""adam: the bias corrections of Kingma & Ba use beta**t, ODL uses beta (plain ODL, fresh interpreter).

For a functional with CONSTANT gradient g the article's Algorithm 1 gives m_hat_t = g and v_hat_t = g^2 in every step,
so every step is  -learning_rate * g / (|g| + eps)  = -learning_rate * sign(g)  (up to eps) whatever beta1 / beta2 are.
"""
import numpy as np
import odl

space = odl.rn(2)
g = space.element([3.0, -4.0])
f = odl.solvers.QuadraticForm(vector=g)             # f(x) = <g, x>, gradient = g everywhere
lr = 0.5
for beta1, beta2 in [(0.0, 0.0), (0.5, 0.75), (0.9, 0.999)]:
    x = space.zero()
    its = []
    odl.solvers.adam(f, x, learning_rate=lr, beta1=beta1, beta2=beta2, maxiter=4,
                     callback=lambda v: its.append(v.asarray().copy()))
    expected = [-(t + 1) * lr * np.sign(g.asarray()) for t in range(4)]
    print('beta1=%s beta2=%s' % (beta1, beta2))
    for t, (a, e) in enumerate(zip(its, expected), start=1):
        print('   t=%d  odl %-28s article %-16s %s' % (t, a, e, 'ok' if np.allclose(a, e, atol=1e-6) else 'DIFFERS'))

# the recursion of the article, written out, on a quadratic
A = np.array([[2.0, 1.0], [1.0, 3.0]])
b = np.array([1.0, -1.0])
q = odl.solvers.QuadraticForm(operator=odl.MatrixOperator(A / 2), vector=space.element(-b))
x = space.element([3.0, -2.0])
its = []
odl.solvers.adam(q, x, learning_rate=0.25, beta1=0.5, beta2=0.5, maxiter=3, callback=lambda v: its.append(v.asarray().copy()))
y, m, v = np.array([3.0, -2.0]), np.zeros(2), np.zeros(2)
for t in range(1, 4):
    grad = A.dot(y) - b
    m = 0.5 * m + 0.5 * grad
    v = 0.5 * v + 0.5 * grad ** 2
    y = y - 0.25 * (m / (1 - 0.5 ** t)) / (np.sqrt(v / (1 - 0.5 ** t)) + 1e-8)
    print('quadratic t=%d  odl %s  article %s  %s' % (t, its[t - 1], y, 'ok' if np.allclose(its[t - 1], y, atol=1e-6) else 'DIFFERS'))

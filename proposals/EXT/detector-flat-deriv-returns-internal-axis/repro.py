"""Flat1dDetector / Flat2dDetector.surface_deriv(single parameter) returns the internal axis array itself."""
import numpy as np
import odl
from odl.tomo.geometry.detector import Flat1dDetector, Flat2dDetector

det = Flat1dDetector(odl.uniform_partition(-1, 1, 4), axis=[1, 0])
print('surface(0.5) before:', det.surface(0.5))
tangent = det.surface_deriv(0.0)       # a query result ...
tangent *= 3                           # ... that the caller scales for its own purposes
print('surface(0.5) after :', det.surface(0.5), ' axis:', det.axis, ' measure:', det.surface_measure(0.0))
print('vectorised result writeable (a read-only broadcast view):', det.surface_deriv([0.0, 0.5]).flags.writeable)

det2 = Flat2dDetector(odl.uniform_partition([-1, -1], [1, 1], [4, 4]), axes=[(1, 0, 0), (0, 0, 1)])
d = det2.surface_deriv([0.0, 0.0])
d[0] = (0, 1, 0)
print('Flat2dDetector normal after writing into the returned derivative:', det2.surface_normal([0.0, 0.0]))

"""ParallelHoleCollimatorGeometry ignores det_radius unless orig_to_det_init is given."""
import numpy as np
import odl

apart = odl.uniform_partition(0, 2 * np.pi, 4)
dpart = odl.uniform_partition([-1, -1], [1, 1], [2, 2])
g = odl.tomo.ParallelHoleCollimatorGeometry(apart, dpart, det_radius=7)
print('det_radius            :', g.det_radius)
print('det_refpoint(0)       :', g.det_refpoint(0), ' distance from the rotation centre:', np.linalg.norm(g.det_refpoint(0)))
print('det_refpoint(pi / 2)  :', g.det_refpoint(np.pi / 2))
g2 = odl.tomo.ParallelHoleCollimatorGeometry(apart, dpart, det_radius=7, orig_to_det_init=(0, 1, 0))
print('with the DEFAULT direction given explicitly:', g2.det_refpoint(0))

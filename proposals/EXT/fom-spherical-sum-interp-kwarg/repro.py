import odl
from odl.contrib.fom import noise_power_spectrum
from odl.contrib.fom.util import spherical_sum
space = odl.uniform_discr([0, 0], [4, 4], (4, 4))
for name, call in [("spherical_sum", lambda: spherical_sum(space.one())),
                   ("noise_power_spectrum(radial=True)", lambda: noise_power_spectrum(space.one(), space.zero(), radial=True))]:
    try:
        r = call()
        print(name, "shape", r.shape, "sum", float(sum(r)))
    except ValueError as e:
        print("DEFECT:", name, "ValueError:", e)

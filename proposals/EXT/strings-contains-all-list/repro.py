import numpy as np
import odl
S = odl.Strings(2)
print('array :', S.contains_all(np.array(['ab', 'cd'])))     # True
try:
    print('list  :', S.contains_all(['ab', 'cd']))
except TypeError as e:
    print('list  : raises TypeError:', e)                     # documented: True if all strings in other have size length
    raise SystemExit(0)
raise AssertionError('not reproduced')

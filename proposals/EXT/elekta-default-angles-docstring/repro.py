"""elekta_icon_geometry / elekta_xvi_geometry: the default angles are not the documented ones."""
import numpy as np
from odl.contrib import tomo

g = tomo.elekta_icon_geometry()
doc = np.linspace(1.2, 5.0, 332)
print('icon: documented first / last angle', doc[0], doc[-1], ' actual', g.angles[0], g.angles[-1],
      ' max difference', np.max(np.abs(g.angles - doc)))
g = tomo.elekta_xvi_geometry()
doc = np.linspace(0, 2 * np.pi, 650, endpoint=False)
print('xvi : documented first / last angle', doc[0], doc[-1], ' actual', g.angles[0], g.angles[-1],
      ' difference (constant half a step)', g.angles[0] - doc[0])
print('xvi : documented default num_angles 332, actual', g.angles.size)

import numpy as np
from odl.contrib.fom import false_structures_mask
fg = np.array([[0, 0], [1, 0]])
print(false_structures_mask(fg))
try:
    print(false_structures_mask(fg.astype(bool)))
except TypeError as e:
    print("DEFECT: TypeError:", e)

"""documented: an even maxiter is only needed when domain != range; raised for a square MatrixOperator too."""
import numpy as np
import odl

op = odl.MatrixOperator(np.array([[2.0, 1.0], [1.0, 3.0]]))
assert op.domain == op.range
try:
    odl.power_method_opnorm(op, xstart=[1, 2], maxiter=5)
except ValueError as e:
    raise SystemExit('DOC/CODE MISMATCH: domain == range, odd maxiter raised: %s' % e)

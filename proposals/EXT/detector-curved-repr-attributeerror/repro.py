"""repr() / str() of the curved detectors raise AttributeError."""
import numpy as np
import odl
from odl.tomo.geometry.detector import CircularDetector, CylindricalDetector, SphericalDetector

p1 = odl.uniform_partition(-1, 1, 4)
p2 = odl.uniform_partition([-1, -1], [1, 1], [4, 4])
for det in (CircularDetector(p1, [1, 0], 2.0), CylindricalDetector(p2, [(1, 0, 0), (0, 0, 1)], 2.0),
            SphericalDetector(p2, [(1, 0, 0), (0, 0, 1)], 2.0)):
    for fun in (repr, str):
        try:
            print(fun(det))
        except Exception as ex:
            print(type(det).__name__, fun.__name__, 'RAISES', type(ex).__name__, ex)
# also reached through the geometries: repr(geom.detector), and any error message that formats the detector
geom = odl.tomo.FanBeamGeometry(odl.uniform_partition(0, 2 * np.pi, 4), p1, 3, 5, det_curvature_radius=2)
try:
    print(repr(geom.detector))
except Exception as ex:
    print('FanBeamGeometry(...).detector repr RAISES', type(ex).__name__, ex)

import odl
a = odl.IntervalProd(0, 1)
b = odl.IntervalProd([0, 0], [1, 1])
c = odl.IntervalProd([0, 0, 0], [1, 1, 1])
print('a == b                 :', a == b)                      # False
print('a.approx_equals(b, 0)  :', a.approx_equals(b, atol=0))  # True  <- a 1-d interval is not equal to a 2-d box
print('b.approx_equals(a, 0)  :', b.approx_equals(a, atol=0))  # True
try:
    print(b.approx_equals(c, atol=0))
except ValueError as e:
    print('b.approx_equals(c, 0) raises ValueError:', e)       # documented: returns True / False for any `other`
assert a.approx_equals(b, atol=0) is True

"""WeightedSumSamplingOperator (and hence SamplingOperator.adjoint) silently drops the imaginary part on complex spaces."""
import numpy as np
import odl

space = odl.cn(3)
op = odl.WeightedSumSamplingOperator(space, sampling_points=[1, 2, 1])
print('domain', op.domain, 'range', op.range)
g = op.domain.element([1j, 2 + 1j, 3])
print('W(g)     =', op(g))
print('expected =', space.element([0, 3 + 1j, 2 + 1j]))
assert np.allclose(op(g).asarray(), [0, 3 + 1j, 2 + 1j]), 'imaginary part lost'

"""CylindricalDetector / SphericalDetector: frame mirrored for axes = [(0, 1, 0), (0, 0, 1)]."""
import numpy as np
import odl
from odl.tomo.geometry.detector import CylindricalDetector, SphericalDetector

part = odl.uniform_partition([-1, -1], [1, 1], [4, 4])
for axes in ([(1, 0, 0), (0, 0, 1)], [(0, 1, 0), (0, 0, 1)], [(3, 4, 0), (0, 0, -1)]):
    for K in (CylindricalDetector, SphericalDetector):
        det = K(part, axes, 2.0)
        t = det.surface_deriv([0.0, 0.0])
        print(K.__name__, axes, ' tangent along the first parameter at 0:', np.round(t[0], 12),
              ' expected radius * axes[0] =', 2.0 * det.axes[0])

"""uniform_discr_fromdiscr does not take the value type from the template: "0 arguments: Return a copy of discr",
"the missing information is taken from the template space".  Plain ODL, no harness."""
import odl

bad = 0
for dtype in ('float64', 'float32', complex):
    discr = odl.uniform_discr([0, 0], [1, 2], (10, 5), dtype=dtype)
    copy = odl.uniform_discr_fromdiscr(discr)
    moved = odl.uniform_discr_fromdiscr(discr, min_pt=[1, 1])
    print(dtype, '-> copy == discr:', copy == discr, ' copy.dtype:', copy.dtype, ' translated dtype:', moved.dtype)
    bad += copy != discr
print('explicit dtype still wins:', odl.uniform_discr_fromdiscr(odl.uniform_discr(0, 1, 4, dtype=complex), dtype='float32').dtype)
raise SystemExit(1 if bad else 0)

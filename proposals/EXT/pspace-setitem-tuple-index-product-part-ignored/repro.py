"""z[i, j] = v / z[i, a:b] = v on a nested product-space element does nothing when the addressed part is itself a
product-space element (no error, no assignment)."""
import odl

r2 = odl.rn(2)
X = odl.ProductSpace(odl.ProductSpace(odl.ProductSpace(r2, r2), r2), r2)      # (((a, b), c), d)
z = X.zero()
z[0][0][:] = 7            # works: reference
print('z[0][0] after z[0][0][:] = 7 ->', z[0][0])
z = X.zero()
z[0, 0] = 7               # addressed part z[0][0] = (a, b) is a product element
print('z[0][0] after z[0, 0] = 7    ->', z[0][0], '   (read back: z[0, 0] =', z[0, 0], ')')
z = X.zero()
z[0, :] = 7               # addressed parts z[0][0] (product) and z[0][1] (tensor)
print('z[0]    after z[0, :] = 7    ->', z[0])
# one level less works:
Y = odl.ProductSpace(odl.ProductSpace(r2, r2), r2)
y = Y.zero()
y[0, 0] = 7
print('two levels: y[0, 0] = 7      ->', y[0][0])

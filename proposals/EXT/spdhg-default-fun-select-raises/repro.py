"""spdhg_generic / spdhg_pesquet: the documented default of `fun_select` (uniform serial sampling) raises."""
import numpy as np
import odl
from odl.contrib.solvers.spdhg import spdhg_generic, spdhg_pesquet, spdhg

X = odl.rn(2)
A1 = odl.MatrixOperator(np.array([[1., 2.], [0., 1.]]))
A2 = odl.MatrixOperator(np.array([[2., -1.]]))
A = odl.BroadcastOperator(A1, A2)
f = [0.5 * odl.solvers.L2NormSquared(A1.range).translated([1, 2]), 2 * odl.solvers.L1Norm(A2.range)]
g = 0.5 * odl.solvers.L2NormSquared(X)
for fn in (spdhg_generic, spdhg_pesquet, spdhg):
    x = X.element([1, 1])
    try:
        fn(x, f, g, A, 1.0, [1.0, 1.0], 3)
        print(fn.__name__, 'runs with the default selection, x =', x)
    except Exception as e:
        print(fn.__name__, 'RAISES', type(e).__name__ + ':', e)

import odl
g1 = odl.RectGrid([0, 1, 3])
g2 = odl.RectGrid([0, 1, 3], [5, 6])
print('g1.is_subgrid(g2):', g1.is_subgrid(g2))     # True  <- a 1-d grid is not a subgrid of a 2-d grid
print('[0] in g2        :', [0] in g2)             # False
try:
    g2.is_subgrid(g1)
except IndexError as e:
    print('g2.is_subgrid(g1) raises IndexError:', e)
assert g1.is_subgrid(g2) and [0] not in g2

"""sampling_function(f, domain) with an in-place-only f (required `out`) and the default out_dtype=None cannot be
evaluated out of place.  Run:  /venv/bin/python repro.py   (plain ODL, no harness)"""
import numpy as np
import odl
from odl.discr.discr_utils import sampling_function, point_collocation
from odl.discr.grid import sparse_meshgrid


def f(x, out):
    out[...] = x[0] + 2 * x[1]


domain = odl.IntervalProd([0, 0], [8, 8])
mesh = sparse_meshgrid([1., 2.], [3., 4., 5.])
w = sampling_function(f, domain)                      # out_dtype is optional: "Assume scalar float out dtype"
out = np.empty((2, 3))
w(mesh, out=out)
print('in place     :', out.tolist())                 # works
w64 = sampling_function(f, domain, out_dtype='float64')
print('float64 given:', w64(mesh).tolist())           # works
try:
    print('out of place :', point_collocation(w, mesh).tolist())
except TypeError as e:
    print('out of place : TypeError:', e)             # unsupported operand type(s) for +: 'NoneType' and 'tuple'
    raise SystemExit(1)

"""Plain ODL, no harness."""
import sys
import odl

X = odl.rn(2)
f = odl.solvers.QuadraticForm(vector=X.element([1.0, -0.5]))          # linear
q = odl.solvers.FunctionalQuadraticPerturb(f, linear_term=X.element([1.0, -0.5]), constant=1.0)
x = X.element([1.0, 1.0])
print('q.is_linear =', q.is_linear, '  q(0) =', q(X.zero()))
print('(q * 2)(x) =', (q * 2.0)(x), '  documented q(2 x) =', q(2.0 * x), '  type:', type(q * 2.0).__name__)
bad = q.is_linear and (q(X.zero()) != 0 or abs((q * 2.0)(x) - q(2.0 * x)) > 1e-12)
print('REPRODUCED' if bad else 'NOT-REPRODUCED')
sys.exit(1 if bad else 0)

"""NumericalGradient ignores the weighting of the space: on weighted spaces (rn(..., weighting=w), uniform_discr
with cell volume != 1) the returned element is w times the gradient (the Riesz representative of the derivative in
the inner product of the space), i.e. it contradicts  f.derivative(x)(d) == <f.gradient(x), d>  and the exact
gradients of the library's own functionals.  Plain ODL only; exit 1 while the defect is present."""
import sys
import numpy as np
import odl
from odl.solvers.functional.derivatives import NumericalGradient

bad = 0
for name, space in [('rn(3, weighting=4)', odl.rn(3, weighting=4.0)),
                    ('rn(3, weighting=[1,2,4])', odl.rn(3, weighting=[1.0, 2.0, 4.0])),
                    ('uniform_discr(0, 1.5, 3)  (cell volume 1/2)', odl.uniform_discr(0, 1.5, 3)),
                    ('uniform_discr([0,0],[4,4],(2,2))  (cell volume 4)', odl.uniform_discr([0, 0], [4, 4], (2, 2))),
                    ('rn(3)  (control, unweighted)', odl.rn(3))]:
    f = odl.solvers.L2NormSquared(space)          # exact values: a quadratic, all numbers below are dyadic
    x = space.one()
    exact = f.gradient(x).asarray().ravel()       # 2 x
    for method in ('forward', 'backward', 'central'):
        g = NumericalGradient(f, method=method, step=0.5)(x)
        # difference quotient in one coordinate direction (called e0) straight from the values
        e0 = space.zero()
        e0[tuple(n - 1 for n in space.shape)] = 1.0     # the last coordinate direction
        quot = {'forward': (f(x + 0.5 * e0) - f(x)) / 0.5, 'backward': (f(x) - f(x - 0.5 * e0)) / 0.5,
                'central': (f(x + 0.25 * e0) - f(x - 0.25 * e0)) / 0.5}[method]
        riesz = g.inner(e0)                       # <grad, e_0> must be that quotient
        ok = abs(riesz - quot) < 1e-12
        bad += (not ok)
        print('%-52s %-8s NumericalGradient=%s exact=%s  <g,e0>=%g quotient=%g  %s'
              % (name, method, g.asarray().ravel()[:3], exact[:3], riesz, quot, 'ok' if ok else 'CONTRADICTION'))
sys.exit(1 if bad else 0)

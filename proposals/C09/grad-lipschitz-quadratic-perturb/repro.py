"""Plain ODL, no harness."""
import sys
import odl

X = odl.rn(2)
f = odl.solvers.FunctionalQuadraticPerturb(odl.solvers.L2NormSquared(X), quadratic_coeff=1.0)
L = f.grad_lipschitz
x, y = X.element([1.0, 0.0]), X.element([0.0, 0.5])
ratio = (f.gradient(x) - f.gradient(y)).norm() / (x - y).norm()
print('claimed grad_lipschitz =', L, '  observed |g(x)-g(y)| / |x-y| =', ratio)
bad = ratio > L * (1 + 1e-9)
print('REPRODUCED' if bad else 'NOT-REPRODUCED')
sys.exit(1 if bad else 0)

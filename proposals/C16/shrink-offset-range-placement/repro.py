"""Plain ODL, no harness: ResizingOperator with an explicit offset on a SHRINKING axis places its range
on the wrong side of the domain.

    PYTHONPATH=/repo /venv/bin/python repro.py
"""
import odl

space = odl.uniform_discr(0, 5, 5)              # cells [0,1], [1,2], ..., [4,5]
x = space.element([10, 11, 12, 13, 14])         # value 10+i lives on the cell [i, i+1]

op = odl.ResizingOperator(space, ran_shp=(3,), offset=1)   # "remove 1 cell from the left" (and 1 from the right)
y = op(x)
print('op.offset      =', op.offset)
print('values         =', y.asarray())           # [11, 12, 13]: the cells [1,2], [2,3], [3,4]  (correct)
print('op.range       =', op.range)              # expected uniform_discr(1.0, 4.0, 3)
print('range.min_pt   =', op.range.min_pt, ' expected [1.]')

# same restriction with the default offset (which happens to be 1 as well) is placed correctly:
op_default = odl.ResizingOperator(space, ran_shp=(3,))
print('default offset =', op_default.offset, ' range =', op_default.range)

ok = abs(float(op.range.min_pt[0]) - 1.0) < 1e-12 and abs(float(op.range.max_pt[0]) - 4.0) < 1e-12
print('DEFECT REPRODUCED' if not ok else 'not reproduced')
raise SystemExit(0 if not ok else 1)

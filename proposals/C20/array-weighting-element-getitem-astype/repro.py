"""C20: on a tensor space with an ARRAY weighting, element indexing and astype to another float dtype raise.

Run with plain ODL:  python repro.py   (exit code 1 = defect present)
"""
import numpy as np
import odl

bad = 0
s = odl.rn((2, 3), weighting=np.arange(1.0, 7.0).reshape(2, 3))
x = s.element(np.arange(6.0).reshape(2, 3))
for idx in [0, (slice(None), 1), slice(0, 1), (slice(0, 1), slice(1, 3)), ([0, 1], [1, 0])]:
    try:
        ok = np.array_equal(x[idx].asarray(), x.asarray()[idx])
        print('x[%r]' % (idx,), 'commutes with asarray:', ok)
        bad += not ok
    except Exception as e:
        bad += 1
        print('x[%r] raises %s: %s' % (idx, type(e).__name__, e), '  (x.asarray()[idx] =', x.asarray()[idx].tolist(), ')')
for dt in ('float32', 'complex64'):
    try:
        print('astype(%s):' % dt, s.astype(dt))
    except Exception as e:
        bad += 1
        print('astype(%s) raises %s: %s' % (dt, type(e).__name__, e))
d = odl.uniform_discr(0, 1, 4, weighting=np.array([1.0, 2.0, 3.0, 4.0]))
try:
    print(d.one()[1:3])
except Exception as e:
    bad += 1
    print('discretised element [1:3] raises %s: %s' % (type(e).__name__, e))
raise SystemExit(1 if bad else 0)

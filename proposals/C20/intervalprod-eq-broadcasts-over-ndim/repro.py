"""C20: IntervalProd.__eq__ compares min_pt / max_pt with NumPy broadcasting and no check of ndim.

Run with plain ODL:  python repro.py   (exit code 1 = defect present)
"""
import odl

a = odl.IntervalProd(0, 1)                       # [0, 1]
b = odl.IntervalProd([0, 0], [1, 1])             # [0, 1]^2
c = odl.IntervalProd([0, 0, 0], [1, 1, 1])       # [0, 1]^3
bad = 0
print('[0,1] == [0,1]^2:', a == b, ' hashes equal:', hash(a) == hash(b))
bad += (a == b) is not False
print('[0,1]^2 == [0,1]:', b == a, ' [0,1] == [0,1]^3:', a == c)
try:
    r = (b == c)
    print('[0,1]^2 == [0,1]^3:', r, '' if r is False else '(but both equal [0,1]: not transitive)')
    bad += (b == a) and (a == c) and not r
except ValueError as e:
    print('[0,1]^2 == [0,1]^3 raises ValueError:', e)
    bad += 1
print('x in IntervalProd is fine:', 0.5 in a, [0.5, 0.5] in a)
raise SystemExit(1 if bad else 0)

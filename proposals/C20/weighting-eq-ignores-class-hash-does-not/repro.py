"""C20: weightings of the tensor-space and the product-space flavour compare equal (== looks at kind, impl,
exponent and constant / array identity / callable only), but their hashes include type(self).

Run with plain ODL:  python repro.py   (exit code 1 = defect present)
"""
import numpy as np
import odl
from odl.space.npy_tensors import (NumpyTensorSpaceConstWeighting, NumpyTensorSpaceArrayWeighting,
                                   NumpyTensorSpaceCustomInner)
from odl.space.pspace import ProductSpaceConstWeighting, ProductSpaceArrayWeighting, ProductSpaceCustomInner

arr = np.array([1.0, 2.0, 3.0])


def f(x, y):
    return 0.0


bad = 0
for a, b in [(NumpyTensorSpaceConstWeighting(2.0), ProductSpaceConstWeighting(2.0)),
             (NumpyTensorSpaceArrayWeighting(arr), ProductSpaceArrayWeighting(arr)),
             (NumpyTensorSpaceCustomInner(f), ProductSpaceCustomInner(f))]:
    print(type(a).__name__, 'vs', type(b).__name__, ': ==', a == b, b == a, ' hashes equal:', hash(a) == hash(b))
    bad += (a == b) and hash(a) != hash(b)
# it propagates to spaces (a Weighting instance is accepted as-is)
s1 = odl.rn(3, weighting=2.0)
s2 = odl.rn(3, weighting=ProductSpaceConstWeighting(2.0))
print('rn(3, weighting=2.0) == rn(3, weighting=ProductSpaceConstWeighting(2.0)):', s1 == s2,
      ' hashes equal:', hash(s1) == hash(s2))
bad += (s1 == s2) and hash(s1) != hash(s2)
raise SystemExit(1 if bad else 0)

"""C20: byaxis_in of a default-weighted discretised space with exponent inf is weighted by the cell volume,
whereas the default weighting for exponent inf is 1.0.

Run with plain ODL:  python repro.py   (exit code 1 = defect present)
"""
import odl

s = odl.uniform_discr([0, 0], [1, 1.5], (2, 3), exponent=float('inf'))
sub = s.byaxis_in[0]
ref = odl.uniform_discr(0, 1, 2, exponent=float('inf'))
print('space weighting      :', s.weighting)
print('byaxis_in[0] weighting:', sub.weighting)
print('uniform_discr(0, 1, 2, exponent=inf) weighting:', ref.weighting, '  equal spaces:', sub == ref)
print('||one||_inf:', sub.one().norm(), 'vs', ref.one().norm())
raise SystemExit(0 if sub == ref else 1)

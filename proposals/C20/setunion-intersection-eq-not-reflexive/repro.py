"""C20: SetUnion / SetIntersection equality is not reflexive (u == u is False), equal-by-documentation
unions compare unequal; hash() of SetUnion / SetIntersection / FiniteSet raises TypeError.

Run with plain ODL:  python repro.py   (exit code 1 = defect present)
"""
import odl

R, Z, C = odl.RealNumbers(), odl.Integers(), odl.ComplexNumbers()
bad = 0
for cls in (odl.SetUnion, odl.SetIntersection):
    u, v, w = cls(R, Z), cls(Z, R), cls(R, C)
    print(cls.__name__, 'u == u:', u == u, ' u == same subsets, other order:', u == v, ' u == other:', u == w)
    bad += (u == u) is not True
    bad += (u == v) is not True          # documented: "has the same subsets as this set"
    try:
        print('  hash:', hash(u) == hash(v))
    except TypeError as e:
        print('  hash raises TypeError:', e)    # not counted: a raising hash is not an unequal hash
cp = odl.CartesianProduct(odl.SetUnion(R, Z), odl.Strings(3))
cp2 = odl.CartesianProduct(odl.SetUnion(R, Z), odl.Strings(3))
print('CartesianProduct(SetUnion(R, Z), Strings(3)): same object ==', cp == cp, ' independent copy ==', cp == cp2)
bad += (cp == cp2) is not True
try:
    hash(odl.FiniteSet(1, 2, 3))
except TypeError as e:
    print('FiniteSet hash raises TypeError:', e)
raise SystemExit(1 if bad else 0)

"""C20: byaxis / byaxis_in on array-weighted spaces index the weighting array by ENTRIES instead of by axes.

Run with plain ODL:  python repro.py   (exit code 1 = defect present)
"""
import numpy as np
import odl

bad = 0
w = np.array([[1.0, 2.0], [3.0, 4.0]])
s = odl.rn((2, 2), weighting=w)
t = s.byaxis[[1, 0]]                      # the transposed space: its weights should be w.T
print('byaxis[[1, 0]] weights:', t.weighting.array.tolist(), ' expected (transposed):', w.T.tolist())
bad += not np.array_equal(t.weighting.array, w.T)
r = odl.rn(3, weighting=[1.0, 2.0, 3.0])
for what, fn in [('rn(3, w).byaxis[0]', lambda: r.byaxis[0]),
                 ('rn((2,3), w).byaxis[[0, 1]]',
                  lambda: odl.rn((3, 2), weighting=np.ones((3, 2))).byaxis[[0, 1]]),
                 ('uniform_discr(0, 1, 4, weighting=array).byaxis_in[0]',
                  lambda: odl.uniform_discr(0, 1, 4, weighting=np.array([1.0, 2, 3, 4])).byaxis_in[0])]:
    try:
        fn()
        print(what, 'ok')
    except Exception as e:
        bad += 1
        print(what, 'raises %s: %s' % (type(e).__name__, e))
raise SystemExit(1 if bad else 0)

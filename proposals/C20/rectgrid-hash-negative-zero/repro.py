"""C20: RectGrid.__eq__ compares coordinates as numbers (0.0 == -0.0), __hash__ hashes their bytes.

Run with plain ODL:  python repro.py   (exit code 1 = defect present)
"""
import numpy as np
import odl

g1 = odl.RectGrid([-1.0, -0.5, 0.0])
g2 = odl.RectGrid(-np.array([1.0, 0.5, 0.0]))         # last coordinate is -0.0
print('coords', g1.coord_vectors[0], g2.coord_vectors[0])
print('g1 == g2:', g1 == g2, ' hash(g1) == hash(g2):', hash(g1) == hash(g2))
bad = (g1 == g2) and hash(g1) != hash(g2)
iv = odl.IntervalProd(-1, 0)
p1, p2 = odl.RectPartition(iv, g1), odl.RectPartition(iv, g2)
print('partitions: ==', p1 == p2, ' hashes equal:', hash(p1) == hash(p2))
bad = bad or ((p1 == p2) and hash(p1) != hash(p2))
s1 = odl.uniform_discr_frompartition(p1)
s2 = odl.uniform_discr_frompartition(p2)
print('discretised spaces: ==', s1 == s2, ' hashes equal:', hash(s1) == hash(s2), ' as dict keys:', len({s1: 1, s2: 2}))
raise SystemExit(1 if bad else 0)

"""C20: ProductSpace.astype / real_space / complex_space / slicing / list indexing return UNWEIGHTED spaces
with exponent 2, whatever the weighting and exponent of the original.

Run with plain ODL:  python repro.py   (exit code 1 = defect present)
"""
import odl

bad = 0
ps = odl.ProductSpace(odl.rn(3), 3, weighting=2.0)
pa = odl.ProductSpace(odl.rn(3), 3, weighting=[1.0, 2.0, 3.0])
pe = odl.ProductSpace(odl.rn(3), 3, exponent=1)
for name, sp in (('const 2.0', ps), ('array [1,2,3]', pa), ('exponent 1', pe)):
    for what, fn in (("astype('float32')", lambda s: s.astype('float32')), ('complex_space', lambda s: s.complex_space),
                     ('real_space', lambda s: s.complex_space.real_space), ('[0:2]', lambda s: s[0:2]),
                     ('[[2, 0]]', lambda s: s[[2, 0]]), ('[:]', lambda s: s[:])):
        r = fn(sp)
        lost = (r.weighting.exponent != sp.weighting.exponent or type(r.weighting) is not type(sp.weighting)
                or getattr(r.weighting, 'const', None) != getattr(sp.weighting, 'const', None))
        bad += lost
        print('%-14s %-18s -> weighting %r%s' % (name, what, r.weighting, '   <-- dropped' if lost else ''))
print('consequence: x[0:2] of a weighted product space lives in an unweighted one:',
      ps.one()[0:2].norm(), 'vs', odl.ProductSpace(odl.rn(3), 2, weighting=2.0).one().norm())
raise SystemExit(1 if bad else 0)

"""C20: product-space element indexing x[slice, slice] raises TypeError although x.asarray()[slice, slice] is fine
(and x[:, -1] silently returns EMPTY components).

Run with plain ODL:  python repro.py   (exit code 1 = defect present)
"""
import numpy as np
import odl

ps = odl.ProductSpace(odl.rn(3), 3)
x = ps.element(np.arange(9.0).reshape(3, 3))
bad = 0
try:
    r = x[0:2, 0:2]
    ok = np.array_equal(r.asarray(), x.asarray()[0:2, 0:2])
    print('x[0:2, 0:2] commutes with asarray:', ok)
    bad += not ok
except TypeError as e:
    bad += 1
    print('x[0:2, 0:2] raises TypeError:', e, '  (x.asarray()[0:2, 0:2] =', x.asarray()[0:2, 0:2].tolist(), ')')
print('x[:, -1] =', [p.asarray().tolist() for p in x[:, -1]], ' x.asarray()[:, -1] =', x.asarray()[:, -1].tolist())
raise SystemExit(1 if bad else 0)

"""Plain ODL, no harness."""
import sys
import odl

X = odl.rn(3)
A = odl.ScalingOperator(X, 2.0)
b = X.element([1.0, -0.5, 1.0])
f = odl.solvers.QuadraticForm(operator=A, vector=b, constant=1.0)
x = X.element([1.0, 2.0, -1.0])
y = f.gradient(x)
fc = f.convex_conj
lhs, rhs = f(x) + fc(y), x.inner(y)
print('f(x) + f*(grad f(x)) =', lhs, '   <x, grad f(x)> =', rhs)
print('f(x) =', f(x), '   f**(x) =', fc.convex_conj(x))
bad = abs(lhs - rhs) > 1e-9 or abs(f(x) - fc.convex_conj(x)) > 1e-9
print('REPRODUCED' if bad else 'NOT-REPRODUCED')
sys.exit(1 if bad else 0)

"""GroupL1Norm(pspace, exponent=1 or inf).convex_conj is not the convex conjugate on a WEIGHTED power space.

With component weights w_j (pspace.weighting; PointwiseNorm uses them, as documented) the functionals are
    p = 1  : f(x) = sum_t V sum_j w_j |x_j(t)|          p = inf : f(x) = sum_t V max_j w_j |x_j(t)|
and in the inner product of pspace, <x, y> = sum_t V sum_j w_j x_j(t) y_j(t), their conjugates are the indicators of
    { max_j |y_j(t)| <= 1 }   (UN-weighted max)         { sum_j |y_j(t)| <= 1 }   (UN-weighted sum).
ODL returns IndicatorGroupL1UnitBall(pspace, conj_exponent), whose point-wise norm is weighted again:
    { max_j w_j |y_j(t)| <= 1 }                         { sum_j w_j |y_j(t)| <= 1 }.
For w_j > 1 the Fenchel-Young EQUALITY at y = f.gradient(x) fails (f*(grad f(x)) = inf), for w_j < 1 the Fenchel-Young
INEQUALITY f(x) + f*(y) >= <x, y> fails.  Exponent 2 is fine (the weighted 2-norm is self-dual in the weighted pairing).
Plain ODL, no harness.  Exit code 1 = defect present.
"""
import sys
import numpy as np
import odl

bad = 0
X = odl.rn(2)
for weighting in ([1.0, 4.0], 4.0, [0.25, 1.0]):
    P = odl.ProductSpace(X, 2, weighting=weighting)
    for e in (1, np.inf, 2):
        f = odl.solvers.GroupL1Norm(P, exponent=e)
        fc = f.convex_conj
        x = P.element([[3.0, -0.5], [0.5, 2.0]])
        # equality at the gradient (exponent 1: sign(x); exponent 2: x / |x|_w)
        if e != np.inf:
            g = f.gradient(x)
            lhs, rhs = f(x) + fc(g), x.inner(g)
            ok = np.isfinite(lhs) and abs(lhs - rhs) <= 1e-9 * max(1, abs(rhs))
            print('weighting', weighting, 'exponent', e, ': f(x) + f*(grad f(x)) =', lhs, '  <x, grad f(x)> =', rhs, '' if ok else '  <-- equality fails')
            bad += 0 if ok else 1
        # inequality on a few dual points (second primal point: mass in the component with the small weight)
        for x in (x, P.element([[3.0, 0.0], [0.0, 0.0]])):
          for yv in ([[2.0, 2.0], [0.0, 0.0]], [[2.0, 0.0], [2.0, 0.0]], [[1.0, 1.0], [1.0, 1.0]], [[0.0, 0.0], [3.0, -3.0]]):
              y = P.element(yv)
              lhs, rhs = f(x) + fc(y), x.inner(y)
              if lhs < rhs - 1e-9:
                  print('weighting', weighting, 'exponent', e, ': f(x) + f*(y) =', lhs, ' < <x, y> =', rhs, ' at y =', yv)
                  bad += 1
print('DEFECT' if bad else 'ok')
sys.exit(1 if bad else 0)

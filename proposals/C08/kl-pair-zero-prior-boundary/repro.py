"""Plain ODL, no harness."""
import sys
import numpy as np
import odl

X = odl.rn(3)
g = X.element([0.0, 2.0, 1.0])
f = odl.solvers.KullbackLeibler(X, prior=g)
fc = f.convex_conj
x, y = X.element([1.0, 1.0, 1.0]), X.element([2.0, 0.0, 0.0])
with np.errstate(all='ignore'):
    a = f(x) + fc(y)
    print('(a) f(x) + f*(y) =', a, '  <x, y> =', x.inner(y), '  f*(y) =', fc(y))
    bad_a = a < x.inner(y) - 1e-9
    yy = X.element([0.5, 0.5, 0.5])
    xx = fc.gradient(yy)
    b = fc(yy) + fc.convex_conj(xx)
    print('(b) h(y) + h*(grad h(y)) =', b, '  <y, grad> =', yy.inner(xx), '  grad =', xx)
    bad_b = not np.isfinite(b)
print('part (a):', 'REPRODUCED' if bad_a else 'NOT-REPRODUCED', '  part (b):', 'REPRODUCED' if bad_b else 'NOT-REPRODUCED')
sys.exit(1 if (bad_a or bad_b) else 0)

"""Plain ODL, no harness:  /venv/bin/python repro.py   (exit 1 = defect present)"""
import numpy as np
import odl

bad = 0
for attr in ('coord_vectors', 'meshgrid', 'min_pt', 'max_pt', 'cell_boundary_vecs'):
    grid = odl.RectGrid([0., 1., 3.])
    p1 = odl.RectPartition(odl.IntervalProd(-0.5, 4), grid)
    p2 = odl.RectPartition(odl.IntervalProd(-2, 3), grid)          # sibling on the SAME grid object
    before = (p1.cell_boundary_vecs[0].copy(), p1.coord_vectors[0].copy(), p1.min_pt.copy(), p1.max_pt.copy(),
              p2.coord_vectors[0].copy())
    got = getattr(p1, attr)
    arrs = list(got) if isinstance(got, tuple) else [got]
    refused = False
    for a in arrs:
        try:
            a[...] = a + 1            # the caller modifies what it was handed
        except ValueError:
            refused = True            # read-only: fine, the partition is unaffected
    after = (p1.cell_boundary_vecs[0], p1.coord_vectors[0], p1.min_pt, p1.max_pt, p2.coord_vectors[0])
    changed = [n for n, b, a in zip(('p1.cell_boundary_vecs', 'p1.coord_vectors', 'p1.min_pt', 'p1.max_pt', 'sibling p2.coord_vectors'),
                                    before, after) if not np.array_equal(a, b)]
    consistent = np.allclose(p1.cell_boundary_vecs[0][1:-1], (p1.coord_vectors[0][1:] + p1.coord_vectors[0][:-1]) / 2) and \
        p1.cell_boundary_vecs[0][0] == p1.min_pt[0]
    print('%-20s write %s; changed: %s; boundaries still midpoints / start at min_pt: %s'
          % (attr, 'refused' if refused else 'accepted', changed or 'nothing', consistent))
    bad += bool(changed)
print('DEFECT PRESENT' if bad else 'ok')
raise SystemExit(1 if bad else 0)

"""Plain ODL, no harness:  /venv/bin/python repro.py   (exit 1 = defect present)"""
import odl

bad = 0
# per-side flags for a 1-d partition written as a flat pair (the spelling normalized_nodes_on_bdry and
# uniform_grid_fromintv explicitly accept) versus the nested spelling [(L, R)]
for kw in (dict(min_pt=0, shape=3, cell_sides=1), dict(max_pt=4, shape=3, cell_sides=1),
           dict(min_pt=0, max_pt=2.5, cell_sides=1), dict(min_pt=0, max_pt=2.5, shape=3, cell_sides=1)):
    ref = odl.uniform_partition(nodes_on_bdry=[(True, False)], **kw)
    try:
        got = odl.uniform_partition(nodes_on_bdry=(True, False), **kw)
        same = got == ref
        print(sorted(kw), 'nested ->', ref.min_pt, ref.max_pt, ref.cell_sides, '| flat ->', got.min_pt, got.max_pt, got.cell_sides)
    except Exception as e:
        same = False
        print(sorted(kw), 'nested ->', ref.min_pt, ref.max_pt, '| flat -> raises', type(e).__name__, e)
    bad += not same
try:
    odl.nonuniform_partition([0, 1, 3], nodes_on_bdry=(False, True))
except TypeError as e:
    print('nonuniform_partition([0, 1, 3], nodes_on_bdry=(False, True)) raises TypeError:', e)
    bad += 1
print('DEFECT PRESENT' if bad else 'ok')
raise SystemExit(1 if bad else 0)

"""Plain ODL, no harness:  /venv/bin/python repro.py   (exit 1 = defect present)"""
import numpy as np
import odl

p = odl.uniform_partition([0, 0], [1, 2], (3, 1))
print('cell_boundary_vecs:', p.cell_boundary_vecs)
print('cell_sizes_vecs   :', p.cell_sizes_vecs)
print('extent            :', p.extent, ' cell_sides:', p.cell_sides)
sums = np.array([cs.sum() for cs in p.cell_sizes_vecs])
bad = not np.allclose(sums, p.extent)
print('sum of cell sizes per axis', sums, '!= extent' if bad else '== extent')
print('DEFECT PRESENT' if bad else 'ok')
raise SystemExit(1 if bad else 0)

#!/bin/sh
# setup_cmd: nothing is built or fetched. Parse every TLA+ module with SANY, byte-compile nothing
# (PYTHONDONTWRITEBYTECODE), and check that the tools the checks need are present.
cd "$(dirname "$0")" || exit 2
command -v java >/dev/null || { echo "java missing"; exit 2; }
[ -f /opt/veriftools/tla/tla2tools.jar ] || { echo "tla2tools.jar missing"; exit 2; }
[ -x /venv/bin/python ] || { echo "/venv/bin/python missing"; exit 2; }
mkdir -p .work evidence replays
LIB="$PWD/spec/num:$PWD/spec/sem:$PWD/spec/mach:$PWD/spec/impl:$PWD/spec/trace:$PWD/spec/cfg"
fail=0
for f in spec/*/*.tla; do
  out=$(cd "$(dirname "$f")" && java -DTLA-Library="$LIB" -cp /opt/veriftools/tla/tla2tools.jar:/opt/veriftools/tla/CommunityModules-deps.jar tla2sany.SANY "$(basename "$f")" 2>&1)
  if echo "$out" | grep -qiE "^\*\*\* Errors|Fatal errors|Could not|Unknown operator|Lexical error|Parse Error"; then
    echo "WARNING: SANY could not parse $f (a check that needs it will report a machinery failure)"; echo "$out" | grep -v "^Parsing\|^Semantic\|^Linting" | head -8
  fi
done
PYTHONDONTWRITEBYTECODE=1 PYTHONPATH="/repo:$PWD" /venv/bin/python -c "import odl, numpy, scipy, harness.common, harness.tlc, harness.exact, harness.concrete" || fail=1
[ $fail = 0 ] && echo "setup ok"
exit $fail

"""./vcheck <id> [--tier quick|thorough]   |   ./vcheck replay <path>   |   ./vcheck list"""
import importlib
import json
import os
import sys

VERIF = os.path.dirname(os.path.dirname(os.path.abspath(__file__)))


def main(argv):
    if not argv:
        print(__doc__)
        return 2
    import warnings
    warnings.filterwarnings('ignore')
    if argv[0] == 'replay':
        path = argv[1]
        with open(path) as f:
            body = json.load(f)
        mod = importlib.import_module('harness.checks.' + body['property'].lower())
        return mod.replay(body)
    prop = argv[0].upper()
    tier = os.environ.get('VERIF_TIER', 'quick')
    if '--tier' in argv:
        tier = argv[argv.index('--tier') + 1]
    seed = int(os.environ.get('VERIF_SEED', '0') or 0)
    import odl
    repo = os.environ.get('VERIF_REPO', '/repo')
    if not os.path.abspath(odl.__file__).startswith(os.path.abspath(repo) + os.sep):
        print('MACHINERY-FAILURE: odl imported from %s, expected under %s' % (odl.__file__, repo))
        return 2
    from harness.common import run_check
    mod = importlib.import_module('harness.checks.' + prop.lower())
    return run_check(prop, mod.run, tier, seed)


if __name__ == '__main__':
    sys.exit(main(sys.argv[1:]))

"""Binding self-test of Trace_FuncMachine (C07 / C08 / C09):  /venv/bin/python -m harness.selftest_func

Records a few events from REAL ODL functionals, shows that TLC accepts them, then corrupts one field of each
(and, for the proximal event, three fields at once so that the printed clause set is long enough for TLC's
pretty-printer to wrap it over several lines) and shows that TLC rejects exactly those events.
"""
import copy
import os
import random
import shutil
import sys
import tempfile
from fractions import Fraction

from . import funcutil as fu
from .checks import c08, c09
from .checks.c07 import mkf


class _Ctx(object):
    def __init__(self):
        base = os.path.join(os.path.dirname(os.path.dirname(os.path.abspath(__file__))), '.work')
        os.makedirs(base, exist_ok=True)
        self.work = tempfile.mkdtemp(dir=base)
        self.runs = []

    def add_tlc(self, name, res, expect='ok'):
        self.runs.append((name, res.status))
        if res.status != 'ok':
            raise RuntimeError('TLC run failed: %s\n%s' % (res.status, res.output[-2000:]))


def main():
    H = Fraction(1, 2)
    sp = fu.sp_desc('discr', 1, 2, [2, 2])
    rnd = random.Random(0)
    q = lambda vs: [fu.qj(Fraction(v)) for v in vs]
    # --- a proximal event (C07)
    f1 = mkf('Translate', u=[1, -H], args=[mkf('L1')])
    B1 = fu.Built(sp, f1)
    e_prox, info = fu.observe_prox(B1, q([H, H]), 's', [Fraction(3), Fraction(-1, 2)], None, rnd)
    # --- a Fenchel-Young event with equality at the gradient (C08)
    f2 = mkf('LScale', 2, args=[mkf('L2sq')])
    B2 = fu.Built(sp, f2)
    res = c08._new_res()
    c08.observe_program(B2, [q([1, -H])], [q([H, 1])], [], [{'sig': q([H, H]), 'x': q([1, -H]), 'nz': 0, 'z': []}],
                        rnd, res, 'selftest', sp, f2, 'selftest', True, 4)
    e_fy = [e for e, _ in res['events'] if e['k'] == 'fy' and e['atgrad'] == 1][0]
    e_mor = [e for e, _ in res['events'] if e['k'] == 'moreau'][0]
    # --- a gradient event and a Lipschitz event (C09)
    B3 = c09.GB(sp, f2)
    res3 = c09._new_res()
    x, g, _ = c09.observe_point(B3, q([1, -H]), [q([1, 2])], res3, 'selftest', sp, f2, 'selftest', deg=2)
    y, h, _ = c09.observe_point(B3, q([-3, 4]), [q([1, 2])], res3, 'selftest', sp, f2, 'selftest', deg=2)
    c09.lipschitz(B3, [(q([1, -H]), x, g), (q([-3, 4]), y, h)], res3, 'selftest', sp, f2, 'selftest')
    e_grad = [e for e, _ in res3['events'] if e['k'] == 'grad'][0]
    e_lip = [e for e, _ in res3['events'] if e['k'] == 'lip'][0]
    good = [e_prox, e_fy, e_mor, e_grad, e_lip]
    bad = copy.deepcopy(good)
    # corruptions: one lattice step in p + f(p) declared infinite-free but a probe made better + not idempotent
    bad[0]['p'][0] = fu.qj(fu.fr(bad[0]['p'][0]) + Fraction(1, 4))
    bad[0]['probes'][0]['Fq'] = bad[0]['Fpq'] - 10 * fu.PROBE_SLACKQ
    bad[0]['probes'][1]['fz'] = fu.qj(fu.fr(bad[0]['probes'][1]['fz']) + 1) if fu.known(bad[0]['probes'][1]['fz']) else [7, 1]
    bad[1]['cy'] = fu.qj(fu.fr(bad[1]['cy']) + Fraction(1, 8))
    bad[1]['cyq'] += fu.QSCALE // 8
    bad[2]['q'][1] = fu.qj(fu.fr(bad[2]['q'][1]) + Fraction(1, 4))
    bad[3]['gd'] = fu.qj(fu.fr(bad[3]['gd']) + 1)
    bad[3]['fx'] = fu.qj(fu.fr(bad[3]['fx']) + 1)
    bad[3]['g'][0] = fu.qj(fu.fr(bad[3]['g'][0]) + Fraction(1, 2))
    bad[4]['L'] = fu.qj(fu.fr(bad[4]['L']) / 2)
    ctx = _Ctx()
    try:
        for i, e in enumerate(good):
            e['id'] = i
        ok = fu.validate_events(ctx, good, 'good')
        for i, e in enumerate(bad):
            e['id'] = i
        rej = fu.validate_events(ctx, bad, 'bad')
    finally:
        shutil.rmtree(ctx.work, ignore_errors=True)
    print('recorded events accepted by TLC :', 'yes' if not ok else 'NO %r' % ok)
    for i in range(len(bad)):
        txt = ', '.join(rej.get(i, []))
        print('corrupted %-6s event %d rejected: %s  (%d characters of clause text)' % (bad[i]['k'], i, txt or 'NO', len(txt)))
    fine = (not ok) and all(i in rej for i in range(len(bad))) and max(len(', '.join(v)) for v in rej.values()) > 80
    print('SELFTEST', 'PASSED' if fine else 'FAILED')
    return 0 if fine else 1


if __name__ == '__main__':
    sys.exit(main())

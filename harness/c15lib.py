"""C15 helpers: abstract functions / grids / interpolation queries <-> real ODL calls.

Only *performs* calls (under every calling convention) and *projects* results onto exact rationals.
Expected values come from the TLA+ specification (exported cases) or are decided by TLC when it
validates the recorded events (Trace_Interp).
"""
from fractions import Fraction
from math import gcd
import numpy as np
import odl
from odl.discr.discr_utils import (nearest_interpolator, linear_interpolator, per_axis_interpolator,
                                   sampling_function, point_collocation)
from odl.discr.grid import sparse_meshgrid
from .exact import snap, snap_c, OFF

NANQ = [0, 0]
NANC = [[0, 0], [0, 0]]


# ------------------------------------------------------------------ exact <-> float
def fq(q):
    return Fraction(q[0], q[1])


def flt(q):
    return float(Fraction(q[0], q[1]))


def cplx(c):
    return complex(flt(c[0]), flt(c[1]))


def _qj(fr):
    return [int(fr.numerator), int(fr.denominator)]


def lcm_den(vals, start=1):
    """common denominator of a nested list of Q / C json values"""
    D = start

    def walk(v):
        nonlocal D
        if isinstance(v, list) and len(v) == 2 and all(isinstance(t, int) for t in v):
            if v[1] > 0:
                D = D * v[1] // gcd(D, v[1])
        elif isinstance(v, list):
            for t in v:
                walk(t)
    walk(vals)
    return D


def proj_c(z, D, dtype):
    """one observed number -> C json ([[n,d],[n,d]]), NaN token if off the lattice"""
    z = complex(z)
    a = snap(z.real, D, dtype)
    b = snap(z.imag, D, dtype)
    if a == OFF or b == OFF or a != a or b != b or abs(a) == float('inf') or abs(b) == float('inf'):
        return NANC
    return [_qj(Fraction(a)), _qj(Fraction(b))]


def proj_arr(arr, D, dtype):
    return [proj_c(z, D, dtype) for z in np.asarray(arr).ravel(order='C')]


def is_real_vals(vals):
    return all(v[1] == [0, 1] for v in vals)


def is_int_vals(vals):
    return all(v[1] == [0, 1] and v[0][1] == 1 for v in vals)


def np_values(vals, shape, dtype):
    """exact C values -> ndarray of dtype (values are exactly representable by construction)"""
    dt = np.dtype(dtype)
    if dt.kind == 'c':
        a = np.array([cplx(v) for v in vals], dtype=dt)
    elif dt.kind in 'iu':
        a = np.array([int(fq(v[0])) for v in vals], dtype=dt)
    else:
        a = np.array([flt(v[0]) for v in vals], dtype=dt)
    return a.reshape(shape)


def token(mi):
    return 'n' + '_'.join(str(i) for i in mi)


def str_values(shape, width):
    a = np.empty(shape, dtype='U%d' % width)
    for mi in np.ndindex(*shape):
        a[mi] = token(mi)
    return a


def untoken(s):
    try:
        return [int(t) for t in str(s)[1:].split('_')]
    except Exception:
        return [-1]


# ------------------------------------------------------------------ spaces
def aff_of(conc):
    """affine change of coordinates of a concretisation: [offset, log2(scale)] -> (offset, scale) ; exact in float64"""
    a = conc.get('affine') if conc else None
    return (0.0, 1.0) if not a else (float(a[0]), 2.0 ** int(a[1]))


def cvs_float(cvs, aff=(0.0, 1.0)):
    return [np.array([aff[0] + aff[1] * flt(g) for g in cv], dtype=float) for cv in cvs]


def space_for(cvs, dtype, kind='nonuniform', degenerate=False):
    cf = cvs_float(cvs)
    # a one-node axis gets the unit cell around its node, or (degenerate=True) the default zero-extent axis min = max = node
    mins = [None if (len(c) > 1 or degenerate) else float(c[0]) - 0.5 for c in cf]
    maxs = [None if (len(c) > 1 or degenerate) else float(c[0]) + 0.5 for c in cf]
    part = odl.nonuniform_partition(*cf, min_pt=mins, max_pt=maxs)
    if kind == 'uniform_discr':
        if not part.is_uniform:
            return None
        return odl.uniform_discr_frompartition(part, dtype=dtype)
    return odl.DiscretizedSpace(part, odl.tensor_space(part.shape, dtype=dtype))


def unit_space(sp, dtype):
    """sp: per axis {'b': Q, 'n', 'L', 'R', 'nu': explicit nodes or []} -> discretisation of prod [0, b_k]"""
    if all(not s['nu'] for s in sp):
        return odl.uniform_discr([0.0] * len(sp), [flt(s['b']) for s in sp], [s['n'] for s in sp], dtype=dtype,
                                 nodes_on_bdry=[(bool(s['L']), bool(s['R'])) for s in sp])
    part = None
    for s in sp:
        if s['nu']:
            p = odl.nonuniform_partition([flt(v) for v in s['nu']], min_pt=0.0, max_pt=flt(s['b']))
        else:
            p = odl.uniform_partition(0.0, flt(s['b']), s['n'], nodes_on_bdry=[(bool(s['L']), bool(s['R']))])
        part = p if part is None else part.append(p)
    return odl.DiscretizedSpace(part, odl.tensor_space(part.shape, dtype=dtype))


def grid_q(space):
    """coordinate vectors of a space as json Q lists (dyadic by construction -> exact)"""
    return [[_qj(Fraction(float(v))) for v in cv] for cv in space.grid.coord_vectors]


# ------------------------------------------------------------------ callables for an abstract polynomial
def terms_of(poly, complex_coeff):
    out = []
    for m in poly:
        c = cplx(m['c'])
        if not complex_coeff:
            c = int(fq(m['c'][0])) if fq(m['c'][0]).denominator == 1 else flt(m['c'][0])
        out.append((c, list(m['e'])))
    return out


def make_callable(poly, ndim, conv, dtype):
    """The abstract function  x -> sum_m c_m prod_k x_k^e_mk  under calling convention `conv`."""
    is_c = np.dtype(dtype).kind == 'c'
    terms = terms_of(poly, is_c)

    def value(x, full=False):
        res = 0
        for c, e in terms:
            t = c
            for k, p in enumerate(e):
                if p:
                    t = t * x[k] ** p
            res = res + t
        if full:
            for k in range(ndim):
                res = res + 0 * x[k]
        return res

    if conv == 'native':            # natively vectorised; partial-coordinate functions return a broadcastable
        return lambda x: value(x)   # array, constants a Python scalar
    if conv == 'native_full':       # natively vectorised, result already has the full shape
        return lambda x: value(x, True)
    if conv == 'npscalar':          # constant returned as a NumPy scalar / 0-d array
        return lambda x: np.asarray(value(x), dtype=dtype)[()] if np.ndim(value(x)) == 0 else value(x)
    if conv == 'vectorize':         # written for one point, wrapped with the library's decorator
        return odl.util.vectorize(otypes=[dtype])(lambda x: value(x))
    if conv == 'vectorize_bare':
        @odl.util.vectorize
        def g(x):
            return value(x)
        return g
    if conv == 'inplace':           # in-place only: mandatory `out`

        def f_ip(x, out):
            out[:] = value(x)
        return f_ip
    if conv == 'dual':              # optional `out`

        def f_dual(x, out=None):
            if out is None:
                return value(x)
            out[:] = value(x)
            return out
        return f_dual
    if conv == 'kwonly_out':

        def f_kw(x, *, out=None):
            if out is None:
                return value(x, True)
            out[:] = value(x)
        return f_kw
    if conv == 'object':            # callable object

        class Fn(object):
            def __call__(self, x):
                return value(x)
        return Fn()
    if conv == 'ufunc':             # a NumPy ufunc (only for x -> -x in 1-d)
        return np.negative
    raise ValueError(conv)


def conventions(pname, poly, ndim):
    c = ['native', 'native_full', 'vectorize', 'vectorize_bare', 'inplace', 'dual', 'kwonly_out', 'object']
    if all(all(p == 0 for p in m['e']) for m in poly):
        c.append('npscalar')
    if pname == 'neg' and ndim == 1:
        c.append('ufunc')
    return c


SAMPLE_APIS = ['element', 'collocation', 'collocation_out', 'pointarray', 'pointarray_out', 'single']


def sample_real(cvs, poly, conv, api, dtype, space_kind='nonuniform'):
    """-> ndarray of samples (C order, space shape) obtained through the real code"""
    ndim = len(cvs)
    space = space_for(cvs, dtype, space_kind)
    if space is None:
        return None
    func = make_callable(poly, ndim, conv, dtype)
    if api == 'element':
        return space.element(func).asarray()
    sf = sampling_function(func, space.domain, out_dtype=dtype)
    if api == 'collocation':
        return np.asarray(point_collocation(sf, space.meshgrid))
    if api == 'collocation_out':
        out = np.full(space.shape, 7777 if np.dtype(dtype).kind in 'iu' else np.nan, dtype=dtype)
        r = point_collocation(sf, space.meshgrid, out=out)
        if r is not out:
            raise AssertionError('point_collocation did not return `out`')
        return out
    pts = space.points().T          # (ndim, N)
    if api == 'pointarray':
        return np.asarray(sf(pts)).reshape(space.shape)
    if api == 'pointarray_out':
        out = np.full(pts.shape[1], 7777 if np.dtype(dtype).kind in 'iu' else np.nan, dtype=dtype)
        sf(pts, out=out)
        return out.reshape(space.shape)
    if api == 'single':
        vals = [sf(float(p[0]) if ndim == 1 else p) for p in pts.T]
        return np.array(vals, dtype=dtype).reshape(space.shape)
    raise ValueError(api)


# ------------------------------------------------------------------ interpolators
def make_interpolator(f, cvs_f, schemes, which):
    if which == 'nearest':
        return nearest_interpolator(f, cvs_f)
    if which == 'linear':
        return linear_interpolator(f, cvs_f)
    if which == 'per_axis':
        return per_axis_interpolator(f, cvs_f, list(schemes))
    if which == 'per_axis_str':
        return per_axis_interpolator(f, cvs_f, schemes[0])
    raise ValueError(which)


def interpolators_for(schemes):
    if all(s == 'nearest' for s in schemes):
        return ['nearest', 'per_axis', 'per_axis_str']
    if all(s == 'linear' for s in schemes):
        return ['linear', 'per_axis', 'per_axis_str']
    return ['per_axis']


FORMS = ['single', 'array', 'array_out', 'mesh', 'mesh_out']


def call_interp(itp, form, xs, pts, ndim, out_dtype, aff=(0.0, 1.0)):
    """xs: list of points (exact json), pts: per-axis point lists (for the mesh forms, product in C order).
    Points are float64 (moved / scaled by `aff`). Returns a flat list of results in the order of xs."""
    X = np.array([[aff[0] + aff[1] * flt(v) for v in x] for x in xs], dtype=float)        # (N, ndim)
    if form == 'single':
        return [itp(float(x[0]) if ndim == 1 else list(map(float, x))) for x in X]
    if form in ('array', 'array_out'):
        arr = X.T.copy()
        if ndim == 1 and form == 'array':
            arr = arr[0]                                                   # shape (N,) is allowed in 1-d
        if form == 'array_out':
            out = np.empty(X.shape[0], dtype=out_dtype)
            r = itp(arr, out=out)
            return list(np.asarray(r).ravel())
        return list(np.asarray(itp(arr)).ravel())
    # every other form is a mesh grid over the per-axis point lists `pts` ('mesh', 'mesh_out', 'mesh_1pt')
    mesh = sparse_meshgrid(*[np.array([aff[0] + aff[1] * flt(v) for v in p], dtype=float) for p in pts])
    shape = tuple(len(p) for p in pts)
    if form == 'mesh_out':
        out = np.empty(shape, dtype=out_dtype)
        r = itp(mesh, out=out)
    else:
        r = itp(mesh)
    r = np.asarray(r)
    if r.shape != shape:
        raise AssertionError('mesh result has shape %r, expected %r' % (r.shape, shape))
    return list(r.ravel(order='C'))


def mesh_points(pts):
    """product of per-axis point lists in C order (json)"""
    import itertools
    return [list(t) for t in itertools.product(*pts)]


# ------------------------------------------------------------------ call histories on ONE function object
NP_DT = {'int': 'int64', 'f32': 'float32', 'f64': 'float64', 'c64': 'complex64', 'c128': 'complex128'}
LIM = 2 ** 31 - 1


def exact_q(v):
    """exact rational of a float (no snapping); NaN token if not finite / too wide for TLC"""
    v = float(v)
    if v != v or v in (float('inf'), float('-inf')):
        return NANQ
    fr = Fraction(v)
    if abs(fr.numerator) > LIM or fr.denominator > LIM:
        return NANQ
    return [int(fr.numerator), int(fr.denominator)]


def exact_arr(arr):
    arr = np.asarray(arr)
    out = []
    for z in arr.ravel(order='C'):
        if arr.dtype.kind in 'iu':
            out.append([[int(z), 1], [0, 1]])
        elif arr.dtype.kind == 'c':
            out.append([exact_q(z.real), exact_q(z.imag)])
        else:
            out.append([exact_q(z), [0, 1]])
    return out


def make_hist_callable(fn, ndim, conv):
    """ONE Python function object for the abstract function `fn` under calling convention `conv`."""
    if fn['kind'] == 'pw':
        theta = flt(fn['theta'])
        scalar = lambda x: 0 if x[0] < theta else x[0]             # returns a Python int left of theta
        native = lambda x: np.where(x[0] < theta, 0, x[0]) + 0 * sum(x[k] for k in range(ndim))
    else:
        terms = terms_of(fn['poly'], any(m['c'][1] != [0, 1] for m in fn['poly']))
        kview = next((k for k, p in enumerate(fn['poly'][0]['e']) if p), 0)      # coordinate returned by the view conventions

        def value(x):
            res = 0
            for c, e in terms:
                t = c
                for k, p in enumerate(e):
                    if p:
                        t = t * x[k] ** p
                res = res + t
            return res
        scalar = native = value
    if conv == 'vectorize_bare':
        return odl.util.vectorize(scalar)
    if conv == 'vectorize_f64':
        return odl.util.vectorize(otypes=['float64'])(scalar)
    if conv == 'native':
        return lambda x: native(x)
    if conv == 'native_view':            # returns the coordinate array itself (a view of the mesh)
        return lambda x: x[kview]
    if conv == 'native_view_x':          # 1-d: returns its argument
        return lambda x: x
    if conv == 'native_view_last':       # N-d: returns the last coordinate array (broadcast by the library)
        return lambda x: x[-1]
    if conv == 'dual':
        def f_dual(x, out=None):
            if out is None:
                return native(x)
            out[:] = native(x)
            return out
        return f_dual
    if conv == 'inplace':
        def f_ip(x, out):
            out[:] = native(x)
        return f_ip
    if conv == 'object':
        class Fn(object):
            def __call__(self, x):
                return native(x)
        return Fn()
    raise ValueError(conv)


def _snapshot(sp):
    return {'coord_vectors': [c.copy() for c in sp.grid.coord_vectors], 'meshgrid': [m.copy() for m in sp.meshgrid],
            'cell_boundary_vecs': [b.copy() for b in sp.partition.cell_boundary_vecs],
            'min_pt': sp.partition.min_pt.copy(), 'max_pt': sp.partition.max_pt.copy()}


def _frame_changed(sp, snap):
    now = _snapshot(sp)
    for k, v in snap.items():
        a, b = (v, now[k]) if isinstance(v, list) else ([v], [now[k]])
        if len(a) != len(b) or any(x.shape != y.shape or not np.array_equal(x, y) for x, y in zip(a, b)):
            return k
    return ''


def _overwrite(prev, how):
    """the caller modifies, in place, the object it was returned"""
    if prev is None:
        return
    try:
        if how == 'imul':
            prev *= 2
        elif how == 'setitem':
            prev[:] = 7
        elif how == 'ufunc_out':
            np.negative(prev, out=prev)
        else:                               # 'asarray' (and the legacy un-named overwrite)
            arr = prev.asarray() if hasattr(prev, 'asarray') else prev
            if arr.flags.writeable:
                arr[...] = 7
    except Exception:
        pass                                # a refused write leaves everything unaffected, which is fine


def run_history(obj, hist, conc):
    """Replays one behaviour: all calls on the SAME function object. Spaces: one per value type ('independent'), all value types
    derived from ONE base space with astype / complex_space (share the partition: 'siblings'), or an equal space built freshly at
    every call ('fresh').  -> list of call records (values, grid of the space, frame check, value re-read at the end)"""
    cvs, fn, conv = obj['cvs'], obj['fn'], obj['conv']
    ndim = len(cvs)
    shape = tuple(len(c) for c in cvs)
    f = make_hist_callable(fn, ndim, conv)
    mode = conc.get('spaces', 'independent')
    degen = bool(conc.get('degenerate'))
    spaces, sfs, snaps = {}, {}, {}
    base = None
    prev = None
    calls, results = [], []
    for c in hist:
        rec = {'kind': c['kind'], 'dt': c['dt'], 'obs': [], 'obs_end': [], 'grid': cvs, 'frame': '', 'err': ''}
        calls.append(rec)
        results.append(None)
        if c['kind'] == 'mutate':
            _overwrite(prev, c.get('how', 'asarray'))
            for j in range(len(results) - 1):
                if results[j] is prev:
                    results[j] = None           # overwritten by its owner: not re-read at the end
            continue
        dt = NP_DT[c['dt']]
        try:
            if mode == 'fresh' or dt not in spaces:
                if mode == 'siblings':
                    if base is None:
                        base = space_for(cvs, 'float64', degenerate=degen)
                    sp = base if dt == 'float64' else (base.complex_space if dt == 'complex128' else base.astype(dt))
                else:
                    sp = space_for(cvs, dt, degenerate=degen)
                spaces[dt] = sp
                snaps[dt] = _snapshot(sp)
                sfs.pop(dt, None)
            sp = spaces[dt]
            if c['kind'] == 'element':
                prev = sp.element(f)
                arr = prev.asarray()
            else:
                sf = sfs.get(dt) if conc.get('reuse_sf') else None
                if sf is None:
                    sf = sfs[dt] = sampling_function(f, sp.domain, out_dtype=dt)
                pts = sp.meshgrid if conc.get('points', 'mesh') == 'mesh' else sp.points().T
                if c['kind'] == 'inplace':
                    out = np.full(shape if conc.get('points', 'mesh') == 'mesh' else (int(np.prod(shape)),),
                                  7777 if np.dtype(dt).kind in 'iu' else np.nan, dtype=dt)
                    point_collocation(sf, pts, out=out)
                    prev = out
                else:
                    prev = point_collocation(sf, pts)
                arr = np.asarray(prev)
            if arr.size != int(np.prod(shape)) or arr.dtype != np.dtype(dt):
                rec['err'] = 'ShapeOrDtypeError'
                rec['errmsg'] = 'shape %r dtype %s' % (arr.shape, arr.dtype)
                break
            rec['obs'] = exact_arr(arr.reshape(shape))
            results[-1] = prev
            rec['grid'] = [[exact_q(v) for v in cv] for cv in sp.grid.coord_vectors]
            rec['frame'] = _frame_changed(sp, snaps[dt])
        except Exception as e:
            rec['err'] = type(e).__name__
            rec['errmsg'] = '%s: %s' % (type(e).__name__, str(e)[:160])
            break
    for rec, r in zip(calls, results):
        if r is not None and not rec['err']:
            try:
                arr = r.asarray() if hasattr(r, 'asarray') else np.asarray(r)
                rec['obs_end'] = exact_arr(arr.reshape(shape))
            except Exception:
                rec['obs_end'] = []
    return calls

"""Catalogue of built-in linear ODL operators (recipes) and extraction of their full matrices.

Used by C05 (adjoint identity decided for ALL x, y through the full matrices of A and A.adjoint and the
Gram weights of the spaces) and by C03 (call protocol on every operator class).
"""
from fractions import Fraction

import numpy as np
import odl

from . import exact


# ------------------------------------------------------------------ coordinates
def is_field(sp):
    return isinstance(sp, odl.set.sets.Field)


def is_complex(sp):
    if is_field(sp):
        return isinstance(sp, odl.ComplexNumbers)
    return not sp.is_real


def dim(sp):
    if is_field(sp):
        return 1
    if isinstance(sp, odl.ProductSpace):
        return sum(dim(s) for s in sp)
    return int(sp.size)


def flat(sp, x):
    """coordinates of x in the canonical basis (complex ndarray)."""
    if is_field(sp):
        return np.array([complex(x)])
    if isinstance(sp, odl.ProductSpace):
        return np.concatenate([flat(spi, xi) for spi, xi in zip(sp, x)]) if len(sp) else np.zeros(0, complex)
    return np.asarray(x.asarray()).ravel().astype(complex)


def unflat(sp, c):
    if is_field(sp):
        return complex(c[0]) if is_complex(sp) else float(np.real(c[0]))
    if isinstance(sp, odl.ProductSpace):
        parts, pos = [], 0
        for spi in sp:
            m = dim(spi)
            parts.append(unflat(spi, c[pos:pos + m]))
            pos += m
        return sp.element(parts)
    arr = np.asarray(c).reshape(sp.shape)
    if sp.is_real:
        arr = np.real(arr)
    return sp.element(arr.astype(sp.dtype))


def inner(sp, x, y):
    if is_field(sp):
        return complex(x) * np.conj(complex(y))
    return complex(x.inner(y))


class Basis(object):
    """Basis of sp; `realify` -> real basis {e_k, i e_k} of a complex space (real-part form)."""

    def __init__(self, sp, realify):
        self.sp, self.cplx = sp, is_complex(sp)
        self.realify = realify and self.cplx
        self.n = dim(sp)
        self.N = 2 * self.n if self.realify else self.n

    def vec(self, k):
        c = np.zeros(self.n, complex)
        if self.realify:
            c[k // 2] = 1.0 if k % 2 == 0 else 1j
        else:
            c[k] = 1.0
        return unflat(self.sp, c)

    def coords(self, x):
        c = flat(self.sp, x)
        if self.realify:
            out = np.empty(2 * self.n)
            out[0::2], out[1::2] = c.real, c.imag
            return out.astype(complex)
        return c

    def gram(self):
        g = []
        for k in range(self.N):
            e = self.vec(k)
            g.append(float(np.real(inner(self.sp, e, e))))
        return g


def matrix(op, bd, br):
    """Matrix of op w.r.t. bases bd (domain) and br (range): M[i][j] = coords(op(e_j))[i]."""
    cols = []
    for j in range(bd.N):
        cols.append(br.coords(op(bd.vec(j))))
    return np.array(cols).T.reshape(br.N, bd.N)


def observe_adjoint(op, biadj=True):
    """-> dict(M, N, N2, Gd, Gr) as float/complex arrays (raises whatever the real code raises)."""
    mixed = is_complex(op.domain) != is_complex(op.range)
    bd, br = Basis(op.domain, mixed), Basis(op.range, mixed)
    M = matrix(op, bd, br)
    try:
        adj = op.adjoint
    except NotImplementedError:      # includes OpNotImplementedError: the operator does not return an adjoint
        return None
    shape_ok = (adj.domain == op.range) and (adj.range == op.domain)
    N = matrix(adj, br, bd) if shape_ok else np.zeros((0, 0))
    N2 = None
    if biadj and shape_ok:
        N2 = matrix(adj.adjoint, bd, br)
    return {'M': M, 'N': N, 'N2': N2, 'Gd': bd.gram(), 'Gr': br.gram(), 'maps_ok': shape_ok}


# ------------------------------------------------------------------ encoding for TLC
def _try_exact(arrs, D):
    out = []
    for a in arrs:
        a = np.asarray(a, dtype=complex)
        rows = []
        for z in a.ravel():
            p, q = exact.snap(z.real, D), exact.snap(z.imag, D)
            if exact.OFF in (p, q) or p != p or q != q:
                return None
            if abs(p.numerator) > 2 ** 14 or abs(q.numerator) > 2 ** 14:
                return None
            rows.append([exact.to_q(p), exact.to_q(q)])
        out.append((rows, a.shape))
    return out


def _quant(arrs):
    out = []
    for a in arrs:
        a = np.asarray(a, dtype=complex)
        rows = []
        for z in a.ravel():
            if not (np.isfinite(z.real) and np.isfinite(z.imag)) or abs(z) > 100:
                rows.append([[0, 0], [0, 0]])
            else:
                rows.append([exact.to_q(Fraction(int(round(z.real * 256)), 256)),
                             exact.to_q(Fraction(int(round(z.imag * 256)), 256))])
        out.append((rows, a.shape))
    return out


def _mat(rows, shape):
    r, c = shape
    return [[rows[i * c + j] for j in range(c)] for i in range(r)]


def encode_event(obs, D=2 ** 5 * 3 * 5):
    """Encode matrices exactly (lattice 1/D) when every entry is on the lattice, quantised (2^-10) otherwise."""
    M, N, N2, Gd, Gr = obs['M'], obs['N'], obs['N2'], obs['Gd'], obs['Gr']
    arrs = [M, N] + ([N2] if N2 is not None else []) + [np.array(Gd).reshape(1, -1), np.array(Gr).reshape(1, -1)]
    enc = _try_exact(arrs, D)
    exact_mode = enc is not None
    if enc is None:
        enc = _quant(arrs)
    k = 0
    Mj = _mat(*enc[0])
    Nj = _mat(*enc[1])
    k = 2
    N2j = []
    if N2 is not None:
        N2j = _mat(*enc[2])
        k = 3
    Gdj = [c[0] for c in enc[k][0]]
    Grj = [c[0] for c in enc[k + 1][0]]
    return {'M': Mj, 'N': Nj, 'N2': N2j, 'Gd': Gdj, 'Gr': Grj, 'exact': exact_mode}


# ------------------------------------------------------------------ recipes
def _v(sp, vals):
    vals = np.resize(np.array(vals), sp.size).reshape(sp.shape)
    return sp.element(vals.astype(sp.dtype))


def recipes(tier='quick'):
    """Yield (family, options(dict of small strings), builder) for built-in linear operators with an adjoint."""
    R = []

    def add(family, opts, fn):
        R.append((family, opts, fn))

    def tspaces():
        yield 'rn', odl.rn(3)
        yield 'rn-const', odl.rn(3, weighting=2.0)
        yield 'rn-array', odl.rn(3, weighting=[1.0, 2.0, 0.5])
        yield 'cn', odl.cn(2)
        yield 'cn-const', odl.cn(2, weighting=0.5)
        yield 'discr', odl.uniform_discr(0, 2, 4)
        yield 'discr-bdry', odl.uniform_discr(0, 2, 3, nodes_on_bdry=True)
        yield 'discr-cplx', odl.uniform_discr(0, 1, 2, dtype=complex)

    for sn, sp in tspaces():
        cplx = not sp.is_real
        add('IdentityOperator', {'space': sn}, lambda sp=sp: odl.IdentityOperator(sp))
        add('ScalingOperator', {'space': sn, 'scalar': 'real'}, lambda sp=sp: odl.ScalingOperator(sp, -2.0))
        if cplx:
            add('ScalingOperator', {'space': sn, 'scalar': 'complex'}, lambda sp=sp: odl.ScalingOperator(sp, 1 + 2j))
        add('ZeroOperator', {'space': sn}, lambda sp=sp: odl.ZeroOperator(sp))
        vv = [1 + 2j, -1j, 2] if cplx else [2, -1, 0.5]
        add('MultiplyOperator', {'space': sn, 'multiplicand': 'vector'},
            lambda sp=sp, vv=vv: odl.MultiplyOperator(_v(sp, vv)))
        add('MultiplyOperator', {'space': sn, 'multiplicand': 'scalar'},
            lambda sp=sp: odl.MultiplyOperator(sp.one() * 3.0, domain=sp))
        add('MultiplyOperator', {'space': sn, 'multiplicand': 'vector', 'domain': 'field'},
            lambda sp=sp, vv=vv: odl.MultiplyOperator(_v(sp, vv), domain=sp.field))
        add('InnerProductOperator', {'space': sn}, lambda sp=sp, vv=vv: odl.InnerProductOperator(_v(sp, vv)))
        add('x.T', {'space': sn}, lambda sp=sp, vv=vv: _v(sp, vv).T)
        if cplx:
            add('ComplexEmbedding', {'space': sn, 'scalar': 'complex-general'}, lambda sp=sp: odl.ComplexEmbedding(sp, scalar=2 + 1j))
            add('RealPart', {'space': sn}, lambda sp=sp: odl.RealPart(sp))
            add('ImagPart', {'space': sn}, lambda sp=sp: odl.ImagPart(sp))
        else:
            add('ComplexEmbedding', {'space': sn}, lambda sp=sp: odl.ComplexEmbedding(sp))
            add('ComplexEmbedding', {'space': sn, 'scalar': 'imaginary'}, lambda sp=sp: odl.ComplexEmbedding(sp, scalar=1j))
            add('ComplexEmbedding', {'space': sn, 'scalar': 'complex-general'}, lambda sp=sp: odl.ComplexEmbedding(sp, scalar=1 - 2j))
            add('RealPart', {'space': sn}, lambda sp=sp: odl.RealPart(sp))
            add('ImagPart', {'space': sn}, lambda sp=sp: odl.ImagPart(sp))
        # sampling / flattening
        if sp.ndim == 1:
            add('SamplingOperator', {'space': sn}, lambda sp=sp: odl.SamplingOperator(sp, [[0, sp.size - 1]]))
            add('SamplingOperator', {'space': sn, 'indices': 'repeated'},
                lambda sp=sp: odl.SamplingOperator(sp, [[0, 0, 1]]))
            add('WeightedSumSamplingOperator', {'space': sn},
                lambda sp=sp: odl.WeightedSumSamplingOperator(sp, [[0, sp.size - 1]]))
            add('WeightedSumSamplingOperator', {'space': sn, 'variant': 'char_fun'},
                lambda sp=sp: odl.WeightedSumSamplingOperator(sp, [[1, 0]], variant='char_fun'))
        add('FlatteningOperator', {'space': sn}, lambda sp=sp: odl.FlatteningOperator(sp))

    # MatrixOperator
    A = np.array([[1.0, 2.0, 0.0], [-1.0, 0.5, 3.0]])
    add('MatrixOperator', {'weighting': 'none'}, lambda: odl.MatrixOperator(A))
    add('MatrixOperator', {'weighting': 'const'},
        lambda: odl.MatrixOperator(A, domain=odl.rn(3, weighting=2.0), range=odl.rn(2, weighting=4.0)))
    add('MatrixOperator', {'weighting': 'array'},
        lambda: odl.MatrixOperator(A, domain=odl.rn(3, weighting=[1.0, 2.0, 0.5]), range=odl.rn(2, weighting=[2.0, 1.0])))
    add('MatrixOperator', {'weighting': 'none', 'dtype': 'complex'},
        lambda: odl.MatrixOperator(np.array([[1 + 1j, 2.0], [0, -1j]])))
    add('MatrixOperator', {'weighting': 'none', 'axis': '1'},
        lambda: odl.MatrixOperator(np.array([[1.0, 2.0], [0.0, -1.0], [1.0, 1.0]]), domain=odl.rn((2, 2)), axis=1))
    import scipy.sparse
    add('MatrixOperator', {'weighting': 'none', 'sparse': 'yes'},
        lambda: odl.MatrixOperator(scipy.sparse.coo_matrix(A)))

    # product-space operators
    r2, r3 = odl.rn(2), odl.rn(3)
    I2 = odl.IdentityOperator(r2)
    S2 = odl.ScalingOperator(r2, 2.0)
    M23 = odl.MatrixOperator(np.array([[1.0, 0.0, 2.0], [0.0, -1.0, 1.0]]))
    add('ProductSpaceOperator', {'blocks': 'dense'}, lambda: odl.ProductSpaceOperator([[I2, M23], [S2, None]]))
    add('ProductSpaceOperator', {'blocks': 'row'}, lambda: odl.ProductSpaceOperator([[I2, S2]]))
    for wn, w in [('none', None), ('const', 2.0), ('array', [1.0, 3.0])]:
        def ps(w=w):
            return odl.ProductSpace(r2, 2) if w is None else odl.ProductSpace(r2, 2, weighting=w)
        add('ComponentProjection', {'pspace-weighting': wn}, lambda ps=ps: odl.ComponentProjection(ps(), 1))
        add('ComponentProjection', {'pspace-weighting': wn, 'index': 'list'},
            lambda ps=ps: odl.ComponentProjection(ps(), [1, 0]))
        add('ComponentProjectionAdjoint', {'pspace-weighting': wn},
            lambda ps=ps: odl.ComponentProjectionAdjoint(ps(), 0))
        add('BroadcastOperator', {'range-weighting': wn}, lambda: odl.BroadcastOperator(I2, S2))
        add('ReductionOperator', {'domain-weighting': wn}, lambda: odl.ReductionOperator(I2, S2))
        add('DiagonalOperator', {'weighting': wn}, lambda: odl.DiagonalOperator(I2, M23))
        add('PointwiseInner', {'pspace-weighting': wn},
            lambda ps=ps: odl.PointwiseInner(ps(), ps().element([[1, 2], [-1, 0.5]])))
        add('PointwiseInner', {'pspace-weighting': wn, 'op-weighting': 'given'},
            lambda ps=ps: odl.PointwiseInner(ps(), ps().element([[1, 2], [-1, 0.5]]), weighting=[2.0, 1.0]))
        add('PointwiseSum', {'pspace-weighting': wn}, lambda ps=ps: odl.PointwiseSum(ps()))
        add('PointwiseInner', {'pspace-weighting': wn, 'op-weighting': 'unit-scalar'},
            lambda ps=ps: odl.PointwiseInner(ps(), ps().element([[1, 2], [-1, 0.5]]), weighting=1.0))
        add('PointwiseInner', {'pspace-weighting': wn, 'op-weighting': 'unit-array'},
            lambda ps=ps: odl.PointwiseInner(ps(), ps().element([[1, 2], [-1, 0.5]]), weighting=[1.0, 1.0]))
        add('PointwiseSum', {'pspace-weighting': wn, 'op-weighting': 'unit-scalar'},
            lambda ps=ps: odl.PointwiseSum(ps(), weighting=1.0))
        add('PointwiseSum', {'pspace-weighting': wn, 'op-weighting': 'given'},
            lambda ps=ps: odl.PointwiseSum(ps(), weighting=[2.0, 0.5]))
        add('PointwiseNorm-linear-adjoint-of-derivative', {'pspace-weighting': wn},
            lambda ps=ps: odl.PointwiseNorm(ps(), exponent=2).derivative(ps().element([[1, 2], [-1, 0.5]])))
        add('LinCombOperator', {'pspace-weighting': wn}, lambda: odl.LinCombOperator(r2, 2.0, -1.0))
    cps = odl.ProductSpace(odl.cn(2), 2)
    add('PointwiseInner', {'pspace-weighting': 'none', 'dtype': 'complex'},
        lambda: odl.PointwiseInner(cps, cps.element([[1 + 1j, 2], [-1j, 0.5]])))
    dps = odl.ProductSpace(odl.uniform_discr(0, 2, 2), 2)
    add('PointwiseInner', {'pspace-weighting': 'none', 'base': 'discr'},
        lambda: odl.PointwiseInner(dps, dps.element([[1, 2], [-1, 0.5]])))

    # finite differences and resizing on discretised spaces (uniform weighting and nodes on the boundary)
    pads = ['constant', 'symmetric', 'periodic', 'order0', 'order1', 'order2',
            'symmetric_adjoint', 'order0_adjoint', 'order1_adjoint', 'order2_adjoint']
    methods = ['forward', 'backward', 'central']
    for bd in (False, True):
        for shape in ([5], [3, 4]) if tier == 'quick' else ([5], [4], [3, 4], [4, 3], [3, 3]):
            nd = len(shape)
            sp = odl.uniform_discr([0] * nd, [2] * nd, shape, nodes_on_bdry=bd)
            for meth in methods:
                for pad in pads:
                    o = {'method': meth, 'pad_mode': pad, 'nodes_on_bdry': str(bd), 'ndim': str(nd)}
                    add('PartialDerivative', o, lambda sp=sp, meth=meth, pad=pad, nd=nd:
                        odl.PartialDerivative(sp, axis=nd - 1, method=meth, pad_mode=pad))
                    if pad in ('constant', 'symmetric', 'periodic', 'order0', 'order1', 'order2') or tier != 'quick':
                        add('Gradient', o, lambda sp=sp, meth=meth, pad=pad: odl.Gradient(sp, method=meth, pad_mode=pad))
                        add('Divergence', o, lambda sp=sp, meth=meth, pad=pad:
                            odl.Divergence(range=sp, method=meth, pad_mode=pad))
            for pad in ('constant', 'symmetric', 'periodic', 'order0', 'symmetric_adjoint', 'order0_adjoint'):
                add('Laplacian', {'pad_mode': pad, 'nodes_on_bdry': str(bd), 'ndim': str(nd)},
                    lambda sp=sp, pad=pad: odl.Laplacian(sp, pad_mode=pad))
        sp = odl.uniform_discr(0, 2, 4, nodes_on_bdry=bd)
        for pad in ('constant', 'symmetric', 'periodic', 'order0', 'order1'):
            add('ResizingOperator', {'pad_mode': pad, 'nodes_on_bdry': str(bd), 'dir': 'extend'},
                lambda sp=sp, pad=pad: odl.ResizingOperator(sp, ran_shp=(7,), pad_mode=pad))
            add('ResizingOperator', {'pad_mode': pad, 'nodes_on_bdry': str(bd), 'dir': 'restrict'},
                lambda sp=sp, pad=pad: odl.ResizingOperator(sp, ran_shp=(2,), pad_mode=pad))
    # transforms (adjoint documented exact): DFT, FT, orthogonal periodic wavelets
    for n in (2, 4, 3):
        for hc in (False, True):
            o = {'n': str(n), 'halfcomplex': str(hc)}
            if hc:
                add('DiscreteFourierTransform', o, lambda n=n:
                    odl.trafos.DiscreteFourierTransform(odl.uniform_discr(0, n, n, dtype='float64'), halfcomplex=True))
            else:
                add('DiscreteFourierTransform', o, lambda n=n:
                    odl.trafos.DiscreteFourierTransform(odl.uniform_discr(0, n, n, dtype='complex128')))
                add('DiscreteFourierTransformInverse', o, lambda n=n:
                    odl.trafos.DiscreteFourierTransform(odl.uniform_discr(0, n, n, dtype='complex128')).inverse)
    add('FourierTransform', {'dtype': 'complex'},
        lambda: odl.trafos.FourierTransform(odl.uniform_discr(-2, 2, 4, dtype='complex128')))
    add('FourierTransform', {'dtype': 'real-halfcomplex'},
        lambda: odl.trafos.FourierTransform(odl.uniform_discr(-2, 2, 4, dtype='float64')))
    add('WaveletTransform', {'wavelet': 'haar', 'pad_mode': 'pywt_periodic'},
        lambda: odl.trafos.WaveletTransform(odl.uniform_discr(0, 1, 8), 'haar', nlevels=2, pad_mode='pywt_periodic'))
    w2 = odl.uniform_discr([0, 0], [1, 2], [4, 4])
    for axes in (None, (0,), (1,), -1):
        for pad in ('pywt_periodic', 'constant'):
            add('WaveletTransform', {'wavelet': 'haar', 'pad_mode': pad, 'ndim': '2', 'axes': str(axes)},
                lambda axes=axes, pad=pad: odl.trafos.WaveletTransform(w2, 'haar', nlevels=1, pad_mode=pad, axes=axes))
            add('WaveletTransformInverse', {'wavelet': 'haar', 'pad_mode': pad, 'ndim': '2', 'axes': str(axes)},
                lambda axes=axes, pad=pad: odl.trafos.WaveletTransform(w2, 'haar', nlevels=1, pad_mode=pad, axes=axes).inverse)
    add('WaveletTransform', {'wavelet': 'db2', 'pad_mode': 'pywt_periodic'},
        lambda: odl.trafos.WaveletTransform(odl.uniform_discr(0, 1, 8), 'db2', nlevels=1, pad_mode='pywt_periodic'))
    return R

"""Catalogue of built-in linear ODL operators (recipes) and extraction of their full matrices.

Used by C05 (adjoint identity decided for ALL x, y through the full matrices of A and A.adjoint and the
Gram weights of the spaces) and by C03 (call protocol on every operator class).
"""
from fractions import Fraction

import numpy as np
import odl

from . import exact


# ------------------------------------------------------------------ coordinates
def is_field(sp):
    return isinstance(sp, odl.set.sets.Field)


def is_complex(sp):
    if is_field(sp):
        return isinstance(sp, odl.ComplexNumbers)
    return not sp.is_real


def dim(sp):
    if is_field(sp):
        return 1
    if isinstance(sp, odl.ProductSpace):
        return sum(dim(s) for s in sp)
    return int(sp.size)


def flat(sp, x):
    """coordinates of x in the canonical basis (complex ndarray)."""
    if is_field(sp):
        return np.array([complex(x)])
    if isinstance(sp, odl.ProductSpace):
        return np.concatenate([flat(spi, xi) for spi, xi in zip(sp, x)]) if len(sp) else np.zeros(0, complex)
    return np.asarray(x.asarray()).ravel().astype(complex)


def unflat(sp, c):
    if is_field(sp):
        return complex(c[0]) if is_complex(sp) else float(np.real(c[0]))
    if isinstance(sp, odl.ProductSpace):
        parts, pos = [], 0
        for spi in sp:
            m = dim(spi)
            parts.append(unflat(spi, c[pos:pos + m]))
            pos += m
        return sp.element(parts)
    arr = np.asarray(c).reshape(sp.shape)
    if sp.is_real:
        arr = np.real(arr)
    return sp.element(arr.astype(sp.dtype))


def inner(sp, x, y):
    if is_field(sp):
        return complex(x) * np.conj(complex(y))
    return complex(x.inner(y))


class Basis(object):
    """Basis of sp; `realify` -> real basis {e_k, i e_k} of a complex space (real-part form)."""

    def __init__(self, sp, realify):
        self.sp, self.cplx = sp, is_complex(sp)
        self.realify = realify and self.cplx
        self.n = dim(sp)
        self.N = 2 * self.n if self.realify else self.n

    def vec(self, k):
        c = np.zeros(self.n, complex)
        if self.realify:
            c[k // 2] = 1.0 if k % 2 == 0 else 1j
        else:
            c[k] = 1.0
        return unflat(self.sp, c)

    def coords(self, x):
        c = flat(self.sp, x)
        if self.realify:
            out = np.empty(2 * self.n)
            out[0::2], out[1::2] = c.real, c.imag
            return out.astype(complex)
        return c

    def gram(self):
        g = []
        for k in range(self.N):
            e = self.vec(k)
            g.append(float(np.real(inner(self.sp, e, e))))
        return g


def matrix(op, bd, br):
    """Matrix of op w.r.t. bases bd (domain) and br (range): M[i][j] = coords(op(e_j))[i]."""
    cols = []
    for j in range(bd.N):
        cols.append(br.coords(op(bd.vec(j))))
    return np.array(cols).T.reshape(br.N, bd.N)


def observe_adjoint(op, biadj=True):
    """-> dict(M, N, N2, Gd, Gr) as float/complex arrays (raises whatever the real code raises)."""
    mixed = is_complex(op.domain) != is_complex(op.range)
    bd, br = Basis(op.domain, mixed), Basis(op.range, mixed)
    M = matrix(op, bd, br)
    try:
        adj = op.adjoint
    except NotImplementedError:      # includes OpNotImplementedError: the operator does not return an adjoint
        return None
    shape_ok = (adj.domain == op.range) and (adj.range == op.domain)
    N = matrix(adj, br, bd) if shape_ok else np.zeros((0, 0))
    N2 = None
    if biadj and shape_ok:
        N2 = matrix(adj.adjoint, bd, br)
    return {'M': M, 'N': N, 'N2': N2, 'Gd': bd.gram(), 'Gr': br.gram(), 'maps_ok': shape_ok}


# ------------------------------------------------------------------ encoding for TLC
def _try_exact(arrs, D):
    out = []
    for a in arrs:
        a = np.asarray(a, dtype=complex)
        rows = []
        for z in a.ravel():
            p, q = exact.snap(z.real, D), exact.snap(z.imag, D)
            if exact.OFF in (p, q) or p != p or q != q:
                return None
            if abs(p.numerator) > 2 ** 14 or abs(q.numerator) > 2 ** 14:
                return None
            rows.append([exact.to_q(p), exact.to_q(q)])
        out.append((rows, a.shape))
    return out


def _quant(arrs):
    out = []
    for a in arrs:
        a = np.asarray(a, dtype=complex)
        rows = []
        for z in a.ravel():
            if not (np.isfinite(z.real) and np.isfinite(z.imag)) or abs(z) > 100:
                rows.append([[0, 0], [0, 0]])
            else:
                rows.append([exact.to_q(Fraction(int(round(z.real * 256)), 256)),
                             exact.to_q(Fraction(int(round(z.imag * 256)), 256))])
        out.append((rows, a.shape))
    return out


def _mat(rows, shape):
    r, c = shape
    return [[rows[i * c + j] for j in range(c)] for i in range(r)]


def encode_event(obs, D=2 ** 5 * 3 * 5):
    """Encode matrices exactly (lattice 1/D) when every entry is on the lattice, quantised (2^-10) otherwise."""
    M, N, N2, Gd, Gr = obs['M'], obs['N'], obs['N2'], obs['Gd'], obs['Gr']
    arrs = [M, N] + ([N2] if N2 is not None else []) + [np.array(Gd).reshape(1, -1), np.array(Gr).reshape(1, -1)]
    enc = _try_exact(arrs, D)
    exact_mode = enc is not None
    if enc is None:
        enc = _quant(arrs)
    k = 0
    Mj = _mat(*enc[0])
    Nj = _mat(*enc[1])
    k = 2
    N2j = []
    if N2 is not None:
        N2j = _mat(*enc[2])
        k = 3
    Gdj = [c[0] for c in enc[k][0]]
    Grj = [c[0] for c in enc[k + 1][0]]
    return {'M': Mj, 'N': Nj, 'N2': N2j, 'Gd': Gdj, 'Gr': Grj, 'exact': exact_mode}


# ------------------------------------------------------------------ recipes
def _v(sp, vals):
    vals = np.resize(np.array(vals), sp.size).reshape(sp.shape)
    return sp.element(vals.astype(sp.dtype))


def recipes(tier='quick'):
    """Yield (family, options(dict of small strings), builder) for built-in linear operators with an adjoint."""
    R = []
    seen = set()

    def add(family, opts, fn):
        key = (family, tuple(sorted((k, str(v)) for k, v in opts.items())))
        if key in seen:                 # (family, options) identifies a recipe (replay looks it up by that)
            return
        seen.add(key)
        R.append((family, dict(opts), fn))

    def tspaces():
        yield 'rn', odl.rn(3)
        yield 'rn-const', odl.rn(3, weighting=2.0)
        yield 'rn-array', odl.rn(3, weighting=[1.0, 2.0, 0.5])
        yield 'cn', odl.cn(2)
        yield 'cn-const', odl.cn(2, weighting=0.5)
        yield 'discr', odl.uniform_discr(0, 2, 4)
        yield 'discr-bdry', odl.uniform_discr(0, 2, 3, nodes_on_bdry=True)
        yield 'discr-cplx', odl.uniform_discr(0, 1, 2, dtype=complex)

    for sn, sp in tspaces():
        cplx = not sp.is_real
        add('IdentityOperator', {'space': sn}, lambda sp=sp: odl.IdentityOperator(sp))
        add('ScalingOperator', {'space': sn, 'scalar': 'real'}, lambda sp=sp: odl.ScalingOperator(sp, -2.0))
        if cplx:
            add('ScalingOperator', {'space': sn, 'scalar': 'complex'}, lambda sp=sp: odl.ScalingOperator(sp, 1 + 2j))
        add('ZeroOperator', {'space': sn}, lambda sp=sp: odl.ZeroOperator(sp))
        vv = [1 + 2j, -1j, 2] if cplx else [2, -1, 0.5]
        add('MultiplyOperator', {'space': sn, 'multiplicand': 'vector'},
            lambda sp=sp, vv=vv: odl.MultiplyOperator(_v(sp, vv)))
        add('MultiplyOperator', {'space': sn, 'multiplicand': 'scalar'},
            lambda sp=sp: odl.MultiplyOperator(sp.one() * 3.0, domain=sp))
        add('MultiplyOperator', {'space': sn, 'multiplicand': 'vector', 'domain': 'field'},
            lambda sp=sp, vv=vv: odl.MultiplyOperator(_v(sp, vv), domain=sp.field))
        add('InnerProductOperator', {'space': sn}, lambda sp=sp, vv=vv: odl.InnerProductOperator(_v(sp, vv)))
        add('x.T', {'space': sn}, lambda sp=sp, vv=vv: _v(sp, vv).T)
        if cplx:
            add('ComplexEmbedding', {'space': sn, 'scalar': 'complex-general'}, lambda sp=sp: odl.ComplexEmbedding(sp, scalar=2 + 1j))
            add('RealPart', {'space': sn}, lambda sp=sp: odl.RealPart(sp))
            add('ImagPart', {'space': sn}, lambda sp=sp: odl.ImagPart(sp))
        else:
            add('ComplexEmbedding', {'space': sn}, lambda sp=sp: odl.ComplexEmbedding(sp))
            add('ComplexEmbedding', {'space': sn, 'scalar': 'imaginary'}, lambda sp=sp: odl.ComplexEmbedding(sp, scalar=1j))
            add('ComplexEmbedding', {'space': sn, 'scalar': 'complex-general'}, lambda sp=sp: odl.ComplexEmbedding(sp, scalar=1 - 2j))
            add('RealPart', {'space': sn}, lambda sp=sp: odl.RealPart(sp))
            add('ImagPart', {'space': sn}, lambda sp=sp: odl.ImagPart(sp))
        # sampling / flattening
        if sp.ndim == 1:
            add('SamplingOperator', {'space': sn}, lambda sp=sp: odl.SamplingOperator(sp, [[0, sp.size - 1]]))
            add('SamplingOperator', {'space': sn, 'indices': 'repeated'},
                lambda sp=sp: odl.SamplingOperator(sp, [[0, 0, 1]]))
            add('WeightedSumSamplingOperator', {'space': sn},
                lambda sp=sp: odl.WeightedSumSamplingOperator(sp, [[0, sp.size - 1]]))
            add('WeightedSumSamplingOperator', {'space': sn, 'variant': 'char_fun'},
                lambda sp=sp: odl.WeightedSumSamplingOperator(sp, [[1, 0]], variant='char_fun'))
        add('FlatteningOperator', {'space': sn}, lambda sp=sp: odl.FlatteningOperator(sp))

    # MatrixOperator
    A = np.array([[1.0, 2.0, 0.0], [-1.0, 0.5, 3.0]])
    add('MatrixOperator', {'weighting': 'none'}, lambda: odl.MatrixOperator(A))
    add('MatrixOperator', {'weighting': 'const'},
        lambda: odl.MatrixOperator(A, domain=odl.rn(3, weighting=2.0), range=odl.rn(2, weighting=4.0)))
    add('MatrixOperator', {'weighting': 'array'},
        lambda: odl.MatrixOperator(A, domain=odl.rn(3, weighting=[1.0, 2.0, 0.5]), range=odl.rn(2, weighting=[2.0, 1.0])))
    add('MatrixOperator', {'weighting': 'none', 'dtype': 'complex'},
        lambda: odl.MatrixOperator(np.array([[1 + 1j, 2.0], [0, -1j]])))
    add('MatrixOperator', {'weighting': 'none', 'axis': '1'},
        lambda: odl.MatrixOperator(np.array([[1.0, 2.0], [0.0, -1.0], [1.0, 1.0]]), domain=odl.rn((2, 2)), axis=1))
    import scipy.sparse
    add('MatrixOperator', {'weighting': 'none', 'sparse': 'yes'},
        lambda: odl.MatrixOperator(scipy.sparse.coo_matrix(A)))

    # product-space operators
    r2, r3 = odl.rn(2), odl.rn(3)
    I2 = odl.IdentityOperator(r2)
    S2 = odl.ScalingOperator(r2, 2.0)
    M23 = odl.MatrixOperator(np.array([[1.0, 0.0, 2.0], [0.0, -1.0, 1.0]]))
    add('ProductSpaceOperator', {'blocks': 'dense'}, lambda: odl.ProductSpaceOperator([[I2, M23], [S2, None]]))
    add('ProductSpaceOperator', {'blocks': 'row'}, lambda: odl.ProductSpaceOperator([[I2, S2]]))
    for wn, w in [('none', None), ('const', 2.0), ('array', [1.0, 3.0])]:
        def ps(w=w):
            return odl.ProductSpace(r2, 2) if w is None else odl.ProductSpace(r2, 2, weighting=w)
        add('ComponentProjection', {'pspace-weighting': wn}, lambda ps=ps: odl.ComponentProjection(ps(), 1))
        add('ComponentProjection', {'pspace-weighting': wn, 'index': 'list'},
            lambda ps=ps: odl.ComponentProjection(ps(), [1, 0]))
        add('ComponentProjectionAdjoint', {'pspace-weighting': wn},
            lambda ps=ps: odl.ComponentProjectionAdjoint(ps(), 0))
        add('BroadcastOperator', {'range-weighting': wn}, lambda: odl.BroadcastOperator(I2, S2))
        add('ReductionOperator', {'domain-weighting': wn}, lambda: odl.ReductionOperator(I2, S2))
        add('DiagonalOperator', {'weighting': wn}, lambda: odl.DiagonalOperator(I2, M23))
        add('PointwiseInner', {'pspace-weighting': wn},
            lambda ps=ps: odl.PointwiseInner(ps(), ps().element([[1, 2], [-1, 0.5]])))
        add('PointwiseInner', {'pspace-weighting': wn, 'op-weighting': 'given'},
            lambda ps=ps: odl.PointwiseInner(ps(), ps().element([[1, 2], [-1, 0.5]]), weighting=[2.0, 1.0]))
        add('PointwiseSum', {'pspace-weighting': wn}, lambda ps=ps: odl.PointwiseSum(ps()))
        add('PointwiseInner', {'pspace-weighting': wn, 'op-weighting': 'unit-scalar'},
            lambda ps=ps: odl.PointwiseInner(ps(), ps().element([[1, 2], [-1, 0.5]]), weighting=1.0))
        add('PointwiseInner', {'pspace-weighting': wn, 'op-weighting': 'unit-array'},
            lambda ps=ps: odl.PointwiseInner(ps(), ps().element([[1, 2], [-1, 0.5]]), weighting=[1.0, 1.0]))
        add('PointwiseSum', {'pspace-weighting': wn, 'op-weighting': 'unit-scalar'},
            lambda ps=ps: odl.PointwiseSum(ps(), weighting=1.0))
        add('PointwiseSum', {'pspace-weighting': wn, 'op-weighting': 'given'},
            lambda ps=ps: odl.PointwiseSum(ps(), weighting=[2.0, 0.5]))
        add('PointwiseNorm-linear-adjoint-of-derivative', {'pspace-weighting': wn},
            lambda ps=ps: odl.PointwiseNorm(ps(), exponent=2).derivative(ps().element([[1, 2], [-1, 0.5]])))
        add('LinCombOperator', {'pspace-weighting': wn}, lambda: odl.LinCombOperator(r2, 2.0, -1.0))
    cps = odl.ProductSpace(odl.cn(2), 2)
    add('PointwiseInner', {'pspace-weighting': 'none', 'dtype': 'complex'},
        lambda: odl.PointwiseInner(cps, cps.element([[1 + 1j, 2], [-1j, 0.5]])))
    dps = odl.ProductSpace(odl.uniform_discr(0, 2, 2), 2)
    add('PointwiseInner', {'pspace-weighting': 'none', 'base': 'discr'},
        lambda: odl.PointwiseInner(dps, dps.element([[1, 2], [-1, 0.5]])))

    # finite differences and resizing on discretised spaces (uniform weighting and nodes on the boundary)
    pads = ['constant', 'symmetric', 'periodic', 'order0', 'order1', 'order2',
            'symmetric_adjoint', 'order0_adjoint', 'order1_adjoint', 'order2_adjoint']
    methods = ['forward', 'backward', 'central']
    for bd in (False, True):
        for shape in ([5], [3, 4]) if tier == 'quick' else ([5], [4], [3, 4], [4, 3], [3, 3]):
            nd = len(shape)
            sp = odl.uniform_discr([0] * nd, [2] * nd, shape, nodes_on_bdry=bd)
            for meth in methods:
                for pad in pads:
                    o = {'method': meth, 'pad_mode': pad, 'nodes_on_bdry': str(bd), 'ndim': str(nd)}
                    add('PartialDerivative', o, lambda sp=sp, meth=meth, pad=pad, nd=nd:
                        odl.PartialDerivative(sp, axis=nd - 1, method=meth, pad_mode=pad))
                    if pad in ('constant', 'symmetric', 'periodic', 'order0', 'order1', 'order2') or tier != 'quick':
                        add('Gradient', o, lambda sp=sp, meth=meth, pad=pad: odl.Gradient(sp, method=meth, pad_mode=pad))
                        add('Divergence', o, lambda sp=sp, meth=meth, pad=pad:
                            odl.Divergence(range=sp, method=meth, pad_mode=pad))
            for pad in ('constant', 'symmetric', 'periodic', 'order0', 'symmetric_adjoint', 'order0_adjoint'):
                add('Laplacian', {'pad_mode': pad, 'nodes_on_bdry': str(bd), 'ndim': str(nd)},
                    lambda sp=sp, pad=pad: odl.Laplacian(sp, pad_mode=pad))
        sp = odl.uniform_discr(0, 2, 4, nodes_on_bdry=bd)
        for pad in ('constant', 'symmetric', 'periodic', 'order0', 'order1'):
            add('ResizingOperator', {'pad_mode': pad, 'nodes_on_bdry': str(bd), 'dir': 'extend'},
                lambda sp=sp, pad=pad: odl.ResizingOperator(sp, ran_shp=(7,), pad_mode=pad))
            add('ResizingOperator', {'pad_mode': pad, 'nodes_on_bdry': str(bd), 'dir': 'restrict'},
                lambda sp=sp, pad=pad: odl.ResizingOperator(sp, ran_shp=(2,), pad_mode=pad))
    # transforms (adjoint documented exact): DFT, FT, orthogonal periodic wavelets
    for n in (2, 4, 3):
        for hc in (False, True):
            o = {'n': str(n), 'halfcomplex': str(hc)}
            if hc:
                add('DiscreteFourierTransform', o, lambda n=n:
                    odl.trafos.DiscreteFourierTransform(odl.uniform_discr(0, n, n, dtype='float64'), halfcomplex=True))
            else:
                add('DiscreteFourierTransform', o, lambda n=n:
                    odl.trafos.DiscreteFourierTransform(odl.uniform_discr(0, n, n, dtype='complex128')))
                add('DiscreteFourierTransformInverse', o, lambda n=n:
                    odl.trafos.DiscreteFourierTransform(odl.uniform_discr(0, n, n, dtype='complex128')).inverse)
    add('FourierTransform', {'dtype': 'complex'},
        lambda: odl.trafos.FourierTransform(odl.uniform_discr(-2, 2, 4, dtype='complex128')))
    add('FourierTransform', {'dtype': 'real-halfcomplex'},
        lambda: odl.trafos.FourierTransform(odl.uniform_discr(-2, 2, 4, dtype='float64')))
    add('WaveletTransform', {'wavelet': 'haar', 'pad_mode': 'pywt_periodic'},
        lambda: odl.trafos.WaveletTransform(odl.uniform_discr(0, 1, 8), 'haar', nlevels=2, pad_mode='pywt_periodic'))
    w2 = odl.uniform_discr([0, 0], [1, 2], [4, 4])
    for axes in (None, (0,), (1,), -1):
        for pad in ('pywt_periodic', 'constant'):
            add('WaveletTransform', {'wavelet': 'haar', 'pad_mode': pad, 'ndim': '2', 'axes': str(axes)},
                lambda axes=axes, pad=pad: odl.trafos.WaveletTransform(w2, 'haar', nlevels=1, pad_mode=pad, axes=axes))
            add('WaveletTransformInverse', {'wavelet': 'haar', 'pad_mode': pad, 'ndim': '2', 'axes': str(axes)},
                lambda axes=axes, pad=pad: odl.trafos.WaveletTransform(w2, 'haar', nlevels=1, pad_mode=pad, axes=axes).inverse)
    add('WaveletTransform', {'wavelet': 'db2', 'pad_mode': 'pywt_periodic'},
        lambda: odl.trafos.WaveletTransform(odl.uniform_discr(0, 1, 8), 'db2', nlevels=1, pad_mode='pywt_periodic'))
    recipes.n_first = len(R)           # recipes of the first catalogue version (opcatalog derives all forms of these)
    wide_recipes(tier, add)
    mixed_field_expr_recipes(tier, add)
    return R


def mixed_field_expr_recipes(tier, add):
    """Arithmetic combinations around operators BETWEEN a real and a complex space (ComplexEmbedding, RealPart,
    ImagPart): vector / scalar multiples on either side, sums, compositions.  The conjugations of the adjoint rules
    depend on the field of the range resp. domain of the wrapped operator, which differ here."""
    spaces = [('rn', odl.rn(3), odl.cn(3)), ('rn-const', odl.rn(3, weighting=2.0), odl.cn(3, weighting=2.0)),
              ('discr', odl.uniform_discr(0, 2, 4), odl.uniform_discr(0, 2, 4, dtype=complex))]
    if tier == 'thorough':
        spaces.append(('rn-array', odl.rn(3, weighting=[1.0, 2.0, 0.5]), odl.cn(3, weighting=[1.0, 2.0, 0.5])))
    cv, rv = [1 + 2j, -1j, 2 - 1j, 0.5j], [2, -1, 0.5, 3]
    for sn, rsp, csp in spaces:
        bases = [('embed', lambda rsp=rsp, csp=csp: odl.ComplexEmbedding(rsp)),
                 ('embed-cscalar', lambda rsp=rsp, csp=csp: odl.ComplexEmbedding(rsp, scalar=1 - 2j)),
                 ('realpart', lambda rsp=rsp, csp=csp: odl.RealPart(csp)),
                 ('imagpart', lambda rsp=rsp, csp=csp: odl.ImagPart(csp))]
        for bn, mk in bases:
            def vec_in(sp):
                return _v(sp, rv if sp.is_real else cv)

            def sc_in(sp):
                # a complex scalar multiple of an operator between a real and a complex space has no adjoint in ODL
                # (conj(a) * A.adjoint is refused: TypeError) - the property only speaks about operators that return one
                return -2.0
            wraps = {
                'lvec': lambda mk=mk: vec_in(mk().range) * mk(),
                'rvec': lambda mk=mk: mk() * vec_in(mk().domain),
                'lscal': lambda mk=mk: sc_in(mk().range) * mk(),
                'rscal': lambda mk=mk: mk() * sc_in(mk().domain),
                'sum': lambda mk=mk: mk() + 2 * mk(),
                'comp-left': lambda mk=mk: odl.MultiplyOperator(vec_in(mk().range)) * mk(),
                'comp-right': lambda mk=mk: mk() * odl.MultiplyOperator(vec_in(mk().domain)),
                'lvec-comp': lambda mk=mk: vec_in(mk().range) * (odl.MultiplyOperator(vec_in(mk().range)) * mk()),
                'lvec-rvec': lambda mk=mk: vec_in(mk().range) * (mk() * vec_in(mk().domain)),
                'neg-lvec': lambda mk=mk: -(vec_in(mk().range) * mk()),
            }
            for wn, fn in sorted(wraps.items()):
                add('expr-mixed-field', {'space': sn, 'base': bn, 'wrap': wn}, fn)


# ====================================================================== systematic widening
# Every constructor keyword of every built-in linear class gets >= 2 materially different values, crossed (all-pairs
# in the quick tier, full product in the thorough tier) with the space axes of harness/catutil.py.  Option values are
# short labels; the label vocabulary of spaces extends the one above so that family-level signatures keep matching.
def _space_axes(kinds=('rn', 'discr'), fields=('real', 'complex'), precs=('double', 'single'),
                weightings=('none', 'const', 'array'), shapes=('1d', '2d', '3d'), bdrys=('False', 'True', 'asym')):
    from collections import OrderedDict as OD
    return OD([('kind', list(kinds)), ('field', list(fields)), ('prec', list(precs)), ('weighting', list(weightings)),
               ('shape', list(shapes)), ('bdry', list(bdrys) if 'discr' in kinds else ['False'])])


_SP_KEYS = ('kind', 'field', 'prec', 'weighting', 'shape', 'bdry')
_SP_CACHE = {}


def _sp(c, **kw):
    """space of a combo (cached) -> (label dict, space)"""
    from . import catutil as U
    key = tuple(c[k] for k in _SP_KEYS) + tuple(sorted((k, str(v)) for k, v in kw.items()))
    if key not in _SP_CACHE:
        _SP_CACHE[key] = U.mk_space(**dict({k: c[k] for k in _SP_KEYS}, **kw))
    return _SP_CACHE[key]


def _sp_valid(c):
    return c['kind'] == 'discr' or c['bdry'] == 'False'


def _combos(tier, opt_axes, sp_axes, valid=None, cap=400):
    """option axes x space axes: all-pairs (quick) / full product or all-pairs + sample of `cap` members (thorough)."""
    from collections import OrderedDict as OD
    from . import catutil as U
    axes = OD(list(opt_axes.items()) + list(sp_axes.items()))
    return U.cross(tier, axes, lambda c: _sp_valid(c) and (valid is None or valid(c)), cap)


def _o(c, lab, *names, **extra):
    """options dict of a recipe: chosen option axes + the space label (+ extras)."""
    o = {}
    for n in names:
        o[n] = c[n]
    o.update(lab)
    o.update(extra)
    return o


def wide_recipes(tier, add):
    from collections import OrderedDict as OD
    import scipy.sparse
    from . import catutil as U
    vec, posvec = U.vec, U.posvec
    RN, CN = odl.RealNumbers(), odl.ComplexNumbers()

    # ---------------------------------------------------------------- default_ops
    SC = {'zero': 0.0, 'one': 1, 'neg': -2.0, 'half': 0.5, 'imag': 2j, 'complex-general': 1.5 - 2j}

    def sc_ok(c):
        return c['field'] == 'complex' or c['scalar'] not in ('imag', 'complex-general')
    for c in _combos(tier, OD([('scalar', list(SC))]), _space_axes(), sc_ok):
        lab, sp = _sp(c)
        add('ScalingOperator', _o(c, lab, 'scalar'), lambda sp=sp, a=SC[c['scalar']]: odl.ScalingOperator(sp, a))
    for c in _combos(tier, OD(), _space_axes()):
        lab, sp = _sp(c)
        add('IdentityOperator', _o(c, lab), lambda sp=sp: odl.IdentityOperator(sp))
        add('InnerProductOperator', _o(c, lab), lambda sp=sp: odl.InnerProductOperator(vec(sp)))
        add('x.T', _o(c, lab), lambda sp=sp: vec(sp).T)
        add('RealPart', _o(c, lab), lambda sp=sp: odl.RealPart(sp))
        add('ImagPart', _o(c, lab), lambda sp=sp: odl.ImagPart(sp))
    # the zero ConstantOperator is flagged linear (independent of the space: three plain ones)
    for sn_, sp_ in (('rn', odl.rn(3)), ('cn', odl.cn(2)), ('discr', odl.uniform_discr(0, 1, 3))):
        add('ConstantOperator', {'constant': 'zero', 'space': sn_}, lambda sp_=sp_: odl.ConstantOperator(sp_.zero()))
        add('ConstantOperator', {'constant': 'zero', 'space': sn_, 'range': 'other'},
            lambda sp_=sp_: odl.ConstantOperator(odl.rn(2).zero(), domain=sp_, range=odl.rn(2)))
    for fn_, fld in (('real', RN), ('complex', CN)):
        for sn, a in SC.items():
            if fn_ == 'real' and sn in ('imag', 'complex-general'):
                continue
            add('ScalingOperator', {'space': 'field-' + fn_, 'scalar': sn}, lambda fld=fld, a=a: odl.ScalingOperator(fld, a))
        add('IdentityOperator', {'space': 'field-' + fn_}, lambda fld=fld: odl.IdentityOperator(fld))
    # on product spaces (power / general / nested ; weighting none / const / array)
    for c in U.cross(tier, OD([('form', ['power1', 'power2', 'power3', 'general', 'nested', 'nested-general']),
                               ('pspace-weighting', ['none', 'const', 'array']), ('field', ['real', 'complex']),
                               ('scalar', ['neg', 'complex-general'])]),
                     lambda c: c['field'] == 'complex' or c['scalar'] == 'neg'):
        base = odl.cn(2) if c['field'] == 'complex' else odl.rn(2)
        o = {'space': 'pspace-' + c['form'], 'pspace-weighting': c['pspace-weighting'], 'field': c['field']}

        def ps(c=c, base=base):
            return U.mk_pspace(base, c['form'], c['pspace-weighting'])
        add('ScalingOperator', dict(o, scalar=c['scalar']), lambda ps=ps, a=SC[c['scalar']]: odl.ScalingOperator(ps(), a))
        add('IdentityOperator', o, lambda ps=ps: odl.IdentityOperator(ps()))
        add('ZeroOperator', o, lambda ps=ps: odl.ZeroOperator(ps()))
        add('MultiplyOperator', dict(o, multiplicand='element'), lambda ps=ps: odl.MultiplyOperator(vec(ps())))
        add('InnerProductOperator', o, lambda ps=ps: odl.InnerProductOperator(vec(ps())))
    # ZeroOperator: range default / other size / complex version / weighted version of the domain
    for c in _combos(tier, OD([('range', ['default', 'same', 'other-size', 'complex', 'other-weighting'])]), _space_axes()):
        lab, sp = _sp(c)

        def mk(sp=sp, r=c['range']):
            if r == 'default':
                return odl.ZeroOperator(sp)
            ran = {'same': sp, 'other-size': odl.tensor_space(2, dtype=sp.dtype), 'complex': sp.complex_space,
                   'other-weighting': odl.tensor_space(sp.shape, dtype=sp.dtype, weighting=4.0)}[r]
            return odl.ZeroOperator(sp, range=ran)
        add('ZeroOperator', _o(c, lab, 'range'), mk)
    # MultiplyOperator: multiplicand element / scalar / array ; domain default / space / field ; range default / space
    def mul_ok(c):
        m, d, r = c['multiplicand'], c['domain'], c['range']
        if m in ('scalar', 'scalar-complex', 'array'):
            if not (d == 'space' and r == 'space'):
                return False
        if m in ('scalar-complex', 'element-real') and c['field'] != 'complex':
            return False
        return True
    for c in _combos(tier, OD([('multiplicand', ['element', 'element-real', 'element-zeros', 'scalar', 'scalar-complex', 'array']),
                               ('domain', ['default', 'space', 'field']), ('range', ['default', 'space'])]),
                     _space_axes(), mul_ok):
        lab, sp = _sp(c)

        def mk(sp=sp, c=c):
            m = c['multiplicand']
            if m == 'element':
                y = vec(sp)
            elif m == 'element-real':           # real-valued multiplicand in a complex space
                y = sp.element(np.resize([2.0, -1.0, 0.5], sp.size).reshape(sp.shape))
            elif m == 'element-zeros':
                y = vec(sp, [0.0, 2.0, 0.0], [0.0, 1 - 1j, 0.0])
            elif m == 'scalar':
                y = -1.5
            elif m == 'scalar-complex':
                y = 0.5 + 2j
            else:
                y = vec(sp).asarray().copy()
            kw = {}
            if c['domain'] == 'space':
                kw['domain'] = sp
            elif c['domain'] == 'field':
                kw['domain'] = sp.field
            if c['range'] == 'space':
                kw['range'] = sp
            return odl.MultiplyOperator(y, **kw)
        add('MultiplyOperator', _o(c, lab, 'multiplicand', 'domain', 'range'), mk)
    for fn_, fld, a in (('real', RN, -1.5), ('complex', CN, 0.5 + 2j)):
        add('MultiplyOperator', {'space': 'field-' + fn_, 'multiplicand': 'scalar', 'domain': 'field', 'range': 'field'},
            lambda fld=fld, a=a: odl.MultiplyOperator(a, domain=fld, range=fld))
    # ComplexEmbedding: every class of scalar the adjoint / inverse branch on
    CE = OD([('default', None), ('one', 1.0), ('real', 2.0), ('neg', -1.5), ('imag', 1j), ('neg-imag', -2j),
             ('complex-general', 2 + 1j), ('complex-general-neg', -1 - 0.5j), ('zero', 0.0)])
    for c in _combos(tier, OD([('scalar', list(CE))]), _space_axes()):
        lab, sp = _sp(c)
        a = CE[c['scalar']]
        add('ComplexEmbedding', _o(c, lab, 'scalar'),
            lambda sp=sp, a=a: odl.ComplexEmbedding(sp) if a is None else odl.ComplexEmbedding(sp, scalar=a))

    # ---------------------------------------------------------------- tensor_ops: pointwise operators on vector fields
    def pw_ok(c):
        return not (c['field'] == 'complex' and c['base'] == 'discr2d-bdry')
    BASES = {'rn': lambda f, p: U.mk_space('rn', f, p, shape='1d')[1],
             'rn-const': lambda f, p: U.mk_space('rn', f, p, weighting='const')[1],
             'discr2d': lambda f, p: U.mk_space('discr', f, p, shape='2d')[1],
             'discr2d-bdry': lambda f, p: U.mk_space('discr', f, p, shape='2d', bdry='asym')[1]}
    PWW = {'none': None, 'unit-scalar': 1.0, 'unit-array': 'ones', 'scalar': 2.0, 'array': 'arr'}

    def opw(n, w):
        if w == 'ones':
            return [1.0] * n
        if w == 'arr':
            return [2.0, 0.5, 4.0][:n]
        return w
    for c in U.cross(tier, OD([('pspace-weighting', ['none', 'const', 'array']), ('op-weighting', list(PWW)),
                               ('length', ['1', '2', '3']), ('base', list(BASES)), ('field', ['real', 'complex']),
                               ('prec', ['double', 'single']), ('vecfield', ['element', 'list'])]), pw_ok):
        n = int(c['length'])
        o = {k: c[k] for k in ('pspace-weighting', 'op-weighting', 'length', 'base', 'vecfield')}
        if c['field'] == 'complex':
            o['dtype'] = 'complex'
        if c['prec'] == 'single':
            o['prec'] = 'single'
        if c['base'] == 'discr2d-bdry':
            o['nodes_on_bdry'] = 'True'

        def ps(c=c, n=n):
            base = BASES[c['base']](c['field'], c['prec'])
            return U.mk_pspace(base, 'power%d' % n, c['pspace-weighting'])

        def vf(ps_, c=c):
            v = vec(ps_)
            return [vi.asarray().copy() for vi in v] if c['vecfield'] == 'list' else v
        w = opw(n, PWW[c['op-weighting']])
        kw = {} if w is None else {'weighting': w}
        add('PointwiseInner', o, lambda ps=ps, vf=vf, kw=kw: odl.PointwiseInner(ps(), vf(ps()), **kw))
        add('PointwiseInnerAdjoint', o, lambda ps=ps, vf=vf, kw=kw: odl.operator.tensor_ops.PointwiseInnerAdjoint(
            ps()[0], vf(ps()), vfspace=ps(), **kw))
        if c['vecfield'] == 'element':
            o2 = {k: v for k, v in o.items() if k != 'vecfield'}
            add('PointwiseSum', o2, lambda ps=ps, kw=kw: odl.PointwiseSum(ps(), **kw))
    # PointwiseInnerAdjoint with the vector-field space inferred from (sspace, vecfield, weighting)
    for wn in PWW:
        for fld in ('real', 'complex'):
            def mk(wn=wn, fld=fld):
                base = odl.cn(2) if fld == 'complex' else odl.rn(2)
                v = vec(odl.ProductSpace(base, 2))
                w = opw(2, PWW[wn])
                return odl.operator.tensor_ops.PointwiseInnerAdjoint(base, v, **({} if w is None else {'weighting': w}))
            add('PointwiseInnerAdjoint', {'vfspace': 'inferred', 'op-weighting': wn, 'field': fld}, mk)

    # ---------------------------------------------------------------- MatrixOperator
    MATS = {'real': np.array([[1.0, 2.0, 0.0], [-1.0, 0.5, 3.0]]),
            'complex': np.array([[1 + 1j, 2.0, 0.0], [-1j, 0.5, 3 - 2j]]),
            'float32': np.array([[1.0, 2.0, 0.0], [-1.0, 0.5, 3.0]], dtype='float32'),
            'int': np.array([[1, 2, 0], [-1, 0, 3]]),
            'square': np.array([[2.0, 1.0, 0.0], [0.0, 1.0, -1.0], [0.5, 0.0, 1.0]])}
    FMT = {'dense': lambda m: m, 'dense-F': np.asfortranarray, 'csr': scipy.sparse.csr_matrix, 'csc': scipy.sparse.csc_matrix,
           'coo': scipy.sparse.coo_matrix, 'list': lambda m: m.tolist()}

    def mat_ok(c):
        if c['format'] in ('csr', 'csc', 'coo') and c['axis'] != '0':
            return False                # documented: sparse matrices need a 1-d domain
        if c['axis'] != '0' and c['domain'] != 'explicit':
            return False
        if c['weighting'] != 'none' and c['domain'] != 'explicit' and c['range'] != 'explicit':
            return False
        if c['format'] == 'list' and c['matrix'] in ('float32',):
            return False
        return True

    def mat_mk(c):
        M = FMT[c['format']](MATS[c['matrix']])
        cplx = c['matrix'] == 'complex' or c['field'] == 'complex'
        dt = 'complex128' if cplx else 'float64'
        ddt = 'complex128' if c['field'] == 'complex' else 'float64'
        w = {'none': {}, 'const': {'weighting': 2.0}, 'array': 'array'}[c['weighting']]
        nr, nc = MATS[c['matrix']].shape

        def space(shape, dtype, which):
            if w == 'array':
                arr = np.resize(np.array([1.0, 2.0, 0.5, 4.0]), int(np.prod(shape))).reshape(shape)
                return odl.tensor_space(shape, dtype=dtype, weighting=arr if which == 'd' else 2 * arr)
            kw = dict(w)
            if kw and which == 'r':
                kw['weighting'] = 4.0
            return odl.tensor_space(shape, dtype=dtype, **kw)
        kw = {}
        ax = int(c['axis'])
        dshape, rshape = (nc,), (nr,)
        if ax != 0:
            dshape, rshape = (2, nc), (2, nr)
        if c['domain'] == 'explicit':
            kw['domain'] = space(dshape, ddt, 'd')
        if c['range'] == 'explicit':
            kw['range'] = space(rshape, dt, 'r')
        if ax != 0:
            kw['axis'] = ax
        return odl.MatrixOperator(M, **kw)
    for c in U.cross(tier, OD([('format', list(FMT)), ('matrix', list(MATS)), ('domain', ['default', 'explicit']),
                               ('range', ['default', 'explicit']), ('weighting', ['none', 'const', 'array']),
                               ('axis', ['0', '1', '-1']), ('field', ['real', 'complex'])]), mat_ok):
        o = {k: c[k] for k in ('format', 'matrix', 'domain', 'range', 'weighting', 'axis')}
        if c['field'] == 'complex':
            o['dtype'] = 'complex'
        try:
            op0 = mat_mk(c)
        except (ValueError, TypeError):
            continue            # combination rejected by the constructor (e.g. complex matrix into an explicit real range)
        # 'cast': the range dtype is wider than the domain dtype (real -> complex, float32 -> float64, int -> float)
        o['cast'] = 'none' if np.can_cast(op0.range.dtype, op0.domain.dtype) else 'widening'
        add('MatrixOperator', o, lambda c=c: mat_mk(c))
    # axis 0 of a 2-d domain (the matrix acts on the FIRST axis, the second is a batch axis)
    for fmt in ('dense', 'dense-F'):
        add('MatrixOperator', {'format': fmt, 'matrix': 'real', 'domain': 'explicit-2d', 'range': 'default', 'weighting': 'none', 'axis': '0'},
            lambda fmt=fmt: odl.MatrixOperator(FMT[fmt](MATS['real']), domain=odl.rn((3, 2)), axis=0))

    # ---------------------------------------------------------------- sampling / flattening
    def samp_ok(c):
        if c['shape'] == '3d':
            return False
        if c['variant'] in ('integrate', 'dirac-char') and False:
            return False
        return True
    PTS1 = {'unique': [[0, 2]], 'repeated': [[0, 0, 1]], 'flat-list': [2, 0], 'single-int': 1}
    PTS2 = {'unique': [[0, 1], [2, 0]], 'repeated': [[1, 1, 0], [2, 2, 0]], 'flat-list': [[1], [1]], 'single-int': [1, 2]}
    for c in _combos(tier, OD([('variant', ['default', 'point_eval', 'integrate']), ('indices', list(PTS1))]),
                     _space_axes(shapes=('1d', '2d')), samp_ok):
        lab, sp = _sp(c)
        pts = (PTS1 if sp.ndim == 1 else PTS2)[c['indices']]
        kw = {} if c['variant'] == 'default' else {'variant': c['variant']}
        add('SamplingOperator', _o(c, lab, 'variant', 'indices'),
            lambda sp=sp, pts=pts, kw=kw: odl.SamplingOperator(sp, pts, **kw))
    for c in _combos(tier, OD([('variant', ['default', 'char_fun', 'dirac']), ('indices', list(PTS1))]),
                     _space_axes(shapes=('1d', '2d')), samp_ok):
        lab, sp = _sp(c)
        pts = (PTS1 if sp.ndim == 1 else PTS2)[c['indices']]
        kw = {} if c['variant'] == 'default' else {'variant': c['variant']}
        add('WeightedSumSamplingOperator', _o(c, lab, 'variant', 'indices'),
            lambda sp=sp, pts=pts, kw=kw: odl.WeightedSumSamplingOperator(sp, pts, **kw))
    for c in _combos(tier, OD([('order', ['default', 'C', 'F'])]), _space_axes()):
        lab, sp = _sp(c)
        kw = {} if c['order'] == 'default' else {'order': c['order']}
        add('FlatteningOperator', _o(c, lab, 'order'), lambda sp=sp, kw=kw: odl.FlatteningOperator(sp, **kw))
        add('FlatteningOperatorInverse', _o(c, lab, 'order'), lambda sp=sp, kw=kw: odl.FlatteningOperator(sp, **kw).inverse)
    wide_recipes_2(tier, add)


def wide_recipes_2(tier, add):
    """product-space operators, finite differences, resizing, transforms"""
    from collections import OrderedDict as OD
    import scipy.sparse
    from odl.util import COOMatrix
    from . import catutil as U
    vec = U.vec
    quick = tier == 'quick'

    # ---------------------------------------------------------------- building blocks for block operators
    def blocks(field, comp):
        """-> dict of small operators on X = base(2) / Y = base(3) (component weighting `comp`)"""
        dt = 'complex128' if field == 'complex' else 'float64'
        kwx = {'none': {}, 'const': {'weighting': 2.0}, 'array': {'weighting': [1.0, 4.0]}}[comp]
        kwy = {'none': {}, 'const': {'weighting': 0.5}, 'array': {'weighting': [2.0, 1.0, 0.5]}}[comp]
        X = odl.tensor_space(2, dtype=dt, **kwx)
        Y = odl.tensor_space(3, dtype=dt, **kwy)
        a = (1 - 2j) if field == 'complex' else -2.0
        m = np.array([[1.0, 0.0, 2.0], [0.0, -1.0, 1.0]]).astype(dt)
        if field == 'complex':
            m = m * (1 + 1j)
        return {'X': X, 'Y': Y, 'I': odl.IdentityOperator(X), 'S': odl.ScalingOperator(X, a),
                'V': odl.MultiplyOperator(vec(X)), 'Iy': odl.IdentityOperator(Y), 'Sy': odl.ScalingOperator(Y, a),
                # rectangular blocks between unweighted X / Y only (MatrixOperator ignores weightings: KF-C05-5)
                'M': odl.MatrixOperator(m, domain=odl.tensor_space(3, dtype=dt), range=odl.tensor_space(2, dtype=dt))}

    def coo(entries, shape, order):
        """entries: list of (row, col, op) ; order: row-major / col-major / reversed"""
        ent = sorted(entries, key=(lambda e: (e[0], e[1])) if order == 'row-major' else (lambda e: (e[1], e[0])))
        if order == 'reversed':
            ent = ent[::-1]
        data = np.empty(len(ent), dtype=object)
        data[:] = [e[2] for e in ent]
        return COOMatrix(data, ([e[0] for e in ent], [e[1] for e in ent]), shape)

    def pso(layout, form, field, comp, spaces_given):
        B = blocks(field, comp)
        I, S, V, X = B['I'], B['S'], B['V'], B['X']
        # 'rect': blocks between DIFFERENT component spaces (Z = unweighted base(3), X, Y): [[M, 0], [A, 0]] with
        # M: Z -> W (2x3 matrix), A: Z -> Y, zero blocks X -> W, X -> Y
        Z = odl.tensor_space(3, dtype=X.dtype)
        W = odl.tensor_space(2, dtype=X.dtype)
        A = odl.ZeroOperator(Z, B['Y']) if comp != 'none' else odl.ScalingOperator(Z, 2.0)
        ent = {'full-2x2': [(0, 0, I), (0, 1, S), (1, 0, V), (1, 1, S)],
               'with-None': [(0, 0, I), (0, 1, S), (1, 0, V)],
               'upper-tri-3x3': [(0, 0, I), (0, 1, S), (0, 2, V), (1, 1, S), (1, 2, I), (2, 2, V)],
               'single-row': [(0, 0, I), (0, 1, S), (0, 2, V)],
               'single-col': [(0, 0, I), (1, 0, S), (2, 0, V)],
               'diag': [(0, 0, S), (1, 1, V)],
               'antidiag': [(0, 1, S), (1, 0, V)],
               'one-by-one': [(0, 0, V)],
               'empty-row': [(0, 0, I), (0, 1, S)],             # 2x2 with an empty second row: range must be given
               'empty-col': [(0, 0, I), (1, 0, S)],             # 2x2 with an empty second column: domain must be given
               'rect': [(0, 0, B['M']), (1, 0, A), (1, 1, odl.ZeroOperator(X, A.range))],
               }[layout]
        shape = {'full-2x2': (2, 2), 'with-None': (2, 2), 'upper-tri-3x3': (3, 3), 'single-row': (1, 3), 'single-col': (3, 1),
                 'diag': (2, 2), 'antidiag': (2, 2), 'one-by-one': (1, 1), 'empty-row': (2, 2), 'empty-col': (2, 2),
                 'rect': (2, 2)}[layout]
        kw = {}
        need = layout in ('empty-row', 'empty-col')
        if layout == 'rect':
            doms, rans = [Z, X], [W, A.range]
        else:
            doms, rans = [X] * shape[1], [X] * shape[0]
        if spaces_given == 'given' or need:
            kw['domain'] = odl.ProductSpace(*doms)
            kw['range'] = odl.ProductSpace(*rans)
        if form == 'list':
            rows = [[None] * shape[1] for _ in range(shape[0])]
            for i, j, op in ent:
                rows[i][j] = op
            return odl.ProductSpaceOperator(rows, **kw)
        if form == 'list-zeros':
            rows = [[0] * shape[1] for _ in range(shape[0])]
            for i, j, op in ent:
                rows[i][j] = op
            return odl.ProductSpaceOperator(rows, **kw)
        return odl.ProductSpaceOperator(coo(ent, shape, form[4:]), **kw)
    LAY = ['full-2x2', 'with-None', 'upper-tri-3x3', 'single-row', 'single-col', 'diag', 'antidiag', 'one-by-one', 'empty-row',
           'empty-col', 'rect']
    for c in U.cross(tier, OD([('blocks', LAY), ('form', ['list', 'list-zeros', 'coo-row-major', 'coo-col-major', 'coo-reversed']),
                               ('field', ['real', 'complex']), ('comp-weighting', ['none', 'const', 'array']),
                               ('spaces', ['inferred', 'given'])])):
        o = dict(c)
        add('ProductSpaceOperator', o, lambda c=c: pso(c['blocks'], c['form'], c['field'], c['comp-weighting'], c['spaces']))
    # nested: blocks that are themselves block operators (domain / range are product spaces of product spaces)
    for fld in ('real', 'complex'):
        def nested(fld=fld, depth2=False):
            inner = pso('full-2x2', 'list', fld, 'none', 'inferred')
            inner2 = pso('antidiag', 'coo-col-major', fld, 'none', 'inferred')
            return odl.ProductSpaceOperator([[inner, inner2], [None, inner]])
        add('ProductSpaceOperator', {'blocks': 'nested', 'field': fld}, nested)
        add('DiagonalOperator', {'parts': 'nested', 'field': fld},
            lambda fld=fld: odl.DiagonalOperator(pso('full-2x2', 'list', fld, 'none', 'inferred'), blocks(fld, 'none')['S']))
        add('BroadcastOperator', {'parts': 'nested', 'field': fld},
            lambda fld=fld: odl.BroadcastOperator(pso('full-2x2', 'list', fld, 'none', 'inferred'),
                                                  pso('antidiag', 'coo-col-major', fld, 'none', 'inferred')))
        add('ReductionOperator', {'parts': 'nested', 'field': fld},
            lambda fld=fld: odl.ReductionOperator(pso('full-2x2', 'list', fld, 'none', 'inferred'),
                                                  pso('antidiag', 'coo-col-major', fld, 'none', 'inferred')))

    # Broadcast / Reduction / Diagonal: argument forms x parts x field x component weighting
    def parts(which, field, comp):
        B = blocks(field, comp)
        return {'two': (B['I'], B['S']), 'one': (B['V'],), 'three': (B['S'], B['V'], B['I']), 'int-form': (B['S'], 3),
                'int-one': (B['V'], 1), 'same-twice': (B['V'], B['V'])}[which]
    for c in U.cross(tier, OD([('parts', ['two', 'one', 'three', 'int-form', 'int-one', 'same-twice']), ('field', ['real', 'complex']),
                               ('comp-weighting', ['none', 'const', 'array'])])):
        o = dict(c)
        add('BroadcastOperator', o, lambda c=c: odl.BroadcastOperator(*parts(c['parts'], c['field'], c['comp-weighting'])))
        add('ReductionOperator', o, lambda c=c: odl.ReductionOperator(*parts(c['parts'], c['field'], c['comp-weighting'])))
        add('DiagonalOperator', o, lambda c=c: odl.DiagonalOperator(*parts(c['parts'], c['field'], c['comp-weighting'])))

        def diag_given(c=c):
            ops = parts(c['parts'], c['field'], c['comp-weighting'])
            n = ops[1] if isinstance(ops[1] if len(ops) > 1 else None, int) else len(ops)
            X = ops[0].domain
            return odl.DiagonalOperator(*ops, domain=odl.ProductSpace(X, n), range=odl.ProductSpace(X, n))
        add('DiagonalOperator', dict(o, spaces='given'), diag_given)
    for fld in ('real', 'complex'):
        # rectangular parts (different domains / ranges per part)
        add('DiagonalOperator', {'parts': 'rect', 'field': fld}, lambda fld=fld: odl.DiagonalOperator(blocks(fld, 'none')['M'], blocks(fld, 'none')['S']))
        add('BroadcastOperator', {'parts': 'rect', 'field': fld}, lambda fld=fld: odl.BroadcastOperator(blocks(fld, 'none')['M'], blocks(fld, 'none')['Iy']))
        add('ReductionOperator', {'parts': 'rect', 'field': fld}, lambda fld=fld: odl.ReductionOperator(blocks(fld, 'none')['M'], blocks(fld, 'none')['S']))

    # ComponentProjection / ComponentProjectionAdjoint: index forms x product-space forms x weighting x field
    IDX = {'first': 0, 'last': 'last', 'neg': -1, 'list': 'list', 'list-one': [0], 'slice': slice(0, 2), 'slice-step': slice(None, None, 2)}

    def cp_ok(c):
        n = {'power1': 1, 'power2': 2, 'power3': 3, 'general': 2, 'nested': 2, 'nested-general': 2}[c['form']]
        if c['index'] == 'slice-step' and n < 3:
            return False
        return True

    def cp(cls, c):
        base = odl.cn(2) if c['field'] == 'complex' else odl.rn(2)
        ps = U.mk_pspace(base, c['form'], c['pspace-weighting'])
        i = IDX[c['index']]
        if i == 'last':
            i = len(ps) - 1
        elif i == 'list':
            i = list(range(len(ps)))[::-1]
        return cls(ps, i)
    for c in U.cross(tier, OD([('index', list(IDX)), ('form', ['power1', 'power2', 'power3', 'general', 'nested', 'nested-general']),
                               ('pspace-weighting', ['none', 'const', 'array']), ('field', ['real', 'complex'])]), cp_ok):
        o = dict(c)
        add('ComponentProjection', o, lambda c=c: cp(odl.ComponentProjection, c))
        add('ComponentProjectionAdjoint', o, lambda c=c: cp(odl.ComponentProjectionAdjoint, c))
    wide_recipes_3(tier, add)


def wide_recipes_3(tier, add):
    """finite differences, resizing, Fourier and wavelet transforms"""
    from collections import OrderedDict as OD
    from . import catutil as U
    DSH = {'1d': (4,), '2d': (3, 4), '3d': (2, 3, 2)}
    DSD = {'1d': [0.5], '2d': [0.5, 2.0], '3d': [0.5, 1.0, 2.0]}
    PADS = ['constant', 'symmetric', 'periodic', 'order0', 'order1', 'order2',
            'symmetric_adjoint', 'order0_adjoint', 'order1_adjoint', 'order2_adjoint']
    METH = ['forward', 'backward', 'central']
    dsp_axes = _space_axes(kinds=('discr',))

    def dsp(c):
        return _sp(c, shapes=DSH, sides=DSD)

    def other_dtype(sp):
        """the same discretisation with the other precision (a valid `range` of the difference operators)"""
        return sp.astype({'float64': 'float32', 'float32': 'float64', 'complex128': 'complex64', 'complex64': 'complex128'}[
            np.dtype(sp.dtype).name])

    def ax_of(c, nd):
        return {'first': 0, 'last': nd - 1, 'neg-last': -1, 'neg-first': -nd}[c['axis']]

    def pd_ok(c):
        nd = len(DSH[c['shape']])
        n = DSH[c['shape']][ax_of(c, nd)]
        if c['pad_mode'] in ('order2', 'order2_adjoint') and n < 3:
            return False
        if c['pad_const'] == 'nonzero-unused' and c['pad_mode'] == 'constant':
            return False
        if c['range'] == 'other-dtype' and c['weighting'] == 'array':
            return False            # astype of an array-weighted space raises (KF-C20-6)
        return True
    for c in _combos(tier, OD([('axis', ['first', 'last', 'neg-last', 'neg-first']), ('method', METH), ('pad_mode', PADS),
                               ('range', ['default', 'given', 'other-dtype']), ('pad_const', ['zero', 'nonzero-unused'])]),
                     dsp_axes, pd_ok):
        lab, sp = dsp(c)

        def mk(sp=sp, c=c):
            kw = {}
            if c['range'] == 'given':
                kw['range'] = sp
            elif c['range'] == 'other-dtype':
                kw['range'] = other_dtype(sp)
            if c['pad_const'] != 'zero':
                kw['pad_const'] = 1.5
            return odl.PartialDerivative(sp, ax_of(c, sp.ndim), method=c['method'], pad_mode=c['pad_mode'], **kw)
        add('PartialDerivative', _o(c, lab, 'axis', 'method', 'pad_mode', 'range', 'pad_const'), mk)

    def gd_ok(c):
        if c['pad_mode'] in ('order2', 'order2_adjoint') and min(DSH[c['shape']]) < 3:
            return False
        if c['pad_const'] == 'nonzero-unused' and c['pad_mode'] == 'constant':
            return False
        return True
    for c in _combos(tier, OD([('method', METH), ('pad_mode', PADS),
                               ('spaces', ['domain', 'range', 'both', 'range-const', 'range-array']),
                               ('pad_const', ['zero', 'nonzero-unused'])]), dsp_axes, gd_ok):
        lab, sp = dsp(c)

        def vfs(sp=sp, c=c):
            w = {'range-const': {'weighting': 2.0}, 'range-array': {'weighting': [1.0, 4.0, 0.5][:sp.ndim]}}.get(c['spaces'], {})
            return odl.ProductSpace(sp, sp.ndim, **w)

        def mkg(sp=sp, c=c, vfs=vfs):
            kw = {'pad_const': 1.5} if c['pad_const'] != 'zero' else {}
            if c['spaces'] == 'domain':
                return odl.Gradient(sp, method=c['method'], pad_mode=c['pad_mode'], **kw)
            if c['spaces'] == 'both':
                return odl.Gradient(sp, vfs(), method=c['method'], pad_mode=c['pad_mode'], **kw)
            return odl.Gradient(range=vfs(), method=c['method'], pad_mode=c['pad_mode'], **kw)

        def mkd(sp=sp, c=c, vfs=vfs):
            kw = {'pad_const': 1.5} if c['pad_const'] != 'zero' else {}
            if c['spaces'] == 'domain':
                return odl.Divergence(range=sp, method=c['method'], pad_mode=c['pad_mode'], **kw)
            if c['spaces'] == 'both':
                return odl.Divergence(vfs(), sp, method=c['method'], pad_mode=c['pad_mode'], **kw)
            return odl.Divergence(domain=vfs(), method=c['method'], pad_mode=c['pad_mode'], **kw)
        o = _o(c, lab, 'method', 'pad_mode', 'spaces', 'pad_const')
        add('Gradient', o, mkg)
        add('Divergence', o, mkd)
    LPADS = ['constant', 'symmetric', 'periodic', 'order0', 'symmetric_adjoint', 'order0_adjoint']

    def lp_ok(c):
        return c['pad_const'] == 'zero' or (c['pad_const'] == 'nonzero') == (c['pad_mode'] == 'constant')
    for c in _combos(tier, OD([('pad_mode', LPADS), ('range', ['default', 'given']), ('pad_const', ['zero', 'nonzero', 'nonzero-unused'])]),
                     dsp_axes, lp_ok):
        lab, sp = dsp(c)

        def mk(sp=sp, c=c):
            kw = {'range': sp} if c['range'] == 'given' else {}
            if c['pad_const'] != 'zero':
                kw['pad_const'] = 1.5
            op = odl.Laplacian(sp, pad_mode=c['pad_mode'], **kw)
            if not op.is_linear:
                # constant padding with a non-zero constant is affine: once the operator says so it belongs to nlops only
                raise NotImplementedError('flagged nonlinear: no adjoint is claimed')
            return op
        add('Laplacian', _o(c, lab, 'pad_mode', 'range', 'pad_const'), mk)

    # ---------------------------------------------------------------- ResizingOperator
    RSH = {'1d': (4,), '2d': (2, 3)}
    TGT = {('1d', 'extend'): (6,), ('1d', 'restrict'): (2,), ('1d', 'same'): (4,), ('1d', 'extend-odd'): (7,),
           ('2d', 'extend'): (3, 4), ('2d', 'restrict'): (1, 2), ('2d', 'same'): (2, 3), ('2d', 'mixed'): (3, 2),
           ('2d', 'one-axis'): (2, 5)}
    rs_axes = _space_axes(kinds=('discr',), shapes=('1d', '2d'))

    def rs_ok(c):
        if (c['shape'], c['dir']) not in TGT:
            return False
        if c['how'] == 'range' and (c['offset'] != 'default' or c['discr_kwargs'] != 'none'):
            return False
        if c['dir'] == 'restrict' and (c['pad_mode'] == 'symmetric' or (c['shape'] == '2d' and c['pad_mode'] == 'order1')):
            # .inverse pads the small range back: symmetric padding by >= its size / order1 on an axis of length 1 is rejected
            return False
        return True

    def rs_mk(sp, c):
        tgt = TGT[(c['shape'], c['dir'])]
        kw = {'pad_mode': c['pad_mode']}
        if c['how'] == 'ran_shp':
            off = {'default': None, 'zero': 0, 'one': 1, 'per-axis': [1] + [0] * (sp.ndim - 1)}[c['offset']]
            if off is not None:
                kw['offset'] = off
            dk = {'none': None, 'nodes-True': {'nodes_on_bdry': True}, 'nodes-asym': {'nodes_on_bdry': [(True, False)] * sp.ndim}}[c['discr_kwargs']]
            if dk is not None:
                kw['discr_kwargs'] = dk
            return odl.ResizingOperator(sp, ran_shp=tgt, **kw)
        ran = odl.ResizingOperator(sp, ran_shp=tgt).range
        return odl.ResizingOperator(sp, ran, **kw)
    for c in _combos(tier, OD([('how', ['ran_shp', 'range']), ('dir', ['extend', 'restrict', 'same', 'mixed', 'one-axis', 'extend-odd']),
                               ('offset', ['default', 'zero', 'one', 'per-axis']),
                               ('pad_mode', ['constant', 'symmetric', 'periodic', 'order0', 'order1']),
                               ('discr_kwargs', ['none', 'nodes-True', 'nodes-asym'])]), rs_axes, rs_ok):
        lab, sp = _sp(c, shapes=RSH)
        o = _o(c, lab, 'how', 'dir', 'offset', 'pad_mode', 'discr_kwargs')
        if c['discr_kwargs'] != 'none':
            o['nodes_on_bdry'] = 'True'          # the RANGE has nodes on the boundary
        try:
            rs_mk(sp, c)
        except ValueError:
            continue            # e.g. an offset that does not fit the shape change: legitimately rejected
        add('ResizingOperator', o, lambda sp=sp, c=c: rs_mk(sp, c))

    # ---------------------------------------------------------------- Fourier transforms
    FT_ = odl.trafos
    impls = ['numpy'] + (['pyfftw'] if FT_.PYFFTW_AVAILABLE else [])
    FSH = {'1d-even': (4,), '1d-odd': (3,), '2d': (2, 3), '2d-T': (3, 4)}

    def fsp(shape, field, prec):
        shp = FSH[shape]
        dt = {('real', 'double'): 'float64', ('real', 'single'): 'float32', ('complex', 'double'): 'complex128',
              ('complex', 'single'): 'complex64'}[(field, prec)]
        return odl.uniform_discr([-1.0] * len(shp), [1.0] * len(shp), shp, dtype=dt)
    AX = {'default': None, 'first': (0,), 'last': (1,), 'neg': (-1,), 'both': (0, 1), 'int': 0, 'swapped': (1, 0)}

    def dft_ok(c):
        nd = len(FSH[c['shape']])
        if nd == 1 and c['axes'] in ('last', 'both', 'swapped'):
            return False
        if c['halfcomplex'] == 'True' and (c['field'] == 'complex' or c['sign'] == '+'):
            return False
        return True

    def dft_mk(c, cls):
        sp = fsp(c['shape'], c['field'], c['prec'])
        kw = {'impl': c['impl'], 'sign': c['sign'], 'halfcomplex': c['halfcomplex'] == 'True'}
        if AX[c['axes']] is not None:
            kw['axes'] = AX[c['axes']]
        op = FT_.DiscreteFourierTransform(sp, **kw)
        if c['range'] == 'given':
            op = FT_.DiscreteFourierTransform(sp, range=op.range, **kw)
        if cls == 'inverse':
            return op.inverse
        if cls == 'inverse-ctor':
            kw['sign'] = '+' if c['sign'] == '-' else '-'
            if c['range'] == 'given':
                return FT_.DiscreteFourierTransformInverse(sp, domain=op.range, **kw)
            return FT_.DiscreteFourierTransformInverse(sp, **kw)
        return op
    for c in U.cross(tier, OD([('shape', list(FSH)), ('axes', list(AX)), ('sign', ['-', '+']), ('halfcomplex', ['False', 'True']),
                               ('impl', impls), ('range', ['default', 'given']), ('field', ['real', 'complex']),
                               ('prec', ['double', 'single'])]), dft_ok):
        o = {k: c[k] for k in ('shape', 'axes', 'sign', 'halfcomplex', 'impl', 'range', 'field')}
        if c['prec'] == 'single':
            o['prec'] = 'single'
        add('DiscreteFourierTransform', o, lambda c=c: dft_mk(c, 'forward'))
        add('DiscreteFourierTransformInverse', o, lambda c=c: dft_mk(c, 'inverse'))
        add('DiscreteFourierTransformInverse', dict(o, ctor='direct'), lambda c=c: dft_mk(c, 'inverse-ctor'))
    SHIFT = {'default': None, 'False': False, 'per-axis': 'per-axis'}

    def ft_ok(c):
        if not dft_ok(c):
            return False
        if c['halfcomplex'] == 'True' and c['shift'] == 'False':
            return False            # documented: the halved axis must be shifted
        if c['field'] == 'real' and c['halfcomplex'] == 'default' and (c['shift'] == 'False' or c['sign'] == '+'):
            return False            # halfcomplex defaults to True for real spaces
        return True

    def ft_mk(c, inverse):
        sp = fsp(c['shape'], c['field'], c['prec'])
        kw = {'impl': c['impl'], 'sign': c['sign']}
        if c['halfcomplex'] != 'default':
            kw['halfcomplex'] = c['halfcomplex'] == 'True'
        if AX[c['axes']] is not None:
            kw['axes'] = AX[c['axes']]
        nax = sp.ndim if AX[c['axes']] is None else (1 if isinstance(AX[c['axes']], int) else len(AX[c['axes']]))
        if c['shift'] == 'False':
            kw['shift'] = False
        elif c['shift'] == 'per-axis':
            kw['shift'] = [False] * (nax - 1) + [True]
        op = FT_.FourierTransform(sp, **kw)
        if c['range'] == 'given':
            op = FT_.FourierTransform(sp, range=op.range, **kw)
        if c['tmp'] == 'given':
            op.create_temporaries()
        return op.inverse if inverse else op
    for c in U.cross(tier, OD([('shape', list(FSH)), ('axes', list(AX)), ('sign', ['-', '+']), ('halfcomplex', ['default', 'False', 'True']),
                               ('shift', list(SHIFT)), ('impl', impls), ('range', ['default', 'given']), ('tmp', ['none', 'given']),
                               ('field', ['real', 'complex']), ('prec', ['double', 'single'])]), ft_ok):
        o = {k: c[k] for k in ('shape', 'axes', 'sign', 'halfcomplex', 'shift', 'impl', 'range', 'tmp', 'field')}
        if c['prec'] == 'single':
            o['prec'] = 'single'
        add('FourierTransform', o, lambda c=c: ft_mk(c, False))
        add('FourierTransformInverse', o, lambda c=c: ft_mk(c, True))

    # ---------------------------------------------------------------- wavelet transforms
    if FT_.PYWT_AVAILABLE:
        WSH = {'1d': (8,), '1d-odd': (5,), '2d': (4, 2), '2d-T': (2, 4), '3d': (2, 2, 2)}
        WSD = {'1d': [0.5], '1d-odd': [0.5], '2d': [0.5, 2.0], '2d-T': [1.0, 0.25], '3d': [0.5, 1.0, 2.0]}
        WAX = {'default': None, 'first': (0,), 'last-neg': (-1,), 'int': 0, 'int-neg': -1, 'all': 'all', 'swapped': 'swapped'}
        FLEN = {'haar': 2, 'db1': 2, 'db2': 4, 'sym2': 4, 'coif1': 6}

        def wv_axes(c):
            shp = WSH[c['shape']]
            a = WAX[c['axes']]
            if a == 'all':
                a = tuple(range(len(shp)))
            elif a == 'swapped':
                a = tuple(range(len(shp)))[::-1]
            return a

        def wv_lens(c):
            shp = WSH[c['shape']]
            a = wv_axes(c)
            a = range(len(shp)) if a is None else ([a] if isinstance(a, int) else a)
            return [shp[i] for i in a]

        def wv_ok(c):
            lens = wv_lens(c)
            nl = {'default': None, '1': 1, '2': 2}[c['nlevels']]
            if c['axes'] == 'swapped' and len(WSH[c['shape']]) == 1:
                return False
            if nl is not None:
                import pywt
                if any(pywt.dwt_max_level(n, FLEN[c['wavelet']]) < nl for n in lens):
                    return False
            else:
                import pywt
                if min(pywt.dwt_max_level(n, FLEN[c['wavelet']]) for n in lens) < 1:
                    return False
            return True

        def wv_mk(c, inverse):
            lab_, sp = U.mk_space('discr', c['field'], c['prec'], shape=c['shape'], shapes=WSH, sides=WSD)
            kw = {'pad_mode': c['pad_mode']}
            nl = {'default': None, '1': 1, '2': 2}[c['nlevels']]
            if nl is not None:
                kw['nlevels'] = nl
            a = wv_axes(c)
            if a is not None:
                kw['axes'] = a
            if c['pad_const'] == 'zero-given':
                kw['pad_const'] = 0.0
            if inverse == 'ctor':
                return FT_.WaveletTransformInverse(sp, c['wavelet'], **kw)
            op = FT_.WaveletTransform(sp, c['wavelet'], **kw)
            return op.inverse if inverse else op
        for c in U.cross(tier, OD([('wavelet', list(FLEN)), ('nlevels', ['default', '1', '2']),
                                   ('pad_mode', ['pywt_periodic', 'constant', 'periodic', 'symmetric', 'order0', 'order1', 'reflect',
                                                 'antisymmetric', 'antireflect']),
                                   ('pad_const', ['default', 'zero-given']), ('axes', list(WAX)), ('shape', list(WSH)),
                                   ('field', ['real', 'complex']), ('prec', ['double', 'single'])]), wv_ok):
            o = {k: c[k] for k in ('wavelet', 'nlevels', 'pad_mode', 'pad_const', 'axes', 'shape', 'field')}
            if c['prec'] == 'single':
                o['prec'] = 'single'
            # the discrete transform is orthogonal only if no boundary extension other than zero padding is involved: zero
            # padding ('constant': an isometry onto the kept coefficients), filters of length 2 on even lengths, or
            # periodisation on lengths divisible by 2^levels
            lens = wv_lens(c)
            nl = {'default': None, '1': 1, '2': 2}[c['nlevels']]
            import pywt
            lv = nl if nl is not None else min(pywt.dwt_max_level(n, FLEN[c['wavelet']]) for n in lens)
            even = all(n % (2 ** lv) == 0 for n in lens)
            o['boundary'] = 'untouched' if c['pad_mode'] == 'constant' or (
                even and (FLEN[c['wavelet']] == 2 or c['pad_mode'] == 'pywt_periodic')) else 'touched'
            add('WaveletTransform', o, lambda c=c: wv_mk(c, False))
            add('WaveletTransformInverse', o, lambda c=c: wv_mk(c, True))
            add('WaveletTransformInverse', dict(o, ctor='direct'), lambda c=c: wv_mk(c, 'ctor'))

"""Catalogue of built-in linear ODL operators (recipes) and extraction of their full matrices.

Used by C05 (adjoint identity decided for ALL x, y through the full matrices of A and A.adjoint and the
Gram weights of the spaces) and by C03 (call protocol on every operator class).
"""
from fractions import Fraction

import numpy as np
import odl

from . import exact


# ------------------------------------------------------------------ coordinates
def is_field(sp):
    return isinstance(sp, odl.set.sets.Field)


def is_complex(sp):
    if is_field(sp):
        return isinstance(sp, odl.ComplexNumbers)
    return not sp.is_real


def dim(sp):
    if is_field(sp):
        return 1
    if isinstance(sp, odl.ProductSpace):
        return sum(dim(s) for s in sp)
    return int(sp.size)


def flat(sp, x):
    """coordinates of x in the canonical basis (complex ndarray)."""
    if is_field(sp):
        return np.array([complex(x)])
    if isinstance(sp, odl.ProductSpace):
        return np.concatenate([flat(spi, xi) for spi, xi in zip(sp, x)]) if len(sp) else np.zeros(0, complex)
    return np.asarray(x.asarray()).ravel().astype(complex)


def unflat(sp, c):
    if is_field(sp):
        return complex(c[0]) if is_complex(sp) else float(np.real(c[0]))
    if isinstance(sp, odl.ProductSpace):
        parts, pos = [], 0
        for spi in sp:
            m = dim(spi)
            parts.append(unflat(spi, c[pos:pos + m]))
            pos += m
        return sp.element(parts)
    arr = np.asarray(c).reshape(sp.shape)
    if sp.is_real:
        arr = np.real(arr)
    return sp.element(arr.astype(sp.dtype))


def inner(sp, x, y):
    if is_field(sp):
        return complex(x) * np.conj(complex(y))
    return complex(x.inner(y))


class Basis(object):
    """Basis of sp; `realify` -> real basis {e_k, i e_k} of a complex space (real-part form)."""

    def __init__(self, sp, realify):
        self.sp, self.cplx = sp, is_complex(sp)
        self.realify = realify and self.cplx
        self.n = dim(sp)
        self.N = 2 * self.n if self.realify else self.n

    def vec(self, k):
        c = np.zeros(self.n, complex)
        if self.realify:
            c[k // 2] = 1.0 if k % 2 == 0 else 1j
        else:
            c[k] = 1.0
        return unflat(self.sp, c)

    def coords(self, x):
        c = flat(self.sp, x)
        if self.realify:
            out = np.empty(2 * self.n)
            out[0::2], out[1::2] = c.real, c.imag
            return out.astype(complex)
        return c

    def gram(self):
        g = []
        for k in range(self.N):
            e = self.vec(k)
            g.append(float(np.real(inner(self.sp, e, e))))
        return g


def matrix(op, bd, br):
    """Matrix of op w.r.t. bases bd (domain) and br (range): M[i][j] = coords(op(e_j))[i]."""
    cols = []
    for j in range(bd.N):
        cols.append(br.coords(op(bd.vec(j))))
    return np.array(cols).T.reshape(br.N, bd.N)


def observe_adjoint(op, biadj=True):
    """-> dict(M, N, N2, Gd, Gr) as float/complex arrays (raises whatever the real code raises)."""
    mixed = is_complex(op.domain) != is_complex(op.range)
    bd, br = Basis(op.domain, mixed), Basis(op.range, mixed)
    M = matrix(op, bd, br)
    try:
        adj = op.adjoint
    except NotImplementedError:      # includes OpNotImplementedError: the operator does not return an adjoint
        return None
    shape_ok = (adj.domain == op.range) and (adj.range == op.domain)
    N = matrix(adj, br, bd) if shape_ok else np.zeros((0, 0))
    N2 = None
    if biadj and shape_ok:
        N2 = matrix(adj.adjoint, bd, br)
    return {'M': M, 'N': N, 'N2': N2, 'Gd': bd.gram(), 'Gr': br.gram(), 'maps_ok': shape_ok}


# ------------------------------------------------------------------ encoding for TLC
def _try_exact(arrs, D):
    out = []
    for a in arrs:
        a = np.asarray(a, dtype=complex)
        rows = []
        for z in a.ravel():
            p, q = exact.snap(z.real, D), exact.snap(z.imag, D)
            if exact.OFF in (p, q) or p != p or q != q:
                return None
            if abs(p.numerator) > 2 ** 14 or abs(q.numerator) > 2 ** 14:
                return None
            rows.append([exact.to_q(p), exact.to_q(q)])
        out.append((rows, a.shape))
    return out


def _quant(arrs):
    out = []
    for a in arrs:
        a = np.asarray(a, dtype=complex)
        rows = []
        for z in a.ravel():
            if not (np.isfinite(z.real) and np.isfinite(z.imag)) or abs(z) > 100:
                rows.append([[0, 0], [0, 0]])
            else:
                rows.append([exact.to_q(Fraction(int(round(z.real * 256)), 256)),
                             exact.to_q(Fraction(int(round(z.imag * 256)), 256))])
        out.append((rows, a.shape))
    return out


def _mat(rows, shape):
    r, c = shape
    return [[rows[i * c + j] for j in range(c)] for i in range(r)]


def encode_event(obs, D=2 ** 5 * 3 * 5):
    """Encode matrices exactly (lattice 1/D) when every entry is on the lattice, quantised (2^-10) otherwise."""
    M, N, N2, Gd, Gr = obs['M'], obs['N'], obs['N2'], obs['Gd'], obs['Gr']
    arrs = [M, N] + ([N2] if N2 is not None else []) + [np.array(Gd).reshape(1, -1), np.array(Gr).reshape(1, -1)]
    enc = _try_exact(arrs, D)
    exact_mode = enc is not None
    if enc is None:
        enc = _quant(arrs)
    k = 0
    Mj = _mat(*enc[0])
    Nj = _mat(*enc[1])
    k = 2
    N2j = []
    if N2 is not None:
        N2j = _mat(*enc[2])
        k = 3
    Gdj = [c[0] for c in enc[k][0]]
    Grj = [c[0] for c in enc[k + 1][0]]
    return {'M': Mj, 'N': Nj, 'N2': N2j, 'Gd': Gdj, 'Gr': Grj, 'exact': exact_mode}


# ------------------------------------------------------------------ recipes
def _v(sp, vals):
    vals = np.resize(np.array(vals), sp.size).reshape(sp.shape)
    return sp.element(vals.astype(sp.dtype))


def recipes(tier='quick'):
    """Yield (family, options(dict of small strings), builder) for built-in linear operators with an adjoint."""
    R = []
    seen = set()

    def add(family, opts, fn):
        key = (family, tuple(sorted((k, str(v)) for k, v in opts.items())))
        if key in seen:                 # (family, options) identifies a recipe (replay looks it up by that)
            return
        seen.add(key)
        R.append((family, dict(opts), fn))

    def tspaces():
        yield 'rn', odl.rn(3)
        yield 'rn-const', odl.rn(3, weighting=2.0)
        yield 'rn-array', odl.rn(3, weighting=[1.0, 2.0, 0.5])
        yield 'cn', odl.cn(2)
        yield 'cn-const', odl.cn(2, weighting=0.5)
        yield 'discr', odl.uniform_discr(0, 2, 4)
        yield 'discr-bdry', odl.uniform_discr(0, 2, 3, nodes_on_bdry=True)
        yield 'discr-cplx', odl.uniform_discr(0, 1, 2, dtype=complex)

    for sn, sp in tspaces():
        cplx = not sp.is_real
        add('IdentityOperator', {'space': sn}, lambda sp=sp: odl.IdentityOperator(sp))
        add('ScalingOperator', {'space': sn, 'scalar': 'real'}, lambda sp=sp: odl.ScalingOperator(sp, -2.0))
        if cplx:
            add('ScalingOperator', {'space': sn, 'scalar': 'complex'}, lambda sp=sp: odl.ScalingOperator(sp, 1 + 2j))
        add('ZeroOperator', {'space': sn}, lambda sp=sp: odl.ZeroOperator(sp))
        vv = [1 + 2j, -1j, 2] if cplx else [2, -1, 0.5]
        add('MultiplyOperator', {'space': sn, 'multiplicand': 'vector'},
            lambda sp=sp, vv=vv: odl.MultiplyOperator(_v(sp, vv)))
        add('MultiplyOperator', {'space': sn, 'multiplicand': 'scalar'},
            lambda sp=sp: odl.MultiplyOperator(sp.one() * 3.0, domain=sp))
        add('MultiplyOperator', {'space': sn, 'multiplicand': 'vector', 'domain': 'field'},
            lambda sp=sp, vv=vv: odl.MultiplyOperator(_v(sp, vv), domain=sp.field))
        add('InnerProductOperator', {'space': sn}, lambda sp=sp, vv=vv: odl.InnerProductOperator(_v(sp, vv)))
        add('x.T', {'space': sn}, lambda sp=sp, vv=vv: _v(sp, vv).T)
        if cplx:
            add('ComplexEmbedding', {'space': sn, 'scalar': 'complex-general'}, lambda sp=sp: odl.ComplexEmbedding(sp, scalar=2 + 1j))
            add('RealPart', {'space': sn}, lambda sp=sp: odl.RealPart(sp))
            add('ImagPart', {'space': sn}, lambda sp=sp: odl.ImagPart(sp))
        else:
            add('ComplexEmbedding', {'space': sn}, lambda sp=sp: odl.ComplexEmbedding(sp))
            add('ComplexEmbedding', {'space': sn, 'scalar': 'imaginary'}, lambda sp=sp: odl.ComplexEmbedding(sp, scalar=1j))
            add('ComplexEmbedding', {'space': sn, 'scalar': 'complex-general'}, lambda sp=sp: odl.ComplexEmbedding(sp, scalar=1 - 2j))
            add('RealPart', {'space': sn}, lambda sp=sp: odl.RealPart(sp))
            add('ImagPart', {'space': sn}, lambda sp=sp: odl.ImagPart(sp))
        # sampling / flattening
        if sp.ndim == 1:
            add('SamplingOperator', {'space': sn}, lambda sp=sp: odl.SamplingOperator(sp, [[0, sp.size - 1]]))
            add('SamplingOperator', {'space': sn, 'indices': 'repeated'},
                lambda sp=sp: odl.SamplingOperator(sp, [[0, 0, 1]]))
            add('WeightedSumSamplingOperator', {'space': sn},
                lambda sp=sp: odl.WeightedSumSamplingOperator(sp, [[0, sp.size - 1]]))
            add('WeightedSumSamplingOperator', {'space': sn, 'variant': 'char_fun'},
                lambda sp=sp: odl.WeightedSumSamplingOperator(sp, [[1, 0]], variant='char_fun'))
        add('FlatteningOperator', {'space': sn}, lambda sp=sp: odl.FlatteningOperator(sp))

    # MatrixOperator
    A = np.array([[1.0, 2.0, 0.0], [-1.0, 0.5, 3.0]])
    add('MatrixOperator', {'weighting': 'none'}, lambda: odl.MatrixOperator(A))
    add('MatrixOperator', {'weighting': 'const'},
        lambda: odl.MatrixOperator(A, domain=odl.rn(3, weighting=2.0), range=odl.rn(2, weighting=4.0)))
    add('MatrixOperator', {'weighting': 'array'},
        lambda: odl.MatrixOperator(A, domain=odl.rn(3, weighting=[1.0, 2.0, 0.5]), range=odl.rn(2, weighting=[2.0, 1.0])))
    add('MatrixOperator', {'weighting': 'none', 'dtype': 'complex'},
        lambda: odl.MatrixOperator(np.array([[1 + 1j, 2.0], [0, -1j]])))
    add('MatrixOperator', {'weighting': 'none', 'axis': '1'},
        lambda: odl.MatrixOperator(np.array([[1.0, 2.0], [0.0, -1.0], [1.0, 1.0]]), domain=odl.rn((2, 2)), axis=1))
    import scipy.sparse
    add('MatrixOperator', {'weighting': 'none', 'sparse': 'yes'},
        lambda: odl.MatrixOperator(scipy.sparse.coo_matrix(A)))

    # product-space operators
    r2, r3 = odl.rn(2), odl.rn(3)
    I2 = odl.IdentityOperator(r2)
    S2 = odl.ScalingOperator(r2, 2.0)
    M23 = odl.MatrixOperator(np.array([[1.0, 0.0, 2.0], [0.0, -1.0, 1.0]]))
    add('ProductSpaceOperator', {'blocks': 'dense'}, lambda: odl.ProductSpaceOperator([[I2, M23], [S2, None]]))
    add('ProductSpaceOperator', {'blocks': 'row'}, lambda: odl.ProductSpaceOperator([[I2, S2]]))
    for wn, w in [('none', None), ('const', 2.0), ('array', [1.0, 3.0])]:
        def ps(w=w):
            return odl.ProductSpace(r2, 2) if w is None else odl.ProductSpace(r2, 2, weighting=w)
        add('ComponentProjection', {'pspace-weighting': wn}, lambda ps=ps: odl.ComponentProjection(ps(), 1))
        add('ComponentProjection', {'pspace-weighting': wn, 'index': 'list'},
            lambda ps=ps: odl.ComponentProjection(ps(), [1, 0]))
        add('ComponentProjectionAdjoint', {'pspace-weighting': wn},
            lambda ps=ps: odl.ComponentProjectionAdjoint(ps(), 0))
        add('BroadcastOperator', {'range-weighting': wn}, lambda: odl.BroadcastOperator(I2, S2))
        add('ReductionOperator', {'domain-weighting': wn}, lambda: odl.ReductionOperator(I2, S2))
        add('DiagonalOperator', {'weighting': wn}, lambda: odl.DiagonalOperator(I2, M23))
        add('PointwiseInner', {'pspace-weighting': wn},
            lambda ps=ps: odl.PointwiseInner(ps(), ps().element([[1, 2], [-1, 0.5]])))
        add('PointwiseInner', {'pspace-weighting': wn, 'op-weighting': 'given'},
            lambda ps=ps: odl.PointwiseInner(ps(), ps().element([[1, 2], [-1, 0.5]]), weighting=[2.0, 1.0]))
        add('PointwiseSum', {'pspace-weighting': wn}, lambda ps=ps: odl.PointwiseSum(ps()))
        add('PointwiseInner', {'pspace-weighting': wn, 'op-weighting': 'unit-scalar'},
            lambda ps=ps: odl.PointwiseInner(ps(), ps().element([[1, 2], [-1, 0.5]]), weighting=1.0))
        add('PointwiseInner', {'pspace-weighting': wn, 'op-weighting': 'unit-array'},
            lambda ps=ps: odl.PointwiseInner(ps(), ps().element([[1, 2], [-1, 0.5]]), weighting=[1.0, 1.0]))
        add('PointwiseSum', {'pspace-weighting': wn, 'op-weighting': 'unit-scalar'},
            lambda ps=ps: odl.PointwiseSum(ps(), weighting=1.0))
        add('PointwiseSum', {'pspace-weighting': wn, 'op-weighting': 'given'},
            lambda ps=ps: odl.PointwiseSum(ps(), weighting=[2.0, 0.5]))
        add('PointwiseNorm-linear-adjoint-of-derivative', {'pspace-weighting': wn},
            lambda ps=ps: odl.PointwiseNorm(ps(), exponent=2).derivative(ps().element([[1, 2], [-1, 0.5]])))
        add('LinCombOperator', {'pspace-weighting': wn}, lambda: odl.LinCombOperator(r2, 2.0, -1.0))
    cps = odl.ProductSpace(odl.cn(2), 2)
    add('PointwiseInner', {'pspace-weighting': 'none', 'dtype': 'complex'},
        lambda: odl.PointwiseInner(cps, cps.element([[1 + 1j, 2], [-1j, 0.5]])))
    dps = odl.ProductSpace(odl.uniform_discr(0, 2, 2), 2)
    add('PointwiseInner', {'pspace-weighting': 'none', 'base': 'discr'},
        lambda: odl.PointwiseInner(dps, dps.element([[1, 2], [-1, 0.5]])))

    # finite differences and resizing on discretised spaces (uniform weighting and nodes on the boundary)
    pads = ['constant', 'symmetric', 'periodic', 'order0', 'order1', 'order2',
            'symmetric_adjoint', 'order0_adjoint', 'order1_adjoint', 'order2_adjoint']
    methods = ['forward', 'backward', 'central']
    for bd in (False, True):
        for shape in ([5], [3, 4]) if tier == 'quick' else ([5], [4], [3, 4], [4, 3], [3, 3]):
            nd = len(shape)
            sp = odl.uniform_discr([0] * nd, [2] * nd, shape, nodes_on_bdry=bd)
            for meth in methods:
                for pad in pads:
                    o = {'method': meth, 'pad_mode': pad, 'nodes_on_bdry': str(bd), 'ndim': str(nd)}
                    add('PartialDerivative', o, lambda sp=sp, meth=meth, pad=pad, nd=nd:
                        odl.PartialDerivative(sp, axis=nd - 1, method=meth, pad_mode=pad))
                    if pad in ('constant', 'symmetric', 'periodic', 'order0', 'order1', 'order2') or tier != 'quick':
                        add('Gradient', o, lambda sp=sp, meth=meth, pad=pad: odl.Gradient(sp, method=meth, pad_mode=pad))
                        add('Divergence', o, lambda sp=sp, meth=meth, pad=pad:
                            odl.Divergence(range=sp, method=meth, pad_mode=pad))
            for pad in ('constant', 'symmetric', 'periodic', 'order0', 'symmetric_adjoint', 'order0_adjoint'):
                add('Laplacian', {'pad_mode': pad, 'nodes_on_bdry': str(bd), 'ndim': str(nd)},
                    lambda sp=sp, pad=pad: odl.Laplacian(sp, pad_mode=pad))
        sp = odl.uniform_discr(0, 2, 4, nodes_on_bdry=bd)
        for pad in ('constant', 'symmetric', 'periodic', 'order0', 'order1'):
            add('ResizingOperator', {'pad_mode': pad, 'nodes_on_bdry': str(bd), 'dir': 'extend'},
                lambda sp=sp, pad=pad: odl.ResizingOperator(sp, ran_shp=(7,), pad_mode=pad))
            add('ResizingOperator', {'pad_mode': pad, 'nodes_on_bdry': str(bd), 'dir': 'restrict'},
                lambda sp=sp, pad=pad: odl.ResizingOperator(sp, ran_shp=(2,), pad_mode=pad))
    # transforms (adjoint documented exact): DFT, FT, orthogonal periodic wavelets
    for n in (2, 4, 3):
        for hc in (False, True):
            o = {'n': str(n), 'halfcomplex': str(hc)}
            if hc:
                add('DiscreteFourierTransform', o, lambda n=n:
                    odl.trafos.DiscreteFourierTransform(odl.uniform_discr(0, n, n, dtype='float64'), halfcomplex=True))
            else:
                add('DiscreteFourierTransform', o, lambda n=n:
                    odl.trafos.DiscreteFourierTransform(odl.uniform_discr(0, n, n, dtype='complex128')))
                add('DiscreteFourierTransformInverse', o, lambda n=n:
                    odl.trafos.DiscreteFourierTransform(odl.uniform_discr(0, n, n, dtype='complex128')).inverse)
    add('FourierTransform', {'dtype': 'complex'},
        lambda: odl.trafos.FourierTransform(odl.uniform_discr(-2, 2, 4, dtype='complex128')))
    add('FourierTransform', {'dtype': 'real-halfcomplex'},
        lambda: odl.trafos.FourierTransform(odl.uniform_discr(-2, 2, 4, dtype='float64')))
    add('WaveletTransform', {'wavelet': 'haar', 'pad_mode': 'pywt_periodic'},
        lambda: odl.trafos.WaveletTransform(odl.uniform_discr(0, 1, 8), 'haar', nlevels=2, pad_mode='pywt_periodic'))
    w2 = odl.uniform_discr([0, 0], [1, 2], [4, 4])
    for axes in (None, (0,), (1,), -1):
        for pad in ('pywt_periodic', 'constant'):
            add('WaveletTransform', {'wavelet': 'haar', 'pad_mode': pad, 'ndim': '2', 'axes': str(axes)},
                lambda axes=axes, pad=pad: odl.trafos.WaveletTransform(w2, 'haar', nlevels=1, pad_mode=pad, axes=axes))
            add('WaveletTransformInverse', {'wavelet': 'haar', 'pad_mode': pad, 'ndim': '2', 'axes': str(axes)},
                lambda axes=axes, pad=pad: odl.trafos.WaveletTransform(w2, 'haar', nlevels=1, pad_mode=pad, axes=axes).inverse)
    add('WaveletTransform', {'wavelet': 'db2', 'pad_mode': 'pywt_periodic'},
        lambda: odl.trafos.WaveletTransform(odl.uniform_discr(0, 1, 8), 'db2', nlevels=1, pad_mode='pywt_periodic'))
    wide_recipes(tier, add)
    return R


# ====================================================================== systematic widening
# Every constructor keyword of every built-in linear class gets >= 2 materially different values, crossed (all-pairs
# in the quick tier, full product in the thorough tier) with the space axes of harness/catutil.py.  Option values are
# short labels; the label vocabulary of spaces extends the one above so that family-level signatures keep matching.
def _space_axes(kinds=('rn', 'discr'), fields=('real', 'complex'), precs=('double', 'single'),
                weightings=('none', 'const', 'array'), shapes=('1d', '2d', '3d'), bdrys=('False', 'True', 'asym')):
    from collections import OrderedDict as OD
    return OD([('kind', list(kinds)), ('field', list(fields)), ('prec', list(precs)), ('weighting', list(weightings)),
               ('shape', list(shapes)), ('bdry', list(bdrys) if 'discr' in kinds else ['False'])])


_SP_KEYS = ('kind', 'field', 'prec', 'weighting', 'shape', 'bdry')
_SP_CACHE = {}


def _sp(c, **kw):
    """space of a combo (cached) -> (label dict, space)"""
    from . import catutil as U
    key = tuple(c[k] for k in _SP_KEYS) + tuple(sorted((k, str(v)) for k, v in kw.items()))
    if key not in _SP_CACHE:
        _SP_CACHE[key] = U.mk_space(**dict({k: c[k] for k in _SP_KEYS}, **kw))
    return _SP_CACHE[key]


def _sp_valid(c):
    return c['kind'] == 'discr' or c['bdry'] == 'False'


def _combos(tier, opt_axes, sp_axes, valid=None, cap=400):
    """option axes x space axes: all-pairs (quick) / full product, thinned deterministically above `cap` (thorough)."""
    from collections import OrderedDict as OD
    from . import catutil as U
    axes = OD(list(opt_axes.items()) + list(sp_axes.items()))

    def ok(c):
        return _sp_valid(c) and (valid is None or valid(c))
    pw = U.pairwise(axes, ok)
    if tier == 'quick':
        return pw
    full = [c for c in U.product(axes) if ok(c)]
    if len(full) > cap:
        step = len(full) // cap + 1
        keep = {tuple(c.values()) for c in pw}
        full = [c for i, c in enumerate(full) if i % step == 0 or tuple(c.values()) in keep]
    return full


def _o(c, lab, *names, **extra):
    """options dict of a recipe: chosen option axes + the space label (+ extras)."""
    o = {}
    for n in names:
        o[n] = c[n]
    o.update(lab)
    o.update(extra)
    return o


def wide_recipes(tier, add):
    from collections import OrderedDict as OD
    import scipy.sparse
    from . import catutil as U
    vec, posvec = U.vec, U.posvec
    RN, CN = odl.RealNumbers(), odl.ComplexNumbers()

    # ---------------------------------------------------------------- default_ops
    SC = {'zero': 0.0, 'one': 1, 'neg': -2.0, 'half': 0.5, 'imag': 2j, 'complex-general': 1.5 - 2j}

    def sc_ok(c):
        return c['field'] == 'complex' or c['scalar'] not in ('imag', 'complex-general')
    for c in _combos(tier, OD([('scalar', list(SC))]), _space_axes(), sc_ok):
        lab, sp = _sp(c)
        add('ScalingOperator', _o(c, lab, 'scalar'), lambda sp=sp, a=SC[c['scalar']]: odl.ScalingOperator(sp, a))
    for c in _combos(tier, OD(), _space_axes()):
        lab, sp = _sp(c)
        add('IdentityOperator', _o(c, lab), lambda sp=sp: odl.IdentityOperator(sp))
        add('InnerProductOperator', _o(c, lab), lambda sp=sp: odl.InnerProductOperator(vec(sp)))
        add('x.T', _o(c, lab), lambda sp=sp: vec(sp).T)
        add('RealPart', _o(c, lab), lambda sp=sp: odl.RealPart(sp))
        add('ImagPart', _o(c, lab), lambda sp=sp: odl.ImagPart(sp))
    # the zero ConstantOperator is flagged linear (independent of the space: three plain ones)
    for sn_, sp_ in (('rn', odl.rn(3)), ('cn', odl.cn(2)), ('discr', odl.uniform_discr(0, 1, 3))):
        add('ConstantOperator', {'constant': 'zero', 'space': sn_}, lambda sp_=sp_: odl.ConstantOperator(sp_.zero()))
        add('ConstantOperator', {'constant': 'zero', 'space': sn_, 'range': 'other'},
            lambda sp_=sp_: odl.ConstantOperator(odl.rn(2).zero(), domain=sp_, range=odl.rn(2)))
    for fn_, fld in (('real', RN), ('complex', CN)):
        for sn, a in SC.items():
            if fn_ == 'real' and sn in ('imag', 'complex-general'):
                continue
            add('ScalingOperator', {'space': 'field-' + fn_, 'scalar': sn}, lambda fld=fld, a=a: odl.ScalingOperator(fld, a))
        add('IdentityOperator', {'space': 'field-' + fn_}, lambda fld=fld: odl.IdentityOperator(fld))
    # on product spaces (power / general / nested ; weighting none / const / array)
    for c in U.cross(tier, OD([('form', ['power1', 'power2', 'power3', 'general', 'nested', 'nested-general']),
                               ('pspace-weighting', ['none', 'const', 'array']), ('field', ['real', 'complex']),
                               ('scalar', ['neg', 'complex-general'])]),
                     lambda c: c['field'] == 'complex' or c['scalar'] == 'neg'):
        base = odl.cn(2) if c['field'] == 'complex' else odl.rn(2)
        o = {'space': 'pspace-' + c['form'], 'pspace-weighting': c['pspace-weighting'], 'field': c['field']}

        def ps(c=c, base=base):
            return U.mk_pspace(base, c['form'], c['pspace-weighting'])
        add('ScalingOperator', dict(o, scalar=c['scalar']), lambda ps=ps, a=SC[c['scalar']]: odl.ScalingOperator(ps(), a))
        add('IdentityOperator', o, lambda ps=ps: odl.IdentityOperator(ps()))
        add('ZeroOperator', o, lambda ps=ps: odl.ZeroOperator(ps()))
        add('MultiplyOperator', dict(o, multiplicand='element'), lambda ps=ps: odl.MultiplyOperator(vec(ps())))
        add('InnerProductOperator', o, lambda ps=ps: odl.InnerProductOperator(vec(ps())))
    # ZeroOperator: range default / other size / complex version / weighted version of the domain
    for c in _combos(tier, OD([('range', ['default', 'same', 'other-size', 'complex', 'other-weighting'])]), _space_axes()):
        lab, sp = _sp(c)

        def mk(sp=sp, r=c['range']):
            if r == 'default':
                return odl.ZeroOperator(sp)
            ran = {'same': sp, 'other-size': odl.tensor_space(2, dtype=sp.dtype), 'complex': sp.complex_space,
                   'other-weighting': odl.tensor_space(sp.shape, dtype=sp.dtype, weighting=4.0)}[r]
            return odl.ZeroOperator(sp, range=ran)
        add('ZeroOperator', _o(c, lab, 'range'), mk)
    # MultiplyOperator: multiplicand element / scalar / array ; domain default / space / field ; range default / space
    def mul_ok(c):
        m, d, r = c['multiplicand'], c['domain'], c['range']
        if m in ('scalar', 'scalar-complex', 'array'):
            if not (d == 'space' and r == 'space'):
                return False
        if m in ('scalar-complex', 'element-real') and c['field'] != 'complex':
            return False
        return True
    for c in _combos(tier, OD([('multiplicand', ['element', 'element-real', 'element-zeros', 'scalar', 'scalar-complex', 'array']),
                               ('domain', ['default', 'space', 'field']), ('range', ['default', 'space'])]),
                     _space_axes(), mul_ok):
        lab, sp = _sp(c)

        def mk(sp=sp, c=c):
            m = c['multiplicand']
            if m == 'element':
                y = vec(sp)
            elif m == 'element-real':           # real-valued multiplicand in a complex space
                y = sp.element(np.resize([2.0, -1.0, 0.5], sp.size).reshape(sp.shape))
            elif m == 'element-zeros':
                y = vec(sp, [0.0, 2.0, 0.0], [0.0, 1 - 1j, 0.0])
            elif m == 'scalar':
                y = -1.5
            elif m == 'scalar-complex':
                y = 0.5 + 2j
            else:
                y = vec(sp).asarray().copy()
            kw = {}
            if c['domain'] == 'space':
                kw['domain'] = sp
            elif c['domain'] == 'field':
                kw['domain'] = sp.field
            if c['range'] == 'space':
                kw['range'] = sp
            return odl.MultiplyOperator(y, **kw)
        add('MultiplyOperator', _o(c, lab, 'multiplicand', 'domain', 'range'), mk)
    for fn_, fld, a in (('real', RN, -1.5), ('complex', CN, 0.5 + 2j)):
        add('MultiplyOperator', {'space': 'field-' + fn_, 'multiplicand': 'scalar', 'domain': 'field', 'range': 'field'},
            lambda fld=fld, a=a: odl.MultiplyOperator(a, domain=fld, range=fld))
    # ComplexEmbedding: every class of scalar the adjoint / inverse branch on
    CE = OD([('default', None), ('one', 1.0), ('real', 2.0), ('neg', -1.5), ('imag', 1j), ('neg-imag', -2j),
             ('complex-general', 2 + 1j), ('complex-general-neg', -1 - 0.5j), ('zero', 0.0)])
    for c in _combos(tier, OD([('scalar', list(CE))]), _space_axes()):
        lab, sp = _sp(c)
        a = CE[c['scalar']]
        add('ComplexEmbedding', _o(c, lab, 'scalar'),
            lambda sp=sp, a=a: odl.ComplexEmbedding(sp) if a is None else odl.ComplexEmbedding(sp, scalar=a))

    # ---------------------------------------------------------------- tensor_ops: pointwise operators on vector fields
    def pw_ok(c):
        return not (c['field'] == 'complex' and c['base'] == 'discr2d-bdry')
    BASES = {'rn': lambda f, p: U.mk_space('rn', f, p, shape='1d')[1],
             'rn-const': lambda f, p: U.mk_space('rn', f, p, weighting='const')[1],
             'discr2d': lambda f, p: U.mk_space('discr', f, p, shape='2d')[1],
             'discr2d-bdry': lambda f, p: U.mk_space('discr', f, p, shape='2d', bdry='asym')[1]}
    PWW = {'none': None, 'unit-scalar': 1.0, 'unit-array': 'ones', 'scalar': 2.0, 'array': 'arr'}

    def opw(n, w):
        if w == 'ones':
            return [1.0] * n
        if w == 'arr':
            return [2.0, 0.5, 4.0][:n]
        return w
    for c in U.cross(tier, OD([('pspace-weighting', ['none', 'const', 'array']), ('op-weighting', list(PWW)),
                               ('length', ['1', '2', '3']), ('base', list(BASES)), ('field', ['real', 'complex']),
                               ('prec', ['double', 'single']), ('vecfield', ['element', 'list'])]), pw_ok):
        n = int(c['length'])
        o = {k: c[k] for k in ('pspace-weighting', 'op-weighting', 'length', 'base', 'vecfield')}
        if c['field'] == 'complex':
            o['dtype'] = 'complex'
        if c['prec'] == 'single':
            o['prec'] = 'single'
        if c['base'] == 'discr2d-bdry':
            o['nodes_on_bdry'] = 'True'

        def ps(c=c, n=n):
            base = BASES[c['base']](c['field'], c['prec'])
            return U.mk_pspace(base, 'power%d' % n, c['pspace-weighting'])

        def vf(ps_, c=c):
            v = vec(ps_)
            return [vi.asarray().copy() for vi in v] if c['vecfield'] == 'list' else v
        w = opw(n, PWW[c['op-weighting']])
        kw = {} if w is None else {'weighting': w}
        add('PointwiseInner', o, lambda ps=ps, vf=vf, kw=kw: odl.PointwiseInner(ps(), vf(ps()), **kw))
        add('PointwiseInnerAdjoint', o, lambda ps=ps, vf=vf, kw=kw: odl.operator.tensor_ops.PointwiseInnerAdjoint(
            ps()[0], vf(ps()), vfspace=ps(), **kw))
        if c['vecfield'] == 'element':
            o2 = {k: v for k, v in o.items() if k != 'vecfield'}
            add('PointwiseSum', o2, lambda ps=ps, kw=kw: odl.PointwiseSum(ps(), **kw))
    # PointwiseInnerAdjoint with the vector-field space inferred from (sspace, vecfield, weighting)
    for wn in PWW:
        for fld in ('real', 'complex'):
            def mk(wn=wn, fld=fld):
                base = odl.cn(2) if fld == 'complex' else odl.rn(2)
                v = vec(odl.ProductSpace(base, 2))
                w = opw(2, PWW[wn])
                return odl.operator.tensor_ops.PointwiseInnerAdjoint(base, v, **({} if w is None else {'weighting': w}))
            add('PointwiseInnerAdjoint', {'vfspace': 'inferred', 'op-weighting': wn, 'field': fld}, mk)

    # ---------------------------------------------------------------- MatrixOperator
    MATS = {'real': np.array([[1.0, 2.0, 0.0], [-1.0, 0.5, 3.0]]),
            'complex': np.array([[1 + 1j, 2.0, 0.0], [-1j, 0.5, 3 - 2j]]),
            'float32': np.array([[1.0, 2.0, 0.0], [-1.0, 0.5, 3.0]], dtype='float32'),
            'int': np.array([[1, 2, 0], [-1, 0, 3]]),
            'square': np.array([[2.0, 1.0, 0.0], [0.0, 1.0, -1.0], [0.5, 0.0, 1.0]])}
    FMT = {'dense': lambda m: m, 'dense-F': np.asfortranarray, 'csr': scipy.sparse.csr_matrix, 'csc': scipy.sparse.csc_matrix,
           'coo': scipy.sparse.coo_matrix, 'list': lambda m: m.tolist()}

    def mat_ok(c):
        if c['format'] in ('csr', 'csc', 'coo') and c['axis'] != '0':
            return False                # documented: sparse matrices need a 1-d domain
        if c['axis'] != '0' and c['domain'] != 'explicit':
            return False
        if c['weighting'] != 'none' and c['domain'] != 'explicit' and c['range'] != 'explicit':
            return False
        if c['format'] == 'list' and c['matrix'] in ('float32',):
            return False
        return True

    def mat_mk(c):
        M = FMT[c['format']](MATS[c['matrix']])
        cplx = c['matrix'] == 'complex' or c['field'] == 'complex'
        dt = 'complex128' if cplx else 'float64'
        ddt = 'complex128' if c['field'] == 'complex' else 'float64'
        w = {'none': {}, 'const': {'weighting': 2.0}, 'array': 'array'}[c['weighting']]
        nr, nc = MATS[c['matrix']].shape

        def space(shape, dtype, which):
            if w == 'array':
                arr = np.resize(np.array([1.0, 2.0, 0.5, 4.0]), int(np.prod(shape))).reshape(shape)
                return odl.tensor_space(shape, dtype=dtype, weighting=arr if which == 'd' else 2 * arr)
            kw = dict(w)
            if kw and which == 'r':
                kw['weighting'] = 4.0
            return odl.tensor_space(shape, dtype=dtype, **kw)
        kw = {}
        ax = int(c['axis'])
        dshape, rshape = (nc,), (nr,)
        if ax != 0:
            dshape, rshape = (2, nc), (2, nr)
        if c['domain'] == 'explicit':
            kw['domain'] = space(dshape, ddt, 'd')
        if c['range'] == 'explicit':
            kw['range'] = space(rshape, dt, 'r')
        if ax != 0:
            kw['axis'] = ax
        return odl.MatrixOperator(M, **kw)
    for c in U.cross(tier, OD([('format', list(FMT)), ('matrix', list(MATS)), ('domain', ['default', 'explicit']),
                               ('range', ['default', 'explicit']), ('weighting', ['none', 'const', 'array']),
                               ('axis', ['0', '1', '-1']), ('field', ['real', 'complex'])]), mat_ok):
        o = {k: c[k] for k in ('format', 'matrix', 'domain', 'range', 'weighting', 'axis')}
        if c['field'] == 'complex':
            o['dtype'] = 'complex'
        try:
            op0 = mat_mk(c)
        except (ValueError, TypeError):
            continue            # combination rejected by the constructor (e.g. complex matrix into an explicit real range)
        # 'cast': the range dtype is wider than the domain dtype (real -> complex, float32 -> float64, int -> float)
        o['cast'] = 'none' if np.can_cast(op0.range.dtype, op0.domain.dtype) else 'widening'
        add('MatrixOperator', o, lambda c=c: mat_mk(c))
    # axis 0 of a 2-d domain (the matrix acts on the FIRST axis, the second is a batch axis)
    for fmt in ('dense', 'dense-F'):
        add('MatrixOperator', {'format': fmt, 'matrix': 'real', 'domain': 'explicit-2d', 'range': 'default', 'weighting': 'none', 'axis': '0'},
            lambda fmt=fmt: odl.MatrixOperator(FMT[fmt](MATS['real']), domain=odl.rn((3, 2)), axis=0))

    # ---------------------------------------------------------------- sampling / flattening
    def samp_ok(c):
        if c['shape'] == '3d':
            return False
        if c['variant'] in ('integrate', 'dirac-char') and False:
            return False
        return True
    PTS1 = {'unique': [[0, 2]], 'repeated': [[0, 0, 1]], 'flat-list': [2, 0], 'single-int': 1}
    PTS2 = {'unique': [[0, 1], [2, 0]], 'repeated': [[1, 1, 0], [2, 2, 0]], 'flat-list': [[1], [1]], 'single-int': [1, 2]}
    for c in _combos(tier, OD([('variant', ['default', 'point_eval', 'integrate']), ('indices', list(PTS1))]),
                     _space_axes(shapes=('1d', '2d')), samp_ok):
        lab, sp = _sp(c)
        pts = (PTS1 if sp.ndim == 1 else PTS2)[c['indices']]
        kw = {} if c['variant'] == 'default' else {'variant': c['variant']}
        add('SamplingOperator', _o(c, lab, 'variant', 'indices'),
            lambda sp=sp, pts=pts, kw=kw: odl.SamplingOperator(sp, pts, **kw))
    for c in _combos(tier, OD([('variant', ['default', 'char_fun', 'dirac']), ('indices', list(PTS1))]),
                     _space_axes(shapes=('1d', '2d')), samp_ok):
        lab, sp = _sp(c)
        pts = (PTS1 if sp.ndim == 1 else PTS2)[c['indices']]
        kw = {} if c['variant'] == 'default' else {'variant': c['variant']}
        add('WeightedSumSamplingOperator', _o(c, lab, 'variant', 'indices'),
            lambda sp=sp, pts=pts, kw=kw: odl.WeightedSumSamplingOperator(sp, pts, **kw))
    for c in _combos(tier, OD([('order', ['default', 'C', 'F'])]), _space_axes()):
        lab, sp = _sp(c)
        kw = {} if c['order'] == 'default' else {'order': c['order']}
        add('FlatteningOperator', _o(c, lab, 'order'), lambda sp=sp, kw=kw: odl.FlatteningOperator(sp, **kw))
        add('FlatteningOperatorInverse', _o(c, lab, 'order'), lambda sp=sp, kw=kw: odl.FlatteningOperator(sp, **kw).inverse)
    wide_recipes_2(tier, add)


def wide_recipes_2(tier, add):
    pass

"""Helpers of the C17 check: abstract ufunc call configuration -> real ODL elements, execution of the
call on the elements AND on the raw ndarrays (NumPy = the oracle named by the property), projection of
what was observed into an event for the trace specification Trace_Ufunc.

A configuration `case` has exactly the JSON shape exported by spec/cfg/MC_Ufunc.tla:
    kind    'tensor' | 'discr' | 'power'          method  'call' | 'reduce' | 'accumulate' | 'outer' | 'at' | 'reduceat'
    ucls    'u1' | 'u2' | 'b1' | 'b2'             shapes  [shape] or [shape1, shape2]
    axis    [99] keyword absent, [98] None, else list of axes      keepdims bool
    outkind 'none' | 'element' | 'tensor' | 'ndarray'              order 'e' | 'ee' | 'ea' | 'ae'
    dtkw    'none' | 'given'                      idx     indices of at / reduceat
Nothing in here decides a verdict; numbers (ulp distances, flags) are logged and judged by TLC.
"""
import numpy as np
import odl

LIM = 2 ** 30

DTYPES = ['int32', 'int64', 'float32', 'float64', 'complex64', 'complex128']
# the dtype ladder of UfuncSem (WiderDT / NarrowerDT); None = "n/a"
WIDER = {'bool': 'int64', 'int32': 'int64', 'int64': 'float64', 'float32': 'float64', 'float64': 'complex128',
         'complex64': 'complex128'}
NARROWER = {'int64': 'int32', 'float64': 'float32', 'complex128': 'complex64'}


def rel_dtype(mode, name):
    """RelDT of UfuncSem: 'none' -> 'none'; 'same' / 'wider' / 'narrower' relative to dtype `name`; None = n/a."""
    if mode == 'none':
        return 'none'
    if mode == 'same':
        return name
    if mode in ('wider', 'given'):
        return WIDER.get(name)
    return NARROWER.get(name)


EXACT_BINARY = {'add', 'subtract', 'multiply', 'maximum', 'minimum', 'equal', 'not_equal', 'less', 'less_equal',
                'greater', 'greater_equal', 'logical_and', 'logical_or', 'logical_xor'}
EXACT_UNARY = {'negative', 'positive', 'absolute', 'sign', 'square', 'conjugate', 'logical_not'}
REAL_ONLY = {'maximum', 'minimum', 'less', 'less_equal', 'greater', 'greater_equal', 'absolute', 'sign'}


def all_ufuncs():
    """Every NumPy ufunc (no generalised ufuncs), one name per object."""
    seen, out = set(), []
    for n in sorted(dir(np)):
        u = getattr(np, n)
        if isinstance(u, np.ufunc) and u.signature is None and id(u) not in seen and u.__name__ == n:
            seen.add(id(u))
            out.append(u)
    return out


def ucls_of(u):
    return {(1, 1): 'u1', (1, 2): 'u2', (2, 1): 'b1', (2, 2): 'b2'}.get((u.nin, u.nout))


# ------------------------------------------------------------------ spaces / elements
def make_space(kind, shape, dtype, variant=0):
    """variant selects a concretisation: 0 plain, 1 weighted / other exponent."""
    shape = tuple(shape)
    dt = np.dtype(dtype)
    floating = dt.kind in 'fc'
    if kind == 'tensor':
        if variant and floating:
            return odl.tensor_space(shape, dtype=dt, weighting=2.0)
        return odl.tensor_space(shape, dtype=dt)
    if kind == 'discr':
        nd = len(shape)
        lo = [0.0] * nd
        hi = [float(i + 1) for i in range(nd)]
        if variant and floating:
            return odl.uniform_discr(lo, hi, shape, dtype=dt, weighting=3.0)
        return odl.uniform_discr(lo, hi, shape, dtype=dt)
    if kind == 'power':
        if len(shape) < 2:
            raise ValueError('power space needs >= 2 axes')
        if variant:
            nd = len(shape) - 1
            base = odl.uniform_discr([0.0] * nd, [1.0] * nd, shape[1:], dtype=dt)
        else:
            base = odl.tensor_space(shape[1:], dtype=dt)
        return odl.ProductSpace(base, shape[0])
    raise ValueError(kind)


def canon(shape, which, dtype, exact=True, cplx=False):
    """The canonical operands of UfuncMachine: X[i] = (5 i mod 7) - 3, Y[i] = (3 i mod 5) - 2 (i = 1..n, C order).
    exact=False: a dyadic affine image (more interesting for transcendental ufuncs), cplx: add an imaginary part."""
    n = int(np.prod(shape)) if len(shape) else 1
    i = np.arange(1, n + 1)
    x = ((i * 5) % 7 - 3) if which == 'x' else ((i * 3) % 5 - 2)
    dt = np.dtype(dtype)
    if not exact and dt.kind in 'fc':
        x = x * 0.375 + 0.25
    if cplx and dt.kind == 'c':
        y = ((i * 3) % 5 - 2) if which == 'x' else ((i * 2) % 3 - 1)
        x = x + 1j * y
    return np.asarray(x).astype(dt).reshape(tuple(shape))


SPECIAL_VALUES = {'nan': float('nan'), '+inf': float('inf'), '-inf': float('-inf'), '-0': -0.0}
SPECIALS = [(v, pos) for v in ('nan', '+inf', '-inf', '-0') for pos in ('first', 'middle', 'last')]


def inject(arr, special, shift=0):
    """A copy of the floating / complex array with one special value (NaN, +-inf, -0.0) at the first / middle /
    last entry in C order (for a power-space element: in the first / a middle / the last component)."""
    if special is None:
        return arr
    arr = np.array(arr)
    if arr.dtype.kind not in 'fc' or arr.size == 0:
        raise NotApplicable('special values need a floating dtype')
    name, pos = special
    idx = {'first': 0, 'middle': arr.size // 2, 'last': arr.size - 1}[pos]
    idx = (idx + shift) % arr.size
    flat = arr.reshape(-1)
    flat[idx] = SPECIAL_VALUES[name]
    return flat.reshape(arr.shape)


def kind_of(r):
    from odl.space.base_tensors import Tensor
    from odl.discr.discr_space import DiscretizedSpaceElement
    from odl.space.pspace import ProductSpaceElement
    if r is None:
        return 'none'
    if isinstance(r, DiscretizedSpaceElement):
        return 'discr'
    if isinstance(r, Tensor):
        return 'tensor'
    if isinstance(r, ProductSpaceElement):
        return 'power'
    if isinstance(r, np.ndarray):
        return 'ndarray'
    if isinstance(r, (np.generic, int, float, complex, bool)):
        return 'scalar'
    return 'other:' + type(r).__name__


def as_array(r):
    if r is None:
        return np.zeros(())
    if hasattr(r, 'asarray'):
        return np.asarray(r.asarray())
    return np.asarray(r)


def ulp_distance(a, b):
    """Worst integer ulp distance between the observed array a and the reference b.  If the dtypes differ (a
    separate clause) the NUMBERS are compared in the reference's dtype, so a result that was cast into a
    narrower space (1.414 -> 1) is seen.  NaN == NaN, equal infinities -> 0.  Capped at LIM."""
    a = np.asarray(a)
    b = np.asarray(b)
    if a.shape != b.shape:
        return LIM
    if a.dtype != b.dtype:
        if a.dtype.kind == 'c' and b.dtype.kind != 'c':
            if np.any(a.imag != 0):
                return LIM
            a = a.real
        with np.errstate(all='ignore'):
            try:
                a = a.astype(b.dtype)
            except (TypeError, ValueError):
                return LIM
    if a.size == 0:
        return 0
    if a.dtype.kind == 'c':
        return max(ulp_distance(a.real, b.real), ulp_distance(a.imag, b.imag))
    if a.dtype.kind == 'f':
        both_nan = np.isnan(a) & np.isnan(b)
        # equal numbers incl. the sign of zero (-0.0 and +0.0 are different answers), NaN only with NaN
        zero_sign = (a == 0) & (b == 0) & (np.signbit(a) != np.signbit(b))
        if np.any(zero_sign):
            return LIM
        eq = (a == b) | both_nan
        if np.all(eq):
            return 0
        it = {2: np.int16, 4: np.int32, 8: np.int64}[a.dtype.itemsize]
        ia = np.ascontiguousarray(a).view(it).astype(np.float64)
        ib = np.ascontiguousarray(b).view(it).astype(np.float64)
        top = float(np.iinfo(it).min)
        ia = np.where(ia < 0, top - ia, ia)      # map the sign-magnitude pattern to a monotone integer line
        ib = np.where(ib < 0, top - ib, ib)
        d = np.abs(ia - ib)
        d = np.where(eq, 0, d)
        d = np.where(np.isnan(a) != np.isnan(b), LIM, d)
        return int(min(LIM, np.max(d)))
    return 0 if np.array_equal(a, b) else LIM


def same_bits(a, b):
    a, b = np.asarray(a), np.asarray(b)
    return a.shape == b.shape and a.dtype == b.dtype and (ulp_distance(a, b) == 0)


def cnum(z):
    """Python number -> JSON C number [[n,d],[n,d]] (dyadic values only; None if not exactly representable small)."""
    from fractions import Fraction
    z = complex(z)
    out = []
    for p in (z.real, z.imag):
        if not np.isfinite(p):
            return None
        fr = Fraction(p)
        if fr.denominator > 4096 or abs(fr.numerator) > 2 ** 30:
            return None
        out.append([int(fr.numerator), int(fr.denominator)])
    return out


def cvals(arr):
    vals = [cnum(z) for z in np.asarray(arr).ravel(order='C')]
    return None if any(v is None for v in vals) else vals


# ------------------------------------------------------------------ one call
def np_axis(axis):
    if axis == [99]:
        return 'absent'
    if axis == [98]:
        return None
    return axis[0] if len(axis) == 1 else tuple(axis)


def build_kwargs(case, dtk):
    kw = {}
    ax = np_axis(case['axis'])
    if ax != 'absent':
        kw['axis'] = ax
    if case['keepdims']:
        kw['keepdims'] = True
    if dtk != 'none':
        kw['dtype'] = np.dtype(dtk)
    return kw


def invoke(uf, method, args, kw, idx, b):
    if method == 'call':
        return uf(*args, **kw)
    if method == 'at':
        if uf.nin == 1:
            return uf.at(args[0], idx)
        return uf.at(args[0], idx, b)
    if method == 'reduceat':
        return uf.reduceat(args[0], idx, **kw)
    return getattr(uf, method)(*args, **kw)


LAYOUTS = ('C', 'F', 'S')
SENTINEL = 99


def lay(arr, layout):
    """A fresh array with the values of `arr` in the memory layout 'C', 'F' (Fortran order) or 'S' (a strided
    view: every second entry along the last axis of a bigger buffer whose gaps hold SENTINEL)."""
    arr = np.asarray(arr)
    if arr.ndim == 0 or layout == 'C':
        return np.array(arr, order='C')
    if layout == 'F':
        return np.array(arr, order='F')
    big = np.full(arr.shape[:-1] + (2 * arr.shape[-1],), SENTINEL, dtype=arr.dtype)
    view = big[..., ::2]
    view[...] = arr
    return view


def gaps_intact(view):
    """The entries of the backing buffer of a strided view that do not belong to the view still hold SENTINEL."""
    big = view.base
    if big is None or big.shape == view.shape:
        return True
    return bool(np.all(big[..., 1::2] == np.asarray(SENTINEL).astype(big.dtype)))


def data_of(el):
    """The ndarray(s) an element stores its values in."""
    if hasattr(el, 'tensor'):
        return [el.tensor.data]
    if hasattr(el, 'data'):
        return [el.data]
    return [d for part in el for d in data_of(part)]


def make_out(case, shape, dtype, variant, layout='C'):  # dtype: the dtype of the OUT object
    """The object handed over as out= for one output (pre-filled with a recognisable value), stored in the given
    memory layout.  Returns (out object, backing array)."""
    ok = case['outkind']
    shape = tuple(shape)
    dt = np.dtype(dtype)
    fill = 77 if dt.kind != 'b' else True
    back = lay(np.full(shape, fill, dtype=dt), layout)
    if ok == 'ndarray':
        return back, back
    kind = case['kind'] if ok == 'element' else ok          # 'tensor' / 'discr': the other array-backed kind
    sp = make_space(kind, shape, dt, variant if kind != 'power' else 0)
    return sp.element(back), back


class NotApplicable(Exception):
    pass


def run_case(case, uf, dtype, variant=0, exact_inputs=True, cplx=False, layout='C', special=None):
    """Execute one configuration with one ufunc and one dtype on real ODL elements.
    Returns the event for Trace_Ufunc (without id) or raises NotApplicable (NumPy itself refuses the call on
    plain arrays, or the out object cannot be built).
    layout: memory layout of every operand (element storage and plain arrays) and of every out object:
    'C', 'F' or 'S' (strided view); the elements WRAP caller-owned arrays of that layout without copy."""
    name = uf.__name__
    method = case['method']
    shapes = [tuple(s) for s in case['shapes']]
    dt = np.dtype(dtype)
    nin = 1 if case['ucls'] in ('u1', 'u2') else 2
    if ucls_of(uf) != case['ucls']:
        raise NotApplicable('class')
    xs = canon(shapes[0], 'x', dt, exact_inputs, cplx)
    ys = canon(shapes[1] if len(shapes) == 2 else shapes[0], 'y', dt, exact_inputs, cplx)
    if name in ('left_shift', 'right_shift', 'ldexp', 'power', 'float_power') and dt.kind in 'iu':
        ys = np.abs(ys)                       # negative shift counts / integer powers are errors in NumPy itself
    dt_y = dt
    if name == 'ldexp':                       # the exponent operand of ldexp is an integer array
        dt_y = np.dtype('int64') if dt.kind == 'f' else dt
        ys = np.abs(canon(ys.shape, 'y', 'int64')).astype(dt_y)
    if special is not None:               # one NaN / +-inf / -0.0 in each operand (at different entries)
        xs = inject(xs, special)
        if dt_y.kind in 'fc':
            ys = inject(ys, special, shift=1)
    dtk = rel_dtype(case['dtkw'], dt.name)
    if dtk is None:
        raise NotApplicable('no such dtype keyword')
    kw = build_kwargs(case, dtk)
    idx = list(case['idx'])
    b = np.asarray(2).astype(dt)[()]
    # ---- reference on the raw arrays (the oracle of the property) ----
    # "the underlying arrays" have the SAME memory layout as the element storage (NumPy's summation order depends
    # on the strides), and with out= the reference gets an out array of that layout as well
    # (a power-space element has no single underlying array: its asarray() is a new C-ordered array)
    single = nin == 1 or method in ('reduce', 'accumulate', 'at', 'reduceat')
    lx = 'C' if case['kind'] == 'power' and case['order'] != 'ae' else layout
    ly = 'C' if case['kind'] == 'power' and case['order'] != 'ea' else layout
    raw_args = (lay(xs, lx),) if single else (lay(xs, lx), lay(ys, ly))
    with np.errstate(all='ignore'):
        try:
            ref = invoke(uf, method, raw_args, dict(kw), idx, b)
            if case['outkind'] != 'none' and method != 'at':
                # the out object has the dtype RelDT(outdt, dtype produced without out); NumPy computes in dtype=
                # and casts into out (or refuses the cast: not applicable)
                first = list(ref) if isinstance(ref, tuple) else [ref]
                out_dts = [rel_dtype(case.get('outdt', 'same'), np.asarray(r).dtype.name) for r in first]
                if any(d is None for d in out_dts):
                    raise NotApplicable('no such out dtype')
                ref_outs = [lay(np.zeros(np.shape(r), dtype=d), layout) for r, d in zip(first, out_dts)]
                raw2 = (lay(xs, lx),) if single else (lay(xs, lx), lay(ys, ly))
                ref = invoke(uf, method, raw2, dict(kw, out=ref_outs[0] if len(ref_outs) == 1 else tuple(ref_outs)),
                             idx, b)
        except NotApplicable:
            raise
        except (TypeError, ValueError, IndexError) as e:
            raise NotApplicable('numpy: ' + type(e).__name__)
    if method == 'at':
        refs = [raw_args[0]]
    else:
        refs = list(ref) if isinstance(ref, tuple) else [ref]
    refs = [np.asarray(r) for r in refs]
    # ---- operands as elements / arrays ----
    try:
        sp_x = make_space(case['kind'], shapes[0], dt, variant)
        sp_y = make_space(case['kind'], shapes[1] if len(shapes) == 2 else shapes[0], dt_y, variant)
    except Exception as e:
        raise NotApplicable('space: ' + type(e).__name__)
    x_back, y_back = lay(xs, layout), lay(ys, layout)      # caller-owned arrays wrapped by the elements
    x_el = sp_x.element(x_back)
    y_el = sp_y.element(y_back)
    wrapshare = int(all(np.shares_memory(x_back, d) for d in data_of(x_el)) and
                    all(np.shares_memory(y_back, d) for d in data_of(y_el)))
    order = case['order']
    if len(raw_args) == 1:
        args = (x_el,)
        backs = [x_back]
    elif order == 'ee':
        args = (x_el, y_el)
        backs = [x_back, y_back]
    elif order == 'ea':
        args = (x_el, y_back)
        backs = [x_back, y_back]
    else:
        args = (x_back, y_el)
        backs = [x_back, y_back]
    pre = [as_array(a).copy() for a in args]
    # ---- out objects ----
    outs = []
    if case['outkind'] != 'none':
        try:
            pairs = [make_out(case, r.shape, r.dtype, variant, layout) for r in refs]
            outs = [p[0] for p in pairs]
            backs += [p[1] for p in pairs]
        except Exception as e:
            raise NotApplicable('out: ' + type(e).__name__)
        kw['out'] = outs[0] if len(outs) == 1 else tuple(outs)
    ev = {'k': 'uf', 'case': case, 'name': name, 'dt': dt.name, 'dtk': dtk, 'variant': variant, 'err': '',
          'odt': refs[0].dtype.name if (case['outkind'] != 'none' and method != 'at') else 'none',
          'rkind': [], 'rshape': [], 'rdtype': [], 'ref_shape': [list(r.shape) for r in refs],
          'ref_dtype': [r.dtype.name for r in refs], 'ulp': [], 'isout': [], 'outulp': [], 'unchanged': 1,
          'layout': layout, 'wrapshare': wrapshare, 'backulp': 0, 'gaps': 1, 'exact': 0,
          'special': list(special) if special else [], 'xin': [], 'yin': [], 'b': [[2, 1], [0, 1]], 'vals': []}
    info = {}
    with np.errstate(all='ignore'):
        try:
            res = invoke(uf, method, args, kw, idx, b)
        except Exception as e:
            ev['err'] = type(e).__name__
            info['exc'] = type(e).__name__ + ': ' + str(e)[:200]
            return ev, info
    if method == 'at':
        results = [None]
        observed = [as_array(args[0])]
        ev['rkind'] = [kind_of(res)]
    else:
        results = list(res) if isinstance(res, tuple) else [res]
        observed = [as_array(r) for r in results]
        ev['rkind'] = [kind_of(r) for r in results]
    if len(results) != len(refs):
        ev['err'] = 'ArityMismatch'
        return ev, info
    for k, (o, r) in enumerate(zip(observed, refs)):
        ev['rshape'].append(list(o.shape))
        # a Python builtin scalar (ProductSpaceElement.__array_wrap__ returns array.item()) carries no dtype
        pyscalar = isinstance(results[k], (int, float, complex, bool)) and not isinstance(results[k], np.generic)
        ev['rdtype'].append(r.dtype.name if pyscalar else o.dtype.name)
        ev['ulp'].append(ulp_distance(o, r))
        if outs:
            ev['isout'].append('yes' if results[k] is outs[k] else 'no')
            ev['outulp'].append(ulp_distance(as_array(outs[k]), r))
        else:
            ev['isout'].append('na')
            ev['outulp'].append(0)
    # frame: operands are not modified (except the first operand of `at`)
    for j, (a, p) in enumerate(zip(args, pre)):
        if method == 'at' and j == 0:
            continue
        if not same_bits(as_array(a), p):
            ev['unchanged'] = 0
    # `at` works in place: the caller's array that the element wraps holds the new values as well
    if method == 'at' and wrapshare:
        ev['backulp'] = ulp_distance(x_back, refs[0])
    # nothing outside the (strided) views of operands and out objects was written
    ev['gaps'] = int(all(gaps_intact(bk) for bk in backs))
    # exact ufuncs: hand the inputs and the observed values to the specification
    exact_name = name in (EXACT_UNARY if nin == 1 else EXACT_BINARY)
    if exact_name and exact_inputs and special is None and not (cplx and dt.kind == 'c' and name in REAL_ONLY) and \
            (method in ('call', 'at') or name in ('add', 'subtract', 'multiply', 'maximum', 'minimum',
                                                    'logical_and', 'logical_or')):
        xv, yv, vv = cvals(xs), cvals(ys), cvals(observed[0])
        if xv is not None and yv is not None and vv is not None:
            ev.update(exact=1, xin=xv, yin=yv, vals=[vv])
    return ev, info


# ------------------------------------------------------------------ wrapping / asarray round trip
def wrap_event(kind, shape, dtype, order, variant=0):
    dt = np.dtype(dtype)
    sp = make_space(kind, shape, dt, variant)
    arr = lay(canon(shape, 'x', dt), order)
    el = sp.element(arr)
    if kind == 'power':
        shares = all(np.shares_memory(arr, as_array(el[i])) for i in range(len(el)))
    else:
        shares = bool(np.shares_memory(arr, el.asarray())) and all(np.shares_memory(arr, d) for d in data_of(el))
    roundtrip = same_bits(as_array(el), arr)
    arr[(0,) * arr.ndim] = 55                      # a view sees a write to the wrapped array
    sees = bool(as_array(el)[(0,) * arr.ndim] == 55)
    return {'k': 'wrap', 'kind': kind, 'shape': list(shape), 'dt': dt.name, 'order': order, 'variant': variant,
            'shares': int(shares), 'roundtrip': int(roundtrip), 'sees_write': int(sees)}


# ------------------------------------------------------------------ legacy interface
def legacy_event(kind, shape, dtype, name, form, variant=0, special=None):
    """x.ufuncs.<name>(...) against the NumPy call on the element.
    form: 'plain' | 'out' (element out) | 'out-array' | reductions 'sum' ... are passed as name with form 'reduce'."""
    dt = np.dtype(dtype)
    sp = make_space(kind, shape, dt, variant)
    xs, ys = canon(shape, 'x', dt, False), canon(shape, 'y', dt, False)
    if special is not None:
        xs = inject(xs, special)
    x, y = sp.element(xs.copy()), sp.element(ys.copy())
    ev = {'k': 'legacy', 'kind': kind, 'shape': list(shape), 'dt': dt.name, 'name': name, 'form': form,
          'variant': variant, 'err': '', 'nerr': '', 'lkind': [], 'nkind': [], 'lshape': [], 'nshape': [],
          'ldtype': [], 'ndtype': [], 'ulp': [], 'isout': [], 'special': list(special) if special else [],
          'nout': 1 if form == 'reduce' else int(getattr(np, name).nout)}
    info = {}
    red = {'sum': np.add, 'prod': np.multiply, 'min': np.minimum, 'max': np.maximum}
    with np.errstate(all='ignore'):
        if form == 'reduce':
            np_call = lambda: red[name].reduce(x, axis=None)
            leg_call = lambda: getattr(x.ufuncs, name)()
            outs = None
        else:
            uf = getattr(np, name)
            extra = (y,) if uf.nin == 2 else ()
            np_call = lambda: uf(x, *extra)
            outs = None
            if form == 'plain':
                leg_call = lambda: getattr(x.ufuncs, name)(*extra)
        try:
            nres = np_call()
        except Exception as e:
            ev['nerr'] = type(e).__name__
            return ev, info
        nres = list(nres) if isinstance(nres, tuple) else [nres]
        if form in ('out', 'out-array'):
            def mk(r):
                a = as_array(r)
                if form == 'out-array':
                    return np.full(a.shape, 77, dtype=a.dtype)
                return make_space(kind, a.shape, a.dtype, 0).element(np.full(a.shape, 77, dtype=a.dtype))
            try:
                outs = [mk(r) for r in nres]
            except Exception as e:
                ev['nerr'] = 'out:' + type(e).__name__
                return ev, info
            if uf.nout == 1:
                leg_call = lambda: getattr(x.ufuncs, name)(*extra, out=outs[0])
            elif kind == 'power':
                leg_call = lambda: getattr(x.ufuncs, name)(*extra, out1=outs[0], out2=outs[1])
            else:
                leg_call = lambda: getattr(x.ufuncs, name)(*extra, out=tuple(outs))
        try:
            lres = leg_call()
        except Exception as e:
            ev['err'] = type(e).__name__
            info['exc'] = type(e).__name__ + ': ' + str(e)[:200]
            return ev, info
    lres = list(lres) if isinstance(lres, tuple) else [lres]
    def dtname(obj, arr):
        if isinstance(obj, (int, float, complex, bool)) and not isinstance(obj, np.generic):
            return 'python-scalar'
        return arr.dtype.name
    for k, nr in enumerate(nres):
        na = as_array(nr)
        ev['nkind'].append(kind_of(nr))
        ev['nshape'].append(list(na.shape))
        ev['ndtype'].append(dtname(nr, na))
    for k, lr in enumerate(lres):
        la = as_array(lr)
        ev['lkind'].append(kind_of(lr))
        ev['lshape'].append(list(la.shape))
        ev['ldtype'].append(dtname(lr, la))
        if k < len(nres) and 'python-scalar' in (ev['ldtype'][k], ev['ndtype'][k]):
            ev['ldtype'][k] = ev['ndtype'][k] = 'python-scalar'      # a builtin scalar carries no dtype to agree on
        if k < len(nres):
            ev['ulp'].append(ulp_distance(la, as_array(nres[k])))
            ev['isout'].append('na' if outs is None else ('yes' if lr is outs[k] else 'no'))
    return ev, info

"""Catalogue of concrete ODL operator instances for the call-protocol checks (C03, C10):
linear built-ins, nonlinear built-ins, functionals with their gradients / proximals / conjugates,
plus an introspection audit of which Operator subclasses are reached."""
import inspect
import pkgutil

import numpy as np
import odl

from . import linops as L
from . import nlops as NL


def functional_recipes(tier='quick'):
    R = []
    seen = set()

    def add(family, opts, fn):
        key = (family, tuple(sorted((k, str(v)) for k, v in opts.items())))
        if key in seen:                 # (family, options) identifies a recipe
            return
        seen.add(key)
        R.append((family, dict(opts), fn))
    S = odl.solvers
    spaces = [('rn', odl.rn(3)), ('rn-array', odl.rn(3, weighting=[1.0, 2.0, 0.5])), ('discr', odl.uniform_discr(0, 2, 4))]
    for sn, sp in spaces:
        one = sp.one()
        cat = [
            ('L1Norm', lambda sp=sp: S.L1Norm(sp)),
            ('L2Norm', lambda sp=sp: S.L2Norm(sp)),
            ('L2NormSquared', lambda sp=sp: S.L2NormSquared(sp)),
            ('LpNorm-1.5', lambda sp=sp: S.LpNorm(sp, 1.5)),
            ('LpNorm-inf', lambda sp=sp: S.LpNorm(sp, float('inf'))),
            ('Huber', lambda sp=sp: S.Huber(sp, 0.5)),
            ('ZeroFunctional', lambda sp=sp: S.ZeroFunctional(sp)),
            ('ConstantFunctional', lambda sp=sp: S.ConstantFunctional(sp, 2.0)),
            ('IndicatorBox', lambda sp=sp: S.IndicatorBox(sp, 0.25, 1.5)),
            ('IndicatorNonnegativity', lambda sp=sp: S.IndicatorNonnegativity(sp)),
            ('IndicatorLpUnitBall-2', lambda sp=sp: S.IndicatorLpUnitBall(sp, 2)),
            ('IndicatorLpUnitBall-1', lambda sp=sp: S.IndicatorLpUnitBall(sp, 1)),
            ('IndicatorLpUnitBall-inf', lambda sp=sp: S.IndicatorLpUnitBall(sp, float('inf'))),
            ('IndicatorZero', lambda sp=sp: S.IndicatorZero(sp)),
            ('IndicatorSimplex', lambda sp=sp: S.IndicatorSimplex(sp)),
            ('IndicatorSumConstraint', lambda sp=sp: S.IndicatorSumConstraint(sp)),
            ('KullbackLeibler', lambda sp=sp, one=one: S.KullbackLeibler(sp, prior=one * 2)),
            ('KullbackLeibler-noprior', lambda sp=sp: S.KullbackLeibler(sp)),
            ('KullbackLeiblerCrossEntropy', lambda sp=sp, one=one: S.KullbackLeiblerCrossEntropy(sp, prior=one * 2)),
            ('QuadraticForm', lambda sp=sp, one=one: S.QuadraticForm(odl.ScalingOperator(sp, 2.0), one, 1.0)),
            ('ScalingFunctional', lambda sp=sp: S.ScalingFunctional(sp.field, 3.0)),
            ('IdentityFunctional', lambda sp=sp: S.IdentityFunctional(sp.field)),
            ('MoreauEnvelope', lambda sp=sp: S.MoreauEnvelope(S.L1Norm(sp), 0.5)),
            ('translated', lambda sp=sp, one=one: S.L1Norm(sp).translated(one)),
            ('left-scaled', lambda sp=sp: 2.0 * S.L1Norm(sp)),
            ('right-scaled', lambda sp=sp: S.L2NormSquared(sp) * 2.0),
            ('right-vector', lambda sp=sp, one=one: S.L2NormSquared(sp) * (one * 2)),
            ('sum', lambda sp=sp: S.L2NormSquared(sp) + S.L1Norm(sp)),
            ('scalar-sum', lambda sp=sp: S.L1Norm(sp) + 3.0),
            ('quadratic-perturb', lambda sp=sp, one=one: S.FunctionalQuadraticPerturb(S.L1Norm(sp), 0.5, one, 1.0)),
            ('composition', lambda sp=sp: S.L2NormSquared(sp) * odl.ScalingOperator(sp, 2.0)),
            ('product', lambda sp=sp: S.FunctionalProduct(S.L2NormSquared(sp), S.L2Norm(sp))),
            ('quotient', lambda sp=sp: S.FunctionalQuotient(S.L2NormSquared(sp), S.L2Norm(sp) + 1.0)),
            ('infimal-convolution', lambda sp=sp: S.InfimalConvolution(S.L2NormSquared(sp), S.L1Norm(sp))),
            ('bregman', lambda sp=sp, one=one: S.BregmanDistance(S.L2NormSquared(sp), one, 2 * one)),
        ]
        for name, mk in cat:
            add('Functional.' + name, {'space': sn, 'derived': 'self'}, mk)
            add('Functional.' + name, {'space': sn, 'derived': 'gradient'}, lambda mk=mk: mk().gradient)
            add('Functional.' + name, {'space': sn, 'derived': 'proximal'}, lambda mk=mk: mk().proximal(0.5))
            add('Functional.' + name, {'space': sn, 'derived': 'convex_conj'}, lambda mk=mk: mk().convex_conj)
            add('Functional.' + name, {'space': sn, 'derived': 'convex_conj.proximal'},
                lambda mk=mk: mk().convex_conj.proximal(0.5))
            add('Functional.' + name, {'space': sn, 'derived': 'convex_conj.gradient'},
                lambda mk=mk: mk().convex_conj.gradient)
    # vector-field functionals
    vf = odl.ProductSpace(odl.rn(2), 2)
    for name, mk in [('GroupL1Norm', lambda: S.GroupL1Norm(vf)), ('IndicatorGroupL1UnitBall', lambda: S.IndicatorGroupL1UnitBall(vf)),
                     ('SeparableSum', lambda: S.SeparableSum(S.L1Norm(odl.rn(2)), S.L2NormSquared(odl.rn(2)))),
                     ('Huber-vf', lambda: S.Huber(vf, 0.5)),
                     ('NuclearNorm', lambda: S.NuclearNorm(odl.ProductSpace(odl.ProductSpace(odl.rn(2), 2), 2))),
                     ('IndicatorNuclearNormUnitBall', lambda: S.IndicatorNuclearNormUnitBall(odl.ProductSpace(odl.ProductSpace(odl.rn(2), 2), 2)))]:
        add('Functional.' + name, {'derived': 'self'}, mk)
        add('Functional.' + name, {'derived': 'proximal'}, lambda mk=mk: mk().proximal(0.5))
        add('Functional.' + name, {'derived': 'convex_conj'}, lambda mk=mk: mk().convex_conj)
        add('Functional.' + name, {'derived': 'convex_conj.proximal'}, lambda mk=mk: mk().convex_conj.proximal(0.5))
        add('Functional.' + name, {'derived': 'gradient'}, lambda mk=mk: mk().gradient)
    wide_functional_recipes(tier, add)
    return R



# ---- space axes of the functional / misc groups -------------------------------------------------------------------------
# These groups are consumed by C06 as well (every nonlinear recipe that offers a derivative).  Two kinds of spaces are kept
# out of them because they would make C06 raise alarms that do not contradict ITS property:
#  * explicitly array-weighted DISCRETISED spaces: repr() of such a space raises AttributeError (DiscretizedSpace.__repr__
#    reads weighting.const), which turns every NotImplementedError / OpNotImplementedError whose message formats the
#    operator into an AttributeError ("no derivative" would look like "derivative raised").  The linear catalogue keeps
#    these spaces (C05 / C03 report what is wrong on them); array weightings are covered here on tensor spaces.
#  * single precision: the relational clause of C06 uses h = 2^-6 .. 2^-8, below float32 resolution.  Nonlinear
#    single-precision recipes therefore carry the key 'via' (= how the operator is reached: 'single-precision-direct'),
#    which C06 skips like the other 'via' forms; C03 / C10 treat them as any other recipe.
def _no_discr_array(c):
    return not (c.get('kind') == 'discr' and c.get('weighting') == 'array')


def _combos(tier, opt_axes, sp_axes, valid=None, cap=400):
    from .linops import _combos as lin_combos
    return lin_combos(tier, opt_axes, sp_axes, lambda c: _no_discr_array(c) and (valid is None or valid(c)), cap)


def _single(c):
    return {'via': 'single-precision-direct'} if c.get('prec') == 'single' else {}


DERIVED_ALL = ('self', 'gradient', 'proximal', 'convex_conj', 'convex_conj.proximal', 'convex_conj.gradient')
# functionals on single-precision or complex spaces are listed through their proximals only: C06 consumes the forms
# 'self' / 'gradient' / 'convex_conj(.gradient)' with central differences at h = 2^-6..2^-8, which are below float32
# resolution, and real-valued functionals on complex spaces are differentiable in the C = R^2 sense only
DERIVED_PROX = ('proximal', 'convex_conj.proximal')


_ROT = {}


def _add_functional(add, name, opts, mk, kinds=DERIVED_ALL, sigma=0.5, tier='thorough'):
    """thorough: every derived form of the functional ; quick: TWO derived forms per instance, rotating per family, so that
    every (family, form) pair and - over the instances of a family - every (option value, form) pair is visited."""
    fam = 'Functional.' + name
    kinds = list(kinds)
    if tier == 'quick' and len(kinds) > 2:
        k = _ROT.get(('q', fam), 0)
        _ROT[('q', fam)] = k + 1
        # the stride 5 is coprime to the number of forms (6, 4, 3, 2) and to the usual option-axis lengths
        kinds = [kinds[(5 * k) % len(kinds)], kinds[(5 * k + 3) % len(kinds)]]
    for kind in kinds:
        o = dict(opts, derived=kind)
        if kind == 'self':
            add(fam, o, mk)
        elif kind == 'gradient':
            add(fam, o, lambda mk=mk: mk().gradient)
        elif kind == 'proximal':
            add(fam, o, lambda mk=mk: mk().proximal(sigma))
        elif kind == 'convex_conj':
            add(fam, o, lambda mk=mk: mk().convex_conj)
        elif kind == 'convex_conj.proximal':
            add(fam, o, lambda mk=mk: mk().convex_conj.proximal(sigma))
        elif kind == 'convex_conj.gradient':
            add(fam, o, lambda mk=mk: mk().convex_conj.gradient)


def wide_functional_recipes(tier, add):
    """Every Functional class x constructor options x spaces; derived functionals of derived functionals (depth 2)."""
    from collections import OrderedDict as OD
    from . import catutil as U
    from .linops import _space_axes, _sp, _o
    S = odl.solvers
    vec, posvec = U.vec, U.posvec
    _ROT.clear()
    _af = globals()['_add_functional']

    def _add_functional(*a, **kw):
        kw.setdefault('tier', tier)
        return _af(*a, **kw)
    real_axes = _space_axes(fields=('real',), precs=('double',))
    prox_axes = _space_axes()          # all spaces; single precision / complex ones are used through proximals only

    def kinds_of(c):
        return DERIVED_ALL if (c['field'] == 'real' and c['prec'] == 'double') else DERIVED_PROX

    def one(sp):
        return sp.one()

    # ---- norms and indicator functions of balls
    for c in _combos(tier, OD([('exponent', ['1', '2', 'inf', '1.5', '3'])]), prox_axes):
        lab, sp = _sp(c)
        p = float(c['exponent'])
        _add_functional(add, 'LpNorm', _o(c, lab, 'exponent'), lambda sp=sp, p=p: S.LpNorm(sp, p), kinds_of(c))
        _add_functional(add, 'IndicatorLpUnitBall', _o(c, lab, 'exponent'), lambda sp=sp, p=p: S.IndicatorLpUnitBall(sp, p), kinds_of(c))
    for c in _combos(tier, OD([('cls', ['L1Norm', 'L2Norm', 'L2NormSquared', 'ZeroFunctional', 'IndicatorNonnegativity'])]), prox_axes,
                     lambda c: c['field'] == 'real' or c['cls'] != 'IndicatorNonnegativity'):
        lab, sp = _sp(c)
        _add_functional(add, c['cls'], _o(c, lab), lambda sp=sp, n=c['cls']: getattr(S, n)(sp), kinds_of(c))
    for c in _combos(tier, OD([('constant', ['zero', 'pos', 'neg'])]), prox_axes):
        lab, sp = _sp(c)
        a = {'zero': 0.0, 'pos': 2.0, 'neg': -1.5}[c['constant']]
        _add_functional(add, 'ConstantFunctional', _o(c, lab, 'constant'), lambda sp=sp, a=a: S.ConstantFunctional(sp, a), kinds_of(c))
        _add_functional(add, 'IndicatorZero', _o(c, lab, 'constant'), lambda sp=sp, a=a: S.IndicatorZero(sp, a), kinds_of(c))
    add('Functional.IndicatorZero', {'space': 'rn', 'constant': 'default', 'derived': 'self'}, lambda: S.IndicatorZero(odl.rn(3)))
    # ---- functionals on a field
    for fn_, fld in (('field-real', odl.RealNumbers()), ('field-complex', odl.ComplexNumbers())):
        for sn, a in (('pos', 3.0), ('zero', 0.0), ('neg', -1.5), ('complex-general', 1 - 2j)):
            if sn == 'complex-general' and fn_ == 'field-real':
                continue
            _add_functional(add, 'ScalingFunctional', {'space': fn_, 'scale': sn}, lambda fld=fld, a=a: S.ScalingFunctional(fld, a),
                            ('self', 'gradient', 'convex_conj'))
        _add_functional(add, 'IdentityFunctional', {'space': fn_}, lambda fld=fld: S.IdentityFunctional(fld), ('self', 'gradient', 'convex_conj'))
    # ---- box constraints: bounds none / scalar / element(-like)
    BND = OD([('none', lambda sp: None), ('scalar', lambda sp: 0.75), ('element', lambda sp: 0.75 * sp.one()),
              ('array-like', lambda sp: (0.75 * sp.one()).asarray().tolist())])

    def box_ok(c):
        return c['field'] == 'real' and not (c['lower'] == 'none' and c['upper'] == 'none' and False)
    for c in _combos(tier, OD([('lower', list(BND)), ('upper', list(BND))]), prox_axes, box_ok):
        lab, sp = _sp(c)

        def mk(sp=sp, c=c):
            lo, up = BND[c['lower']](sp), BND[c['upper']](sp)
            if up is not None:
                up = 1.25 if c['upper'] == 'scalar' else (1.25 * sp.one() if c['upper'] == 'element' else (1.25 * sp.one()).asarray().tolist())
            return S.IndicatorBox(sp, lo, up)
        _add_functional(add, 'IndicatorBox', _o(c, lab, 'lower', 'upper'), mk, kinds_of(c))
    # ---- Kullback-Leibler family: prior none / element, also starting from the conjugate classes
    from odl.solvers.functional.default_functionals import KullbackLeiblerConvexConj, KullbackLeiblerCrossEntropyConvexConj
    KLS = OD([('KullbackLeibler', S.KullbackLeibler), ('KullbackLeiblerCrossEntropy', S.KullbackLeiblerCrossEntropy),
              ('KullbackLeiblerConvexConj', KullbackLeiblerConvexConj),
              ('KullbackLeiblerCrossEntropyConvexConj', KullbackLeiblerCrossEntropyConvexConj)])
    for c in _combos(tier, OD([('cls', list(KLS)), ('prior', ['none', 'default', 'element'])]),
                     _space_axes(fields=('real',)), None):
        lab, sp = _sp(c)

        def mk(sp=sp, c=c):
            if c['prior'] == 'default':
                return KLS[c['cls']](sp)
            return KLS[c['cls']](sp, prior=None if c['prior'] == 'none' else posvec(sp))
        _add_functional(add, c['cls'], _o(c, lab, 'prior'), mk, kinds_of(c))
    # ---- Huber: gamma small / large / zero ; tensor spaces and vector fields
    for c in _combos(tier, OD([('gamma', ['0.5', '2.0', 'zero'])]), prox_axes, lambda c: c['field'] == 'real'):
        lab, sp = _sp(c)
        g = {'0.5': 0.5, '2.0': 2.0, 'zero': 0}[c['gamma']]
        _add_functional(add, 'Huber', _o(c, lab, 'gamma'), lambda sp=sp, g=g: S.Huber(sp, g), kinds_of(c))
    # ---- simplex / sum constraint
    for c in _combos(tier, OD([('size', ['default', '2.5']), ('sum_rtol', ['default', 'given'])]), prox_axes, lambda c: c['field'] == 'real'):
        lab, sp = _sp(c)
        kw = {} if c['sum_rtol'] == 'default' else {'sum_rtol': 1e-6}

        def mks(sp=sp, c=c, kw=kw):
            return S.IndicatorSimplex(sp, **dict(kw, **({} if c['size'] == 'default' else {'diameter': 2.5})))

        def mkc(sp=sp, c=c, kw=kw):
            return S.IndicatorSumConstraint(sp, **dict(kw, **({} if c['size'] == 'default' else {'sum_value': 2.5})))
        _add_functional(add, 'IndicatorSimplex', _o(c, lab, 'size', 'sum_rtol'), mks, kinds_of(c))
        _add_functional(add, 'IndicatorSumConstraint', _o(c, lab, 'size', 'sum_rtol'), mkc, kinds_of(c))
    # ---- quadratic forms: operator none / symmetric / non-symmetric ; vector none / given ; constant zero / non-zero
    def qf_ok(c):
        if c['operator'] == 'none' and c['vector'] == 'none':
            return False
        if c['operator'] == 'matrix' and (c['kind'] != 'rn' or c['shape'] != '1d' or c['weighting'] != 'none'):
            return False
        return True
    for c in _combos(tier, OD([('operator', ['none', 'scaling', 'multiply', 'matrix']), ('vector', ['none', 'given']),
                               ('constant', ['zero', 'nonzero'])]), real_axes, qf_ok):
        lab, sp = _sp(c)

        def mk(sp=sp, c=c):
            A = {'none': None, 'scaling': lambda: odl.ScalingOperator(sp, 2.0), 'multiply': lambda: odl.MultiplyOperator(posvec(sp)),
                 'matrix': lambda: odl.MatrixOperator(np.array([[2.0, 1.0, 0.0], [0.0, 1.0, -1.0], [0.5, 0.0, 1.0]]))}[c['operator']]
            return S.QuadraticForm(None if A is None else A(), vec(sp) if c['vector'] == 'given' else None,
                                   1.5 if c['constant'] == 'nonzero' else 0)
        _add_functional(add, 'QuadraticForm', _o(c, lab, 'operator', 'vector', 'constant'), mk)
    # ---- Moreau envelope
    for c in _combos(tier, OD([('functional', ['L1Norm', 'L2NormSquared', 'IndicatorBox', 'L2Norm']), ('sigma', ['default', '0.5', '2.0'])]),
                     real_axes):
        lab, sp = _sp(c)

        def mk(sp=sp, c=c):
            f = {'L1Norm': lambda: S.L1Norm(sp), 'L2NormSquared': lambda: S.L2NormSquared(sp), 'L2Norm': lambda: S.L2Norm(sp),
                 'IndicatorBox': lambda: S.IndicatorBox(sp, 0.75, 1.25)}[c['functional']]()
            return S.MoreauEnvelope(f) if c['sigma'] == 'default' else S.MoreauEnvelope(f, sigma=float(c['sigma']))
        _add_functional(add, 'MoreauEnvelope', _o(c, lab, 'functional', 'sigma'), mk, ('self', 'gradient', 'convex_conj'))
    # ---- Rosenbrock
    for n in (2, 3, 4):
        for sc in ('default', '2.0'):
            _add_functional(add, 'RosenbrockFunctional', {'space': 'rn', 'size': str(n), 'scale': sc},
                            lambda n=n, sc=sc: S.RosenbrockFunctional(odl.rn(n)) if sc == 'default' else S.RosenbrockFunctional(odl.rn(n), scale=2.0),
                            ('self', 'gradient'))
    _add_functional(add, 'RosenbrockFunctional', {'space': 'rn-const', 'size': '3', 'scale': '2.0'},
                    lambda: S.RosenbrockFunctional(odl.rn(3, weighting=2.0), scale=2.0), ('self', 'gradient'))
    # ---- vector-field functionals
    VB = OD([('rn', lambda f='real', p='double': U.mk_space('rn', f, p)[1]), ('discr2d', lambda f='real', p='double': U.mk_space('discr', f, p, shape='2d')[1]),
             ('rn-array', lambda f='real', p='double': U.mk_space('rn', f, p, weighting='array')[1])])
    for c in U.cross(tier, OD([('exponent', ['default', '1', '2', 'inf', '1.5']), ('length', ['1', '2', '3']), ('base', list(VB)),
                               ('pspace-weighting', ['none', 'const', 'array']), ('field', ['real', 'complex']), ('prec', ['double', 'single'])])):
        def vf(c=c):
            return U.mk_pspace(VB[c['base']](c['field'], c['prec']), 'power' + c['length'], c['pspace-weighting'])
        kw = {} if c['exponent'] == 'default' else {'exponent': float(c['exponent'])}
        o = {k: c[k] for k in ('exponent', 'length', 'base', 'pspace-weighting')}
        if c['field'] == 'complex':
            o['dtype'] = 'complex'
        if c['prec'] == 'single':
            o['prec'] = 'single'
        kinds = DERIVED_ALL if (c['field'] == 'real' and c['prec'] == 'double') else DERIVED_PROX
        _add_functional(add, 'GroupL1Norm', o, lambda vf=vf, kw=kw: S.GroupL1Norm(vf(), **kw), kinds)
        _add_functional(add, 'IndicatorGroupL1UnitBall', o, lambda vf=vf, kw=kw: S.IndicatorGroupL1UnitBall(vf(), **kw), kinds)
    for c in U.cross(tier, OD([('gamma', ['0.5', '2.0', 'zero']), ('length', ['1', '2', '3']), ('base', list(VB)),
                               ('pspace-weighting', ['none', 'const', 'array'])])):
        def vf(c=c):
            return U.mk_pspace(VB[c['base']](), 'power' + c['length'], c['pspace-weighting'])
        g = {'0.5': 0.5, '2.0': 2.0, 'zero': 0}[c['gamma']]
        _add_functional(add, 'Huber-vf', dict(c), lambda vf=vf, g=g: S.Huber(vf(), g))
    for c in U.cross(tier, OD([('outer_exp', ['default', '1', '2', 'inf']), ('singular_vector_exp', ['default', '1', '2', 'inf']),
                               ('shape', ['2x2', '2x3', '3x2', '1x2']), ('base', ['rn', 'discr2d'])])):
        def sp(c=c):
            n, m = [int(t) for t in c['shape'].split('x')]
            return odl.ProductSpace(odl.ProductSpace(VB[c['base']](), m), n)
        kw = {}
        if c['outer_exp'] != 'default':
            kw['outer_exp'] = float(c['outer_exp'])
        if c['singular_vector_exp'] != 'default':
            kw['singular_vector_exp'] = float(c['singular_vector_exp'])
        _add_functional(add, 'NuclearNorm', dict(c), lambda sp=sp, kw=kw: S.NuclearNorm(sp(), **kw), ('self', 'proximal', 'convex_conj', 'convex_conj.proximal'))
        _add_functional(add, 'IndicatorNuclearNormUnitBall', dict(c), lambda sp=sp, kw=kw: S.IndicatorNuclearNormUnitBall(sp(), **kw),
                        ('self', 'proximal', 'convex_conj', 'convex_conj.proximal'))
    # ---- separable sums: argument forms
    def seps(form, w):
        X = odl.rn(2) if w == 'none' else odl.rn(2, weighting=[1.0, 4.0])
        Y = odl.uniform_discr(0, 1, 3)
        f, g, h = S.L1Norm(X), S.L2NormSquared(X), S.KullbackLeibler(X, prior=posvec(X))
        return {'two': lambda: S.SeparableSum(f, g), 'one': lambda: S.SeparableSum(h), 'three': lambda: S.SeparableSum(f, g, h),
                'int-form': lambda: S.SeparableSum(f, 3), 'int-one': lambda: S.SeparableSum(g, 1),
                'different-spaces': lambda: S.SeparableSum(f, S.L2Norm(Y)),
                'nested': lambda: S.SeparableSum(S.SeparableSum(f, g), S.SeparableSum(g, 2)),
                'with-indicator': lambda: S.SeparableSum(S.IndicatorBox(X, 0.75, 1.25), f)}[form]()
    for form in ('two', 'one', 'three', 'int-form', 'int-one', 'different-spaces', 'nested', 'with-indicator'):
        for w in ('none', 'array'):
            _add_functional(add, 'SeparableSum', {'parts': form, 'comp-weighting': w}, lambda form=form, w=w: seps(form, w))

    # ---- derived functionals (depth 1) and derived functionals of derived functionals (depth 2)
    INNER = OD([('L1Norm', lambda sp: S.L1Norm(sp)), ('L2NormSquared', lambda sp: S.L2NormSquared(sp)), ('L2Norm', lambda sp: S.L2Norm(sp)),
                # small prior: third derivatives ~ prior / x^3 stay small against the directional derivative at the fixed base
                # points of C06 (the relative 1e-3 bound at h = 2^-8 needs |f'''| / |f'| <~ 400), whatever wrapper is around it
                ('KullbackLeibler', lambda sp: S.KullbackLeibler(sp, prior=posvec(sp, (0.25, 0.125, 0.375, 0.1875, 0.3125)))),
                # gamma far below every argument the wrappers produce (|arg| >= 0.15): no wrapper can put a base point of C06 on
                # the kink |arg| = gamma (Huber with larger gamma, i.e. with its quadratic region, is listed directly above)
                ('Huber', lambda sp: S.Huber(sp, 0.05))])

    def shift(sp):
        # small enough that the positive inputs of C03 (0.5 .. 2) and the base points of C06 (>= 0.6) stay well inside the domain
        # of the Kullback-Leibler divergence also after two translations (>= 0.35: the pole of log at 0 is far)
        return 0.125 * sp.one()

    def M32(sp):
        return odl.MatrixOperator(np.array([[1.0, 2.0, 0.0], [-1.0, 0.5, 3.0], [0.0, 1.0, 1.0]]), domain=sp, range=sp)
    D1 = OD([
        ('left-scaled', lambda f, sp: 2.0 * f),
        ('left-scaled-neg', lambda f, sp: S.FunctionalLeftScalarMult(f, -1.5)),
        ('left-scaled-zero', lambda f, sp: S.FunctionalLeftScalarMult(f, 0.0)),
        ('left-scaled-one', lambda f, sp: S.FunctionalLeftScalarMult(f, 1)),
        ('right-scaled', lambda f, sp: f * 2.0),
        ('right-scaled-neg', lambda f, sp: S.FunctionalRightScalarMult(f, -0.5)),
        ('right-scaled-zero', lambda f, sp: f * 0.0),
        ('right-vector', lambda f, sp: f * posvec(sp)),
        ('right-vector-mixed-sign', lambda f, sp: S.FunctionalRightVectorMult(f, vec(sp))),
        ('sum', lambda f, sp: f + S.L2NormSquared(sp)),
        ('scalar-sum', lambda f, sp: f + 3.0),
        ('scalar-sum-neg', lambda f, sp: S.FunctionalScalarSum(f, -1.5)),
        ('difference', lambda f, sp: f - S.L2NormSquared(sp)),
        ('translated', lambda f, sp: f.translated(shift(sp))),
        ('translated-array-like', lambda f, sp: S.FunctionalTranslation(f, shift(sp).asarray().tolist())),
        ('quadratic-perturb', lambda f, sp: S.FunctionalQuadraticPerturb(f, 0.5, posvec(sp), 1.0)),
        ('quadratic-perturb-coeff-only', lambda f, sp: S.FunctionalQuadraticPerturb(f, quadratic_coeff=0.5)),
        ('quadratic-perturb-linear-only', lambda f, sp: S.FunctionalQuadraticPerturb(f, linear_term=posvec(sp))),
        ('quadratic-perturb-constant-only', lambda f, sp: S.FunctionalQuadraticPerturb(f, constant=-1.5)),
        ('quadratic-perturb-linear-constant', lambda f, sp: S.FunctionalQuadraticPerturb(f, linear_term=posvec(sp), constant=2.0)),
        ('composition', lambda f, sp: f * odl.ScalingOperator(sp, 2.0)),
        ('composition-multiply', lambda f, sp: S.FunctionalComp(f, odl.MultiplyOperator(posvec(sp)))),
        ('composition-nonlinear', lambda f, sp: S.FunctionalComp(f, odl.PowerOperator(sp, 2))),
        ('product', lambda f, sp: S.FunctionalProduct(f, S.L2Norm(sp))),
        ('quotient', lambda f, sp: S.FunctionalQuotient(f, S.L2Norm(sp) + 1.0)),
        ('quotient-reversed', lambda f, sp: S.FunctionalQuotient(S.L2NormSquared(sp) + 1.0, f + 1.0)),
        ('infimal-convolution', lambda f, sp: S.InfimalConvolution(f, S.L2NormSquared(sp))),
        # the Bregman distance is stationary at its point: keep the point (1/32) far from every argument the wrappers produce,
        # a directional derivative that nearly vanishes cannot meet the relative bound of C06
        ('bregman', lambda f, sp: S.BregmanDistance(f, sp.one() / 32, f.gradient(sp.one() / 32))),
        ('bregman-method', lambda f, sp: f.bregman(sp.one() / 32, f.gradient(sp.one() / 32))),
        ('default-convex-conj', lambda f, sp: (f + S.L2NormSquared(sp)).convex_conj),
        ('convex-conj-of-convex-conj', lambda f, sp: f.convex_conj.convex_conj),
    ])
    # wrappers that evaluate the inner functional at non-positive arguments: outside the domain of the Kullback-Leibler
    # divergence (value +inf; products / quotients of such values are inf or nan depending on the evaluation order)
    LEAVES_POSITIVE = ('right-scaled-neg', 'right-scaled-zero', 'right-vector-mixed-sign')

    def no_huber_on_array(c):
        # element indexing on array-weighted spaces raises (KF-C20-5): Huber itself is listed above, not inside wrappers
        if c['inner'] == 'KullbackLeibler' and (c.get('d1') in LEAVES_POSITIVE or c.get('outer') in LEAVES_POSITIVE):
            return False
        return not (c['inner'] == 'Huber' and c['weighting'] == 'array')
    # the conjugate of the Kullback-Leibler divergence has a pole at 1: inside wrappers the generic base points of C06 may
    # come arbitrarily close to it (a pole is outside the claim), so those wrappers are listed without their conjugates
    NO_CC = ('self', 'gradient', 'proximal', 'convex_conj.proximal')

    def kinds_in(c):
        return NO_CC if c['inner'] == 'KullbackLeibler' else DERIVED_ALL
    for c in _combos(tier, OD([('d1', list(D1)), ('inner', list(INNER))]), real_axes, no_huber_on_array):
        lab, sp = _sp(c)
        _add_functional(add, c['d1'], _o(c, lab, 'inner'), lambda sp=sp, c=c: D1[c['d1']](INNER[c['inner']](sp), sp), kinds_in(c))
    # proximal-only forms on single precision / complex spaces
    for c in _combos(tier, OD([('d1', ['left-scaled', 'right-scaled', 'right-vector', 'scalar-sum', 'translated', 'quadratic-perturb',
                                       'quadratic-perturb-linear-only', 'bregman']),
                               ('inner', ['L1Norm', 'L2NormSquared', 'L2Norm'])]), prox_axes,
                     lambda c: not (c['field'] == 'real' and c['prec'] == 'double')):
        lab, sp = _sp(c)
        _add_functional(add, c['d1'], _o(c, lab, 'inner'), lambda sp=sp, c=c: D1[c['d1']](INNER[c['inner']](sp), sp), DERIVED_PROX)
    D2 = ['left-scaled', 'right-scaled', 'right-vector', 'sum', 'scalar-sum', 'translated', 'quadratic-perturb', 'quadratic-perturb-linear-only',
          'composition', 'composition-multiply', 'product', 'quotient', 'bregman', 'right-scaled-neg', 'left-scaled-zero']
    def d2_ok(c):
        # product(... Kullback-Leibler ...): large values, and at the fixed base point of C06 the directional derivative nearly
        # cancels, so the relative 1e-3 bound at h = 2^-8 is out of reach although the differences converge with ratio 4 (conditioning
        # of the test point, not a defect)
        return no_huber_on_array(c) and not (c['outer'] == 'product' and c['inner'] == 'KullbackLeibler')
    for c in _combos(tier, OD([('outer', D2), ('d1', D2), ('inner', list(INNER))]),
                     _space_axes(fields=('real',), precs=('double',), shapes=('1d', '2d'), bdrys=('False', 'asym')), d2_ok):
        lab, sp = _sp(c)
        o = _o(c, lab, 'inner')
        o['chain'] = c['outer'] + '(' + c['d1'] + ')'
        _add_functional(add, 'depth2', o, lambda sp=sp, c=c: D1[c['outer']](D1[c['d1']](INNER[c['inner']](sp), sp), sp), kinds_in(c))
    # simple_functional
    r3 = odl.rn(3)
    _add_functional(add, 'simple_functional', {'given': 'all'}, lambda: S.functional.simple_functional(
        r3, fcall=lambda x: x.inner(x), grad=lambda x: 2 * x, prox=S.proximal_l2_squared(r3), grad_lip=2,
        convex_conj_fcall=lambda x: x.inner(x) / 4, convex_conj_grad=lambda x: x / 2, convex_conj_prox=S.proximal_l2_squared(r3, lam=0.25)))
    _add_functional(add, 'simple_functional', {'given': 'grad-operator'}, lambda: S.functional.simple_functional(
        r3, fcall=lambda x: x.inner(x), grad=odl.ScalingOperator(r3, 2.0)), ('self', 'gradient'))


def other_recipes(tier='quick'):
    R = []
    seen = set()

    def add(family, opts, fn):
        key = (family, tuple(sorted((k, str(v)) for k, v in opts.items())))
        if key in seen:
            return
        seen.add(key)
        R.append((family, dict(opts), fn))
    r3 = odl.rn(3)
    d1 = odl.uniform_discr(0, 1, 4)
    d2 = odl.uniform_discr([0, 0], [1, 1], [3, 4])
    add('LinCombOperator', {}, lambda: odl.LinCombOperator(r3, 2.0, -1.0))
    add('ConstantOperator', {}, lambda: odl.ConstantOperator(r3.element([1, 2, 3])))
    add('ConstantOperator', {'domain': 'other'}, lambda: odl.ConstantOperator(r3.element([1, 2, 3]), domain=odl.rn(2)))
    add('ZeroOperator', {'range': 'other'}, lambda: odl.ZeroOperator(r3, range=odl.rn(2)))
    add('NormOperator', {}, lambda: odl.NormOperator(r3))
    add('DistOperator', {}, lambda: odl.DistOperator(r3.element([1, 2, 3])))
    add('Resampling', {'dir': 'coarser'}, lambda: odl.Resampling(d1, odl.uniform_discr(0, 1, 2), interp='linear'))
    add('Resampling', {'dir': 'finer'}, lambda: odl.Resampling(d1, odl.uniform_discr(0, 1, 8), interp='nearest'))
    add('ResizingOperator', {'dim': '2'}, lambda: odl.ResizingOperator(d2, ran_shp=(5, 2), pad_mode='symmetric'))
    add('LinDeformFixedTempl', {}, lambda: odl.deform.LinDeformFixedTempl(d1.element([1, 2, 3, 4])))
    add('LinDeformFixedDisp', {}, lambda: odl.deform.LinDeformFixedDisp(d1.tangent_bundle.element([[0.1, 0.0, -0.1, 0.05]])))
    add('NumericalDerivative', {}, lambda: odl.solvers.NumericalDerivative(odl.PowerOperator(r3, 2), r3.element([1, 2, 3])))
    add('NumericalGradient', {}, lambda: odl.solvers.NumericalGradient(odl.solvers.L2NormSquared(r3)))
    add('PointwiseTensorFieldOperator.PointwiseNorm', {}, lambda: odl.PointwiseNorm(odl.ProductSpace(d1, 2)))
    add('PointwiseInnerAdjoint', {}, lambda: odl.PointwiseInner(odl.ProductSpace(d1, 2), odl.ProductSpace(d1, 2).one()).adjoint)
    add('ComplexModulus', {}, lambda: odl.ComplexModulus(odl.cn(2)))
    add('ComplexModulusSquared', {}, lambda: odl.ComplexModulusSquared(odl.cn(2)))
    for n, hc, impl in [(4, False, 'numpy'), (5, True, 'numpy'), (4, False, 'pyfftw'), (5, True, 'pyfftw'), (4, True, 'pyfftw')]:
        dt = 'float64' if hc else 'complex128'
        add('DiscreteFourierTransform', {'impl': impl, 'halfcomplex': str(hc), 'ndim': '1'},
            lambda n=n, hc=hc, impl=impl, dt=dt: odl.trafos.DiscreteFourierTransform(odl.uniform_discr(0, n, n, dtype=dt), halfcomplex=hc, impl=impl))
        add('DiscreteFourierTransformInverse', {'impl': impl, 'halfcomplex': str(hc), 'ndim': '1'},
            lambda n=n, hc=hc, impl=impl, dt=dt: odl.trafos.DiscreteFourierTransform(
                odl.uniform_discr(0, n, n, dtype=dt), halfcomplex=hc, impl=impl).inverse)
        add('FourierTransform', {'impl': impl, 'halfcomplex': str(hc), 'ndim': '1'},
            lambda n=n, hc=hc, impl=impl, dt=dt: odl.trafos.FourierTransform(odl.uniform_discr(-1, 1, n, dtype=dt), halfcomplex=hc, impl=impl))
        add('FourierTransformInverse', {'impl': impl, 'halfcomplex': str(hc), 'ndim': '1'},
            lambda n=n, hc=hc, impl=impl, dt=dt: odl.trafos.FourierTransform(odl.uniform_discr(-1, 1, n, dtype=dt), halfcomplex=hc, impl=impl).inverse)
    for impl in ('numpy', 'pyfftw'):
        add('DiscreteFourierTransform', {'impl': impl, 'halfcomplex': 'True', 'ndim': '2'},
            lambda impl=impl: odl.trafos.DiscreteFourierTransform(odl.uniform_discr([0, 0], [1, 1], [3, 4], dtype='float64'), halfcomplex=True, impl=impl))
        add('DiscreteFourierTransformInverse', {'impl': impl, 'halfcomplex': 'True', 'ndim': '2'},
            lambda impl=impl: odl.trafos.DiscreteFourierTransform(odl.uniform_discr([0, 0], [1, 1], [3, 4], dtype='float64'), halfcomplex=True, impl=impl).inverse)
    add('WaveletTransform', {'wavelet': 'db2', 'pad_mode': 'symmetric'},
        lambda: odl.trafos.WaveletTransform(odl.uniform_discr(0, 1, 8), 'db2', nlevels=1, pad_mode='symmetric'))
    add('WaveletTransformInverse', {'wavelet': 'db2', 'pad_mode': 'symmetric'},
        lambda: odl.trafos.WaveletTransform(odl.uniform_discr(0, 1, 8), 'db2', nlevels=1, pad_mode='symmetric').inverse)
    sp2 = odl.uniform_discr([-1, -1], [1, 1], [4, 4])
    geom = odl.tomo.parallel_beam_geometry(sp2, num_angles=3)
    add('RayTransform', {'impl': 'skimage'}, lambda: odl.tomo.RayTransform(sp2, geom, impl='skimage'))
    add('RayBackProjection', {'impl': 'skimage'}, lambda: odl.tomo.RayTransform(sp2, geom, impl='skimage').adjoint)
    # every ufunc operator (vector form on rn(3) and scalar 'functional' form on the field)
    import odl.ufunc_ops as UO
    for name in sorted(getattr(UO, '__all__', [n for n in dir(UO) if not n.startswith('_')])):
        ctor = getattr(UO, name, None)
        if not callable(ctor) or name in ('absolute_import', 'division', 'print_function'):
            continue
        add('ufunc_ops.' + name, {'form': 'op'}, lambda ctor=ctor: ctor(r3))
        add('ufunc_ops.' + name, {'form': 'func'}, lambda ctor=ctor: ctor(odl.RealNumbers()))
    # integer-only ufunc operators and binary ufunc operators on integer spaces
    i3 = odl.tensor_space(3, dtype='int64')
    for name in ('bitwise_and', 'bitwise_or', 'bitwise_xor', 'invert', 'left_shift', 'right_shift'):
        ctor = getattr(UO, name, None)
        if ctor is not None:
            add('ufunc_ops.' + name, {'form': 'op', 'dtype': 'int'}, lambda ctor=ctor: ctor(i3))
    # expression classes built directly
    P2 = odl.PowerOperator(r3, 2)
    add('OperatorLeftVectorMult', {}, lambda: odl.OperatorLeftVectorMult(P2, r3.element([1, -2, 0.5])))
    add('OperatorRightVectorMult', {}, lambda: odl.OperatorRightVectorMult(P2, r3.element([1, -2, 0.5])))
    add('OperatorRightScalarMult', {}, lambda: odl.OperatorRightScalarMult(P2, 2.0))
    add('OperatorLeftScalarMult', {}, lambda: odl.OperatorLeftScalarMult(P2, -2.0))
    add('OperatorSum', {}, lambda: odl.OperatorSum(P2, odl.ScalingOperator(r3, 3.0)))
    add('OperatorComp', {}, lambda: odl.OperatorComp(P2, odl.ScalingOperator(r3, 3.0)))
    add('OperatorVectorSum', {}, lambda: odl.OperatorVectorSum(P2, r3.element([1, 2, 3])))
    add('OperatorPointwiseProduct', {}, lambda: odl.OperatorPointwiseProduct(P2, odl.ScalingOperator(r3, 3.0)))
    add('FunctionalLeftVectorMult', {}, lambda: odl.FunctionalLeftVectorMult(odl.solvers.L2NormSquared(r3), r3.element([1, 2, 3])))
    # expression classes wrapped around operators that are NOT alias-safe in place (finite differences)
    dl = odl.uniform_discr(0, 1, 6)
    for bname, base in (('Laplacian', lambda: odl.Laplacian(dl, pad_mode='symmetric')),
                        ('PartialDerivative', lambda: odl.PartialDerivative(dl, 0, pad_mode='order1'))):
        vec = lambda: dl.element([1, -2, 0.5, 3, 1, 2])
        add('expr(' + bname + ')', {'wrap': 'A*v'}, lambda base=base, vec=vec: base() * vec())
        add('expr(' + bname + ')', {'wrap': 'v*A'}, lambda base=base, vec=vec: vec() * base())
        add('expr(' + bname + ')', {'wrap': 'A*a'}, lambda base=base: odl.OperatorRightScalarMult(base(), 2.0))
        add('expr(' + bname + ')', {'wrap': 'a*A'}, lambda base=base: -3.0 * base())
        add('expr(' + bname + ')', {'wrap': 'A+B'}, lambda base=base: base() + odl.ScalingOperator(dl, 2.0))
        add('expr(' + bname + ')', {'wrap': 'A*B'}, lambda base=base: base() * base())
        add('expr(' + bname + ')', {'wrap': 'A**3'}, lambda base=base: base() ** 3)
        add('expr(' + bname + ')', {'wrap': 'A+v'}, lambda base=base, vec=vec: base() + vec())
        add('expr(' + bname + ')', {'wrap': '(A*v)*B'}, lambda base=base, vec=vec: (base() * vec()) * base())
    # solver building blocks and proximal factories
    S = odl.solvers
    add('proximal_const_func', {}, lambda: S.proximal_const_func(r3)(0.5))
    add('proximal_box_constraint', {}, lambda: S.proximal_box_constraint(r3, 0.0, 1.0)(0.5))
    add('proximal_nonnegativity', {}, lambda: S.proximal_nonnegativity(r3)(0.5))
    other_recipes.n_first = len(R)
    wide_other_recipes(tier, add)
    return R


def wide_other_recipes(tier, add):
    """Operators that live only in the call catalogue (no exact adjoint / no derivative clause): linear combination,
    resampling, deformation, numerical differentiation, ray transform, ufunc operators, non-orthogonal wavelets and the
    proximal factories - every constructor option with >= 2 values, crossed all-pairs with the space axes."""
    from collections import OrderedDict as OD
    from . import catutil as U
    from . import proxcat
    from .linops import _space_axes, _sp, _o
    S = odl.solvers
    vec, posvec = U.vec, U.posvec
    # ---- LinCombOperator: scalars 0 / 1 / negative / general (complex)
    AB = OD([('general', (2.0, -1.0)), ('zero-a', (0, 1.5)), ('zero-b', (-2.0, 0.0)), ('both-zero', (0.0, 0.0)), ('ones', (1, 1)),
             ('one-neg-one', (1.0, -1.0)), ('complex', (1 - 2j, 0.5j))])
    for c in _combos(tier, OD([('scalars', list(AB))]), _space_axes(), lambda c: c['scalars'] != 'complex' or c['field'] == 'complex'):
        lab, sp = _sp(c)
        add('LinCombOperator', _o(c, lab, 'scalars'), lambda sp=sp, ab=AB[c['scalars']]: odl.LinCombOperator(sp, *ab))
    for form in ('power2', 'general', 'nested'):
        add('LinCombOperator', {'space': 'pspace-' + form, 'scalars': 'general'},
            lambda form=form: odl.LinCombOperator(U.mk_pspace(odl.rn(2), form), 2.0, -1.0))
    # ---- Resampling: interpolation scheme (also per axis), direction, shapes, dtypes, nodes on the boundary
    RS = {'1d': (4,), '2d': (2, 3)}
    RT = {('1d', 'finer'): (8,), ('1d', 'coarser'): (2,), ('1d', 'same'): (4,), ('1d', 'non-multiple'): (5,),
          ('2d', 'finer'): (4, 3), ('2d', 'coarser'): (1, 2), ('2d', 'same'): (2, 3), ('2d', 'mixed'): (3, 2)}

    def rs_ok(c):
        if (c['shape'], c['dir']) not in RT:
            return False
        return c['interp'] not in ('per-axis', 'per-axis-rev') or c['shape'] == '2d'
    for c in _combos(tier, OD([('interp', ['nearest', 'linear', 'per-axis', 'per-axis-rev', 'tuple-same']),
                               ('dir', ['finer', 'coarser', 'same', 'non-multiple', 'mixed']), ('range-bdry', ['same', 'other'])]),
                     _space_axes(kinds=('discr',), shapes=('1d', '2d'), weightings=('none', 'const')), rs_ok):
        lab, sp = _sp(c, shapes=RS)

        def mk(sp=sp, c=c):
            tgt = RT[(c['shape'], c['dir'])]
            nob = c['bdry'] != 'False'
            if c['range-bdry'] == 'other':
                nob = not nob
            ran = odl.uniform_discr(sp.min_pt, sp.max_pt, tgt, dtype=sp.dtype, nodes_on_bdry=nob)
            itp = {'nearest': 'nearest', 'linear': 'linear', 'per-axis': ('nearest', 'linear'), 'per-axis-rev': ['linear', 'nearest'],
                   'tuple-same': ('linear',) * sp.ndim}[c['interp']]
            return odl.Resampling(sp, ran, interp=itp)
        add('Resampling', _o(c, lab, 'interp', 'dir', 'range-bdry'), mk)
    # ---- deformation operators
    for c in _combos(tier, OD([('interp', ['default', 'nearest', 'linear', 'per-axis']), ('domain', ['default', 'given'])]),
                     _space_axes(kinds=('discr',), shapes=('1d', '2d'), weightings=('none',), bdrys=('False', 'True')),
                     lambda c: c['interp'] != 'per-axis' or c['shape'] == '2d'):
        lab, sp = _sp(c, shapes=RS)
        itp = {'default': None, 'nearest': 'nearest', 'linear': 'linear', 'per-axis': ('nearest', 'linear')}[c['interp']]
        kw = {} if itp is None else {'interp': itp}

        def mkt(sp=sp, c=c, kw=kw):
            kw = dict(kw)
            if c['domain'] == 'given':
                kw['domain'] = sp.real_space.tangent_bundle
            return odl.deform.LinDeformFixedTempl(vec(sp), **kw)

        def mkd(sp=sp, c=c, kw=kw):
            kw = dict(kw)
            tb = sp.real_space.tangent_bundle
            disp = tb.element([np.resize([0.125, 0.0, -0.125, 0.0625], sp.size).reshape(sp.shape)] * sp.ndim)
            if c['domain'] == 'given' or not sp.is_real:
                kw['templ_space'] = sp
            return odl.deform.LinDeformFixedDisp(disp, **kw)
        add('LinDeformFixedTempl', _o(c, lab, 'interp', 'domain'), mkt)
        add('LinDeformFixedDisp', _o(c, lab, 'interp', 'domain'), mkd)
    # ---- numerical differentiation
    for c in _combos(tier, OD([('method', ['default', 'forward', 'backward', 'central']), ('step', ['default', 'given'])]),
                     _space_axes(fields=('real',), shapes=('1d', '2d'))):
        lab, sp = _sp(c)
        kw = {} if c['method'] == 'default' else {'method': c['method']}
        if c['step'] == 'given':
            kw['step'] = 2.0 ** -8
        add('NumericalDerivative', _o(c, lab, 'method', 'step'),
            lambda sp=sp, kw=kw: S.NumericalDerivative(odl.PowerOperator(sp, 2), posvec(sp), **kw))
        add('NumericalGradient', _o(c, lab, 'method', 'step'), lambda sp=sp, kw=kw: S.NumericalGradient(S.L2NormSquared(sp), **kw))
    # ---- ray transform (skimage back-end): impl spellings, cache, projection space, dtypes, weighting of the volume
    from odl.tomo.backends import SKIMAGE_AVAILABLE
    if SKIMAGE_AVAILABLE:
        from odl.tomo.backends.skimage_radon import SkImageImpl

        def ray(c, adjoint=False):
            dt = {('real', 'double'): 'float64', ('real', 'single'): 'float32', ('complex', 'double'): 'complex128',
                  ('complex', 'single'): 'complex64'}[(c['field'], c['prec'])]
            kw = {} if c['vol-weighting'] == 'default' else {'weighting': 1.0}
            vol = odl.uniform_discr([-1, -1], [1, 1], [4, 4], dtype=dt, **kw)
            geom = odl.tomo.parallel_beam_geometry(odl.uniform_discr([-1, -1], [1, 1], [4, 4]), num_angles={'3': 3, '2': 2}[c['angles']])
            okw = {}
            if c['impl'] == 'str':
                okw['impl'] = 'skimage'
            elif c['impl'] == 'str-upper':
                okw['impl'] = 'SkImage'
            elif c['impl'] == 'class':
                okw['impl'] = SkImageImpl
            elif c['impl'] == 'default':
                pass                    # the only available back-end
            if c['use_cache'] != 'default':
                okw['use_cache'] = c['use_cache'] == 'True'
            op = odl.tomo.RayTransform(vol, geom, **okw)
            if c['proj_space'] == 'given':
                op = odl.tomo.RayTransform(vol, geom, proj_space=op.range, **okw)
            elif c['impl'] == 'instance':
                op = odl.tomo.RayTransform(vol, geom, impl=SkImageImpl(geom, vol, op.range), **{k: v for k, v in okw.items() if k != 'impl'})
            return op.adjoint if adjoint else op
        for c in U.cross(tier, OD([('impl', ['str', 'str-upper', 'class', 'instance', 'default']), ('use_cache', ['default', 'True', 'False']),
                                   ('proj_space', ['default', 'given']), ('field', ['real', 'complex']), ('prec', ['double', 'single']),
                                   ('vol-weighting', ['default', 'none']), ('angles', ['3', '2'])]),
                         lambda c: not (c['impl'] == 'instance' and c['proj_space'] == 'given')):
            o = dict(c)
            o['impl'] = 'skimage' if c['impl'] == 'str' else 'skimage-' + c['impl']
            if c['field'] == 'complex':
                o['dtype'] = 'complex'
            add('RayTransform', o, lambda c=c: ray(c))
            add('RayBackProjection', o, lambda c=c: ray(c, True))
    # ---- ufunc operators on the other space axes (rn(3) and the scalar form are listed above)
    import odl.ufunc_ops as UO
    names = sorted(getattr(UO, '__all__', []))
    unary = [n for n in names if n in ('sin', 'cos', 'exp', 'square', 'sqrt', 'log', 'absolute', 'sign', 'negative', 'conj', 'reciprocal',
                                       'tanh', 'floor', 'isnan', 'modf', 'rint', 'arctan', 'expm1', 'logical_not', 'signbit')]
    binary = [n for n in names if n in ('add', 'subtract', 'multiply', 'divide', 'maximum', 'minimum', 'power', 'arctan2', 'hypot', 'greater',
                                        'equal', 'copysign', 'fmod', 'logaddexp', 'logical_and')]

    def uf_ok(c):
        if c['field'] == 'complex' and c['ufunc'] in ('floor', 'modf', 'rint', 'arctan', 'signbit', 'maximum', 'minimum', 'arctan2', 'hypot',
                                                      'greater', 'copysign', 'fmod', 'logaddexp', 'sign', 'expm1'):
            return False
        return True
    for c in _combos(tier, OD([('ufunc', unary)]), _space_axes(), uf_ok):
        lab, sp = _sp(c)
        add('ufunc_ops.' + c['ufunc'], _o(c, lab, form='op', **_single(c)), lambda sp=sp, n=c['ufunc']: getattr(UO, n)(sp))
    for c in _combos(tier, OD([('ufunc', binary), ('arg', ['space', 'pspace'])]), _space_axes(), uf_ok):
        lab, sp = _sp(c)
        add('ufunc_ops.' + c['ufunc'], _o(c, lab, 'arg', form='op', **_single(c)),
            lambda sp=sp, c=c: getattr(UO, c['ufunc'])(sp if c['arg'] == 'space' else odl.ProductSpace(sp, 2)))
    for n in ('sin', 'square', 'exp', 'absolute', 'conj'):
        add('ufunc_ops.' + n, {'form': 'func', 'field': 'complex'}, lambda n=n: getattr(UO, n)(odl.ComplexNumbers()))
    for dt in ('int32', 'int8', 'uint8', 'bool'):
        sp_ = odl.tensor_space(3, dtype=dt)
        for n in ('bitwise_and', 'invert', 'left_shift', 'add', 'negative', 'absolute', 'logical_not', 'maximum'):
            if hasattr(UO, n) and not (dt == 'bool' and n == 'negative'):      # NumPy rejects -bool
                add('ufunc_ops.' + n, {'form': 'op', 'dtype': dt}, lambda n=n, sp_=sp_: getattr(UO, n)(sp_))
    # ---- wavelet transforms without an adjoint (bi-orthogonal) and on odd sizes: call protocol only
    if odl.trafos.PYWT_AVAILABLE:
        for c in U.cross(tier, OD([('wavelet', ['bior1.3', 'rbio1.3', 'bior2.2']), ('pad_mode', ['constant', 'pywt_periodic', 'symmetric', 'periodic']),
                                   ('nlevels', ['default', '1']), ('axes', ['default', 'last-neg']), ('shape', ['1d', '2d']),
                                   ('field', ['real', 'complex']), ('prec', ['double', 'single'])])):
            def mk(c=c, inverse=False):
                dt = {('real', 'double'): 'float64', ('real', 'single'): 'float32', ('complex', 'double'): 'complex128',
                      ('complex', 'single'): 'complex64'}[(c['field'], c['prec'])]
                sp = odl.uniform_discr(0, 1, 12, dtype=dt) if c['shape'] == '1d' else odl.uniform_discr([0, 0], [1, 2], [2, 6], dtype=dt)
                kw = {'pad_mode': c['pad_mode']}
                if c['nlevels'] != 'default':
                    kw['nlevels'] = 1
                if c['axes'] != 'default':
                    kw['axes'] = (-1,)
                elif c['shape'] == '2d':
                    kw['axes'] = (1,)
                op = odl.trafos.WaveletTransform(sp, c['wavelet'], **kw)
                return op.inverse if inverse else op
            o = dict(c)
            add('WaveletTransform', o, mk)
            add('WaveletTransformInverse', o, lambda mk=mk: mk(inverse=True))
    # ---- proximal factories (the C10 catalogue) under the full call protocol
    for fam, opts, fn in proxcat.recipes(tier):
        o = dict(opts)
        if opts.get('dtype') in ('float32', 'complex64') or opts.get('prec') == 'single':
            o['via'] = 'single-precision-direct'
        add('factory.' + fam, o, fn)


def _derived(group, fam, opts, fn):
    """Derived recipes of a base recipe: .adjoint, .adjoint.adjoint, .inverse, .derivative(x) where the operator offers them."""
    def mk(kind):
        def build():
            res = build0()
            if not isinstance(res, odl.Operator):
                # e.g. ConstantOperator(0).adjoint returns None: reported by C05, nothing to call here
                raise NotImplementedError('%s did not return an operator' % kind)
            return res

        def build0():
            op = fn()
            if kind == 'adjoint':
                if not op.is_linear:
                    raise NotImplementedError('nonlinear')
                return op.adjoint
            if kind == 'adjoint.adjoint':
                if not op.is_linear:
                    raise NotImplementedError('nonlinear')
                return op.adjoint.adjoint
            if kind == 'inverse':
                return op.inverse
            if kind == 'derivative':
                if op.is_linear:
                    raise NotImplementedError('linear')
                rng = np.random.default_rng(3)
                return op.derivative(random_point(op.domain, rng))
            raise ValueError(kind)
        return build
    out = []
    for kind in ('adjoint', 'adjoint.adjoint', 'inverse', 'derivative'):
        if 'derived' in opts and kind != 'adjoint':
            continue
        o = dict(opts)
        o['via'] = kind
        out.append((group, fam, o, mk(kind)))
    return out


def extra_block_recipes():
    R = []
    r2 = odl.rn(2)
    A = odl.MatrixOperator(np.array([[1.0, 2.0], [0.0, -1.0]]))
    B = odl.ScalingOperator(r2, 2.0)
    Cc = odl.MultiplyOperator(r2.element([1.0, -2.0]))
    D = odl.IdentityOperator(r2)
    R.append(('ProductSpaceOperator', {'blocks': 'full-2x2'}, lambda: odl.ProductSpaceOperator([[A, B], [Cc, D]])))
    from odl.util import COOMatrix

    def colmajor():
        ops = np.empty(4, dtype=object)
        ops[:] = [A, Cc, B, D]
        m = COOMatrix(ops, ([0, 1, 0, 1], [0, 0, 1, 1]), (2, 2))
        return odl.ProductSpaceOperator(m, domain=odl.ProductSpace(r2, 2), range=odl.ProductSpace(r2, 2))
    R.append(('ProductSpaceOperator', {'blocks': 'coo-column-major'}, colmajor))
    R.append(('ProductSpaceOperator', {'blocks': 'nonlinear-2x2'},
              lambda: odl.ProductSpaceOperator([[odl.PowerOperator(r2, 2), B], [Cc, odl.PowerOperator(r2, 3)]])))
    c2 = odl.uniform_discr([-1, -1], [1, 1], [4, 4], dtype='complex64')
    g = odl.tomo.parallel_beam_geometry(odl.uniform_discr([-1, -1], [1, 1], [4, 4]), num_angles=3)
    R.append(('RayTransform', {'impl': 'skimage', 'dtype': 'complex'}, lambda: odl.tomo.RayTransform(c2, g, impl='skimage')))
    R.append(('RayBackProjection', {'impl': 'skimage', 'dtype': 'complex'}, lambda: odl.tomo.RayTransform(c2, g, impl='skimage').adjoint))
    return R


def all_recipes(tier):
    """-> [(group, family, options, builder)]: base recipes plus their derived forms (.adjoint, .adjoint.adjoint, .inverse,
    .derivative(x)).  Quick tier: the recipes of the first catalogue version get all four derived forms, the systematic
    (wide) recipes one form each, rotating, so that every class still meets every form several times."""
    base = []
    wide = set()
    lin = L.recipes(tier)
    for i, (fam, opts, fn) in enumerate(lin):
        if i >= getattr(L.recipes, 'n_first', len(lin)):
            wide.add(len(base))
        base.append(('lin', fam, opts, fn))
    nl = NL.recipes(tier)
    for i, (fam, opts, fn) in enumerate(nl):
        if i >= getattr(NL.recipes, 'n_first', len(nl)):
            wide.add(len(base))
        base.append(('nl', fam, opts, lambda fn=fn: fn()[0]))
    for fam, opts, fn in functional_recipes(tier):
        base.append(('fn', fam, opts, fn))
    oth = other_recipes(tier)
    for i, (fam, opts, fn) in enumerate(oth):
        if i >= getattr(other_recipes, 'n_first', len(oth)):
            wide.add(len(base))
        base.append(('misc', fam, opts, fn))
    for fam, opts, fn in extra_block_recipes():
        base.append(('misc', fam, opts, fn))
    out = list(base)
    rot = {}
    for k, (group, fam, opts, fn) in enumerate(base):
        if group == 'fn' or fam.startswith('ufunc_ops.') or fam.startswith('factory.'):
            continue            # functionals carry their own derived forms; ufunc / proximal operators offer none
        der = _derived(group, fam, opts, fn)
        if tier == 'quick' and k in wide and len(der) > 1:
            kinds = ('derivative', 'inverse') if group == 'nl' else ('adjoint', 'inverse', 'adjoint.adjoint')
            r = rot.get(fam, 0)
            rot[fam] = r + 1
            der = [d for d in der if d[2]['via'] == kinds[r % len(kinds)]]
        out.extend(der)
    return out


def all_operator_classes():
    """Names of concrete Operator subclasses defined anywhere under the odl package."""
    names = {}
    for m in pkgutil.walk_packages(odl.__path__, 'odl.'):
        if '.test' in m.name or 'contrib' in m.name or 'largescale' in m.name:
            continue
        try:
            mod = __import__(m.name, fromlist=['x'])
        except Exception:
            continue
        for n, c in vars(mod).items():
            if inspect.isclass(c) and issubclass(c, odl.Operator) and c.__module__ == m.name:
                names[c.__module__ + '.' + n] = c
    return names


def classes_in(op, seen=None):
    """Class names of an operator and of the operators it wraps (one level of common attributes)."""
    seen = seen if seen is not None else set()
    seen.add(type(op))
    for attr in ('left', 'right', 'operator', 'functional'):
        sub = getattr(op, attr, None)
        if isinstance(sub, odl.Operator) and len(seen) < 40:
            classes_in(sub, seen)
    return seen


def random_point(sp, rng, positive=True):
    n = L.dim(sp)
    c = rng.uniform(0.5, 2.0, n) if positive else rng.standard_normal(n)
    if L.is_complex(sp):
        c = c + 1j * rng.uniform(0.25, 1.0, n)
    return L.unflat(sp, c.astype(complex))

"""Catalogue of concrete ODL operator instances for the call-protocol checks (C03, C10):
linear built-ins, nonlinear built-ins, functionals with their gradients / proximals / conjugates,
plus an introspection audit of which Operator subclasses are reached."""
import inspect
import pkgutil

import numpy as np
import odl

from . import linops as L
from . import nlops as NL


def functional_recipes(tier='quick'):
    R = []
    seen = set()

    def add(family, opts, fn):
        key = (family, tuple(sorted((k, str(v)) for k, v in opts.items())))
        if key in seen:                 # (family, options) identifies a recipe
            return
        seen.add(key)
        R.append((family, dict(opts), fn))
    S = odl.solvers
    spaces = [('rn', odl.rn(3)), ('rn-array', odl.rn(3, weighting=[1.0, 2.0, 0.5])), ('discr', odl.uniform_discr(0, 2, 4))]
    for sn, sp in spaces:
        one = sp.one()
        cat = [
            ('L1Norm', lambda sp=sp: S.L1Norm(sp)),
            ('L2Norm', lambda sp=sp: S.L2Norm(sp)),
            ('L2NormSquared', lambda sp=sp: S.L2NormSquared(sp)),
            ('LpNorm-1.5', lambda sp=sp: S.LpNorm(sp, 1.5)),
            ('LpNorm-inf', lambda sp=sp: S.LpNorm(sp, float('inf'))),
            ('Huber', lambda sp=sp: S.Huber(sp, 0.5)),
            ('ZeroFunctional', lambda sp=sp: S.ZeroFunctional(sp)),
            ('ConstantFunctional', lambda sp=sp: S.ConstantFunctional(sp, 2.0)),
            ('IndicatorBox', lambda sp=sp: S.IndicatorBox(sp, 0.25, 1.5)),
            ('IndicatorNonnegativity', lambda sp=sp: S.IndicatorNonnegativity(sp)),
            ('IndicatorLpUnitBall-2', lambda sp=sp: S.IndicatorLpUnitBall(sp, 2)),
            ('IndicatorLpUnitBall-1', lambda sp=sp: S.IndicatorLpUnitBall(sp, 1)),
            ('IndicatorLpUnitBall-inf', lambda sp=sp: S.IndicatorLpUnitBall(sp, float('inf'))),
            ('IndicatorZero', lambda sp=sp: S.IndicatorZero(sp)),
            ('IndicatorSimplex', lambda sp=sp: S.IndicatorSimplex(sp)),
            ('IndicatorSumConstraint', lambda sp=sp: S.IndicatorSumConstraint(sp)),
            ('KullbackLeibler', lambda sp=sp, one=one: S.KullbackLeibler(sp, prior=one * 2)),
            ('KullbackLeibler-noprior', lambda sp=sp: S.KullbackLeibler(sp)),
            ('KullbackLeiblerCrossEntropy', lambda sp=sp, one=one: S.KullbackLeiblerCrossEntropy(sp, prior=one * 2)),
            ('QuadraticForm', lambda sp=sp, one=one: S.QuadraticForm(odl.ScalingOperator(sp, 2.0), one, 1.0)),
            ('ScalingFunctional', lambda sp=sp: S.ScalingFunctional(sp.field, 3.0)),
            ('IdentityFunctional', lambda sp=sp: S.IdentityFunctional(sp.field)),
            ('MoreauEnvelope', lambda sp=sp: S.MoreauEnvelope(S.L1Norm(sp), 0.5)),
            ('translated', lambda sp=sp, one=one: S.L1Norm(sp).translated(one)),
            ('left-scaled', lambda sp=sp: 2.0 * S.L1Norm(sp)),
            ('right-scaled', lambda sp=sp: S.L2NormSquared(sp) * 2.0),
            ('right-vector', lambda sp=sp, one=one: S.L2NormSquared(sp) * (one * 2)),
            ('sum', lambda sp=sp: S.L2NormSquared(sp) + S.L1Norm(sp)),
            ('scalar-sum', lambda sp=sp: S.L1Norm(sp) + 3.0),
            ('quadratic-perturb', lambda sp=sp, one=one: S.FunctionalQuadraticPerturb(S.L1Norm(sp), 0.5, one, 1.0)),
            ('composition', lambda sp=sp: S.L2NormSquared(sp) * odl.ScalingOperator(sp, 2.0)),
            ('product', lambda sp=sp: S.FunctionalProduct(S.L2NormSquared(sp), S.L2Norm(sp))),
            ('quotient', lambda sp=sp: S.FunctionalQuotient(S.L2NormSquared(sp), S.L2Norm(sp) + 1.0)),
            ('infimal-convolution', lambda sp=sp: S.InfimalConvolution(S.L2NormSquared(sp), S.L1Norm(sp))),
            ('bregman', lambda sp=sp, one=one: S.BregmanDistance(S.L2NormSquared(sp), one, 2 * one)),
        ]
        for name, mk in cat:
            add('Functional.' + name, {'space': sn, 'derived': 'self'}, mk)
            add('Functional.' + name, {'space': sn, 'derived': 'gradient'}, lambda mk=mk: mk().gradient)
            add('Functional.' + name, {'space': sn, 'derived': 'proximal'}, lambda mk=mk: mk().proximal(0.5))
            add('Functional.' + name, {'space': sn, 'derived': 'convex_conj'}, lambda mk=mk: mk().convex_conj)
            add('Functional.' + name, {'space': sn, 'derived': 'convex_conj.proximal'},
                lambda mk=mk: mk().convex_conj.proximal(0.5))
            add('Functional.' + name, {'space': sn, 'derived': 'convex_conj.gradient'},
                lambda mk=mk: mk().convex_conj.gradient)
    # vector-field functionals
    vf = odl.ProductSpace(odl.rn(2), 2)
    for name, mk in [('GroupL1Norm', lambda: S.GroupL1Norm(vf)), ('IndicatorGroupL1UnitBall', lambda: S.IndicatorGroupL1UnitBall(vf)),
                     ('SeparableSum', lambda: S.SeparableSum(S.L1Norm(odl.rn(2)), S.L2NormSquared(odl.rn(2)))),
                     ('Huber-vf', lambda: S.Huber(vf, 0.5)),
                     ('NuclearNorm', lambda: S.NuclearNorm(odl.ProductSpace(odl.ProductSpace(odl.rn(2), 2), 2))),
                     ('IndicatorNuclearNormUnitBall', lambda: S.IndicatorNuclearNormUnitBall(odl.ProductSpace(odl.ProductSpace(odl.rn(2), 2), 2)))]:
        add('Functional.' + name, {'derived': 'self'}, mk)
        add('Functional.' + name, {'derived': 'proximal'}, lambda mk=mk: mk().proximal(0.5))
        add('Functional.' + name, {'derived': 'convex_conj'}, lambda mk=mk: mk().convex_conj)
        add('Functional.' + name, {'derived': 'convex_conj.proximal'}, lambda mk=mk: mk().convex_conj.proximal(0.5))
        add('Functional.' + name, {'derived': 'gradient'}, lambda mk=mk: mk().gradient)
    wide_functional_recipes(tier, add)
    return R


DERIVED_ALL = ('self', 'gradient', 'proximal', 'convex_conj', 'convex_conj.proximal', 'convex_conj.gradient')
# functionals on single-precision or complex spaces are listed through their proximals only: C06 consumes the forms
# 'self' / 'gradient' / 'convex_conj(.gradient)' with central differences at h = 2^-6..2^-8, which are below float32
# resolution, and real-valued functionals on complex spaces are differentiable in the C = R^2 sense only
DERIVED_PROX = ('proximal', 'convex_conj.proximal')


def _add_functional(add, name, opts, mk, kinds=DERIVED_ALL, sigma=0.5):
    fam = 'Functional.' + name
    for kind in kinds:
        o = dict(opts, derived=kind)
        if kind == 'self':
            add(fam, o, mk)
        elif kind == 'gradient':
            add(fam, o, lambda mk=mk: mk().gradient)
        elif kind == 'proximal':
            add(fam, o, lambda mk=mk: mk().proximal(sigma))
        elif kind == 'convex_conj':
            add(fam, o, lambda mk=mk: mk().convex_conj)
        elif kind == 'convex_conj.proximal':
            add(fam, o, lambda mk=mk: mk().convex_conj.proximal(sigma))
        elif kind == 'convex_conj.gradient':
            add(fam, o, lambda mk=mk: mk().convex_conj.gradient)


def wide_functional_recipes(tier, add):
    """Every Functional class x constructor options x spaces; derived functionals of derived functionals (depth 2)."""
    from collections import OrderedDict as OD
    from . import catutil as U
    from .linops import _space_axes, _combos, _sp, _o
    S = odl.solvers
    vec, posvec = U.vec, U.posvec
    real_axes = _space_axes(fields=('real',), precs=('double',))
    prox_axes = _space_axes()          # all spaces; single precision / complex ones are used through proximals only

    def kinds_of(c):
        return DERIVED_ALL if (c['field'] == 'real' and c['prec'] == 'double') else DERIVED_PROX

    def one(sp):
        return sp.one()

    # ---- norms and indicator functions of balls
    for c in _combos(tier, OD([('exponent', ['1', '2', 'inf', '1.5', '3'])]), prox_axes):
        lab, sp = _sp(c)
        p = float(c['exponent'])
        _add_functional(add, 'LpNorm', _o(c, lab, 'exponent'), lambda sp=sp, p=p: S.LpNorm(sp, p), kinds_of(c))
        _add_functional(add, 'IndicatorLpUnitBall', _o(c, lab, 'exponent'), lambda sp=sp, p=p: S.IndicatorLpUnitBall(sp, p), kinds_of(c))
    for c in _combos(tier, OD([('cls', ['L1Norm', 'L2Norm', 'L2NormSquared', 'ZeroFunctional', 'IndicatorNonnegativity'])]), prox_axes,
                     lambda c: c['field'] == 'real' or c['cls'] != 'IndicatorNonnegativity'):
        lab, sp = _sp(c)
        _add_functional(add, c['cls'], _o(c, lab), lambda sp=sp, n=c['cls']: getattr(S, n)(sp), kinds_of(c))
    for c in _combos(tier, OD([('constant', ['zero', 'pos', 'neg'])]), prox_axes):
        lab, sp = _sp(c)
        a = {'zero': 0.0, 'pos': 2.0, 'neg': -1.5}[c['constant']]
        _add_functional(add, 'ConstantFunctional', _o(c, lab, 'constant'), lambda sp=sp, a=a: S.ConstantFunctional(sp, a), kinds_of(c))
        _add_functional(add, 'IndicatorZero', _o(c, lab, 'constant'), lambda sp=sp, a=a: S.IndicatorZero(sp, a), kinds_of(c))
    add('Functional.IndicatorZero', {'space': 'rn', 'constant': 'default', 'derived': 'self'}, lambda: S.IndicatorZero(odl.rn(3)))
    # ---- functionals on a field
    for fn_, fld in (('field-real', odl.RealNumbers()), ('field-complex', odl.ComplexNumbers())):
        for sn, a in (('pos', 3.0), ('zero', 0.0), ('neg', -1.5), ('complex-general', 1 - 2j)):
            if sn == 'complex-general' and fn_ == 'field-real':
                continue
            _add_functional(add, 'ScalingFunctional', {'space': fn_, 'scale': sn}, lambda fld=fld, a=a: S.ScalingFunctional(fld, a),
                            ('self', 'gradient', 'convex_conj'))
        _add_functional(add, 'IdentityFunctional', {'space': fn_}, lambda fld=fld: S.IdentityFunctional(fld), ('self', 'gradient', 'convex_conj'))
    # ---- box constraints: bounds none / scalar / element(-like)
    BND = OD([('none', lambda sp: None), ('scalar', lambda sp: 0.75), ('element', lambda sp: 0.75 * sp.one()),
              ('array-like', lambda sp: (0.75 * sp.one()).asarray().tolist())])

    def box_ok(c):
        return c['field'] == 'real' and not (c['lower'] == 'none' and c['upper'] == 'none' and False)
    for c in _combos(tier, OD([('lower', list(BND)), ('upper', list(BND))]), prox_axes, box_ok):
        lab, sp = _sp(c)

        def mk(sp=sp, c=c):
            lo, up = BND[c['lower']](sp), BND[c['upper']](sp)
            if up is not None:
                up = 1.25 if c['upper'] == 'scalar' else (1.25 * sp.one() if c['upper'] == 'element' else (1.25 * sp.one()).asarray().tolist())
            return S.IndicatorBox(sp, lo, up)
        _add_functional(add, 'IndicatorBox', _o(c, lab, 'lower', 'upper'), mk, kinds_of(c))
    # ---- Kullback-Leibler family: prior none / element, also starting from the conjugate classes
    from odl.solvers.functional.default_functionals import KullbackLeiblerConvexConj, KullbackLeiblerCrossEntropyConvexConj
    KLS = OD([('KullbackLeibler', S.KullbackLeibler), ('KullbackLeiblerCrossEntropy', S.KullbackLeiblerCrossEntropy),
              ('KullbackLeiblerConvexConj', KullbackLeiblerConvexConj),
              ('KullbackLeiblerCrossEntropyConvexConj', KullbackLeiblerCrossEntropyConvexConj)])
    for c in _combos(tier, OD([('cls', list(KLS)), ('prior', ['none', 'default', 'element'])]),
                     _space_axes(fields=('real',)), None):
        lab, sp = _sp(c)

        def mk(sp=sp, c=c):
            if c['prior'] == 'default':
                return KLS[c['cls']](sp)
            return KLS[c['cls']](sp, prior=None if c['prior'] == 'none' else posvec(sp))
        _add_functional(add, c['cls'], _o(c, lab, 'prior'), mk, kinds_of(c))
    # ---- Huber: gamma small / large / zero ; tensor spaces and vector fields
    for c in _combos(tier, OD([('gamma', ['0.5', '2.0', 'zero'])]), prox_axes, lambda c: c['field'] == 'real'):
        lab, sp = _sp(c)
        g = {'0.5': 0.5, '2.0': 2.0, 'zero': 0}[c['gamma']]
        _add_functional(add, 'Huber', _o(c, lab, 'gamma'), lambda sp=sp, g=g: S.Huber(sp, g), kinds_of(c))
    # ---- simplex / sum constraint
    for c in _combos(tier, OD([('size', ['default', '2.5']), ('sum_rtol', ['default', 'given'])]), prox_axes, lambda c: c['field'] == 'real'):
        lab, sp = _sp(c)
        kw = {} if c['sum_rtol'] == 'default' else {'sum_rtol': 1e-6}

        def mks(sp=sp, c=c, kw=kw):
            return S.IndicatorSimplex(sp, **dict(kw, **({} if c['size'] == 'default' else {'diameter': 2.5})))

        def mkc(sp=sp, c=c, kw=kw):
            return S.IndicatorSumConstraint(sp, **dict(kw, **({} if c['size'] == 'default' else {'sum_value': 2.5})))
        _add_functional(add, 'IndicatorSimplex', _o(c, lab, 'size', 'sum_rtol'), mks, kinds_of(c))
        _add_functional(add, 'IndicatorSumConstraint', _o(c, lab, 'size', 'sum_rtol'), mkc, kinds_of(c))
    # ---- quadratic forms: operator none / symmetric / non-symmetric ; vector none / given ; constant zero / non-zero
    def qf_ok(c):
        if c['operator'] == 'none' and c['vector'] == 'none':
            return False
        if c['operator'] == 'matrix' and (c['kind'] != 'rn' or c['shape'] != '1d' or c['weighting'] != 'none'):
            return False
        return True
    for c in _combos(tier, OD([('operator', ['none', 'scaling', 'multiply', 'matrix']), ('vector', ['none', 'given']),
                               ('constant', ['zero', 'nonzero'])]), real_axes, qf_ok):
        lab, sp = _sp(c)

        def mk(sp=sp, c=c):
            A = {'none': None, 'scaling': lambda: odl.ScalingOperator(sp, 2.0), 'multiply': lambda: odl.MultiplyOperator(posvec(sp)),
                 'matrix': lambda: odl.MatrixOperator(np.array([[2.0, 1.0, 0.0], [0.0, 1.0, -1.0], [0.5, 0.0, 1.0]]))}[c['operator']]
            return S.QuadraticForm(None if A is None else A(), vec(sp) if c['vector'] == 'given' else None,
                                   1.5 if c['constant'] == 'nonzero' else 0)
        _add_functional(add, 'QuadraticForm', _o(c, lab, 'operator', 'vector', 'constant'), mk)
    # ---- Moreau envelope
    for c in _combos(tier, OD([('functional', ['L1Norm', 'L2NormSquared', 'IndicatorBox', 'L2Norm']), ('sigma', ['default', '0.5', '2.0'])]),
                     real_axes):
        lab, sp = _sp(c)

        def mk(sp=sp, c=c):
            f = {'L1Norm': lambda: S.L1Norm(sp), 'L2NormSquared': lambda: S.L2NormSquared(sp), 'L2Norm': lambda: S.L2Norm(sp),
                 'IndicatorBox': lambda: S.IndicatorBox(sp, 0.75, 1.25)}[c['functional']]()
            return S.MoreauEnvelope(f) if c['sigma'] == 'default' else S.MoreauEnvelope(f, sigma=float(c['sigma']))
        _add_functional(add, 'MoreauEnvelope', _o(c, lab, 'functional', 'sigma'), mk, ('self', 'gradient', 'convex_conj'))
    # ---- Rosenbrock
    for n in (2, 3, 4):
        for sc in ('default', '2.0'):
            _add_functional(add, 'RosenbrockFunctional', {'space': 'rn', 'size': str(n), 'scale': sc},
                            lambda n=n, sc=sc: S.RosenbrockFunctional(odl.rn(n)) if sc == 'default' else S.RosenbrockFunctional(odl.rn(n), scale=2.0),
                            ('self', 'gradient'))
    _add_functional(add, 'RosenbrockFunctional', {'space': 'rn-const', 'size': '3', 'scale': '2.0'},
                    lambda: S.RosenbrockFunctional(odl.rn(3, weighting=2.0), scale=2.0), ('self', 'gradient'))
    # ---- vector-field functionals
    VB = OD([('rn', lambda f='real', p='double': U.mk_space('rn', f, p)[1]), ('discr2d', lambda f='real', p='double': U.mk_space('discr', f, p, shape='2d')[1]),
             ('rn-array', lambda f='real', p='double': U.mk_space('rn', f, p, weighting='array')[1])])
    for c in U.cross(tier, OD([('exponent', ['default', '1', '2', 'inf', '1.5']), ('length', ['1', '2', '3']), ('base', list(VB)),
                               ('pspace-weighting', ['none', 'const', 'array']), ('field', ['real', 'complex']), ('prec', ['double', 'single'])])):
        def vf(c=c):
            return U.mk_pspace(VB[c['base']](c['field'], c['prec']), 'power' + c['length'], c['pspace-weighting'])
        kw = {} if c['exponent'] == 'default' else {'exponent': float(c['exponent'])}
        o = {k: c[k] for k in ('exponent', 'length', 'base', 'pspace-weighting')}
        if c['field'] == 'complex':
            o['dtype'] = 'complex'
        if c['prec'] == 'single':
            o['prec'] = 'single'
        kinds = DERIVED_ALL if (c['field'] == 'real' and c['prec'] == 'double') else DERIVED_PROX
        _add_functional(add, 'GroupL1Norm', o, lambda vf=vf, kw=kw: S.GroupL1Norm(vf(), **kw), kinds)
        _add_functional(add, 'IndicatorGroupL1UnitBall', o, lambda vf=vf, kw=kw: S.IndicatorGroupL1UnitBall(vf(), **kw), kinds)
    for c in U.cross(tier, OD([('gamma', ['0.5', '2.0', 'zero']), ('length', ['1', '2', '3']), ('base', list(VB)),
                               ('pspace-weighting', ['none', 'const', 'array'])])):
        def vf(c=c):
            return U.mk_pspace(VB[c['base']](), 'power' + c['length'], c['pspace-weighting'])
        g = {'0.5': 0.5, '2.0': 2.0, 'zero': 0}[c['gamma']]
        _add_functional(add, 'Huber-vf', dict(c), lambda vf=vf, g=g: S.Huber(vf(), g))
    for c in U.cross(tier, OD([('outer_exp', ['default', '1', '2', 'inf']), ('singular_vector_exp', ['default', '1', '2', 'inf']),
                               ('shape', ['2x2', '2x3', '3x2', '1x2']), ('base', ['rn', 'discr2d'])])):
        def sp(c=c):
            n, m = [int(t) for t in c['shape'].split('x')]
            return odl.ProductSpace(odl.ProductSpace(VB[c['base']](), m), n)
        kw = {}
        if c['outer_exp'] != 'default':
            kw['outer_exp'] = float(c['outer_exp'])
        if c['singular_vector_exp'] != 'default':
            kw['singular_vector_exp'] = float(c['singular_vector_exp'])
        _add_functional(add, 'NuclearNorm', dict(c), lambda sp=sp, kw=kw: S.NuclearNorm(sp(), **kw), ('self', 'proximal', 'convex_conj', 'convex_conj.proximal'))
        _add_functional(add, 'IndicatorNuclearNormUnitBall', dict(c), lambda sp=sp, kw=kw: S.IndicatorNuclearNormUnitBall(sp(), **kw),
                        ('self', 'proximal', 'convex_conj', 'convex_conj.proximal'))
    # ---- separable sums: argument forms
    def seps(form, w):
        X = odl.rn(2) if w == 'none' else odl.rn(2, weighting=[1.0, 4.0])
        Y = odl.uniform_discr(0, 1, 3)
        f, g, h = S.L1Norm(X), S.L2NormSquared(X), S.KullbackLeibler(X, prior=posvec(X))
        return {'two': lambda: S.SeparableSum(f, g), 'one': lambda: S.SeparableSum(h), 'three': lambda: S.SeparableSum(f, g, h),
                'int-form': lambda: S.SeparableSum(f, 3), 'int-one': lambda: S.SeparableSum(g, 1),
                'different-spaces': lambda: S.SeparableSum(f, S.L2Norm(Y)),
                'nested': lambda: S.SeparableSum(S.SeparableSum(f, g), S.SeparableSum(g, 2)),
                'with-indicator': lambda: S.SeparableSum(S.IndicatorBox(X, 0.75, 1.25), f)}[form]()
    for form in ('two', 'one', 'three', 'int-form', 'int-one', 'different-spaces', 'nested', 'with-indicator'):
        for w in ('none', 'array'):
            _add_functional(add, 'SeparableSum', {'parts': form, 'comp-weighting': w}, lambda form=form, w=w: seps(form, w))

    # ---- derived functionals (depth 1) and derived functionals of derived functionals (depth 2)
    INNER = OD([('L1Norm', lambda sp: S.L1Norm(sp)), ('L2NormSquared', lambda sp: S.L2NormSquared(sp)), ('L2Norm', lambda sp: S.L2Norm(sp)),
                ('KullbackLeibler', lambda sp: S.KullbackLeibler(sp, prior=posvec(sp))), ('Huber', lambda sp: S.Huber(sp, 0.5))])

    def shift(sp):
        return sp.one()

    def M32(sp):
        return odl.MatrixOperator(np.array([[1.0, 2.0, 0.0], [-1.0, 0.5, 3.0], [0.0, 1.0, 1.0]]), domain=sp, range=sp)
    D1 = OD([
        ('left-scaled', lambda f, sp: 2.0 * f),
        ('left-scaled-neg', lambda f, sp: S.FunctionalLeftScalarMult(f, -1.5)),
        ('left-scaled-zero', lambda f, sp: S.FunctionalLeftScalarMult(f, 0.0)),
        ('left-scaled-one', lambda f, sp: S.FunctionalLeftScalarMult(f, 1)),
        ('right-scaled', lambda f, sp: f * 2.0),
        ('right-scaled-neg', lambda f, sp: S.FunctionalRightScalarMult(f, -0.5)),
        ('right-scaled-zero', lambda f, sp: f * 0.0),
        ('right-vector', lambda f, sp: f * posvec(sp)),
        ('right-vector-mixed-sign', lambda f, sp: S.FunctionalRightVectorMult(f, vec(sp))),
        ('sum', lambda f, sp: f + S.L2NormSquared(sp)),
        ('scalar-sum', lambda f, sp: f + 3.0),
        ('scalar-sum-neg', lambda f, sp: S.FunctionalScalarSum(f, -1.5)),
        ('difference', lambda f, sp: f - S.L2NormSquared(sp)),
        ('translated', lambda f, sp: f.translated(shift(sp))),
        ('translated-array-like', lambda f, sp: S.FunctionalTranslation(f, shift(sp).asarray().tolist())),
        ('quadratic-perturb', lambda f, sp: S.FunctionalQuadraticPerturb(f, 0.5, posvec(sp), 1.0)),
        ('quadratic-perturb-coeff-only', lambda f, sp: S.FunctionalQuadraticPerturb(f, quadratic_coeff=0.5)),
        ('quadratic-perturb-linear-only', lambda f, sp: S.FunctionalQuadraticPerturb(f, linear_term=posvec(sp))),
        ('quadratic-perturb-constant-only', lambda f, sp: S.FunctionalQuadraticPerturb(f, constant=-1.5)),
        ('quadratic-perturb-linear-constant', lambda f, sp: S.FunctionalQuadraticPerturb(f, linear_term=posvec(sp), constant=2.0)),
        ('composition', lambda f, sp: f * odl.ScalingOperator(sp, 2.0)),
        ('composition-multiply', lambda f, sp: S.FunctionalComp(f, odl.MultiplyOperator(posvec(sp)))),
        ('composition-nonlinear', lambda f, sp: S.FunctionalComp(f, odl.PowerOperator(sp, 2))),
        ('product', lambda f, sp: S.FunctionalProduct(f, S.L2Norm(sp))),
        ('quotient', lambda f, sp: S.FunctionalQuotient(f, S.L2Norm(sp) + 1.0)),
        ('quotient-reversed', lambda f, sp: S.FunctionalQuotient(S.L2NormSquared(sp) + 1.0, f + 1.0)),
        ('infimal-convolution', lambda f, sp: S.InfimalConvolution(f, S.L2NormSquared(sp))),
        ('bregman', lambda f, sp: S.BregmanDistance(f, posvec(sp), f.gradient(posvec(sp)))),
        ('bregman-method', lambda f, sp: f.bregman(posvec(sp), f.gradient(posvec(sp)))),
        ('default-convex-conj', lambda f, sp: (f + S.L2NormSquared(sp)).convex_conj),
        ('convex-conj-of-convex-conj', lambda f, sp: f.convex_conj.convex_conj),
    ])
    for c in _combos(tier, OD([('kind', ['rn']), ('d1', list(D1)), ('inner', list(INNER))]), real_axes):
        lab, sp = _sp(c)
        _add_functional(add, c['d1'], _o(c, lab, 'inner'), lambda sp=sp, c=c: D1[c['d1']](INNER[c['inner']](sp), sp))
    # proximal-only forms on single precision / complex spaces
    for c in _combos(tier, OD([('d1', ['left-scaled', 'right-scaled', 'right-vector', 'scalar-sum', 'translated', 'quadratic-perturb',
                                       'quadratic-perturb-linear-only', 'bregman']),
                               ('inner', ['L1Norm', 'L2NormSquared', 'L2Norm'])]), prox_axes,
                     lambda c: not (c['field'] == 'real' and c['prec'] == 'double')):
        lab, sp = _sp(c)
        _add_functional(add, c['d1'], _o(c, lab, 'inner'), lambda sp=sp, c=c: D1[c['d1']](INNER[c['inner']](sp), sp), DERIVED_PROX)
    D2 = ['left-scaled', 'right-scaled', 'right-vector', 'sum', 'scalar-sum', 'translated', 'quadratic-perturb', 'quadratic-perturb-linear-only',
          'composition', 'composition-multiply', 'product', 'quotient', 'bregman', 'right-scaled-neg', 'left-scaled-zero']
    for c in _combos(tier, OD([('outer', D2), ('d1', D2), ('inner', list(INNER))]),
                     _space_axes(fields=('real',), precs=('double',), shapes=('1d', '2d'), bdrys=('False', 'asym'))):
        lab, sp = _sp(c)
        o = _o(c, lab, 'inner')
        o['chain'] = c['outer'] + '(' + c['d1'] + ')'
        _add_functional(add, 'depth2', o, lambda sp=sp, c=c: D1[c['outer']](D1[c['d1']](INNER[c['inner']](sp), sp), sp))
    # simple_functional
    r3 = odl.rn(3)
    _add_functional(add, 'simple_functional', {'given': 'all'}, lambda: S.functional.simple_functional(
        r3, fcall=lambda x: x.inner(x), grad=lambda x: 2 * x, prox=S.proximal_l2_squared(r3), grad_lip=2,
        convex_conj_fcall=lambda x: x.inner(x) / 4, convex_conj_grad=lambda x: x / 2, convex_conj_prox=S.proximal_l2_squared(r3, lam=0.25)))
    _add_functional(add, 'simple_functional', {'given': 'grad-operator'}, lambda: S.functional.simple_functional(
        r3, fcall=lambda x: x.inner(x), grad=odl.ScalingOperator(r3, 2.0)), ('self', 'gradient'))


def other_recipes():
    R = []

    def add(family, opts, fn):
        R.append((family, opts, fn))
    r3 = odl.rn(3)
    d1 = odl.uniform_discr(0, 1, 4)
    d2 = odl.uniform_discr([0, 0], [1, 1], [3, 4])
    add('LinCombOperator', {}, lambda: odl.LinCombOperator(r3, 2.0, -1.0))
    add('ConstantOperator', {}, lambda: odl.ConstantOperator(r3.element([1, 2, 3])))
    add('ConstantOperator', {'domain': 'other'}, lambda: odl.ConstantOperator(r3.element([1, 2, 3]), domain=odl.rn(2)))
    add('ZeroOperator', {'range': 'other'}, lambda: odl.ZeroOperator(r3, range=odl.rn(2)))
    add('NormOperator', {}, lambda: odl.NormOperator(r3))
    add('DistOperator', {}, lambda: odl.DistOperator(r3.element([1, 2, 3])))
    add('Resampling', {'dir': 'coarser'}, lambda: odl.Resampling(d1, odl.uniform_discr(0, 1, 2), interp='linear'))
    add('Resampling', {'dir': 'finer'}, lambda: odl.Resampling(d1, odl.uniform_discr(0, 1, 8), interp='nearest'))
    add('ResizingOperator', {'dim': '2'}, lambda: odl.ResizingOperator(d2, ran_shp=(5, 2), pad_mode='symmetric'))
    add('LinDeformFixedTempl', {}, lambda: odl.deform.LinDeformFixedTempl(d1.element([1, 2, 3, 4])))
    add('LinDeformFixedDisp', {}, lambda: odl.deform.LinDeformFixedDisp(d1.tangent_bundle.element([[0.1, 0.0, -0.1, 0.05]])))
    add('NumericalDerivative', {}, lambda: odl.solvers.NumericalDerivative(odl.PowerOperator(r3, 2), r3.element([1, 2, 3])))
    add('NumericalGradient', {}, lambda: odl.solvers.NumericalGradient(odl.solvers.L2NormSquared(r3)))
    add('PointwiseTensorFieldOperator.PointwiseNorm', {}, lambda: odl.PointwiseNorm(odl.ProductSpace(d1, 2)))
    add('PointwiseInnerAdjoint', {}, lambda: odl.PointwiseInner(odl.ProductSpace(d1, 2), odl.ProductSpace(d1, 2).one()).adjoint)
    add('ComplexModulus', {}, lambda: odl.ComplexModulus(odl.cn(2)))
    add('ComplexModulusSquared', {}, lambda: odl.ComplexModulusSquared(odl.cn(2)))
    for n, hc, impl in [(4, False, 'numpy'), (5, True, 'numpy'), (4, False, 'pyfftw'), (5, True, 'pyfftw'), (4, True, 'pyfftw')]:
        dt = 'float64' if hc else 'complex128'
        add('DiscreteFourierTransform', {'impl': impl, 'halfcomplex': str(hc), 'ndim': '1'},
            lambda n=n, hc=hc, impl=impl, dt=dt: odl.trafos.DiscreteFourierTransform(odl.uniform_discr(0, n, n, dtype=dt), halfcomplex=hc, impl=impl))
        add('DiscreteFourierTransformInverse', {'impl': impl, 'halfcomplex': str(hc), 'ndim': '1'},
            lambda n=n, hc=hc, impl=impl, dt=dt: odl.trafos.DiscreteFourierTransform(
                odl.uniform_discr(0, n, n, dtype=dt), halfcomplex=hc, impl=impl).inverse)
        add('FourierTransform', {'impl': impl, 'halfcomplex': str(hc), 'ndim': '1'},
            lambda n=n, hc=hc, impl=impl, dt=dt: odl.trafos.FourierTransform(odl.uniform_discr(-1, 1, n, dtype=dt), halfcomplex=hc, impl=impl))
        add('FourierTransformInverse', {'impl': impl, 'halfcomplex': str(hc), 'ndim': '1'},
            lambda n=n, hc=hc, impl=impl, dt=dt: odl.trafos.FourierTransform(odl.uniform_discr(-1, 1, n, dtype=dt), halfcomplex=hc, impl=impl).inverse)
    for impl in ('numpy', 'pyfftw'):
        add('DiscreteFourierTransform', {'impl': impl, 'halfcomplex': 'True', 'ndim': '2'},
            lambda impl=impl: odl.trafos.DiscreteFourierTransform(odl.uniform_discr([0, 0], [1, 1], [3, 4], dtype='float64'), halfcomplex=True, impl=impl))
        add('DiscreteFourierTransformInverse', {'impl': impl, 'halfcomplex': 'True', 'ndim': '2'},
            lambda impl=impl: odl.trafos.DiscreteFourierTransform(odl.uniform_discr([0, 0], [1, 1], [3, 4], dtype='float64'), halfcomplex=True, impl=impl).inverse)
    add('WaveletTransform', {'wavelet': 'db2', 'pad_mode': 'symmetric'},
        lambda: odl.trafos.WaveletTransform(odl.uniform_discr(0, 1, 8), 'db2', nlevels=1, pad_mode='symmetric'))
    add('WaveletTransformInverse', {'wavelet': 'db2', 'pad_mode': 'symmetric'},
        lambda: odl.trafos.WaveletTransform(odl.uniform_discr(0, 1, 8), 'db2', nlevels=1, pad_mode='symmetric').inverse)
    sp2 = odl.uniform_discr([-1, -1], [1, 1], [4, 4])
    geom = odl.tomo.parallel_beam_geometry(sp2, num_angles=3)
    add('RayTransform', {'impl': 'skimage'}, lambda: odl.tomo.RayTransform(sp2, geom, impl='skimage'))
    add('RayBackProjection', {'impl': 'skimage'}, lambda: odl.tomo.RayTransform(sp2, geom, impl='skimage').adjoint)
    # every ufunc operator (vector form on rn(3) and scalar 'functional' form on the field)
    import odl.ufunc_ops as UO
    for name in sorted(getattr(UO, '__all__', [n for n in dir(UO) if not n.startswith('_')])):
        ctor = getattr(UO, name, None)
        if not callable(ctor) or name in ('absolute_import', 'division', 'print_function'):
            continue
        add('ufunc_ops.' + name, {'form': 'op'}, lambda ctor=ctor: ctor(r3))
        add('ufunc_ops.' + name, {'form': 'func'}, lambda ctor=ctor: ctor(odl.RealNumbers()))
    # integer-only ufunc operators and binary ufunc operators on integer spaces
    i3 = odl.tensor_space(3, dtype='int64')
    for name in ('bitwise_and', 'bitwise_or', 'bitwise_xor', 'invert', 'left_shift', 'right_shift'):
        ctor = getattr(UO, name, None)
        if ctor is not None:
            add('ufunc_ops.' + name, {'form': 'op', 'dtype': 'int'}, lambda ctor=ctor: ctor(i3))
    # expression classes built directly
    P2 = odl.PowerOperator(r3, 2)
    add('OperatorLeftVectorMult', {}, lambda: odl.OperatorLeftVectorMult(P2, r3.element([1, -2, 0.5])))
    add('OperatorRightVectorMult', {}, lambda: odl.OperatorRightVectorMult(P2, r3.element([1, -2, 0.5])))
    add('OperatorRightScalarMult', {}, lambda: odl.OperatorRightScalarMult(P2, 2.0))
    add('OperatorLeftScalarMult', {}, lambda: odl.OperatorLeftScalarMult(P2, -2.0))
    add('OperatorSum', {}, lambda: odl.OperatorSum(P2, odl.ScalingOperator(r3, 3.0)))
    add('OperatorComp', {}, lambda: odl.OperatorComp(P2, odl.ScalingOperator(r3, 3.0)))
    add('OperatorVectorSum', {}, lambda: odl.OperatorVectorSum(P2, r3.element([1, 2, 3])))
    add('OperatorPointwiseProduct', {}, lambda: odl.OperatorPointwiseProduct(P2, odl.ScalingOperator(r3, 3.0)))
    add('FunctionalLeftVectorMult', {}, lambda: odl.FunctionalLeftVectorMult(odl.solvers.L2NormSquared(r3), r3.element([1, 2, 3])))
    # expression classes wrapped around operators that are NOT alias-safe in place (finite differences)
    dl = odl.uniform_discr(0, 1, 6)
    for bname, base in (('Laplacian', lambda: odl.Laplacian(dl, pad_mode='symmetric')),
                        ('PartialDerivative', lambda: odl.PartialDerivative(dl, 0, pad_mode='order1'))):
        vec = lambda: dl.element([1, -2, 0.5, 3, 1, 2])
        add('expr(' + bname + ')', {'wrap': 'A*v'}, lambda base=base, vec=vec: base() * vec())
        add('expr(' + bname + ')', {'wrap': 'v*A'}, lambda base=base, vec=vec: vec() * base())
        add('expr(' + bname + ')', {'wrap': 'A*a'}, lambda base=base: odl.OperatorRightScalarMult(base(), 2.0))
        add('expr(' + bname + ')', {'wrap': 'a*A'}, lambda base=base: -3.0 * base())
        add('expr(' + bname + ')', {'wrap': 'A+B'}, lambda base=base: base() + odl.ScalingOperator(dl, 2.0))
        add('expr(' + bname + ')', {'wrap': 'A*B'}, lambda base=base: base() * base())
        add('expr(' + bname + ')', {'wrap': 'A**3'}, lambda base=base: base() ** 3)
        add('expr(' + bname + ')', {'wrap': 'A+v'}, lambda base=base, vec=vec: base() + vec())
        add('expr(' + bname + ')', {'wrap': '(A*v)*B'}, lambda base=base, vec=vec: (base() * vec()) * base())
    # solver building blocks and proximal factories
    S = odl.solvers
    add('proximal_const_func', {}, lambda: S.proximal_const_func(r3)(0.5))
    add('proximal_box_constraint', {}, lambda: S.proximal_box_constraint(r3, 0.0, 1.0)(0.5))
    add('proximal_nonnegativity', {}, lambda: S.proximal_nonnegativity(r3)(0.5))
    return R


def _derived(group, fam, opts, fn):
    """Derived recipes of a base recipe: .adjoint, .adjoint.adjoint, .inverse, .derivative(x) where the operator offers them."""
    def mk(kind):
        def build():
            op = fn()
            if kind == 'adjoint':
                if not op.is_linear:
                    raise NotImplementedError('nonlinear')
                return op.adjoint
            if kind == 'adjoint.adjoint':
                if not op.is_linear:
                    raise NotImplementedError('nonlinear')
                return op.adjoint.adjoint
            if kind == 'inverse':
                return op.inverse
            if kind == 'derivative':
                if op.is_linear:
                    raise NotImplementedError('linear')
                rng = np.random.default_rng(3)
                return op.derivative(random_point(op.domain, rng))
            raise ValueError(kind)
        return build
    out = []
    for kind in ('adjoint', 'adjoint.adjoint', 'inverse', 'derivative'):
        if 'derived' in opts and kind != 'adjoint':
            continue
        o = dict(opts)
        o['via'] = kind
        out.append((group, fam, o, mk(kind)))
    return out


def extra_block_recipes():
    R = []
    r2 = odl.rn(2)
    A = odl.MatrixOperator(np.array([[1.0, 2.0], [0.0, -1.0]]))
    B = odl.ScalingOperator(r2, 2.0)
    Cc = odl.MultiplyOperator(r2.element([1.0, -2.0]))
    D = odl.IdentityOperator(r2)
    R.append(('ProductSpaceOperator', {'blocks': 'full-2x2'}, lambda: odl.ProductSpaceOperator([[A, B], [Cc, D]])))
    import scipy.sparse

    def colmajor():
        ops = np.empty(4, dtype=object)
        ops[:] = [A, Cc, B, D]
        m = scipy.sparse.coo_matrix((ops, ([0, 1, 0, 1], [0, 0, 1, 1])), shape=(2, 2))
        return odl.ProductSpaceOperator(m, domain=odl.ProductSpace(r2, 2), range=odl.ProductSpace(r2, 2))
    R.append(('ProductSpaceOperator', {'blocks': 'coo-column-major'}, colmajor))
    R.append(('ProductSpaceOperator', {'blocks': 'nonlinear-2x2'},
              lambda: odl.ProductSpaceOperator([[odl.PowerOperator(r2, 2), B], [Cc, odl.PowerOperator(r2, 3)]])))
    c2 = odl.uniform_discr([-1, -1], [1, 1], [4, 4], dtype='complex64')
    g = odl.tomo.parallel_beam_geometry(odl.uniform_discr([-1, -1], [1, 1], [4, 4]), num_angles=3)
    R.append(('RayTransform', {'impl': 'skimage', 'dtype': 'complex'}, lambda: odl.tomo.RayTransform(c2, g, impl='skimage')))
    R.append(('RayBackProjection', {'impl': 'skimage', 'dtype': 'complex'}, lambda: odl.tomo.RayTransform(c2, g, impl='skimage').adjoint))
    return R


def all_recipes(tier):
    base = []
    for fam, opts, fn in L.recipes(tier):
        base.append(('lin', fam, opts, fn))
    for fam, opts, fn in NL.recipes(tier):
        base.append(('nl', fam, opts, lambda fn=fn: fn()[0]))
    for fam, opts, fn in functional_recipes(tier):
        base.append(('fn', fam, opts, fn))
    for fam, opts, fn in other_recipes():
        base.append(('misc', fam, opts, fn))
    for fam, opts, fn in extra_block_recipes():
        base.append(('misc', fam, opts, fn))
    out = list(base)
    for group, fam, opts, fn in base:
        if group == 'fn' or fam.startswith('ufunc_ops.'):
            continue
        out.extend(_derived(group, fam, opts, fn))
    return out


def all_operator_classes():
    """Names of concrete Operator subclasses defined anywhere under the odl package."""
    names = {}
    for m in pkgutil.walk_packages(odl.__path__, 'odl.'):
        if '.test' in m.name or 'contrib' in m.name or 'largescale' in m.name:
            continue
        try:
            mod = __import__(m.name, fromlist=['x'])
        except Exception:
            continue
        for n, c in vars(mod).items():
            if inspect.isclass(c) and issubclass(c, odl.Operator) and c.__module__ == m.name:
                names[c.__module__ + '.' + n] = c
    return names


def classes_in(op, seen=None):
    """Class names of an operator and of the operators it wraps (one level of common attributes)."""
    seen = seen if seen is not None else set()
    seen.add(type(op))
    for attr in ('left', 'right', 'operator', 'functional'):
        sub = getattr(op, attr, None)
        if isinstance(sub, odl.Operator) and len(seen) < 40:
            classes_in(sub, seen)
    return seen


def random_point(sp, rng, positive=True):
    n = L.dim(sp)
    c = rng.uniform(0.5, 2.0, n) if positive else rng.standard_normal(n)
    if L.is_complex(sp):
        c = c + 1j * rng.uniform(0.25, 1.0, n)
    return L.unflat(sp, c.astype(complex))

"""Catalogue of concrete ODL operator instances for the call-protocol checks (C03, C10):
linear built-ins, nonlinear built-ins, functionals with their gradients / proximals / conjugates,
plus an introspection audit of which Operator subclasses are reached."""
import inspect
import pkgutil

import numpy as np
import odl

from . import linops as L
from . import nlops as NL


def functional_recipes():
    R = []

    def add(family, opts, fn):
        R.append((family, opts, fn))
    S = odl.solvers
    spaces = [('rn', odl.rn(3)), ('rn-array', odl.rn(3, weighting=[1.0, 2.0, 0.5])), ('discr', odl.uniform_discr(0, 2, 4))]
    for sn, sp in spaces:
        one = sp.one()
        cat = [
            ('L1Norm', lambda sp=sp: S.L1Norm(sp)),
            ('L2Norm', lambda sp=sp: S.L2Norm(sp)),
            ('L2NormSquared', lambda sp=sp: S.L2NormSquared(sp)),
            ('LpNorm-1.5', lambda sp=sp: S.LpNorm(sp, 1.5)),
            ('LpNorm-inf', lambda sp=sp: S.LpNorm(sp, float('inf'))),
            ('Huber', lambda sp=sp: S.Huber(sp, 0.5)),
            ('ZeroFunctional', lambda sp=sp: S.ZeroFunctional(sp)),
            ('ConstantFunctional', lambda sp=sp: S.ConstantFunctional(sp, 2.0)),
            ('IndicatorBox', lambda sp=sp: S.IndicatorBox(sp, 0.25, 1.5)),
            ('IndicatorNonnegativity', lambda sp=sp: S.IndicatorNonnegativity(sp)),
            ('IndicatorLpUnitBall-2', lambda sp=sp: S.IndicatorLpUnitBall(sp, 2)),
            ('IndicatorLpUnitBall-1', lambda sp=sp: S.IndicatorLpUnitBall(sp, 1)),
            ('IndicatorLpUnitBall-inf', lambda sp=sp: S.IndicatorLpUnitBall(sp, float('inf'))),
            ('IndicatorZero', lambda sp=sp: S.IndicatorZero(sp)),
            ('IndicatorSimplex', lambda sp=sp: S.IndicatorSimplex(sp)),
            ('IndicatorSumConstraint', lambda sp=sp: S.IndicatorSumConstraint(sp)),
            ('KullbackLeibler', lambda sp=sp, one=one: S.KullbackLeibler(sp, prior=one * 2)),
            ('KullbackLeibler-noprior', lambda sp=sp: S.KullbackLeibler(sp)),
            ('KullbackLeiblerCrossEntropy', lambda sp=sp, one=one: S.KullbackLeiblerCrossEntropy(sp, prior=one * 2)),
            ('QuadraticForm', lambda sp=sp, one=one: S.QuadraticForm(odl.ScalingOperator(sp, 2.0), one, 1.0)),
            ('ScalingFunctional', lambda sp=sp: S.ScalingFunctional(sp.field, 3.0)),
            ('IdentityFunctional', lambda sp=sp: S.IdentityFunctional(sp.field)),
            ('MoreauEnvelope', lambda sp=sp: S.MoreauEnvelope(S.L1Norm(sp), 0.5)),
            ('translated', lambda sp=sp, one=one: S.L1Norm(sp).translated(one)),
            ('left-scaled', lambda sp=sp: 2.0 * S.L1Norm(sp)),
            ('right-scaled', lambda sp=sp: S.L2NormSquared(sp) * 2.0),
            ('right-vector', lambda sp=sp, one=one: S.L2NormSquared(sp) * (one * 2)),
            ('sum', lambda sp=sp: S.L2NormSquared(sp) + S.L1Norm(sp)),
            ('scalar-sum', lambda sp=sp: S.L1Norm(sp) + 3.0),
            ('quadratic-perturb', lambda sp=sp, one=one: S.FunctionalQuadraticPerturb(S.L1Norm(sp), 0.5, one, 1.0)),
            ('composition', lambda sp=sp: S.L2NormSquared(sp) * odl.ScalingOperator(sp, 2.0)),
            ('product', lambda sp=sp: S.FunctionalProduct(S.L2NormSquared(sp), S.L2Norm(sp))),
            ('quotient', lambda sp=sp: S.FunctionalQuotient(S.L2NormSquared(sp), S.L2Norm(sp) + 1.0)),
            ('infimal-convolution', lambda sp=sp: S.InfimalConvolution(S.L2NormSquared(sp), S.L1Norm(sp))),
            ('bregman', lambda sp=sp, one=one: S.BregmanDistance(S.L2NormSquared(sp), one, 2 * one)),
        ]
        for name, mk in cat:
            add('Functional.' + name, {'space': sn, 'derived': 'self'}, mk)
            add('Functional.' + name, {'space': sn, 'derived': 'gradient'}, lambda mk=mk: mk().gradient)
            add('Functional.' + name, {'space': sn, 'derived': 'proximal'}, lambda mk=mk: mk().proximal(0.5))
            add('Functional.' + name, {'space': sn, 'derived': 'convex_conj'}, lambda mk=mk: mk().convex_conj)
            add('Functional.' + name, {'space': sn, 'derived': 'convex_conj.proximal'},
                lambda mk=mk: mk().convex_conj.proximal(0.5))
            add('Functional.' + name, {'space': sn, 'derived': 'convex_conj.gradient'},
                lambda mk=mk: mk().convex_conj.gradient)
    # vector-field functionals
    vf = odl.ProductSpace(odl.rn(2), 2)
    for name, mk in [('GroupL1Norm', lambda: S.GroupL1Norm(vf)), ('IndicatorGroupL1UnitBall', lambda: S.IndicatorGroupL1UnitBall(vf)),
                     ('SeparableSum', lambda: S.SeparableSum(S.L1Norm(odl.rn(2)), S.L2NormSquared(odl.rn(2)))),
                     ('Huber-vf', lambda: S.Huber(vf, 0.5)),
                     ('NuclearNorm', lambda: S.NuclearNorm(odl.ProductSpace(odl.ProductSpace(odl.rn(2), 2), 2))),
                     ('IndicatorNuclearNormUnitBall', lambda: S.IndicatorNuclearNormUnitBall(odl.ProductSpace(odl.ProductSpace(odl.rn(2), 2), 2)))]:
        add('Functional.' + name, {'derived': 'self'}, mk)
        add('Functional.' + name, {'derived': 'proximal'}, lambda mk=mk: mk().proximal(0.5))
        add('Functional.' + name, {'derived': 'convex_conj'}, lambda mk=mk: mk().convex_conj)
        add('Functional.' + name, {'derived': 'convex_conj.proximal'}, lambda mk=mk: mk().convex_conj.proximal(0.5))
        add('Functional.' + name, {'derived': 'gradient'}, lambda mk=mk: mk().gradient)
    return R


def other_recipes():
    R = []

    def add(family, opts, fn):
        R.append((family, opts, fn))
    r3 = odl.rn(3)
    d1 = odl.uniform_discr(0, 1, 4)
    d2 = odl.uniform_discr([0, 0], [1, 1], [3, 4])
    add('LinCombOperator', {}, lambda: odl.LinCombOperator(r3, 2.0, -1.0))
    add('ConstantOperator', {}, lambda: odl.ConstantOperator(r3.element([1, 2, 3])))
    add('ConstantOperator', {'domain': 'other'}, lambda: odl.ConstantOperator(r3.element([1, 2, 3]), domain=odl.rn(2)))
    add('ZeroOperator', {'range': 'other'}, lambda: odl.ZeroOperator(r3, range=odl.rn(2)))
    add('NormOperator', {}, lambda: odl.NormOperator(r3))
    add('DistOperator', {}, lambda: odl.DistOperator(r3.element([1, 2, 3])))
    add('Resampling', {'dir': 'coarser'}, lambda: odl.Resampling(d1, odl.uniform_discr(0, 1, 2), interp='linear'))
    add('Resampling', {'dir': 'finer'}, lambda: odl.Resampling(d1, odl.uniform_discr(0, 1, 8), interp='nearest'))
    add('ResizingOperator', {'dim': '2'}, lambda: odl.ResizingOperator(d2, ran_shp=(5, 2), pad_mode='symmetric'))
    add('LinDeformFixedTempl', {}, lambda: odl.deform.LinDeformFixedTempl(d1.element([1, 2, 3, 4])))
    add('LinDeformFixedDisp', {}, lambda: odl.deform.LinDeformFixedDisp(d1.tangent_bundle.element([[0.1, 0.0, -0.1, 0.05]])))
    add('NumericalDerivative', {}, lambda: odl.solvers.NumericalDerivative(odl.PowerOperator(r3, 2), r3.element([1, 2, 3])))
    add('NumericalGradient', {}, lambda: odl.solvers.NumericalGradient(odl.solvers.L2NormSquared(r3)))
    add('PointwiseTensorFieldOperator.PointwiseNorm', {}, lambda: odl.PointwiseNorm(odl.ProductSpace(d1, 2)))
    add('PointwiseInnerAdjoint', {}, lambda: odl.PointwiseInner(odl.ProductSpace(d1, 2), odl.ProductSpace(d1, 2).one()).adjoint)
    add('ComplexModulus', {}, lambda: odl.ComplexModulus(odl.cn(2)))
    add('ComplexModulusSquared', {}, lambda: odl.ComplexModulusSquared(odl.cn(2)))
    for n, hc, impl in [(4, False, 'numpy'), (5, True, 'numpy'), (4, False, 'pyfftw'), (5, True, 'pyfftw'), (4, True, 'pyfftw')]:
        dt = 'float64' if hc else 'complex128'
        add('DiscreteFourierTransform', {'impl': impl, 'halfcomplex': str(hc), 'ndim': '1'},
            lambda n=n, hc=hc, impl=impl, dt=dt: odl.trafos.DiscreteFourierTransform(odl.uniform_discr(0, n, n, dtype=dt), halfcomplex=hc, impl=impl))
        add('DiscreteFourierTransformInverse', {'impl': impl, 'halfcomplex': str(hc), 'ndim': '1'},
            lambda n=n, hc=hc, impl=impl, dt=dt: odl.trafos.DiscreteFourierTransform(
                odl.uniform_discr(0, n, n, dtype=dt), halfcomplex=hc, impl=impl).inverse)
        add('FourierTransform', {'impl': impl, 'halfcomplex': str(hc), 'ndim': '1'},
            lambda n=n, hc=hc, impl=impl, dt=dt: odl.trafos.FourierTransform(odl.uniform_discr(-1, 1, n, dtype=dt), halfcomplex=hc, impl=impl))
        add('FourierTransformInverse', {'impl': impl, 'halfcomplex': str(hc), 'ndim': '1'},
            lambda n=n, hc=hc, impl=impl, dt=dt: odl.trafos.FourierTransform(odl.uniform_discr(-1, 1, n, dtype=dt), halfcomplex=hc, impl=impl).inverse)
    for impl in ('numpy', 'pyfftw'):
        add('DiscreteFourierTransform', {'impl': impl, 'halfcomplex': 'True', 'ndim': '2'},
            lambda impl=impl: odl.trafos.DiscreteFourierTransform(odl.uniform_discr([0, 0], [1, 1], [3, 4], dtype='float64'), halfcomplex=True, impl=impl))
        add('DiscreteFourierTransformInverse', {'impl': impl, 'halfcomplex': 'True', 'ndim': '2'},
            lambda impl=impl: odl.trafos.DiscreteFourierTransform(odl.uniform_discr([0, 0], [1, 1], [3, 4], dtype='float64'), halfcomplex=True, impl=impl).inverse)
    add('WaveletTransform', {'wavelet': 'db2', 'pad_mode': 'symmetric'},
        lambda: odl.trafos.WaveletTransform(odl.uniform_discr(0, 1, 8), 'db2', nlevels=1, pad_mode='symmetric'))
    add('WaveletTransformInverse', {'wavelet': 'db2', 'pad_mode': 'symmetric'},
        lambda: odl.trafos.WaveletTransform(odl.uniform_discr(0, 1, 8), 'db2', nlevels=1, pad_mode='symmetric').inverse)
    sp2 = odl.uniform_discr([-1, -1], [1, 1], [4, 4])
    geom = odl.tomo.parallel_beam_geometry(sp2, num_angles=3)
    add('RayTransform', {'impl': 'skimage'}, lambda: odl.tomo.RayTransform(sp2, geom, impl='skimage'))
    add('RayBackProjection', {'impl': 'skimage'}, lambda: odl.tomo.RayTransform(sp2, geom, impl='skimage').adjoint)
    # every ufunc operator (vector form on rn(3) and scalar 'functional' form on the field)
    import odl.ufunc_ops as UO
    for name in sorted(getattr(UO, '__all__', [n for n in dir(UO) if not n.startswith('_')])):
        ctor = getattr(UO, name, None)
        if not callable(ctor) or name in ('absolute_import', 'division', 'print_function'):
            continue
        add('ufunc_ops.' + name, {'form': 'op'}, lambda ctor=ctor: ctor(r3))
        add('ufunc_ops.' + name, {'form': 'func'}, lambda ctor=ctor: ctor(odl.RealNumbers()))
    # integer-only ufunc operators and binary ufunc operators on integer spaces
    i3 = odl.tensor_space(3, dtype='int64')
    for name in ('bitwise_and', 'bitwise_or', 'bitwise_xor', 'invert', 'left_shift', 'right_shift'):
        ctor = getattr(UO, name, None)
        if ctor is not None:
            add('ufunc_ops.' + name, {'form': 'op', 'dtype': 'int'}, lambda ctor=ctor: ctor(i3))
    # expression classes built directly
    P2 = odl.PowerOperator(r3, 2)
    add('OperatorLeftVectorMult', {}, lambda: odl.OperatorLeftVectorMult(P2, r3.element([1, -2, 0.5])))
    add('OperatorRightVectorMult', {}, lambda: odl.OperatorRightVectorMult(P2, r3.element([1, -2, 0.5])))
    add('OperatorRightScalarMult', {}, lambda: odl.OperatorRightScalarMult(P2, 2.0))
    add('OperatorLeftScalarMult', {}, lambda: odl.OperatorLeftScalarMult(P2, -2.0))
    add('OperatorSum', {}, lambda: odl.OperatorSum(P2, odl.ScalingOperator(r3, 3.0)))
    add('OperatorComp', {}, lambda: odl.OperatorComp(P2, odl.ScalingOperator(r3, 3.0)))
    add('OperatorVectorSum', {}, lambda: odl.OperatorVectorSum(P2, r3.element([1, 2, 3])))
    add('OperatorPointwiseProduct', {}, lambda: odl.OperatorPointwiseProduct(P2, odl.ScalingOperator(r3, 3.0)))
    add('FunctionalLeftVectorMult', {}, lambda: odl.FunctionalLeftVectorMult(odl.solvers.L2NormSquared(r3), r3.element([1, 2, 3])))
    # expression classes wrapped around operators that are NOT alias-safe in place (finite differences)
    dl = odl.uniform_discr(0, 1, 6)
    for bname, base in (('Laplacian', lambda: odl.Laplacian(dl, pad_mode='symmetric')),
                        ('PartialDerivative', lambda: odl.PartialDerivative(dl, 0, pad_mode='order1'))):
        vec = lambda: dl.element([1, -2, 0.5, 3, 1, 2])
        add('expr(' + bname + ')', {'wrap': 'A*v'}, lambda base=base, vec=vec: base() * vec())
        add('expr(' + bname + ')', {'wrap': 'v*A'}, lambda base=base, vec=vec: vec() * base())
        add('expr(' + bname + ')', {'wrap': 'A*a'}, lambda base=base: odl.OperatorRightScalarMult(base(), 2.0))
        add('expr(' + bname + ')', {'wrap': 'a*A'}, lambda base=base: -3.0 * base())
        add('expr(' + bname + ')', {'wrap': 'A+B'}, lambda base=base: base() + odl.ScalingOperator(dl, 2.0))
        add('expr(' + bname + ')', {'wrap': 'A*B'}, lambda base=base: base() * base())
        add('expr(' + bname + ')', {'wrap': 'A**3'}, lambda base=base: base() ** 3)
        add('expr(' + bname + ')', {'wrap': 'A+v'}, lambda base=base, vec=vec: base() + vec())
        add('expr(' + bname + ')', {'wrap': '(A*v)*B'}, lambda base=base, vec=vec: (base() * vec()) * base())
    # solver building blocks and proximal factories
    S = odl.solvers
    add('proximal_const_func', {}, lambda: S.proximal_const_func(r3)(0.5))
    add('proximal_box_constraint', {}, lambda: S.proximal_box_constraint(r3, 0.0, 1.0)(0.5))
    add('proximal_nonnegativity', {}, lambda: S.proximal_nonnegativity(r3)(0.5))
    return R


def _derived(group, fam, opts, fn):
    """Derived recipes of a base recipe: .adjoint, .adjoint.adjoint, .inverse, .derivative(x) where the operator offers them."""
    def mk(kind):
        def build():
            op = fn()
            if kind == 'adjoint':
                if not op.is_linear:
                    raise NotImplementedError('nonlinear')
                return op.adjoint
            if kind == 'adjoint.adjoint':
                if not op.is_linear:
                    raise NotImplementedError('nonlinear')
                return op.adjoint.adjoint
            if kind == 'inverse':
                return op.inverse
            if kind == 'derivative':
                if op.is_linear:
                    raise NotImplementedError('linear')
                rng = np.random.default_rng(3)
                return op.derivative(random_point(op.domain, rng))
            raise ValueError(kind)
        return build
    out = []
    for kind in ('adjoint', 'adjoint.adjoint', 'inverse', 'derivative'):
        if 'derived' in opts and kind != 'adjoint':
            continue
        o = dict(opts)
        o['via'] = kind
        out.append((group, fam, o, mk(kind)))
    return out


def extra_block_recipes():
    R = []
    r2 = odl.rn(2)
    A = odl.MatrixOperator(np.array([[1.0, 2.0], [0.0, -1.0]]))
    B = odl.ScalingOperator(r2, 2.0)
    Cc = odl.MultiplyOperator(r2.element([1.0, -2.0]))
    D = odl.IdentityOperator(r2)
    R.append(('ProductSpaceOperator', {'blocks': 'full-2x2'}, lambda: odl.ProductSpaceOperator([[A, B], [Cc, D]])))
    import scipy.sparse

    def colmajor():
        ops = np.empty(4, dtype=object)
        ops[:] = [A, Cc, B, D]
        m = scipy.sparse.coo_matrix((ops, ([0, 1, 0, 1], [0, 0, 1, 1])), shape=(2, 2))
        return odl.ProductSpaceOperator(m, domain=odl.ProductSpace(r2, 2), range=odl.ProductSpace(r2, 2))
    R.append(('ProductSpaceOperator', {'blocks': 'coo-column-major'}, colmajor))
    R.append(('ProductSpaceOperator', {'blocks': 'nonlinear-2x2'},
              lambda: odl.ProductSpaceOperator([[odl.PowerOperator(r2, 2), B], [Cc, odl.PowerOperator(r2, 3)]])))
    c2 = odl.uniform_discr([-1, -1], [1, 1], [4, 4], dtype='complex64')
    g = odl.tomo.parallel_beam_geometry(odl.uniform_discr([-1, -1], [1, 1], [4, 4]), num_angles=3)
    R.append(('RayTransform', {'impl': 'skimage', 'dtype': 'complex'}, lambda: odl.tomo.RayTransform(c2, g, impl='skimage')))
    R.append(('RayBackProjection', {'impl': 'skimage', 'dtype': 'complex'}, lambda: odl.tomo.RayTransform(c2, g, impl='skimage').adjoint))
    return R


def all_recipes(tier):
    base = []
    for fam, opts, fn in L.recipes(tier):
        base.append(('lin', fam, opts, fn))
    for fam, opts, fn in NL.recipes(tier):
        base.append(('nl', fam, opts, lambda fn=fn: fn()[0]))
    for fam, opts, fn in functional_recipes():
        base.append(('fn', fam, opts, fn))
    for fam, opts, fn in other_recipes():
        base.append(('misc', fam, opts, fn))
    for fam, opts, fn in extra_block_recipes():
        base.append(('misc', fam, opts, fn))
    out = list(base)
    for group, fam, opts, fn in base:
        if group == 'fn' or fam.startswith('ufunc_ops.'):
            continue
        out.extend(_derived(group, fam, opts, fn))
    return out


def all_operator_classes():
    """Names of concrete Operator subclasses defined anywhere under the odl package."""
    names = {}
    for m in pkgutil.walk_packages(odl.__path__, 'odl.'):
        if '.test' in m.name or 'contrib' in m.name or 'largescale' in m.name:
            continue
        try:
            mod = __import__(m.name, fromlist=['x'])
        except Exception:
            continue
        for n, c in vars(mod).items():
            if inspect.isclass(c) and issubclass(c, odl.Operator) and c.__module__ == m.name:
                names[c.__module__ + '.' + n] = c
    return names


def classes_in(op, seen=None):
    """Class names of an operator and of the operators it wraps (one level of common attributes)."""
    seen = seen if seen is not None else set()
    seen.add(type(op))
    for attr in ('left', 'right', 'operator', 'functional'):
        sub = getattr(op, attr, None)
        if isinstance(sub, odl.Operator) and len(seen) < 40:
            classes_in(sub, seen)
    return seen


def random_point(sp, rng, positive=True):
    n = L.dim(sp)
    c = rng.uniform(0.5, 2.0, n) if positive else rng.standard_normal(n)
    if L.is_complex(sp):
        c = c + 1j * rng.uniform(0.25, 1.0, n)
    return L.unflat(sp, c.astype(complex))

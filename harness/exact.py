"""Exact carriers on the Python side and the snapping projection (DESIGN 2.3).

JSON shapes (mirrors spec/num/ExactNum.tla):
    Q  -> [n, d]                d > 0 ; tokens [1,0] +inf, [-1,0] -inf, [0,0] NaN
    C  -> [[n, d], [n, d]]
Integers in JSON never reach 2**31 (TLC is 32-bit): to_q raises otherwise.
"""
from fractions import Fraction
import math

import numpy as np

OFF = 'offlattice'
LIM = 2 ** 31 - 1


class OffLattice(Exception):
    pass


def to_q(fr):
    """Fraction / int / token -> [n, d]"""
    if isinstance(fr, str):
        return fr
    if isinstance(fr, float):
        if math.isnan(fr):
            return [0, 0]
        if math.isinf(fr):
            return [1, 0] if fr > 0 else [-1, 0]
        raise TypeError('float given to to_q; snap first')
    fr = Fraction(fr)
    if abs(fr.numerator) > LIM or fr.denominator > LIM:
        raise OverflowError('rational too wide for TLC: %r' % fr)
    return [int(fr.numerator), int(fr.denominator)]


def from_q(q):
    if isinstance(q, str):
        return q
    n, d = q
    if d == 0:
        return float('nan') if n == 0 else (float('inf') if n > 0 else float('-inf'))
    return Fraction(n, d)


def to_c(z):
    if isinstance(z, str):
        return z
    if isinstance(z, complex):
        raise TypeError('complex float given to to_c; snap first')
    if isinstance(z, tuple):
        return [to_q(z[0]), to_q(z[1])]
    return [to_q(z), [0, 1]]


def from_c(c):
    if isinstance(c, str):
        return c
    return (from_q(c[0]), from_q(c[1]))


def tol_for(dtype, D):
    """rounding << tol << lattice spacing 1/D."""
    dt = np.dtype(dtype)
    if dt in (np.dtype('float32'), np.dtype('complex64')):
        return 2.0 ** -10 / D
    return 2.0 ** -20 / D


def snap(v, D, dtype='float64', tol=None):
    """Nearest multiple of 1/D as Fraction, or OFF."""
    v = float(v)
    if math.isnan(v):
        return float('nan')
    if math.isinf(v):
        return v
    if tol is None:
        tol = tol_for(dtype, D)
    k = round(v * D)
    q = Fraction(k, D)
    if abs(v - float(q)) <= tol * max(1.0, abs(v)):
        return q
    return OFF


def snap_c(z, D, dtype='complex128', tol=None):
    z = complex(z)
    a = snap(z.real, D, dtype, tol)
    b = snap(z.imag, D, dtype, tol)
    if a == OFF or b == OFF:
        return OFF
    return (a, b)


def snap_array(arr, D, dtype=None, tol=None):
    """Flat C-order list of Fractions (or (re,im) pairs for complex arrays)."""
    arr = np.asarray(arr)
    dt = dtype or arr.dtype
    flat = arr.ravel(order='C')
    if np.issubdtype(arr.dtype, np.complexfloating):
        return [snap_c(z, D, dt, tol) for z in flat]
    if np.issubdtype(arr.dtype, np.integer) or arr.dtype == bool:
        return [Fraction(int(z)) for z in flat]
    return [snap(z, D, dt, tol) for z in flat]


def q_json_seq(vals):
    return [to_q(v) for v in vals]


def c_json_seq(vals):
    return [to_c(v) for v in vals]


def as_float(fr):
    if isinstance(fr, tuple):
        return complex(as_float(fr[0]), as_float(fr[1]))
    return float(fr)


def frac_array(vals, dtype='float64', shape=None, order='C'):
    """Fractions (or (re,im) tuples) -> ndarray of dtype; values must be exactly representable
    for the comparison to be meaningful (callers choose dyadic lattices)."""
    a = np.array([as_float(v) for v in vals], dtype=dtype)
    if shape is not None:
        a = a.reshape(shape, order='C')
        if order == 'F':
            a = np.asfortranarray(a)
    return a


def quantise_pair(a, b, bits=20):
    """Quantise two numbers relative to the larger magnitude of the pair; returns ints |.| <= 2**bits."""
    s = max(abs(a), abs(b), 1e-300)
    sc = (2 ** bits) / s
    return int(round(a * sc)), int(round(b * sc))

"""Concretisation: abstract values (short sequences of exact numbers) -> real ODL
elements of a chosen size / dtype / layout / space kind, and the projection back.

Long vectors are periodic tilings of the abstract value; the projection verifies the
tiling over the WHOLE array before returning the first period (DESIGN 2.3).
"""
from fractions import Fraction

import numpy as np
import odl

from . import exact

DT = {'f32': 'float32', 'f64': 'float64', 'c64': 'complex64', 'c128': 'complex128',
      'i32': 'int32', 'i64': 'int64'}


def cnum_to_py(c):
    """JSON C number [[n,d],[n,d]] -> complex / float (exact for dyadics)."""
    re = exact.from_q(c[0])
    im = exact.from_q(c[1])
    if im == 0:
        return float(re)
    return complex(float(re), float(im))


def cnum_to_scalar(c, dtype):
    """Scalar passed to the API: Python int / float / complex as a user would write it."""
    re = exact.from_q(c[0])
    im = exact.from_q(c[1])
    if im != 0:
        return complex(float(re), float(im))
    if isinstance(re, Fraction) and re.denominator == 1:
        if np.issubdtype(np.dtype(dtype), np.integer):
            return int(re)
        return float(re) if (int(re) % 2) else int(re)   # mix ints and floats
    return float(re)


def period_array(vals, dtype):
    return np.array([cnum_to_py(v) for v in vals]).astype(dtype)


def cyc(per, n):
    """per repeated cyclically to length n (np.resize is far slower)."""
    per = np.asarray(per)
    if per.size >= n:
        return per[:n].copy()
    return np.tile(per, n // per.size + 1)[:n]


def tiled(vals, n, dtype):
    return cyc(period_array(vals, dtype), n)


class Concrete(object):
    """A concretisation choice: kind, total size n, dtype, layout."""

    def __init__(self, kind, n, dtype, layout):
        self.kind, self.n, self.dtype, self.layout = kind, int(n), np.dtype(dtype), layout
        self.space = self._make_space()

    def key(self):
        return {'kind': self.kind, 'n': self.n, 'dtype': self.dtype.name, 'layout': self.layout}

    # ---- spaces ---------------------------------------------------------
    def _shape(self):
        n = self.n
        if self.layout in ('C1', 'S1'):
            return (n,)
        for r in (2, 3, 5, 7):
            if n % r == 0 and n // r >= 1:
                return (n // r, r)
        return (n, 1)

    def _make_space(self):
        k, n, dt = self.kind, self.n, self.dtype
        if k == 'tensor':
            return odl.tensor_space(self._shape(), dtype=dt)
        if k == 'shapedt':
            # shaped dtype: tensor_space(m, dtype=(dt, (2,))) has shape (2, m)
            assert n % 2 == 0
            return odl.tensor_space(n // 2, dtype=(dt, (2,)))
        if k == 'discr':
            shp = self._shape()
            return odl.uniform_discr([0] * len(shp), [1] * len(shp), shp, dtype=dt)
        if k == 'pspace':
            a = n // 2
            return odl.ProductSpace(odl.tensor_space(a, dtype=dt), odl.tensor_space(n - a, dtype=dt))
        if k == 'power':
            assert n % 2 == 0
            return odl.ProductSpace(odl.tensor_space(n // 2, dtype=dt), 2)
        if k == 'nested':
            a = n // 4
            inner = odl.ProductSpace(odl.tensor_space(a, dtype=dt), 2)
            return odl.ProductSpace(inner, odl.tensor_space(n - 2 * a, dtype=dt))
        raise ValueError(k)

    # ---- elements -------------------------------------------------------
    def _leaf_array(self, flat, shape):
        """ndarray with the logical C-order content `flat`, in the requested memory layout."""
        arr = np.asarray(flat).reshape(shape)
        lay = self.layout
        if lay in ('C1', 'C'):
            return np.ascontiguousarray(arr)
        if lay == 'F':
            return np.asfortranarray(arr)
        if lay in ('S', 'S1'):          # strided, non-contiguous view
            big = np.zeros(tuple(2 * s for s in shape), dtype=arr.dtype)
            view = big[tuple(slice(None, None, 2) for _ in shape)]
            view[...] = arr
            return view
        raise ValueError(lay)

    def element(self, vals=None, fill=None):
        """vals: abstract period (list of JSON C numbers) ; fill: scalar garbage."""
        n, dt = self.n, self.dtype
        if vals is not None:
            flat = tiled(vals, n, dt)
        else:
            flat = np.full(n, fill, dtype=dt)
        sp = self.space
        if self.kind in ('tensor', 'discr', 'shapedt'):
            return sp.element(self._leaf_array(flat, sp.shape))
        return self._pspace_element(sp, flat)

    def _pspace_element(self, sp, flat):
        parts, pos = [], 0
        for comp in sp:
            m = comp.size
            if isinstance(comp, odl.ProductSpace):
                parts.append(self._pspace_element(comp, flat[pos:pos + m]))
            else:
                parts.append(comp.element(np.ascontiguousarray(flat[pos:pos + m])))
            pos += m
        return sp.element(parts)

    # ---- projection -----------------------------------------------------
    def flat(self, x):
        if self.kind in ('tensor', 'discr', 'shapedt'):
            return np.asarray(x.asarray()).ravel(order='C')
        return self._pspace_flat(x)

    def _pspace_flat(self, x):
        out = []
        for xi in x:
            if isinstance(xi.space, odl.ProductSpace):
                out.append(self._pspace_flat(xi))
            else:
                out.append(np.asarray(xi.asarray()).ravel(order='C'))
        return np.concatenate(out)

    def project(self, x, plen, D):
        """-> (list of JSON C numbers of length plen, note) ; off-lattice or broken tiling -> NaN tokens."""
        flat = self.flat(x)
        if flat.size != self.n:
            return [[[0, 0], [0, 0]]] * plen, 'size'
        per = flat[:plen] if flat.size >= plen else cyc(flat, plen)
        note = ''
        if flat.size > plen:
            ref = cyc(per, flat.size)
            same = (flat == ref) | (np.isnan(flat) & np.isnan(ref))
            if not bool(np.all(same)):
                # tolerate rounding-level differences between periods, nothing larger
                with np.errstate(invalid='ignore'):
                    close = np.abs(flat - ref) <= exact.tol_for(self.dtype, D) * np.maximum(1.0, np.abs(ref))
                if not bool(np.all(close | same)):
                    bad = int(np.argmin(close | same))
                    return [[[0, 0], [0, 0]]] * plen, 'tiling-broken-at-%d' % bad
        out = []
        for v in per:
            if np.issubdtype(flat.dtype, np.integer):
                out.append([[int(v), 1], [0, 1]])
                continue
            z = complex(v)
            a = exact.snap(z.real, D, self.dtype)
            b = exact.snap(z.imag, D, self.dtype)
            if a == exact.OFF or b == exact.OFF:
                out.append([[0, 0], [0, 0]])
                note = note or 'offlattice'
            else:
                try:
                    out.append([exact.to_q(a), exact.to_q(b)])
                except OverflowError:
                    out.append([[0, 0], [0, 0]])
                    note = note or 'too-wide'
        return out, note


def lattice_den(case_numbers):
    """Least common denominator (as int) of all JSON Q numbers found in a nested structure."""
    from math import gcd
    D = 1

    def walk(o):
        nonlocal D
        if isinstance(o, list):
            if len(o) == 2 and all(isinstance(t, int) for t in o):
                d = o[1]
                if d > 0:
                    D = D * d // gcd(D, d)
                return
            for t in o:
                walk(t)
        elif isinstance(o, dict):
            for t in o.values():
                walk(t)
    walk(case_numbers)
    return D

"""Catalogue of ODL operators that implement `derivative` (recipes) and the central-difference observation
used by the relational clause of C06."""
import numpy as np
import odl

from .linops import is_field


def _el(sp, vals):
    if isinstance(sp, odl.ProductSpace):
        parts, pos = [], 0
        vals = list(vals)
        out = []
        for s in sp:
            m = s.size if not isinstance(s, odl.ProductSpace) else sum(t.size for t in s)
            out.append(_el(s, vals[pos:pos + m]))
            pos += m
        return sp.element(out)
    v = np.resize(np.array(vals, dtype=complex if not sp.is_real else float), sp.size).reshape(sp.shape)
    return sp.element(v.astype(sp.dtype))


def sub(a, b):
    return a - b


def norm_of(sp, v):
    if is_field(sp):
        return abs(v)
    return float(v.norm())


def central_errors(op, x, d, h0=2.0 ** -6):
    """-> (errs for h0, h0/2, h0/4, scale, deriv operator)"""
    D = op.derivative(x)
    Dd = D(d)
    scale = max(norm_of(op.range, Dd), 1e-3)
    errs = []
    for h in (h0, h0 / 2, h0 / 4):
        fd = (op(x + h * d) - op(x - h * d)) / (2 * h)
        errs.append(norm_of(op.range, fd - Dd))
    return errs, scale, D


def quant(v, scale):
    q = v / scale * 2 ** 26
    if not np.isfinite(q):
        return 2 ** 28
    return int(min(round(q), 2 ** 28))


def recipes(tier='quick'):
    """Yield (family, options, builder -> (op, [x values], [d values]))."""
    R = []
    seen = set()

    def add(family, opts, fn):
        key = (family, tuple(sorted((k, str(v)) for k, v in opts.items())))
        if key in seen:                 # (family, options) identifies a recipe (replay looks it up by that)
            return
        seen.add(key)
        R.append((family, dict(opts), fn))
    r3 = odl.rn(3)
    r3w = odl.rn(3, weighting=[1.0, 2.0, 0.5])
    c2 = odl.cn(2)
    X = [1.5, -0.75, 2.25]
    Dv = [0.5, 1.0, -1.5]
    for sn, sp in (('rn', r3), ('rn-array', r3w), ('discr', odl.uniform_discr(0, 1, 3))):
        for p in (2, 3, 0.5, -1, 1.5):
            xs = [1.5, 0.75, 2.25] if p in (0.5, -1, 1.5) else X
            add('PowerOperator', {'space': sn, 'exponent': str(p)}, lambda sp=sp, p=p, xs=xs: (odl.PowerOperator(sp, p), xs, Dv))
        add('NormOperator', {'space': sn}, lambda sp=sp: (odl.NormOperator(sp), X, Dv))
        add('DistOperator', {'space': sn}, lambda sp=sp: (odl.DistOperator(_el(sp, [0.5, 0.25, -1])), X, Dv))
        add('ConstantOperator', {'space': sn}, lambda sp=sp: (odl.ConstantOperator(_el(sp, [1, 2, 3])), X, Dv))
        add('OperatorPointwiseProduct', {'space': sn},
            lambda sp=sp: (odl.OperatorPointwiseProduct(odl.PowerOperator(sp, 2), odl.ScalingOperator(sp, 3.0) + _el(sp, [1, 0, 2])), X, Dv))
        add('FunctionalLeftVectorMult', {'space': sn},
            lambda sp=sp: (_el(sp, [1, -2, 0.5]) * odl.solvers.L2NormSquared(sp), X, Dv))
        for name in ('sin', 'cos', 'exp', 'square', 'arctan', 'tanh', 'sinh', 'cosh', 'log', 'sqrt', 'reciprocal', 'absolute', 'sign',
                     'tan', 'arcsinh', 'log2', 'log10', 'log1p', 'expm1', 'exp2', 'cbrt', 'negative', 'positive', 'conj', 'deg2rad', 'rad2deg'):
            if not hasattr(odl.ufunc_ops, name):
                continue
            xs = [1.5, 0.75, 2.25] if name in ('log', 'sqrt', 'reciprocal', 'log2', 'log10', 'log1p', 'cbrt') else X
            xs = [0.3, -0.4, 0.2] if name == 'tan' else xs
            add('ufunc_ops.' + name, {'space': sn}, lambda sp=sp, name=name, xs=xs: (getattr(odl.ufunc_ops, name)(sp), xs, Dv))
    # functionals as operators with .derivative
    for fam, mk in (('L2NormSquared', lambda sp: odl.solvers.L2NormSquared(sp)),
                    ('L2Norm', lambda sp: odl.solvers.L2Norm(sp)),
                    ('L1Norm', lambda sp: odl.solvers.L1Norm(sp)),
                    ('Huber', lambda sp: odl.solvers.Huber(sp, 0.5)),
                    ('QuadraticForm', lambda sp: odl.solvers.QuadraticForm(odl.ScalingOperator(sp, 2.0), sp.one(), 1.0)),
                    ('KullbackLeibler', lambda sp: odl.solvers.KullbackLeibler(sp, prior=sp.one() * 2)),
                    ('RosenbrockFunctional', lambda sp: odl.solvers.RosenbrockFunctional(odl.rn(3)))):
        for sn, sp in (('rn', r3), ('rn-array', r3w)):
            if fam == 'RosenbrockFunctional' and sn != 'rn':
                continue
            add('Functional.' + fam, {'space': sn}, lambda sp=sp, mk=mk: (mk(sp), [1.5, 0.75, 2.25], Dv))
    # complex modulus (derivative in the C = R^2 sense)
    add('ComplexModulus', {}, lambda: (odl.ComplexModulus(c2), [1 + 2j, -0.5 + 1j], [0.5 - 1j, 1 + 0.25j]))
    add('ComplexModulusSquared', {}, lambda: (odl.ComplexModulusSquared(c2), [1 + 2j, -0.5 + 1j], [0.5 - 1j, 1 + 0.25j]))
    # pointwise operators on vector fields
    for wn, w in (('none', None), ('array', [1.0, 3.0])):
        base = odl.rn(2)
        vf = odl.ProductSpace(base, 2) if w is None else odl.ProductSpace(base, 2, weighting=w)
        for ex in (1, 2, 3):
            add('PointwiseNorm', {'exponent': str(ex), 'pspace-weighting': wn},
                lambda vf=vf, ex=ex: (odl.PointwiseNorm(vf, exponent=ex), [1.5, -0.75, 2.25, 0.5], [0.5, 1, -1.5, 2]))
        add('PointwiseNorm', {'exponent': '2', 'pspace-weighting': wn, 'op-weighting': 'given'},
            lambda vf=vf: (odl.PointwiseNorm(vf, exponent=2, weighting=[2.0, 0.5]), [1.5, -0.75, 2.25, 0.5], [0.5, 1, -1.5, 2]))
    # product-space block operators with nonlinear parts
    P2 = odl.PowerOperator(odl.rn(2), 2)
    S2 = odl.ScalingOperator(odl.rn(2), 3.0) + odl.rn(2).element([1, -1])
    add('ProductSpaceOperator', {'blocks': 'nonlinear'},
        lambda: (odl.ProductSpaceOperator([[P2, S2], [None, P2]]), [1.5, -0.75, 2.25, 0.5], [0.5, 1, -1.5, 2]))
    P3 = odl.PowerOperator(odl.rn(2), 3)
    SIN = odl.ufunc_ops.sin(odl.rn(2))
    add('ProductSpaceOperator', {'blocks': 'nonlinear-offdiagonal'},
        lambda: (odl.ProductSpaceOperator([[odl.IdentityOperator(odl.rn(2)), P3], [SIN, P3]]), [1.5, -0.75, 2.25, 0.5], [0.5, 1, -1.5, 2]))
    add('ProductSpaceOperator', {'blocks': 'nonlinear-column'},
        lambda: (odl.ProductSpaceOperator([[P3], [SIN]]), [1.5, -0.75], [0.5, 1]))
    add('ProductSpaceOperator', {'blocks': 'nonlinear-row'},
        lambda: (odl.ProductSpaceOperator([[P3, SIN]]), [1.5, -0.75, 2.25, 0.5], [0.5, 1, -1.5, 2]))
    add('BroadcastOperator', {'parts': 'nonlinear'}, lambda: (odl.BroadcastOperator(P2, S2), [1.5, -0.75], [0.5, 1]))
    add('ReductionOperator', {'parts': 'nonlinear'},
        lambda: (odl.ReductionOperator(P2, S2), [1.5, -0.75, 2.25, 0.5], [0.5, 1, -1.5, 2]))
    add('DiagonalOperator', {'parts': 'nonlinear'},
        lambda: (odl.DiagonalOperator(P2, S2), [1.5, -0.75, 2.25, 0.5], [0.5, 1, -1.5, 2]))
    # affine finite differences: derivative of the constant-padding variant is the zero-padding variant
    dsp = odl.uniform_discr(0, 2, 4)
    d2 = odl.uniform_discr([0, 0], [2, 1], [3, 2])
    for meth in ('forward', 'backward', 'central'):
        add('PartialDerivative', {'pad_mode': 'constant', 'pad_const': 'nonzero', 'method': meth},
            lambda meth=meth: (odl.PartialDerivative(dsp, 0, method=meth, pad_mode='constant', pad_const=2.0), [1.5, -0.75, 2.25, 0.5], [0.5, 1, -1.5, 2]))
        add('Gradient', {'pad_mode': 'constant', 'pad_const': 'nonzero', 'method': meth},
            lambda meth=meth: (odl.Gradient(d2, method=meth, pad_mode='constant', pad_const=-1.0), [1.5, -0.75, 2.25, 0.5, 1, 2], [0.5, 1, -1.5, 2, 0, 1]))
        add('Divergence', {'pad_mode': 'constant', 'pad_const': 'nonzero', 'method': meth},
            lambda meth=meth: (odl.Divergence(range=d2, method=meth, pad_mode='constant', pad_const=-1.0),
                               [1.5, -0.75, 2.25, 0.5, 1, 2, -1, 0.5, 0.25, 3, 1, 1], [0.5, 1, -1.5, 2, 0, 1, 1, 1, -2, 0.5, 0, 1]))
    add('Laplacian', {'pad_mode': 'constant', 'pad_const': 'nonzero'},
        lambda: (odl.Laplacian(d2, pad_mode='constant', pad_const=1.5), [1.5, -0.75, 2.25, 0.5, 1, 2], [0.5, 1, -1.5, 2, 0, 1]))
    recipes.n_first = len(R)           # recipes of the first catalogue version (opcatalog derives all forms of these)
    wide_recipes(tier, add)
    return R


def make_point(sp, vals):
    if is_field(sp):
        return float(vals[0])
    return _el(sp, vals)


# ====================================================================== systematic widening
# Every constructor option of every class that implements `derivative` gets >= 2 materially different values, crossed
# (all-pairs in the quick tier) with the space axes.  NO single-precision spaces here: the relational clause works with
# h = 2^-6 .. 2^-8, whose central differences drown in float32 rounding.  On complex spaces only holomorphic maps
# (powers, analytic ufuncs and their combinations) plus the operators that document the C = R^2 convention
# (ComplexModulus, ComplexModulusSquared: real range) are listed.
XR = [1.5, 0.75, 2.25, 0.5, 1.25, 1.75, 0.625, 2.5, 1.125, 0.875, 2.125, 1.375,
      1.625, 0.5625, 2.375, 0.6875, 1.3125, 1.875, 0.8125, 2.625, 1.0625, 0.9375, 2.0625, 1.4375]
DR = [0.5, 1.0, -1.5, 2.0, -0.25, 0.75, 1.0, -1.0, 0.5, -0.5, 1.5, -2.0,
      -0.75, 0.25, 1.25, -1.25, 0.5, 1.0, -0.5, 2.0, -1.5, 0.75, 0.25, -1.0]
XC = [1 + 2j, -0.5 + 1j, 1.5 - 0.75j, 0.75 + 0.5j, 2 - 1j, -1.25 - 0.5j,
      0.5 + 1.5j, -1 + 0.75j, 1.25 - 1.5j, 0.625 + 0.25j, 1.75 - 0.5j, -0.75 - 1.25j] * 2
DC = [0.5 - 1j, 1 + 0.25j, -1.5 + 0.5j, 2j, -0.25 - 1j, 0.75,
      -1 + 1j, 0.25 - 0.5j, 1.5 + 1j, -2j, 0.5 + 0.75j, -0.75 + 0.25j] * 2


def _pts(sp, positive=True):
    """(x values, d values) for make_point: generic, away from 0 / 1 / kinks."""
    from .linops import is_complex
    if is_field(sp):
        return ([1.5], [0.5])
    if is_complex(sp):
        return (XC, DC)
    return (XR, DR)


def wide_recipes(tier, add):
    from collections import OrderedDict as OD
    from odl.util import COOMatrix
    from . import catutil as U
    from .linops import _space_axes, _combos, _sp, _o
    S = odl.solvers
    vec, posvec = U.vec, U.posvec
    dbl = dict(precs=('double',))

    # ---------------------------------------------------------------- default_ops
    def pow_ok(c):
        # non-integer powers: positive real base points (principal branch, no kink), complex: integer powers only
        return c['field'] == 'real' or c['exponent'] in ('2', '3', '1', '-1', '0')
    for c in _combos(tier, OD([('exponent', ['1', '2', '3', '0.5', '-1', '1.5', '0', '-0.5'])]), _space_axes(**dbl), pow_ok):
        lab, sp = _sp(c)
        add('PowerOperator', _o(c, lab, 'exponent'), lambda sp=sp, p=float(c['exponent']): (odl.PowerOperator(sp, p),) + _pts(sp))
    for p in ('2', '3', '0.5', '-1'):
        add('PowerOperator', {'space': 'field-real', 'exponent': p},
            lambda p=float(p): (odl.PowerOperator(odl.RealNumbers(), p), [1.5], [0.5]))
    add('PowerOperator', {'space': 'field-complex', 'exponent': '2'},
        lambda: (odl.PowerOperator(odl.ComplexNumbers(), 2), [1.5], [0.5]))
    for c in _combos(tier, OD(), _space_axes(fields=('real',), **dbl)):
        lab, sp = _sp(c)
        add('NormOperator', _o(c, lab), lambda sp=sp: (odl.NormOperator(sp),) + _pts(sp))
        add('DistOperator', _o(c, lab), lambda sp=sp: (odl.DistOperator(vec(sp)),) + _pts(sp))
    for form in ('power2', 'general', 'nested'):
        for w in ('none', 'const', 'array'):
            def ps(form=form, w=w):
                return U.mk_pspace(odl.rn(2), form, w)
            o = {'space': 'pspace-' + form, 'pspace-weighting': w}
            add('NormOperator', o, lambda ps=ps: (odl.NormOperator(ps()), XR, DR))
            add('DistOperator', o, lambda ps=ps: (odl.DistOperator(vec(ps())), XR, DR))
            add('PowerOperator', dict(o, exponent='2'), lambda ps=ps: (odl.PowerOperator(ps(), 2), XR, DR))
    for c in _combos(tier, OD([('domain', ['default', 'given', 'other']), ('range', ['default', 'given']),
                               ('constant', ['element', 'array-like'])]), _space_axes(**dbl),
                     lambda c: c['constant'] == 'element' or c['range'] == 'given'):
        lab, sp = _sp(c)

        def mk(sp=sp, c=c):
            kw = {}
            if c['domain'] == 'given':
                kw['domain'] = sp
            elif c['domain'] == 'other':
                kw['domain'] = odl.tensor_space(2, dtype=sp.dtype)
            if c['range'] == 'given':
                kw['range'] = sp
            const = vec(sp) if c['constant'] == 'element' else vec(sp).asarray().tolist()
            if c['constant'] != 'element' and 'domain' not in kw:
                kw['domain'] = sp
            op = odl.ConstantOperator(const, **kw)
            return (op,) + _pts(op.domain)
        add('ConstantOperator', _o(c, lab, 'domain', 'range', 'constant'), mk)
    for c in _combos(tier, OD(), _space_axes(fields=('complex',), **dbl)):
        lab, sp = _sp(c)
        add('ComplexModulus', _o(c, lab), lambda sp=sp: (odl.ComplexModulus(sp), XC, DC))
        add('ComplexModulusSquared', _o(c, lab), lambda sp=sp: (odl.ComplexModulusSquared(sp), XC, DC))

    # ---------------------------------------------------------------- expression classes around nonlinear leaves
    # (direct constructors with their temporaries; the overload spellings are the business of C04/C06 part A)
    def leafs(sp):
        P2 = odl.PowerOperator(sp, 2)
        P3 = odl.PowerOperator(sp, 3)
        A = odl.ScalingOperator(sp, 3.0) + vec(sp)
        E = odl.ufunc_ops.exp(sp) if sp.is_real else odl.ufunc_ops.sin(sp)
        return P2, P3, A, E
    WR = OD([
        ('Sum', lambda sp, L: odl.OperatorSum(L[0], L[3])),
        ('Sum-tmp_ran', lambda sp, L: odl.OperatorSum(L[0], L[3], tmp_ran=sp.element())),
        ('Sum-tmp_dom', lambda sp, L: odl.OperatorSum(L[0], L[3], tmp_dom=sp.element())),
        ('Sum-tmp_both', lambda sp, L: odl.OperatorSum(L[0], L[3], sp.element(), sp.element())),
        ('Comp', lambda sp, L: odl.OperatorComp(L[0], L[2])),
        ('Comp-nonlinear-inner', lambda sp, L: odl.OperatorComp(L[2], L[1])),
        ('Comp-both-nonlinear', lambda sp, L: odl.OperatorComp(L[0], L[1])),
        ('Comp-tmp', lambda sp, L: odl.OperatorComp(L[0], L[1], tmp=sp.element())),
        ('LeftScalarMult', lambda sp, L: odl.OperatorLeftScalarMult(L[1], -2.0)),
        ('LeftScalarMult-zero', lambda sp, L: odl.OperatorLeftScalarMult(L[1], 0.0)),
        ('RightScalarMult', lambda sp, L: odl.OperatorRightScalarMult(L[1], -0.5)),
        ('RightScalarMult-tmp', lambda sp, L: odl.OperatorRightScalarMult(L[1], 1.5, tmp=sp.element())),
        ('LeftVectorMult', lambda sp, L: odl.OperatorLeftVectorMult(L[1], vec(sp))),
        ('RightVectorMult', lambda sp, L: odl.OperatorRightVectorMult(L[1], vec(sp))),
        ('VectorSum', lambda sp, L: odl.OperatorVectorSum(L[1], vec(sp))),
        ('PointwiseProduct', lambda sp, L: odl.OperatorPointwiseProduct(L[0], L[2])),
        ('PointwiseProduct-both-nonlinear', lambda sp, L: odl.OperatorPointwiseProduct(L[1], L[3])),
        ('depth2', lambda sp, L: odl.OperatorComp(odl.OperatorSum(L[0], L[2]), odl.OperatorRightVectorMult(L[1], vec(sp)))),
    ])
    for c in _combos(tier, OD([('wrap', list(WR))]), _space_axes(**dbl)):
        lab, sp = _sp(c)
        add('expr', _o(c, lab, 'wrap'), lambda sp=sp, w=c['wrap']: (WR[w](sp, leafs(sp)),) + _pts(sp))
    # complex scalars in the scalar multiples (holomorphic leaves on complex spaces)
    for sn, a in (('complex-general', 1.5 - 2j), ('imag', 2j)):
        add('expr', {'wrap': 'LeftScalarMult', 'space': 'cn', 'scalar': sn},
            lambda a=a: (odl.OperatorLeftScalarMult(odl.PowerOperator(odl.cn(3), 3), a), XC, DC))
        add('expr', {'wrap': 'RightScalarMult', 'space': 'cn', 'scalar': sn},
            lambda a=a: (odl.OperatorRightScalarMult(odl.PowerOperator(odl.cn(3), 3), a), XC, DC))
    # different domain and range (temporaries live in different spaces): sum / composition of R^3 -> R^2 operators
    M = odl.MatrixOperator(np.array([[1.0, 2.0, 0.0], [-1.0, 0.5, 3.0]]))

    def nl32():
        return odl.OperatorComp(M, odl.PowerOperator(odl.rn(3), 2)), odl.OperatorComp(odl.PowerOperator(odl.rn(2), 3), M)
    add('expr', {'wrap': 'Sum', 'maps': 'R3->R2'}, lambda: (odl.OperatorSum(*nl32()), XR, DR))
    add('expr', {'wrap': 'Sum-tmp_ran', 'maps': 'R3->R2'}, lambda: (odl.OperatorSum(*nl32(), tmp_ran=odl.rn(2).element()), XR, DR))
    add('expr', {'wrap': 'Sum-tmp_dom', 'maps': 'R3->R2'}, lambda: (odl.OperatorSum(*nl32(), tmp_dom=odl.rn(3).element()), XR, DR))
    add('expr', {'wrap': 'Sum-tmp_both', 'maps': 'R3->R2'},
        lambda: (odl.OperatorSum(*nl32(), tmp_ran=odl.rn(2).element(), tmp_dom=odl.rn(3).element()), XR, DR))
    add('expr', {'wrap': 'Comp-tmp', 'maps': 'R3->R2'},
        lambda: (odl.OperatorComp(odl.PowerOperator(odl.rn(2), 3), nl32()[0], tmp=odl.rn(2).element()), XR, DR))
    add('expr', {'wrap': 'RightScalarMult-tmp', 'maps': 'R3->R2'},
        lambda: (odl.OperatorRightScalarMult(nl32()[0], -0.5, tmp=odl.rn(3).element()), XR, DR))
    for c in _combos(tier, OD([('functional', ['L2NormSquared', 'L2Norm', 'KullbackLeibler'])]), _space_axes(fields=('real',), **dbl)):
        lab, sp = _sp(c)
        f = {'L2NormSquared': lambda sp: S.L2NormSquared(sp), 'L2Norm': lambda sp: S.L2Norm(sp),
             'KullbackLeibler': lambda sp: S.KullbackLeibler(sp, prior=posvec(sp))}[c['functional']]
        add('FunctionalLeftVectorMult', _o(c, lab, 'functional'),
            lambda sp=sp, f=f: (odl.FunctionalLeftVectorMult(f(sp), vec(sp)),) + _pts(sp))

    # ---------------------------------------------------------------- ufunc operators with a closed-form derivative
    UF = ['sin', 'cos', 'tan', 'sqrt', 'square', 'log', 'exp', 'reciprocal', 'sinh', 'cosh']
    for c in _combos(tier, OD([('ufunc', UF)]), _space_axes(**dbl)):
        lab, sp = _sp(c)
        name = c['ufunc']
        if sp.is_real:
            xs = [0.3, -0.4, 0.2, 0.45, -0.25, 0.35] if name == 'tan' else XR
            ds = DR
        else:
            # away from branch cuts (sqrt / log: negative real axis) and poles
            xs = [1 + 0.5j, 0.5 + 1j, 1.5 - 0.75j, 0.75 + 0.5j, 2 - 1j, 1.25 + 0.5j]
            if name == 'tan':
                xs = [0.3 + 0.2j, -0.4 + 0.1j, 0.2 - 0.3j]
            ds = DC
        add('ufunc_ops.' + name, _o(c, lab), lambda sp=sp, name=name, xs=xs, ds=ds: (getattr(odl.ufunc_ops, name)(sp), xs, ds))

    # ---------------------------------------------------------------- PointwiseNorm
    PWW = {'none': None, 'unit-scalar': 1.0, 'unit-array': 'ones', 'scalar': 2.0, 'array': 'arr'}
    BASES = {'rn': lambda: odl.rn(2), 'rn-array': lambda: odl.rn(2, weighting=[1.0, 4.0]),
             'discr2d': lambda: U.mk_space('discr', shape='2d')[1], 'discr-bdry': lambda: U.mk_space('discr', bdry='asym')[1]}
    for c in U.cross(tier, OD([('exponent', ['default', '1', '2', '3', '1.5', 'default-from-space']),
                               ('pspace-weighting', ['none', 'const', 'array']), ('op-weighting', list(PWW)),
                               ('length', ['1', '2', '3']), ('base', list(BASES))])):
        n = int(c['length'])

        def mk(c=c, n=n):
            base = BASES[c['base']]()
            ex = 3.0 if c['exponent'] == 'default-from-space' else None
            vf = U.mk_pspace(base, 'power%d' % n, c['pspace-weighting'], exponent=ex)
            w = PWW[c['op-weighting']]
            w = [1.0] * n if w == 'ones' else ([2.0, 0.5, 4.0][:n] if w == 'arr' else w)
            kw = {} if w is None else {'weighting': w}
            if c['exponent'] not in ('default', 'default-from-space'):
                kw['exponent'] = float(c['exponent'])
            return (odl.PointwiseNorm(vf, **kw), XR, DR)
        add('PointwiseNorm', dict(c), mk)

    # ---------------------------------------------------------------- block operators with nonlinear blocks
    def nblocks(field):
        X = odl.cn(2) if field == 'complex' else odl.rn(2)
        return {'X': X, 'P2': odl.PowerOperator(X, 2), 'P3': odl.PowerOperator(X, 3), 'SIN': odl.ufunc_ops.sin(X),
                'A': odl.ScalingOperator(X, 3.0) + vec(X), 'I': odl.IdentityOperator(X),
                'EXP': odl.ufunc_ops.exp(X) if field == 'real' else odl.ufunc_ops.cos(X)}
    LAY = OD([('full-2x2', lambda B: ([(0, 0, B['P2']), (0, 1, B['SIN']), (1, 0, B['P3']), (1, 1, B['A'])], (2, 2))),
              ('offdiag-only', lambda B: ([(0, 1, B['P3']), (1, 0, B['SIN'])], (2, 2))),
              ('with-None', lambda B: ([(0, 0, B['I']), (0, 1, B['P3']), (1, 1, B['SIN'])], (2, 2))),
              ('lower-tri-3x3', lambda B: ([(0, 0, B['P2']), (1, 0, B['SIN']), (1, 1, B['I']), (2, 0, B['P3']), (2, 1, B['EXP']),
                                           (2, 2, B['A'])], (3, 3))),
              ('single-row', lambda B: ([(0, 0, B['P3']), (0, 1, B['SIN']), (0, 2, B['A'])], (1, 3))),
              ('single-col', lambda B: ([(0, 0, B['P3']), (1, 0, B['SIN']), (2, 0, B['A'])], (3, 1))),
              ('empty-row', lambda B: ([(0, 0, B['P2']), (0, 1, B['P3'])], (2, 2))),
              ('empty-col', lambda B: ([(0, 0, B['P2']), (1, 0, B['P3'])], (2, 2)))])

    def pso(layout, form, field, given):
        B = nblocks(field)
        ent, shape = LAY[layout](B)
        kw = {}
        if given == 'given' or layout in ('empty-row', 'empty-col'):
            kw = {'domain': odl.ProductSpace(B['X'], shape[1]), 'range': odl.ProductSpace(B['X'], shape[0])}
        if form.startswith('list'):
            rows = [[None if form == 'list' else 0] * shape[1] for _ in range(shape[0])]
            for i, j, op in ent:
                rows[i][j] = op
            return odl.ProductSpaceOperator(rows, **kw)
        ent = sorted(ent, key=(lambda e: (e[0], e[1])) if form == 'coo-row-major' else (lambda e: (e[1], e[0])))
        if form == 'coo-reversed':
            ent = ent[::-1]
        data = np.empty(len(ent), dtype=object)
        data[:] = [e[2] for e in ent]
        return odl.ProductSpaceOperator(COOMatrix(data, ([e[0] for e in ent], [e[1] for e in ent]), shape), **kw)
    for c in U.cross(tier, OD([('blocks', list(LAY)), ('form', ['list', 'list-zeros', 'coo-row-major', 'coo-col-major', 'coo-reversed']),
                               ('field', ['real', 'complex']), ('spaces', ['inferred', 'given'])])):
        xs, ds = (XC, DC) if c['field'] == 'complex' else (XR, DR)
        add('ProductSpaceOperator', dict(c, nonlinear='yes'),
            lambda c=c, xs=xs, ds=ds: (pso(c['blocks'], c['form'], c['field'], c['spaces']), xs, ds))
    for fld in ('real', 'complex'):
        xs, ds = (XC, DC) if fld == 'complex' else (XR, DR)
        add('ProductSpaceOperator', {'blocks': 'nested', 'field': fld, 'nonlinear': 'yes'},
            lambda fld=fld, xs=xs, ds=ds: (odl.ProductSpaceOperator([[pso('full-2x2', 'list', fld, 'inferred'), pso('offdiag-only', 'coo-col-major', fld, 'inferred')],
                                                                     [None, pso('with-None', 'list', fld, 'inferred')]]), xs, ds))
        for pn in ('two', 'one', 'three', 'int-form', 'same-twice'):
            def parts(fld=fld, pn=pn):
                B = nblocks(fld)
                return {'two': (B['P2'], B['A']), 'one': (B['P3'],), 'three': (B['SIN'], B['P3'], B['I']), 'int-form': (B['P3'], 3),
                        'same-twice': (B['SIN'], B['SIN'])}[pn]
            o = {'parts': pn, 'field': fld, 'nonlinear': 'yes'}
            add('BroadcastOperator', o, lambda parts=parts, xs=xs, ds=ds: (odl.BroadcastOperator(*parts()), xs, ds))
            add('ReductionOperator', o, lambda parts=parts, xs=xs, ds=ds: (odl.ReductionOperator(*parts()), xs, ds))
            add('DiagonalOperator', o, lambda parts=parts, xs=xs, ds=ds: (odl.DiagonalOperator(*parts()), xs, ds))

            def dgiven(parts=parts):
                ops = parts()
                n = ops[1] if len(ops) > 1 and isinstance(ops[1], int) else len(ops)
                X = ops[0].domain
                return odl.DiagonalOperator(*ops, domain=odl.ProductSpace(X, n), range=odl.ProductSpace(X, n))
            add('DiagonalOperator', dict(o, spaces='given'), lambda dgiven=dgiven, xs=xs, ds=ds: (dgiven(), xs, ds))

    # ---------------------------------------------------------------- affine finite differences / resizing (pad_const != 0)
    DSH = {'1d': (4,), '2d': (3, 4), '3d': (2, 3, 2)}
    DSD = {'1d': [0.5], '2d': [0.5, 2.0], '3d': [0.5, 1.0, 2.0]}
    dsp_axes = _space_axes(kinds=('discr',), precs=('double',))
    PC = {'pos': 2.0, 'neg': -1.5, 'complex': 1 - 2j}

    def pc_ok(c):
        return c['pad_const'] != 'complex' or c['field'] == 'complex'
    for c in _combos(tier, OD([('method', ['forward', 'backward', 'central']), ('axis', ['first', 'last', 'neg-last']),
                               ('pad_const', list(PC)), ('range', ['default', 'given'])]), dsp_axes, pc_ok):
        lab, sp = _sp(c, shapes=DSH, sides=DSD)
        ax = {'first': 0, 'last': sp.ndim - 1, 'neg-last': -1}[c['axis']]
        kw = {'range': sp} if c['range'] == 'given' else {}
        add('PartialDerivative', _o(c, lab, 'method', 'axis', 'pad_const', 'range', pad_mode='constant'),
            lambda sp=sp, ax=ax, c=c, kw=kw: (odl.PartialDerivative(sp, ax, method=c['method'], pad_mode='constant', pad_const=PC[c['pad_const']], **kw),) + _pts(sp))
    for c in _combos(tier, OD([('method', ['forward', 'backward', 'central']), ('pad_const', list(PC)), ('spaces', ['domain', 'range', 'both'])]),
                     dsp_axes, pc_ok):
        lab, sp = _sp(c, shapes=DSH, sides=DSD)

        def mkg(sp=sp, c=c):
            kw = dict(method=c['method'], pad_mode='constant', pad_const=PC[c['pad_const']])
            vf = odl.ProductSpace(sp, sp.ndim)
            op = {'domain': lambda: odl.Gradient(sp, **kw), 'range': lambda: odl.Gradient(range=vf, **kw), 'both': lambda: odl.Gradient(sp, vf, **kw)}[c['spaces']]()
            return (op,) + _pts(sp)

        def mkd(sp=sp, c=c):
            kw = dict(method=c['method'], pad_mode='constant', pad_const=PC[c['pad_const']])
            vf = odl.ProductSpace(sp, sp.ndim)
            op = {'domain': lambda: odl.Divergence(vf, **kw), 'range': lambda: odl.Divergence(range=sp, **kw), 'both': lambda: odl.Divergence(vf, sp, **kw)}[c['spaces']]()
            return (op,) + _pts(sp)
        o = _o(c, lab, 'method', 'pad_const', 'spaces', pad_mode='constant')
        add('Gradient', o, mkg)
        add('Divergence', o, mkd)
    for c in _combos(tier, OD([('pad_const', list(PC)), ('range', ['default', 'given'])]), dsp_axes, pc_ok):
        lab, sp = _sp(c, shapes=DSH, sides=DSD)
        kw = {'range': sp} if c['range'] == 'given' else {}
        add('Laplacian', _o(c, lab, 'pad_const', 'range', pad_mode='constant'),
            lambda sp=sp, c=c, kw=kw: (odl.Laplacian(sp, pad_mode='constant', pad_const=PC[c['pad_const']], **kw),) + _pts(sp))
    RSH = {'1d': (4,), '2d': (2, 3)}
    TGT = {('1d', 'extend'): (6,), ('1d', 'restrict'): (2,), ('2d', 'extend'): (3, 4), ('2d', 'mixed'): (3, 2), ('2d', 'one-axis'): (2, 5)}
    for c in _combos(tier, OD([('how', ['ran_shp', 'range']), ('dir', ['extend', 'restrict', 'mixed', 'one-axis']), ('pad_const', list(PC)),
                               ('offset', ['default', 'one'])]), _space_axes(kinds=('discr',), precs=('double',), shapes=('1d', '2d')),
                     lambda c: pc_ok(c) and (c['shape'], c['dir']) in TGT and (c['how'] == 'ran_shp' or c['offset'] == 'default')):
        lab, sp = _sp(c, shapes=RSH)

        def mk(sp=sp, c=c):
            tgt = TGT[(c['shape'], c['dir'])]
            kw = {'pad_mode': 'constant', 'pad_const': PC[c['pad_const']]}
            if c['how'] == 'ran_shp':
                if c['offset'] == 'one':
                    kw['offset'] = [1] + [0] * (sp.ndim - 1)
                op = odl.ResizingOperator(sp, ran_shp=tgt, **kw)
            else:
                op = odl.ResizingOperator(sp, odl.ResizingOperator(sp, ran_shp=tgt).range, **kw)
            return (op,) + _pts(sp)
        try:
            mk()
        except ValueError:
            continue
        add('ResizingOperator', _o(c, lab, 'how', 'dir', 'pad_const', 'offset', pad_mode='constant'), mk)


# ---------------------------------------------------------------------------------------------------------------------
# HISTORIES on expression classes constructed DIRECTLY with their optional temporaries (OperatorComp tmp=, OperatorSum
# tmp_ran= / tmp_dom=): take the derivative at x, then use the shared temporaries elsewhere (in-place evaluation of the
# expression or of the derivative at ANOTHER point, a second derivative at another point), then evaluate the first
# derivative (out-of-place and in place): it must still be the derivative at x (same relation, Trace_Derivative).
HISTORIES = ('none', 'op-inplace-elsewhere', 'deriv-inplace-elsewhere', 'second-derivative-elsewhere', 'all')
XRH, DRH, ZRH = [1.3, 0.7, 1.9], [0.5, -1.0, 0.75], [-0.6, 2.1, 0.4]
XCH, DCH, ZCH = [1.3 + 0.4j, 0.7 - 0.7j, 1.9 + 0.3j], [0.5 + 0.5j, -1.0 + 0.25j, 0.75 - 1.0j], [-0.6 + 1.1j, 2.1 - 0.3j, 0.4 + 0.8j]


def history_errors(op, x, d, z, hist, h0=2.0 ** -6):
    """-> (errs (max over out-of-place / in-place evaluation of the derivative taken BEFORE the history), scale, D)"""
    D = op.derivative(x)
    if hist in ('op-inplace-elsewhere', 'all'):
        op(z, out=op.range.element()) if not isinstance(op.range, odl.set.sets.Field) else op(z)
    if hist in ('deriv-inplace-elsewhere', 'all'):
        D(z, out=D.range.element()) if not isinstance(D.range, odl.set.sets.Field) else D(z)
    if hist in ('second-derivative-elsewhere', 'all'):
        D2 = op.derivative(z)
        D2(x, out=D2.range.element()) if not isinstance(D2.range, odl.set.sets.Field) else D2(x)
    Dd = D(d)
    if isinstance(op.range, odl.set.sets.Field):
        Dd_ip = Dd
    else:
        Dd_ip = op.range.element()
        D(d, out=Dd_ip)
        Dd_ip = Dd_ip.copy()
    scale = max(norm_of(op.range, Dd), 1e-3)
    errs = []
    for h in (h0, h0 / 2, h0 / 4):
        fd = (op(x + h * d) - op(x - h * d)) / (2 * h)
        errs.append(max(norm_of(op.range, fd - Dd), norm_of(op.range, fd - Dd_ip)))
    return errs, scale, D


def history_recipes(tier='quick'):
    """(family, options, fn -> (op, x, d, z)) for directly constructed expression objects with / without temporaries."""
    R = []
    r3, c3 = odl.rn(3), odl.cn(3)
    ar = r3.element([2.0, -1.0, 0.5])
    ac = c3.element([1 + 1j, -0.5j, 2.0])
    lefts = {
        'ComplexModulusSquared': (c3, lambda: odl.ComplexModulusSquared(c3)),
        'ComplexModulus': (c3, lambda: odl.ComplexModulus(c3)),
        'PowerOperator': (r3, lambda: odl.PowerOperator(r3, 3)),
        'ufunc-sin': (r3, lambda: odl.ufunc_ops.sin(r3)),
        'L2NormSquared': (r3, lambda: odl.solvers.L2NormSquared(r3)),
        'comp-with-tmp': (c3, lambda: odl.OperatorComp(odl.PowerOperator(r3, 2), odl.ComplexModulusSquared(c3), tmp=r3.element())),
    }
    rights = {
        'linear': lambda sp, a: odl.MultiplyOperator(a, domain=sp, range=sp),
        'affine': lambda sp, a: odl.OperatorSum(odl.MultiplyOperator(a, domain=sp, range=sp), odl.ConstantOperator(a)),
        'nonlinear-comp': lambda sp, a: odl.OperatorComp(odl.MultiplyOperator(a, domain=sp, range=sp),
                                                        odl.OperatorSum(odl.IdentityOperator(sp), odl.ConstantOperator(a)),
                                                        tmp=sp.element()),
    }
    for lname, (sp, mk) in lefts.items():
        cplx = sp is c3
        a = ac if cplx else ar
        pts = (XCH, DCH, ZCH) if cplx else (XRH, DRH, ZRH)
        for rname, mkr in rights.items():
            for tmp in ('given', 'none'):
                for hist in HISTORIES:
                    def fn(mk=mk, mkr=mkr, sp=sp, a=a, tmp=tmp, pts=pts):
                        op = odl.OperatorComp(mk(), mkr(sp, a), tmp=sp.element() if tmp == 'given' else None)
                        return (op,) + tuple(sp.element(p) for p in pts)
                    R.append(('OperatorComp', {'built': 'direct', 'left': lname, 'right': rname, 'tmp': tmp, 'history': hist}, fn))
    # OperatorSum with both temporaries, one, none; summands nonlinear with derivatives that keep / do not keep the point
    sums = {
        'modsq+mod': (c3, lambda: (odl.ComplexModulusSquared(c3), odl.ComplexModulus(c3))),
        'pow+sin': (r3, lambda: (odl.PowerOperator(r3, 3), odl.ufunc_ops.sin(r3))),
        'comp+modsq': (c3, lambda: (odl.OperatorComp(odl.ComplexModulusSquared(c3), odl.MultiplyOperator(ac, domain=c3, range=c3),
                                                     tmp=c3.element()), odl.ComplexModulusSquared(c3))),
    }
    for sname, (sp, mk) in sums.items():
        cplx = sp is c3
        pts = (XCH, DCH, ZCH) if cplx else (XRH, DRH, ZRH)
        for tmp in ('both', 'ran', 'dom', 'none'):
            for hist in HISTORIES:
                def fn(mk=mk, sp=sp, tmp=tmp, pts=pts):
                    a, b = mk()
                    op = odl.OperatorSum(a, b, tmp_ran=a.range.element() if tmp in ('both', 'ran') else None,
                                         tmp_dom=a.domain.element() if tmp in ('both', 'dom') else None)
                    return (op,) + tuple(sp.element(p) for p in pts)
                R.append(('OperatorSum', {'built': 'direct', 'summands': sname, 'tmp': tmp, 'history': hist}, fn))
    return R

"""Catalogue of ODL operators that implement `derivative` (recipes) and the central-difference observation
used by the relational clause of C06."""
import numpy as np
import odl

from .linops import is_field


def _el(sp, vals):
    if isinstance(sp, odl.ProductSpace):
        parts, pos = [], 0
        vals = list(vals)
        out = []
        for s in sp:
            m = s.size if not isinstance(s, odl.ProductSpace) else sum(t.size for t in s)
            out.append(_el(s, vals[pos:pos + m]))
            pos += m
        return sp.element(out)
    v = np.resize(np.array(vals, dtype=complex if not sp.is_real else float), sp.size).reshape(sp.shape)
    return sp.element(v.astype(sp.dtype))


def sub(a, b):
    return a - b


def norm_of(sp, v):
    if is_field(sp):
        return abs(v)
    return float(v.norm())


def central_errors(op, x, d, h0=2.0 ** -6):
    """-> (errs for h0, h0/2, h0/4, scale, deriv operator)"""
    D = op.derivative(x)
    Dd = D(d)
    scale = max(norm_of(op.range, Dd), 1e-3)
    errs = []
    for h in (h0, h0 / 2, h0 / 4):
        fd = (op(x + h * d) - op(x - h * d)) / (2 * h)
        errs.append(norm_of(op.range, fd - Dd))
    return errs, scale, D


def quant(v, scale):
    q = v / scale * 2 ** 26
    if not np.isfinite(q):
        return 2 ** 28
    return int(min(round(q), 2 ** 28))


def recipes(tier='quick'):
    """Yield (family, options, builder -> (op, [x values], [d values]))."""
    R = []

    def add(family, opts, fn):
        R.append((family, opts, fn))
    r3 = odl.rn(3)
    r3w = odl.rn(3, weighting=[1.0, 2.0, 0.5])
    c2 = odl.cn(2)
    X = [1.5, -0.75, 2.25]
    Dv = [0.5, 1.0, -1.5]
    for sn, sp in (('rn', r3), ('rn-array', r3w), ('discr', odl.uniform_discr(0, 1, 3))):
        for p in (2, 3, 0.5, -1, 1.5):
            xs = [1.5, 0.75, 2.25] if p in (0.5, -1, 1.5) else X
            add('PowerOperator', {'space': sn, 'exponent': str(p)}, lambda sp=sp, p=p, xs=xs: (odl.PowerOperator(sp, p), xs, Dv))
        add('NormOperator', {'space': sn}, lambda sp=sp: (odl.NormOperator(sp), X, Dv))
        add('DistOperator', {'space': sn}, lambda sp=sp: (odl.DistOperator(_el(sp, [0.5, 0.25, -1])), X, Dv))
        add('ConstantOperator', {'space': sn}, lambda sp=sp: (odl.ConstantOperator(_el(sp, [1, 2, 3])), X, Dv))
        add('OperatorPointwiseProduct', {'space': sn},
            lambda sp=sp: (odl.OperatorPointwiseProduct(odl.PowerOperator(sp, 2), odl.ScalingOperator(sp, 3.0) + _el(sp, [1, 0, 2])), X, Dv))
        add('FunctionalLeftVectorMult', {'space': sn},
            lambda sp=sp: (_el(sp, [1, -2, 0.5]) * odl.solvers.L2NormSquared(sp), X, Dv))
        for name in ('sin', 'cos', 'exp', 'square', 'arctan', 'tanh', 'sinh', 'cosh', 'log', 'sqrt', 'reciprocal', 'absolute', 'sign',
                     'tan', 'arcsinh', 'log2', 'log10', 'log1p', 'expm1', 'exp2', 'cbrt', 'negative', 'positive', 'conj', 'deg2rad', 'rad2deg'):
            if not hasattr(odl.ufunc_ops, name):
                continue
            xs = [1.5, 0.75, 2.25] if name in ('log', 'sqrt', 'reciprocal', 'log2', 'log10', 'log1p', 'cbrt') else X
            xs = [0.3, -0.4, 0.2] if name == 'tan' else xs
            add('ufunc_ops.' + name, {'space': sn}, lambda sp=sp, name=name, xs=xs: (getattr(odl.ufunc_ops, name)(sp), xs, Dv))
    # functionals as operators with .derivative
    for fam, mk in (('L2NormSquared', lambda sp: odl.solvers.L2NormSquared(sp)),
                    ('L2Norm', lambda sp: odl.solvers.L2Norm(sp)),
                    ('L1Norm', lambda sp: odl.solvers.L1Norm(sp)),
                    ('Huber', lambda sp: odl.solvers.Huber(sp, 0.5)),
                    ('QuadraticForm', lambda sp: odl.solvers.QuadraticForm(odl.ScalingOperator(sp, 2.0), sp.one(), 1.0)),
                    ('KullbackLeibler', lambda sp: odl.solvers.KullbackLeibler(sp, prior=sp.one() * 2)),
                    ('RosenbrockFunctional', lambda sp: odl.solvers.RosenbrockFunctional(odl.rn(3)))):
        for sn, sp in (('rn', r3), ('rn-array', r3w)):
            if fam == 'RosenbrockFunctional' and sn != 'rn':
                continue
            add('Functional.' + fam, {'space': sn}, lambda sp=sp, mk=mk: (mk(sp), [1.5, 0.75, 2.25], Dv))
    # complex modulus (derivative in the C = R^2 sense)
    add('ComplexModulus', {}, lambda: (odl.ComplexModulus(c2), [1 + 2j, -0.5 + 1j], [0.5 - 1j, 1 + 0.25j]))
    add('ComplexModulusSquared', {}, lambda: (odl.ComplexModulusSquared(c2), [1 + 2j, -0.5 + 1j], [0.5 - 1j, 1 + 0.25j]))
    # pointwise operators on vector fields
    for wn, w in (('none', None), ('array', [1.0, 3.0])):
        base = odl.rn(2)
        vf = odl.ProductSpace(base, 2) if w is None else odl.ProductSpace(base, 2, weighting=w)
        for ex in (1, 2, 3):
            add('PointwiseNorm', {'exponent': str(ex), 'pspace-weighting': wn},
                lambda vf=vf, ex=ex: (odl.PointwiseNorm(vf, exponent=ex), [1.5, -0.75, 2.25, 0.5], [0.5, 1, -1.5, 2]))
        add('PointwiseNorm', {'exponent': '2', 'pspace-weighting': wn, 'op-weighting': 'given'},
            lambda vf=vf: (odl.PointwiseNorm(vf, exponent=2, weighting=[2.0, 0.5]), [1.5, -0.75, 2.25, 0.5], [0.5, 1, -1.5, 2]))
    # product-space block operators with nonlinear parts
    P2 = odl.PowerOperator(odl.rn(2), 2)
    S2 = odl.ScalingOperator(odl.rn(2), 3.0) + odl.rn(2).element([1, -1])
    add('ProductSpaceOperator', {'blocks': 'nonlinear'},
        lambda: (odl.ProductSpaceOperator([[P2, S2], [None, P2]]), [1.5, -0.75, 2.25, 0.5], [0.5, 1, -1.5, 2]))
    P3 = odl.PowerOperator(odl.rn(2), 3)
    SIN = odl.ufunc_ops.sin(odl.rn(2))
    add('ProductSpaceOperator', {'blocks': 'nonlinear-offdiagonal'},
        lambda: (odl.ProductSpaceOperator([[odl.IdentityOperator(odl.rn(2)), P3], [SIN, P3]]), [1.5, -0.75, 2.25, 0.5], [0.5, 1, -1.5, 2]))
    add('ProductSpaceOperator', {'blocks': 'nonlinear-column'},
        lambda: (odl.ProductSpaceOperator([[P3], [SIN]]), [1.5, -0.75], [0.5, 1]))
    add('ProductSpaceOperator', {'blocks': 'nonlinear-row'},
        lambda: (odl.ProductSpaceOperator([[P3, SIN]]), [1.5, -0.75, 2.25, 0.5], [0.5, 1, -1.5, 2]))
    add('BroadcastOperator', {'parts': 'nonlinear'}, lambda: (odl.BroadcastOperator(P2, S2), [1.5, -0.75], [0.5, 1]))
    add('ReductionOperator', {'parts': 'nonlinear'},
        lambda: (odl.ReductionOperator(P2, S2), [1.5, -0.75, 2.25, 0.5], [0.5, 1, -1.5, 2]))
    add('DiagonalOperator', {'parts': 'nonlinear'},
        lambda: (odl.DiagonalOperator(P2, S2), [1.5, -0.75, 2.25, 0.5], [0.5, 1, -1.5, 2]))
    # affine finite differences: derivative of the constant-padding variant is the zero-padding variant
    dsp = odl.uniform_discr(0, 2, 4)
    d2 = odl.uniform_discr([0, 0], [2, 1], [3, 2])
    for meth in ('forward', 'backward', 'central'):
        add('PartialDerivative', {'pad_mode': 'constant', 'pad_const': 'nonzero', 'method': meth},
            lambda meth=meth: (odl.PartialDerivative(dsp, 0, method=meth, pad_mode='constant', pad_const=2.0), [1.5, -0.75, 2.25, 0.5], [0.5, 1, -1.5, 2]))
        add('Gradient', {'pad_mode': 'constant', 'pad_const': 'nonzero', 'method': meth},
            lambda meth=meth: (odl.Gradient(d2, method=meth, pad_mode='constant', pad_const=-1.0), [1.5, -0.75, 2.25, 0.5, 1, 2], [0.5, 1, -1.5, 2, 0, 1]))
        add('Divergence', {'pad_mode': 'constant', 'pad_const': 'nonzero', 'method': meth},
            lambda meth=meth: (odl.Divergence(range=d2, method=meth, pad_mode='constant', pad_const=-1.0),
                               [1.5, -0.75, 2.25, 0.5, 1, 2, -1, 0.5, 0.25, 3, 1, 1], [0.5, 1, -1.5, 2, 0, 1, 1, 1, -2, 0.5, 0, 1]))
    add('Laplacian', {'pad_mode': 'constant', 'pad_const': 'nonzero'},
        lambda: (odl.Laplacian(d2, pad_mode='constant', pad_const=1.5), [1.5, -0.75, 2.25, 0.5, 1, 2], [0.5, 1, -1.5, 2, 0, 1]))
    return R


def make_point(sp, vals):
    if is_field(sp):
        return float(vals[0])
    return _el(sp, vals)

"""C08 - functional, convex conjugate and their proximals are mutually consistent.

Pipeline (DESIGN 4/C08):
  1. TLC: catalogue pairs (two INDEPENDENT definitions per pair: LpNorm <-> IndicatorLpUnitBall, GroupL1 <-> its
     ball, Constant <-> IndicatorZero, KL <-> KL*) satisfy Fenchel-Young with equality exactly on the
     sub-differential graph and the Moreau decomposition; Fenchel-Young laws on every program of the bounded
     FuncMachine; layer C (FuncRulesImpl!ConjImpl: the convex_conj rules of every class transcribed as written)
     against layer A.
  2. TLC exports, per program, f(x), f*(y) (through a lattice witness of Fenchel equality - never a closed form),
     <x,y>, the pairs with y in subdiff f(x), and certified proximal points for the Moreau identity; replayed on
     real ODL objects: f(x) + f.convex_conj(y) >= x.inner(y), equality on the exported pairs and at
     y = f.gradient(x), f.convex_conj.convex_conj(x) = f(x), prox_{sigma f}(x) + sigma prox_{f*/sigma}(x/sigma) = x
     as a relation between two observed proximals.
  3. All observations (plus a deterministic enumeration on 3-point spaces and seeded random points) are
     validated by TLC against Trace_FuncMachine (conjugate values re-derived by witness search).
"""
import hashlib
import json
import math
import multiprocessing as mp
import os
import random
from fractions import Fraction

import numpy as np

from .. import funcutil as fu
from ..common import MachineryError
from .c07 import mkf, _rnd, FINITE_LEAVES

ROT = {'rn2': 'smooth', 'rnw2': 'norms', 'discrH': 'ind2', 'discr2': 'kl', 'power1': 'ind1', 'pspace1': 'core'}
GROUPS = ['norms', 'ind2', 'smooth', 'ind1', 'kl']
SLACK = 1e-9


def tlc_jobs(ctx, quick):
    jobs, exports = [], []
    M, X = 'MC_FuncMachine.tla', 'MC_FuncMachine_export.cfg'
    xset = 'quick' if quick else 'full'

    def exp(name, sp, depth, group, deep='all', xs=None):
        out = os.path.join(ctx.work, 'exp_%s.ndjson' % name)
        exports.append(out)
        jobs.append(('export-' + name, M, X,
                     fu.fm_env(sp, depth, group, 'conj', deep=deep, xset=xs or xset, mode='conj', out=out), 1))
    for sp in fu.SPACES_2D:
        jobs.append(('pairs-' + sp, M, 'MC_FuncMachine_pairs.cfg', fu.fm_env(sp, 0, 'all', 'conj'), 1))
        jobs.append(('impl-' + sp, 'MC_FuncRulesImpl.tla', 'MC_FuncRulesImpl_Conj.cfg',
                     fu.fm_env(sp, 1, 'all', 'conj', xset='quick'), 1))
        if quick:
            exp('d0-' + sp, sp, 0, 'all')
            exp('d1-' + sp, sp, 1, ROT[sp], xs='tiny')
        else:
            for g in GROUPS + (['core'] if sp == 'pspace1' else []):
                exp('d1-%s-%s' % (sp, g), sp, 1, g, xs='quick')
            for g in GROUPS:
                exp('d0-%s-%s' % (sp, g), sp, 0, g, xs='full')
    # WEIGHTED power spaces (array / constant / below-one component weights): catalogue pairs, every leaf, one rule on
    # top of the vector-field functionals
    for sp in fu.SPACES_W:
        jobs.append(('pairs-' + sp, M, 'MC_FuncMachine_pairs.cfg', fu.fm_env(sp, 0, 'all', 'conj'), 1))
        exp('d0-' + sp, sp, 0, 'all' if (sp == 'wpowerA' or not quick) else 'vf', xs='quick' if quick else 'full')
        if sp == 'wpowerA' or not quick:
            exp('d1-' + sp, sp, 1, 'vf', xs='tiny' if quick else 'quick')
            jobs.append(('impl-' + sp, 'MC_FuncRulesImpl.tla', 'MC_FuncRulesImpl_Conj.cfg',
                         fu.fm_env(sp, 1, 'vf', 'conj', xset='quick'), 1))
            jobs.append(('laws-%s-vf' % sp, M, 'MC_FuncMachine_lawsConj.cfg', fu.fm_env(sp, 0, 'vf', 'conj', xset='tiny'), 1))
    lawspaces = ['rn2', 'discr2', 'power1'] if quick else fu.SPACES_2D
    for sp in lawspaces:
        for g in GROUPS:
            deep = (not quick) and sp in ('rnw2', 'power1')
            jobs.append(('laws-%s-%s' % (sp, g), M, 'MC_FuncMachine_lawsConj.cfg',
                         fu.fm_env(sp, 1 if deep else 0, g, 'conj', xset='tiny' if (quick or deep) else 'quick'), 1))
    if quick:
        exp('d2-rn2', 'rn2', 2, 'one', deep='one', xs='tiny')
    else:
        for sp in ['rn2', 'discr2']:
            for g in ['core', 'core2']:
                exp('d2-%s-%s' % (sp, g), sp, 2, g, deep=g, xs='tiny')
        for sp in ['rn3', 'discr3']:
            exp('big-' + sp, sp, 0, 'all', xs='quick')
    return jobs, exports


# ------------------------------------------------------------------ observation
def _val(func, x):
    try:
        return float(func(x)), ''
    except NotImplementedError:
        return None, 'noeval'
    except Exception as e:
        return None, type(e).__name__ + ': ' + str(e)[:80]


def fy_event(sp, f, xq, yq, fx, cy, ip, atgrad, chk):
    q = [fu.fixq(v) for v in (fx, cy, ip)]
    fin = all(t is not None for t in q)
    return {'k': 'fy', 'sp': sp, 'f': f, 'x': xq, 'y': yq, 'fx': fu.snapv(fx), 'cy': fu.snapv(cy), 'ip': fu.snapv(ip),
            'fxq': q[0] or 0, 'cyq': q[1] or 0, 'ipq': q[2] or 0, 'fin': 1 if fin else 0,
            'slackq': fu.REL_SLACKQ, 'atgrad': 1 if atgrad else 0, 'chk': 1 if chk else 0}


def close(a, b, scale=1.0):
    return abs(a - b) <= SLACK * max(1.0, abs(a), abs(b), scale)


def observe_program(B, rec_xs, rec_ys, eqs, cases, rnd, res, stage, sp, f, space_name, chk_conj, max_pairs):
    """All C08 observations of one program on real objects.  Appends (event, detail) and violations to res."""
    sig = lambda clause, extra=None: fu.signature(sp, f, clause, extra)
    det = lambda **kw: dict({'stage': stage, 'sp': sp, 'f': f}, **kw)
    func = B.func
    try:
        fc = func.convex_conj
    except (NotImplementedError, ValueError):
        # not offered / refused with an explanation ("scaling with nonpositive values have no convex conjugate":
        # ODL rewrites f*s into s*f for a linear f and then refuses a negative s)
        res['noconj'] += 1
        return
    except Exception as e:
        res['viol'].append((sig('convex_conj-raises', {'error': type(e).__name__}), det(error=str(e)[:200])))
        return
    res['classes'] |= fu.class_names(fc)
    xs = [(xq, B.el(fu.frv(xq))) for xq in rec_xs]
    ys = [(yq, B.el(fu.frv(yq))) for yq in rec_ys]
    fxs, cys = {}, {}
    evaluable = True
    for yq, y in ys:
        v, err = _val(fc, y)
        if err == 'noeval':
            evaluable = False
            break
        if err:
            res['viol'].append((sig('convex_conj-call-raises', {'error': err.split(':')[0]}), det(y=yq, error=err)))
            evaluable = False
            break
        cys[json.dumps(yq)] = v
    for xq, x in xs:
        v, err = _val(func, x)
        if err:
            if err != 'noeval':
                res['viol'].append((sig('call-raises', {'error': err.split(':')[0]}), det(x=xq, error=err)))
            return
        fxs[json.dumps(xq)] = v
    res['evaluable'] += 1 if evaluable else 0
    eqset = set(json.dumps(e) for e in eqs)
    # points where f* is finite: a tiny step from a boundary point of dom f* towards them leads inside
    anchors = [fu.frv(yq) for yq, _ in ys if math.isfinite(cys.get(json.dumps(yq), float('inf')))]
    if evaluable:
        # ---- Fenchel-Young on every pair (literal), events for a sample of them
        pairs = [(a, b) for a in xs for b in ys]
        keep = set(rnd.sample(range(len(pairs)), min(max_pairs, len(pairs))))
        for i, ((xq, x), (yq, y)) in enumerate(pairs):
            fx, cy = fxs[json.dumps(xq)], cys[json.dumps(yq)]
            ip = float(x.inner(y))
            iseq = json.dumps([xq, yq]) in eqset
            res['counts'].append(([f, space_name, 'fy', xq, yq], iseq or (math.isfinite(fx + cy) and fx + cy != 0)))
            bad = []
            if math.isfinite(fx) and math.isfinite(cy) and fx + cy < ip - SLACK * max(1, abs(ip), abs(fx), abs(cy)):
                bad.append('fenchel-young-inequality')
            if iseq and math.isfinite(fx) and not math.isfinite(cy):
                # y on the boundary of dom f*: rounding may flip it (not at exactly dyadic points: there the
                # evaluation is exact and a documented boundary convention has to hold as it stands)
                cy = fu.value_near(fc, B, fu.frv(yq), anchors, hold_dyadic=True)[0]
                near = 1e3         # the value was taken 1e-9 away: the relation is blurred by as much
            else:
                near = 1.0
            if iseq and not (math.isfinite(fx + cy) and close(fx + cy, ip, near * max(1.0, abs(fx), abs(cy), abs(ip)))):
                bad.append('fenchel-young-equality')
            for cl in bad:
                res['viol'].append((sig(cl), det(x=xq, y=yq, observed={'f(x)': fx, 'f*(y)': cy, '<x,y>': ip})))
            if i in keep or iseq or bad:
                res['events'].append((fy_event(sp, f, xq, yq, fx, cy, ip, False, chk_conj and i in keep),
                                      det(kind='fy', x=xq, y=yq)))
        # ---- equality at y = gradient of f at x
        try:
            G = func.gradient
        except Exception:
            G = None
        if G is not None:
            for xq, x in xs:
                fx = fxs[json.dumps(xq)]
                if not math.isfinite(fx):
                    continue
                try:
                    with np.errstate(all='ignore'):
                        g = G(x)
                    if not np.all(np.isfinite(fu.flat(g))):
                        continue
                    cy, err = _val(fc, g)
                    if err:
                        continue
                    near = 1.0
                    if not math.isfinite(cy):
                        cy = fu.value_near(fc, B, fu.flat(g).tolist(), anchors, hold_dyadic=True)[0]
                        near = 1e3
                    ip = float(x.inner(g))
                except Exception:
                    continue
                gq = fu.snapvec(fu.flat(g))
                res['counts'].append(([f, space_name, 'fy-at-gradient', xq], True))
                if not (math.isfinite(cy) and close(fx + cy, ip, near * max(1.0, abs(fx), abs(cy), abs(ip)))):
                    res['viol'].append((sig('fenchel-young-equality', {'at': 'gradient'}),
                                        det(x=xq, y=fu.flat(g).tolist(), observed={'f(x)': fx, 'f*(grad)': cy, '<x,grad>': ip})))
                if all(fu.known(t) for t in gq):
                    res['events'].append((fy_event(sp, f, xq, gq, fx, cy, ip, True, False), det(kind='fy', x=xq, y=gq)))
        # ---- biconjugate
        try:
            fcc = fc.convex_conj
            ok = True
        except Exception:
            ok = False
        if ok:
            for xq, x in xs:
                v, err = _val(fcc, x)
                if err:
                    break
                fx = fxs[json.dumps(xq)]
                res['counts'].append(([f, space_name, 'biconj', xq], math.isfinite(fx) and fx != 0))
                same = (fx == v) or (math.isfinite(fx) and math.isfinite(v) and close(fx, v))
                if not same:
                    res['viol'].append((sig('biconjugate'), det(x=xq, observed={'f(x)': fx, 'f**(x)': v})))
                q1, q2 = fu.fixq(fx), fu.fixq(v)
                res['events'].append(({'k': 'biconj', 'sp': sp, 'f': f, 'x': xq, 'fx': fu.snapv(fx), 'fccx': fu.snapv(v),
                                       'fxq': q1 or 0, 'fccxq': q2 or 0, 'fin': 1 if (q1 is not None and q2 is not None) else 0,
                                       'slackq': fu.REL_SLACKQ}, det(kind='biconj', x=xq)))
    # ---- Moreau decomposition: a relation between two observed proximals
    for case in cases:
        s = float(fu.fr(case['sig'][0]))
        xq = case['x']
        x = B.el(fu.frv(xq))
        try:
            P = func.proximal(s)
            Pc = fc.proximal(1.0 / s)
        except NotImplementedError:
            res['nomoreau'] += 1
            break
        except Exception as e:
            # a missing/raising proximal is C07's concern
            res['nomoreau'] += 1
            break
        try:
            p = P(x)
            qv = Pc(x / s)
        except Exception:
            res['nomoreau'] += 1
            break
        r = float((p + s * qv - x).norm())
        res['counts'].append(([f, space_name, 'moreau', case['sig'], xq], case['nz'] and case['z'] != xq))
        if not r <= SLACK * max(1.0, float(x.norm())):
            res['viol'].append((sig('moreau'), det(case=case, observed={'p': fu.flat(p).tolist(), 'q': fu.flat(qv).tolist(),
                                                                         'residual': r})))
        rq = fu.fixq(r)
        res['events'].append(({'k': 'moreau', 'sp': sp, 'f': f, 'sig': case['sig'], 'x': xq, 'p': fu.snapvec(fu.flat(p)),
                               'q': fu.snapvec(fu.flat(qv)), 'resq': rq if rq is not None else 10 ** 9,
                               'slackq': fu.REL_SLACKQ}, det(kind='moreau', case=case)))


def _new_res():
    return {'events': [], 'viol': [], 'counts': [], 'classes': set(), 'noconj': 0, 'nomoreau': 0, 'evaluable': 0,
            'samples': []}


def replay_program(arg):
    rec, seed, quick = arg
    sp, f = rec['sp'], rec['f']
    res = _new_res()
    if not rec['attrs']['convex']:
        return res                 # no conjugate calculus for non-convex programs (e.g. negative multiples)
    rnd = _rnd(json.dumps(f, sort_keys=True) + rec['space'], seed)
    variants = [0] if (quick or rec['k'] > 1) else [0, 1]
    for variant in variants:
        # the n points are laid out on 1, 2 or 3 axes, rotating over the programs (and over the variants)
        layout = (rec.get('idx', 0) + variant + seed) % 4
        try:
            B = fu.Built(sp, f, variant, layout=layout)
        except (NotImplementedError, fu.Unbuildable):
            res['noconj'] += 1
            return res
        except Exception as e:
            res['viol'].append((fu.signature(sp, f, 'construction-raises', {'error': type(e).__name__}),
                                {'stage': 'replay', 'sp': sp, 'f': f, 'error': str(e)[:200]}))
            return res
        res['classes'] |= fu.class_names(B.func)
        n0 = len(res['viol'])
        observe_program(B, [t['x'] for t in rec['xs']], [t['y'] for t in rec['ys']], rec['eqs'],
                        sorted(rec['cases'], key=lambda c: json.dumps([c['sig'], c['x']])), rnd, res,
                        'replay', sp, f, rec['space'], False, 12 if quick else 40)
        if variant == 0 and (not quick or rec['k'] <= 1):
            walk_chain(B, [t['x'] for t in rec['xs']][:4 if quick else 8], [t['y'] for t in rec['ys']][:4 if quick else 8],
                       res, 'replay', sp, f, rec['space'])
        for s, d in res['viol'][n0:]:
            d['variant'] = variant
            d['layout'] = layout
            s['layout'] = 'one-axis' if B.layout == 0 else 'multi-axis'
        # ---- exported expectations: f*(y) from the witness search of TLC, f(x)
        if variant == 0:
            try:
                fc = B.func.convex_conj
            except Exception:
                continue
            for t in rec['ys']:
                if not fu.known(t['cy']) and t['cy'] != [1, 0]:
                    continue
                v, err = _val(fc, B.el(fu.frv(t['y'])))
                if err:
                    break
                if not fu.matches(v, t['cy']) and not fu.matches(fu.value_near(
                        fc, B, fu.frv(t['y']), [fu.frv(s['y']) for s in rec['ys'] if fu.known(s['cy'])], hold_dyadic=True)[0],
                        t['cy']):
                    res['viol'].append((fu.signature(sp, f, 'conjugate-value'),
                                        {'stage': 'replay', 'sp': sp, 'f': f, 'y': t['y'], 'expected_from_TLC': t['cy'],
                                         'observed': v, 'variant': 0}))
            if len(res['samples']) < 1 and rec['eqs']:
                e = rec['eqs'][0]
                res['samples'].append({'space': rec['space'], 'program': fu.shape(f), 'x': e[0], 'y_in_subdiff': e[1],
                                       'note': 'f(x) + f*(y) = <x,y> expected and observed'})
    return res


# ------------------------------------------------------------------ driver beyond the TLC constants
def driver_programs(quick, rnd):
    H = Fraction(1, 2)
    out = []
    spaces = [('rn', 1, 3, [1] * 3), ('rnw', 1, 3, [4] * 3), ('discr', 1, 3, [2] * 3), ('power', 2, 2, [H] * 4),
              ('pspace', 2, 2, [4, 4, H, H]),
              # weighted power spaces (kind, m, n, W, component weights): array weighting, constant weighting
              ('wpower', 2, 2, [H, H, 2, 2], [1, 4]), ('wpower', 2, 2, [6] * 4, [3, 3])]
    for spd_ in spaces:
        kind, m, n, W = spd_[:4]
        N = m * n
        alt = lambda a, b: [a if i % 2 == 0 else b for i in range(N)]
        leaves = [mkf('L1'), mkf('L2'), mkf('L2sq'), mkf('IndBall2'), mkf('IndBallInf'), mkf('Const', 0, 3),
                  mkf('IndZero', 0, 1), mkf('Quad', 0, 1, v=[2] * N, u=alt(1, -H)), mkf('Quad', 0, 1, u=alt(1, -H))]
        if kind != 'pspace':
            leaves += [mkf('Huber', (1, 2)), mkf('Huber', 2), mkf('KL', v=alt(1, 2)), mkf('KLcc', v=alt(1, 2)), mkf('KL'),
                       mkf('KLcc'),
                       # boundary data: priors with ZERO entries (0 log 0 = 0), gamma = 0, degenerate box
                       mkf('KL', v=alt(0, 2)), mkf('KLcc', v=alt(0, 2)), mkf('KL', v=alt(1, 0)), mkf('Huber', 0),
                       mkf('IndBox', 1, 1)]
        if m == 1:
            leaves += [mkf('Linf'), mkf('IndBall1'), mkf('Quad', 0, 0, v=alt(1, H))]
        if fu.is_vf(kind):
            leaves += [mkf('GroupL1'), mkf('IndGroupBall'), mkf('GroupL1', 1), dict(mkf('GroupL1'), s=[1, 0]),
                       mkf('IndGroupBall', 1), dict(mkf('IndGroupBall'), s=[1, 0])]
        if kind == 'pspace':
            leaves = [mkf('SepSum', args=[a, b]) for a, b in [(mkf('L1'), mkf('L2sq')), (mkf('L2'), mkf('IndBallInf')),
                                                              (mkf('Huber', (1, 2)), mkf('L1'))]] + leaves[:4]
        rv = lambda: [Fraction(rnd.choice([-2, -1, 1, 1, 2]), rnd.choice([1, 2])) for _ in range(N)]
        rules = [lambda g: g,
                 lambda g: mkf('Translate', u=rv(), args=[g]),
                 lambda g: mkf('ArgScale', rnd.choice([(2, 1), (-1, 2), (-1, 1)]), args=[g]),
                 lambda g: mkf('LScale', rnd.choice([(2, 1), (1, 2), (4, 1)]), args=[g]),
                 lambda g: mkf('RVec', v=[Fraction(rnd.choice([-2, 1, 2]), rnd.choice([1, 2])) for _ in range(N)], args=[g]),
                 lambda g: mkf('AddConst', 0, -2, args=[g]),
                 lambda g: mkf('QuadPert', 0, 1, u=rv(), args=[g]),
                 lambda g: mkf('Bregman', v=rv(), u=rv(), args=[g]),
                 # FunctionalQuadraticPerturb: {coefficient 0 / > 0} x {linear term absent / explicit zero / nonzero} x
                 # {constant 0 / != 0}, members the rule above does not reach; Bregman distance with the sub-gradient 0
                 lambda g: mkf('QuadPert', 0, rnd.choice([(-3, 2), (7, 4)]), args=[g]),
                 lambda g: mkf('QuadPert', 0, rnd.choice([(-3, 2), (7, 4)]), u=[0] * N, args=[g]),
                 lambda g: mkf('QuadPert', 0, 0, u=[0] * N, args=[g]),
                 lambda g: mkf('QuadPert', 0, 0, u=rv(), args=[g]),
                 lambda g: mkf('QuadPert', (1, 2), rnd.choice([(-3, 2), (7, 4)]), u=rnd.choice([[], [0] * N, rv()]), args=[g]),
                 lambda g: mkf('Bregman', v=rv(), u=[0] * N, args=[g]),
                 lambda g: mkf('InfConv', args=[g, mkf('L2sq')])]
        for leaf in leaves:
            picks = rules if not quick else [rules[0]] + rnd.sample(rules[1:], 2)
            for rule in picks:
                prog = rule(leaf)
                if prog['op'] in ('Bregman', 'InfConv') and not all(
                        o in FINITE_LEAVES or o in ('Bregman', 'InfConv', 'SepSum') for o in fu.ops_of(prog)):
                    continue       # reference point of a Bregman distance / first operand: inside dom f
                if prog['op'] == 'RVec' and kind == 'pspace':
                    continue
                out.append((spd_, prog))
    return out


def driver_program(arg):
    spd, f, seed, npts = arg[:4]
    idx = arg[4] if len(arg) > 4 else 0
    kind, m, n, W = spd[:4]
    sp = fu.sp_desc(*spd)
    N = m * n
    res = _new_res()
    rnd = _rnd(json.dumps(f, sort_keys=True) + kind + str(N), seed)
    try:
        B = fu.Built(sp, f, 0, layout=(idx + seed) % 4)
    except (NotImplementedError, fu.Unbuildable):
        res['noconj'] += 1
        return res
    except Exception as e:
        res['viol'].append((fu.signature(sp, f, 'construction-raises', {'error': type(e).__name__}),
                            {'stage': 'driver', 'sp': sp, 'f': f, 'error': str(e)[:200]}))
        return res
    res['classes'] |= fu.class_names(B.func)
    H = Fraction(1, 2)
    pos = any(o == 'KL' for o in fu.ops_of(f))
    small = any(o == 'KLcc' for o in fu.ops_of(f))
    fixed_x = [[0] * N, [Fraction(i + 1, 2) for i in range(N)], [(-1) ** i * H for i in range(N)], [2] * N]
    rand_x = [[Fraction(rnd.randint(-8, 8), 4) for _ in range(N)] for _ in range(npts)]
    fixed_y = [[0] * N, [H] * N, [(-1) ** i for i in range(N)]]
    rand_y = [[Fraction(rnd.randint(-8, 8), 4) for _ in range(N)] for _ in range(npts)]
    xs, ys = fixed_x + rand_x, fixed_y + rand_y
    if pos:
        xs = [[abs(v) + Fraction(1, 4) for v in x] for x in xs]
    if small:
        xs = [[min(v, Fraction(3, 4)) for v in x] for x in xs]
    q = lambda vs: [fu.qj(Fraction(v)) for v in vs]
    cases = [{'sig': [fu.qj(s)] * N, 'x': q(x), 'nz': 0, 'z': []} for s in (H, Fraction(2)) for x in xs[:3]]
    observe_program(B, [q(x) for x in xs], [q(y) for y in ys], [], cases, rnd, res, 'driver', sp, f, kind + str(N),
                    N <= 3, 6)
    return res



# ------------------------------------------------------------------ derived-of-derived: the conjugate chain
def _rel(res, sigd, det, cl, mode, lhs, rhs):
    res['counts'].append(([sigd.get('ops'), sigd.get('option', ''), cl, det.get('node'), str(det.get('at'))], True))
    if math.isfinite(lhs) and math.isfinite(rhs):
        ok = (lhs >= rhs - SLACK * max(1.0, abs(lhs), abs(rhs))) if mode == 'ge' else close(lhs, rhs)
    else:
        ok = (lhs == rhs) if mode == 'eq' else (lhs >= rhs)
    d = dict(det, observed={'lhs': lhs, 'rhs': rhs})
    if not ok:
        res['viol'].append((dict(sigd, clause=cl, node=det.get('node', '')), d))
    ev = fu.rel_event(cl, mode, lhs, rhs)
    if ev is not None:
        res['events'].append((ev, d))


def chain_nodes(func, depth=4):
    """f, f*, f**, f*** as the library builds them (stops where a conjugate is not offered)."""
    nodes = [func]
    for _ in range(depth - 1):
        try:
            nodes.append(nodes[-1].convex_conj)
        except Exception:
            break
    return nodes


def _call(fn, z):
    try:
        v = float(fn(z))
        return v
    except Exception:
        return None


def _prox(fn, s, z):
    try:
        return fn.proximal(s)(z)
    except Exception:
        return None


def chain_relations(nodes, refs, xs, ys, inner, res, sigd, det0, names=('f', 'f*', 'f**', 'f***')):
    """At EVERY node of the chain: values / proximals against the reference of that node (refs[k], may be None),
    Fenchel-Young with the next node, Moreau between the node's proximal and the next node's proximal.
    xs: primal points (elements), ys: dual points; node k lives on the primal side for even k."""
    for k, nd in enumerate(nodes):
        pts = xs if k % 2 == 0 else ys
        oth = ys if k % 2 == 0 else xs
        det = dict(det0, node=names[k])
        ref = refs[k] if k < len(refs) else None
        for i, z in enumerate(pts):
            vz = _call(nd, z)
            if ref is not None and vz is not None:
                rz = _call(ref, z)
                if rz is not None:
                    _rel(res, sigd, dict(det, at=i), 'chain-value', 'eq', vz, rz)
            if ref is not None:
                for s in (0.5, 2.0):
                    a, b = _prox(nd, s, z), _prox(ref, s, z)
                    if a is not None and b is not None:
                        _rel(res, sigd, dict(det, at=i, sigma=s), 'chain-proximal', 'eq', float((a - b).norm()), 0.0)
                try:
                    ga, gb = nd.gradient(z), ref.gradient(z)
                    if np.all(np.isfinite(fu.flat(ga))) and np.all(np.isfinite(fu.flat(gb))):
                        _rel(res, sigd, dict(det, at=i), 'chain-gradient', 'eq', float((ga - gb).norm()), 0.0)
                except Exception:
                    pass
            if k + 1 < len(nodes):
                nx = nodes[k + 1]
                if vz is not None:
                    for j, w in enumerate(oth[:3]):
                        vw = _call(nx, w)
                        if vw is not None:
                            _rel(res, sigd, dict(det, at=(i, j)), 'fenchel-young-inequality', 'ge', vz + vw, float(inner(z, w)))
                for s in (0.5, 2.0):
                    a, b = _prox(nd, s, z), _prox(nx, 1.0 / s, z / s)
                    if a is not None and b is not None:
                        _rel(res, sigd, dict(det, at=i, sigma=s), 'moreau', 'eq', float((a + s * b - z).norm()), 0.0)


def walk_chain(B, xqs, yqs, res, stage, sp, f, space_name):
    """Class-based catalogue program: f -> f* -> f** -> f***; f** against f and f*** against f* (values, proximals),
    Fenchel-Young and Moreau at every node."""
    nodes = chain_nodes(B.func)
    if len(nodes) < 3:
        return
    refs = [None, None, nodes[0], nodes[1]]
    xs = [B.el(fu.frv(q)) for q in xqs]
    ys = [B.el(fu.frv(q)) for q in yqs]
    sigd = fu.signature(sp, f, '')
    chain_relations(nodes, refs, xs, ys, lambda a, b: a.inner(b), res, sigd,
                    {'stage': stage + ':chain', 'sp': sp, 'f': f, 'xs': xqs, 'ys': yqs, 'layout': B.layout})


def user_recipes():
    """User-built functionals (public factory odl.solvers.simple_functional) assembled from the exact callables of a
    known conjugate pair, and the default conjugate object, on one- and multi-axis spaces."""
    import odl
    S = fu.S
    out = []
    spaces = [('rn3', lambda: odl.rn(3)), ('rn(1,4)w', lambda: odl.rn((1, 4), weighting=4.0)),
              ('discr(2,2)', lambda: odl.uniform_discr([0, 0], [4, 1], (2, 2)))]
    bases = [('half-L2sq', lambda X: 0.5 * S.L2NormSquared(X)), ('L1', lambda X: S.L1Norm(X)),
             ('Huber', lambda X: S.Huber(X, 0.5)), ('2*L2', lambda X: 2.0 * S.L2Norm(X)),
             ('KL', lambda X: S.KullbackLeibler(X, prior=X.element(np.arange(1, X.size + 1, dtype=float).reshape(X.shape))))]
    for snm, mkX in spaces:
        for bnm, mkg in bases:
            out.append(('simple_functional', '%s on %s' % (bnm, snm), lambda mkX=mkX, mkg=mkg: _user(mkX(), mkg, True)))
        for bnm, mkg in bases[1:4]:
            out.append(('FunctionalDefaultConvexConjugate', '%s on %s' % (bnm, snm),
                        lambda mkX=mkX, mkg=mkg: _user(mkX(), mkg, False)))
    return out


def _user(X, mkg, simple):
    S = fu.S
    g = mkg(X)
    gc = g.convex_conj

    def opt(obj, name):
        try:
            return getattr(obj, name)
        except Exception:
            return None
    if simple:
        sf = S.simple_functional(X, fcall=lambda x: g(x), grad=opt(g, 'gradient'), prox=g.proximal,
                                 grad_lip=g.grad_lipschitz, convex_conj_fcall=lambda y: gc(y),
                                 convex_conj_grad=opt(gc, 'gradient'), convex_conj_prox=gc.proximal,
                                 convex_conj_grad_lip=gc.grad_lipschitz)
        nodes = chain_nodes(sf, 4)
        refs = [g, gc, g, gc]
    else:
        from odl.solvers.functional.functional import FunctionalDefaultConvexConjugate
        d = FunctionalDefaultConvexConjugate(g)
        nodes = [d] + chain_nodes(d.convex_conj, 3)
        refs = [gc, g, gc, g]
    return X, nodes, refs


def user_program(arg):
    idx, seed, npts = arg
    name, option, mk = user_recipes()[idx]
    res = _new_res()
    X, nodes, refs = mk()
    res['classes'] |= {name} | set(type(n).__name__ for n in nodes)
    rnd = _rnd(name + option, seed)
    N = X.size
    pos = option.startswith('KL')
    mkel = lambda v: X.element(np.asarray(v, dtype=float).reshape(X.shape))
    raw = [[3.0 if i % 2 == 0 else -4.0 for i in range(N)], [(i + 1) / 2.0 for i in range(N)], [0.0] * N] + \
          [[rnd.randint(-8, 8) / 4.0 for _ in range(N)] for _ in range(npts)]
    xs = [mkel([abs(v) + 0.25 for v in r] if pos else r) for r in raw]
    ys = [mkel([min(v, 0.75) for v in r] if pos else r) for r in ([[0.0] * N, [0.5] * N, [(-1.0) ** i * 0.25 for i in range(N)]] +
                                                                  [[rnd.randint(-4, 4) / 4.0 for _ in range(N)] for _ in range(npts)])]
    first_dual = name.startswith('FunctionalDefault')
    if first_dual:
        xs, ys = ys, xs
    sigd = {'leaf': name, 'ops': name, 'option': option, 'space': 'opaque'}
    chain_relations(nodes, refs, xs, ys, lambda a, b: a.inner(b), res, sigd,
                    {'stage': 'user', 'recipe': idx, 'name': name, 'option': option,
                     'sp': {'kind': 'opaque', 'm': 1, 'n': N, 'W': []}, 'f': mkf(name)})
    return res


def klce_program(arg):
    """Boundary data of the KL cross-entropy pair (relational): x with ZERO entries (0 log 0 = 0), the conjugate at
    y = f.gradient(x), biconjugate values on the boundary."""
    idx, seed = arg
    import odl
    S = fu.S
    res = _new_res()
    X = [odl.rn(3), odl.uniform_discr([0, 0], [2, 1.5], (1, 3)), odl.rn(3, weighting=4.0)][idx]
    mkel = lambda v: X.element(np.asarray(v, dtype=float).reshape(X.shape))
    sigd = {'leaf': 'KullbackLeiblerCrossEntropy', 'ops': 'KullbackLeiblerCrossEntropy', 'option': str(X)[:24], 'space': 'opaque'}
    det0 = {'stage': 'klce', 'recipe': idx, 'sp': {'kind': 'opaque', 'm': 1, 'n': 3, 'W': []}, 'f': mkf('KullbackLeiblerCrossEntropy')}
    for prior in ([1.0, 2.0, 0.5], None):
        f = S.KullbackLeiblerCrossEntropy(X, prior=mkel(prior)) if prior else S.KullbackLeiblerCrossEntropy(X)
        res['classes'] |= {type(f).__name__, type(f.convex_conj).__name__}
        nodes = chain_nodes(f, 4)
        xs = [mkel(v) for v in ([1.0, 2.0, 0.5], [2.0, 0.0, 1.0], [0.0, 0.0, 3.0], [4.0, 1.0, 0.25])]
        ys = [mkel(v) for v in ([0.0, 0.0, 0.0], [0.5, -1.0, 0.25], [1.0, 1.0, -2.0])]
        chain_relations(nodes, [None, None, nodes[0], nodes[1]], xs, ys, lambda a, b: a.inner(b), res, sigd,
                        dict(det0, prior=str(prior)))
        for i, x in enumerate(xs):            # equality at the gradient (interior points only: log is finite there)
            if not np.all(fu.flat(x) > 0):
                continue
            y = f.gradient(x)
            _rel(res, sigd, dict(det0, node='f', at=i, prior=str(prior)), 'fenchel-young-equality', 'eq',
                 float(f(x)) + float(nodes[1](y)), float(x.inner(y)))
    return res


# ------------------------------------------------------------------ indicators just outside their set
def tiny_cases():
    """(space descriptor, layout, program, b, d): b on the boundary of the set, d an outward direction (the
    specification decides that the WHOLE ray b + t d, t > 0, is outside: FuncSem!OutsideRay)."""
    H = Fraction(1, 2)
    out = []
    spaces = [(('rn', 1, 3, [1] * 3), 0, 1), (('rnw', 1, 4, [4] * 4), 1, H), (('discr', 1, 4, [2] * 4), 2, H),
              (('discr', 1, 3, [H] * 3), 0, 1), (('power', 2, 2, [2] * 4), 1, H)]
    for spd, layout, r in spaces:
        kind, m, n, W = spd
        N = m * n
        e = lambda i, s=1: [Fraction(s) if j == i else Fraction(0) for j in range(N)]
        alt = [Fraction(1) if j % 2 == 0 else Fraction(-1, 2) for j in range(N)]
        zero = [Fraction(0)] * N
        progs = []
        for cst in (0, 1):
            progs += [(mkf('IndZero', 0, cst), zero, e(i)) for i in (0, N - 1)]
        progs += [(mkf('Translate', u=alt, args=[mkf('IndZero')]), alt, e(1, -1))]
        top = [Fraction(2)] + [Fraction(0)] * (N - 2) + [Fraction(-1)]
        progs += [(mkf('IndBox', -1, 2), top, e(0)), (mkf('IndBox', -1, 2), top, e(N - 1, -1)),
                  (mkf('IndBox', 1, 1), [Fraction(1)] * N, e(1)),
                  (mkf('IndNonneg'), e(1), e(0, -1))]
        binf = [Fraction(1), Fraction(-1, 2)] + [Fraction(0)] * (N - 2)
        progs += [(mkf('IndBallInf'), binf, binf)]
        if kind != 'power':
            w = Fraction(W[0])
            b1 = [1 / w] + [Fraction(0)] * (N - 1)
            b1b = [1 / (2 * w), -1 / (2 * w)] + [Fraction(0)] * (N - 2)
            progs += [(mkf('IndBall1'), b1, b1), (mkf('IndBall1'), b1b, b1b)]
        # a point of W-norm 1 with dyadic entries
        w = Fraction(W[0])
        b2 = {1: e(0), 4: e(0, H), 2: [H, H] + [Fraction(0)] * (N - 2), H: [Fraction(1), Fraction(1)] + [Fraction(0)] * (N - 2)}[w]
        progs += [(mkf('IndBall2'), b2, b2)]
        if kind == 'power':
            g = [Fraction(1), Fraction(0), Fraction(0), Fraction(0)]          # |x(1)|_p = 1 for every p
            progs += [(dict(mkf('IndGroupBall'), s=s_), g, g) for s_ in ([0, 1], [1, 1], [1, 0])]
        # conjugates of constant / zero / affine / linear functionals: dom f* is a single point
        progs += [(mkf('Conj', args=[mkf('Const', 0, 3)]), zero, e(0)), (mkf('Conj', args=[mkf('Const', 0, 0)]), zero, e(N - 1, -1)),
                  (mkf('Conj', args=[mkf('Quad', 0, 1, u=alt)]), alt, e(0)), (mkf('Conj', args=[mkf('Quad', 0, 0, u=alt)]), alt, e(1, -1))]
        for prog, b, d in progs:
            out.append((spd, layout, prog, b, d))
    return out


def tiny_program(arg):
    idx, seed = arg
    spd, layout, prog, b, d = tiny_cases()[idx]
    kind, m, n, W = spd
    sp = fu.sp_desc(kind, m, n, W)
    res = _new_res()
    try:
        B = fu.Built(sp, prog, 0, layout=layout)
    except (NotImplementedError, fu.Unbuildable):
        return res
    res['classes'] |= fu.class_names(B.func)
    q = lambda vs: [fu.qj(Fraction(v)) for v in vs]
    radial = (d == b)
    for k in (30, 40):
        t = 2.0 ** -k
        pt = [float(bi) * (1 + t) for bi in b] if radial else [float(bi) + t * float(di) for bi, di in zip(b, d)]
        try:
            with np.errstate(all='ignore'):
                v = float(B.func(B.el(pt)))
        except Exception as e:
            res['viol'].append((fu.signature(sp, prog, 'call-raises', {'error': type(e).__name__}),
                                {'stage': 'tiny', 'case': idx, 'sp': sp, 'f': prog, 'error': str(e)[:200]}))
            break
        res['counts'].append(([prog, kind, 'outside', q(b), q(d), k], True))
        det = {'stage': 'tiny', 'case': idx, 'sp': sp, 'f': prog, 'b': q(b), 'd': q(d), 'k': k, 'layout': layout,
               'observed': {'point': pt, 'value': v}}
        res['events'].append(({'k': 'outside', 'sp': sp, 'f': prog, 'b': q(b), 'd': q(d), 'e': k,
                               'fin': 1 if math.isfinite(v) else 0}, det))
        # Fenchel-Young inequality with a LARGE primal point: f(x) + f*(y) >= <x, y> (observed numbers)
        if prog['op'] == 'Conj':
            f0 = fu.Built(sp, prog['args'][0], 0, layout=layout)
            for s in (10, 20):
                x = B.el([2.0 ** s * (1 if i % 2 == 0 else -1) * (1 if float(d[i % len(d)]) >= 0 else -1) for i in range(len(b))])
                y = B.el(pt)
                lhs, rhs = float(f0.func(x)) + v, float(x.inner(y))
                res['counts'].append(([prog, kind, 'fy-large', q(b), q(d), k, s], True))
                if math.isfinite(lhs) and lhs < rhs - SLACK * max(1.0, abs(lhs), abs(rhs)):
                    res['viol'].append((fu.signature(sp, prog, 'fenchel-young-inequality', {'at': 'large-x-tiny-y'}),
                                        dict(det, observed={'f(x)+f*(y)': lhs, '<x,y>': rhs, 'scale': s})))
    return res


# ------------------------------------------------------------------ parametrised conjugate pairs (relational)
def _dual_vec(xv, w, p):
    """The Hoelder-dual direction of a vector for the p-norm with measure w: <x, y>_w = |x|_p and |y|_q = 1.
    (Only used to CHOOSE graph pairs (x, y); what is checked is a relation between observed numbers.)"""
    xv = np.asarray(xv, dtype=float)
    if not np.any(xv):
        return np.zeros_like(xv)
    if p == 1:
        return np.sign(xv)
    if np.isinf(p):
        k = int(np.argmax(np.abs(xv)))
        y = np.zeros_like(xv)
        y[k] = np.sign(xv[k]) / w[k]
        return y
    nrm = float(np.sum(w * np.abs(xv) ** p)) ** (1.0 / p)
    return np.abs(xv) ** (p - 1) * np.sign(xv) / nrm ** (p - 1)


def pair_recipes():
    """(name, option, builder) ; builder() -> dict(space, norm, ball, dual(x flat) or None, el(flat), N, pts)"""
    import odl
    S = fu.S
    out = []

    def lp(mk, p):
        X = mk()
        w = np.array([float(X.one().inner(X.one())) / X.size] * X.size)
        return {'space': X, 'norm': S.LpNorm(X, p), 'ball': S.IndicatorLpUnitBall(X, fu.odl.util.conj_exponent(p)),
                'dual': lambda xv: _dual_vec(xv, w, p), 'N': X.size}
    for nm, mk in [('rn', lambda: odl.rn(3)), ('rnw', lambda: odl.rn(3, weighting=4.0)),
                   ('discr', lambda: odl.uniform_discr(0, 1.5, 3))]:
        for pe in (1, 1.5, 2, 3, 4, np.inf):
            out.append(('LpNorm', 'exponent=%s space=%s' % (pe, nm), lambda mk=mk, pe=pe: lp(mk, pe)))

    def grp(m, pe):
        V = odl.uniform_discr(0, 1.5, 3) ** m
        w = 0.5

        def dual(xv):
            arr = np.asarray(xv, dtype=float).reshape(m, 3)
            y = np.zeros_like(arr)
            for i in range(3):
                if np.isinf(pe):
                    k = int(np.argmax(np.abs(arr[:, i])))
                    y[k, i] = np.sign(arr[k, i])
                else:
                    y[:, i] = _dual_vec(arr[:, i], np.ones(m), pe)
            return y.ravel()
        return {'space': V, 'norm': S.GroupL1Norm(V, exponent=pe),
                'ball': S.IndicatorGroupL1UnitBall(V, exponent=fu.odl.util.conj_exponent(pe)), 'dual': dual, 'N': 3 * m}
    for m in (2, 3):
        for pe in (1, 2, np.inf):
            out.append(('GroupL1Norm', 'exponent=%s m=%d' % (pe, m), lambda m=m, pe=pe: grp(m, pe)))

    def nuc(oe, se):
        M = odl.ProductSpace(odl.ProductSpace(odl.rn(2), 2), 2)
        ce = fu.odl.util.conj_exponent
        return {'space': M, 'norm': S.NuclearNorm(M, oe, se), 'ball': S.IndicatorNuclearNormUnitBall(M, ce(oe), ce(se)),
                'dual': None, 'N': 8}
    for oe, se in [(1, 1), (1, 2), (1, np.inf), (2, 2), (np.inf, 1)]:
        out.append(('NuclearNorm', 'outer_exp=%s singular_vector_exp=%s' % (oe, se), lambda oe=oe, se=se: nuc(oe, se)))
    return out


def pair_program(arg):
    """Fenchel-Young (inequality everywhere, equality at graph pairs), biconjugate and Moreau for one parametrised
    pair, starting from BOTH members; only relations between observed numbers (event kind "rel")."""
    idx, seed, npts = arg
    name, option, mk = pair_recipes()[idx]
    res = _new_res()
    R = mk()
    X, N = R['space'], R['N']
    rnd = _rnd(name + option, seed)
    el = lambda v: fu.element(X, None, list(v))
    res['classes'] |= {type(R['norm']).__name__, type(R['ball']).__name__}
    pts = [[Fraction(3) if i % 2 == 0 else Fraction(-4) for i in range(N)], [Fraction(i + 1, 2) for i in range(N)],
           [Fraction((-1) ** i, 2) for i in range(N)]] + \
          [[Fraction(rnd.randint(-8, 8), 4) for _ in range(N)] for _ in range(npts)]
    smalls = [[v / 16 for v in q] for q in pts]                 # inside the unit balls
    space_name = option

    def emit(start, cl, mode, lhs, rhs, **info):
        res['counts'].append(([name, option, start, cl, info.get('x'), info.get('y')], True))
        ok = (lhs >= rhs - SLACK * max(1.0, abs(lhs), abs(rhs))) if mode == 'ge' else close(lhs, rhs)
        det = {'stage': 'pair', 'recipe': idx, 'name': name, 'option': option, 'start': start,
               'observed': dict(info, lhs=lhs, rhs=rhs), 'sp': {'kind': 'opaque', 'm': 1, 'n': N, 'W': []},
               'f': mkf(name)}
        if not (math.isfinite(lhs) and math.isfinite(rhs)):
            ok = (lhs == rhs) if mode == 'eq' else (lhs >= rhs)
        if not ok:
            res['viol'].append(({'leaf': name, 'ops': name, 'option': option, 'space': 'opaque', 'start': start,
                                 'clause': cl}, det))
        ev = fu.rel_event(cl, mode, lhs, rhs)
        if ev is not None:
            res['events'].append((ev, det))
    for start, f in (('norm', R['norm']), ('indicator', R['ball'])):
        try:
            fc = f.convex_conj
            fcc = fc.convex_conj
        except Exception as e:
            res['viol'].append(({'leaf': name, 'ops': name, 'option': option, 'space': 'opaque', 'start': start,
                                 'clause': 'convex_conj-raises', 'error': type(e).__name__},
                                {'stage': 'pair', 'recipe': idx, 'error': str(e)[:200]}))
            continue
        # the member that is an indicator is evaluated inside its ball, the norm anywhere
        xs = pts if start == 'norm' else smalls
        ys = smalls if start == 'norm' else pts
        for xv in xs:
            x = el(xv)
            fx = float(f(x))
            xq = [str(t) for t in xv]
            emit(start, 'biconjugate', 'eq', float(fcc(x)), fx, x=xq)
            for yv in ys[:3]:
                y = el(yv)
                emit(start, 'fenchel-young-inequality', 'ge', fx + float(fc(y)), float(x.inner(y)), x=xq,
                     y=[str(t) for t in yv])
        for xv in pts:                                           # far outside / on the other side as well
            x = el(xv)
            emit(start, 'biconjugate', 'eq', float(fcc(x)), float(f(x)), x=[str(t) for t in xv])
        # equality at graph pairs (x, y): y the dual direction of x
        if R['dual'] is not None:
            for xv in pts:
                yv = R['dual']([float(t) for t in xv])
                x, y = el(xv), el(yv)
                if start == 'norm':
                    a, b, ip = float(f(x)), fu.value_near(fc, _El(el), list(yv), [np.zeros(N)])[0], float(x.inner(y))
                else:
                    a, b, ip = fu.value_near(f, _El(el), list(yv), [np.zeros(N)])[0], float(fc(x)), float(x.inner(y))
                emit(start, 'fenchel-young-equality', 'eq', a + b, ip, x=[str(t) for t in xv], y=list(map(float, yv)))
    # Moreau: a relation between the two observed proximals of the pair
    try:
        P0 = R['norm'].proximal
        Q0 = R['ball'].proximal
        have = True
        P0(1.0), Q0(1.0)
    except Exception:
        have = False
    if have:
        for s in (0.5, 2.0):
            for xv in pts[:4]:
                x = el(xv)
                try:
                    r = float((R['norm'].proximal(s)(x) + s * R['ball'].proximal(1.0 / s)(x / s) - x).norm())
                except Exception:
                    break
                emit('norm', 'moreau', 'eq', r, 0.0, x=[str(t) for t in xv], sigma=s)
    return res


class _El(object):
    """adapter: funcutil.value_near wants an object with .el(vals)"""

    def __init__(self, el):
        self.el = el

def driver_jobs(seed, quick):
    dprogs = driver_programs(quick, random.Random(seed * 7919 + 11))
    return [(driver_program, [(spd, f, seed, 2 if quick else 6, i) for i, (spd, f) in enumerate(dprogs)]),
            (pair_program, [(i, seed, 2 if quick else 8) for i in range(len(pair_recipes()))]),
            (user_program, [(i, seed, 2 if quick else 6) for i in range(len(user_recipes()))]),
            (klce_program, [(i, seed) for i in range(3)]),
            (tiny_program, [(i, seed) for i in range(len(tiny_cases()))])]


# ------------------------------------------------------------------ check
def run(ctx):
    quick = ctx.tier == 'quick'
    ctx.rule = ('functional programs of the bounded FuncMachine (depth <= 1 on every leaf, 2 on a core; 6 space kinds + weighted '
                'power spaces with array / constant / below-one component weights; FunctionalQuadraticPerturb over {coefficient 0 / >0} '
                'x {linear term absent / explicit zero / nonzero} x {constant 0 / !=0}, Bregman distances with a nonzero and with the '
                'zero sub-gradient) x lattice '
                'points (x, y): Fenchel-Young pairs, equality pairs (y in subdiff f(x) by TLC, and y = f.gradient(x)), '
                'biconjugate values, Moreau pairs of proximals; distinct = hash of (program, space, relation, points); '
                'non-trivial = equality pair or f(x) + f*(y) finite and non-zero / certified prox differs from x')
    ctx.assumptions += [
        'conjugate values expected by the specification come from a Fenchel-equality witness on the quarter lattice in [-4,4]^n; '
        'where no witness exists only the inequality and the relations between observed numbers are checked',
        'equality clauses use relative slack 1e-9 on observed floats and exact comparison after snapping in TLC',
        'KL-type values are irrational: quantised relations only',
        'on a weighted power space the catalogue-pair law GroupL1Norm <-> IndicatorGroupL1UnitBall is stated for the point-wise '
        'exponent 2 only: with the documented weighted point-wise 1- / max-norms the exponent pairs 1 <-> inf are not conjugate '
        '(refuted by TLC; the real classes are compared with the witness-search conjugate)',
        'a functional whose convex_conj is the default object (not evaluable) takes part in the Moreau relation only']
    import time
    t0 = time.time()
    jobs, exports = tlc_jobs(ctx, quick)
    results = fu.run_jobs_allow(ctx, jobs)
    stage = {'tlc_model_export': round(time.time() - t0, 1)}
    for name, res in results.items():
        # the pair laws are the INIT predicate of the pairs model: a false law leaves no initial state (TLC: 0 states)
        if name.startswith('pairs-') and not res.generated:
            raise MachineryError('catalogue pair laws refuted by TLC on %s (no initial state)' % name)
    design = set()
    for name, res in results.items():
        if name.startswith('impl-'):
            design |= fu.impl_mismatches(res)
    ctx.extra['layerC_vs_layerA_mismatch_cells'] = sorted('%s %s %s' % t for t in design)[:200]
    recs = []
    for path in exports:
        recs += fu.read_export(path)
    if not recs:
        raise MachineryError('empty export')
    seen, progs = set(), []
    for r in recs:
        k = json.dumps(r['f'], sort_keys=True) + r['space']
        if k not in seen:
            seen.add(k)
            progs.append(r)
    ctx.extra['programs_exported'] = len(progs)
    ctx.extra['programs_by_outermost_rule'] = fu.by_rule(progs)       # every action of the machine is exercised
    dprogs = driver_jobs(ctx.seed, quick)[0][1]
    sink = fu.EventSink(ctx, 'c08')
    classes = set()
    tot = {'noconj': 0, 'nomoreau': 0, 'evaluable': 0, 'n': 0}

    def absorb(o):
        for sig, det in o['viol']:
            fu.report(ctx, sig, det)
        for key, nt in o['counts']:
            ctx.count(key, nt)
        for ev, det in o['events']:
            sink.add(ev, det)
        classes.update(o['classes'])
        for k in ('noconj', 'nomoreau', 'evaluable'):
            tot[k] += o[k]
        tot['n'] += len(o['counts'])
        for s in o['samples']:
            if len(ctx.samples) < 5:
                ctx.sample(s)
    with mp.Pool(min(14, os.cpu_count() or 4)) as pool:
        for i, r in enumerate(progs):
            r['idx'] = i
        for o in pool.imap(replay_program, [(r, ctx.seed, quick) for r in progs], chunksize=4):
            absorb(o)
        for fn, args in driver_jobs(ctx.seed, quick):
            for o in pool.imap(fn, args, chunksize=2):
                absorb(o)
    stage['replay_and_driver'] = round(time.time() - t0 - stage['tlc_model_export'], 1)
    ctx.traces += tot['n']
    ctx.extra['programs_without_convex_conj'] = tot['noconj']
    ctx.extra['programs_with_evaluable_conjugate'] = tot['evaluable']
    ctx.extra['driver_programs'] = len(dprogs)
    fails = sink.validate()
    stage['tlc_trace_validation'] = round(time.time() - t0 - stage['tlc_model_export'] - stage['replay_and_driver'], 1)
    ctx.extra['stage_wall_s'] = stage
    for eid, clauses in sorted(fails.items()):
        ev, det = sink.get(eid)
        for cl in clauses:
            if cl == 'value':
                msg = 'f_real differs from Val (C09 clause): %s' % fu.shape(det['f'])
                if msg not in ctx.drift:
                    ctx.drift_note(msg)
                continue
            d = dict(det)
            d['stage'] = 'trace:' + det['stage']
            d['event'] = ev
            d['tlc_clauses'] = clauses
            if det['stage'] == 'pair':
                fu.report(ctx, {'leaf': det['name'], 'ops': det['name'], 'option': det['option'], 'space': 'opaque',
                                'start': det['start'], 'clause': cl}, d)
                continue
            fu.report(ctx, fu.signature(det['sp'], det['f'], cl.replace('(q)', '')), d)
    ctx.extra['trace_events_validated_by_tlc'] = sink.n
    ctx.extra['trace_events_by_kind'] = sink.kinds
    ctx.extra['trace_events_rejected_by_tlc'] = len(fails)
    fu.design_drift(ctx, design, ctx.extra.get('_ops', []))
    fu.uncovered_report(ctx, classes)
    ctx.exhaustive = True


def replay(body):
    d = body['detail']
    if d['stage'].endswith('tiny'):
        res = tiny_program((d['case'], body.get('seed', 0)))
        bad = bool(res['viol'])
        if not bad:
            from .c09 import _tlc_rejects
            bad = _tlc_rejects([e for e, _ in res['events']])
        print('REPRODUCED' if bad else 'NOT-REPRODUCED')
        return 1 if bad else 0
    if d['stage'].endswith('pair'):
        res = pair_program((d['recipe'], body.get('seed', 0), 2))
        hit = [s for s, _ in res['viol'] if s['clause'] == body['signature']['clause']]
        print('pair recipe', pair_recipes()[d['recipe']][:2], ':', len(res['viol']), 'contradicted relations now')
        for s, dd in res['viol'][:3]:
            print('observed :', s['clause'], s['start'], dd.get('observed'))
        print('REPRODUCED' if hit else 'NOT-REPRODUCED')
        return 1 if hit else 0
    sp, f = d['sp'], d['f']
    print('program  :', fu.shape(f), 'on', sp['kind'], 'W =', sp['W'])
    try:
        B = fu.Built(sp, f, d.get('variant', 0))
    except Exception as e:
        print('construction raises', type(e).__name__, e)
        print('REPRODUCED' if body['signature']['clause'] == 'construction-raises' else 'NOT-REPRODUCED')
        return 1 if body['signature']['clause'] == 'construction-raises' else 0
    res = _new_res()
    rnd = random.Random(0)
    if d['stage'].startswith('trace'):
        ev = d['event']
        xs = [ev['x']]
        ys = [ev['y']] if 'y' in ev else []
        cases = [{'sig': ev['sig'], 'x': ev['x'], 'nz': 0, 'z': []}] if ev['k'] == 'moreau' else []
        observe_program(B, xs, ys, [], cases, rnd, res, 'replay', sp, f, 'replay', True, 4)
        class C(object):
            pass
        import tempfile, shutil
        c = C()
        c.work = tempfile.mkdtemp(dir=os.path.join(os.path.dirname(os.path.dirname(os.path.dirname(__file__))), '.work'))
        c.add_tlc = lambda name, r: None
        evs = []
        for e, _ in res['events']:
            if e['k'] == ev['k']:
                e['id'] = len(evs)
                if e['k'] == 'fy':
                    e['chk'] = 1
                    e['atgrad'] = ev['atgrad'] if e['y'] == ev['y'] else e['atgrad']
                evs.append(e)
        fails = fu.validate_events(c, evs, 'replay')
        shutil.rmtree(c.work, ignore_errors=True)
        print('TLC clauses now:', fails, ' then:', d.get('tlc_clauses'))
        bad = bool(fails) or bool(res['viol'])
    else:
        xs = [d['x']] if 'x' in d else []
        ys = [d['y']] if 'y' in d and isinstance(d['y'][0], list) else []
        eqs = [[d['x'], d['y']]] if (xs and ys and body['signature']['clause'] == 'fenchel-young-equality') else []
        cases = [d['case']] if 'case' in d else []
        if body['signature']['clause'] == 'conjugate-value':
            v, err = _val(B.func.convex_conj, B.el(fu.frv(d['y'])))
            print('f*(y) observed', v, err, ' expected from TLC', d['expected_from_TLC'])
            bad = (not fu.matches(v, d['expected_from_TLC'])) if not err else True
        else:
            if not ys:
                ys = [[fu.qj(Fraction(0))] * (sp['m'] * sp['n'])]
            observe_program(B, xs, ys, eqs, cases, rnd, res, 'replay', sp, f, 'replay', False, 4)
            for s, dd in res['viol']:
                print('observed :', s['clause'], dd.get('observed'))
            bad = any(s['clause'] == body['signature']['clause'] for s, _ in res['viol'])
    print('REPRODUCED' if bad else 'NOT-REPRODUCED')
    return 1 if bad else 0

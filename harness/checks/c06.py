"""C06 - derivative(x) is the Frechet derivative of the operator at x.

  A. Arithmetic combinations: for every program of the OpMachine export whose polynomial degree is <= 4 the
     directional derivative is DEFINED FROM VALUES ONLY by the exact five-point central-difference stencil
     (layer A, OpSem!DirDeriv - independent of any chain rule).  The real expr.derivative(x)(d) is compared
     with it after snapping; expr.derivative(x) must be flagged linear and map domain -> range; linear
     programs are their own derivative.  Every observation is validated by TLC (Trace_OpMachine, kind "deriv").
  B. Built-in operators with closed-form derivatives (harness/nlops.py): relational clause - central
     differences of the real operator at h, h/2, h/4 against op.derivative(x)(d), convergence relation decided
     by TLC (Trace_Derivative).  The same relation on HISTORIES of expression objects constructed directly with their
     optional temporaries (OperatorComp tmp=, OperatorSum tmp_ran= / tmp_dom=; harness/nlops.py:history_recipes): the derivative
     taken at x, evaluated (out-of-place and in place) AFTER in-place evaluations of the expression / the derivative / a
     second derivative at another point, is still the derivative at x.
"""
import json
import os
import re
from concurrent.futures import ThreadPoolExecutor

import numpy as np
import odl

from ..tlc import run_tlc, parse_fails
from ..common import dumps, MachineryError
from .. import oputil as U
from .. import nlops as NL
from .c04 import validate_events

NANV = [[0, 0], [0, 0]]
# derivative is by design not the Frechet derivative of the discrete map / numerical differentiation operators
EXEMPT_FAMILIES = ('LinDeform', 'Numerical', 'RayTransform', 'RayBackProjection')


def check_program(ctx, line, sp, events, profile, stage):
    e = line['prog']
    js = json.dumps(e)
    sig0 = {'part': 'programs', 'profile': profile, 'top': U.top2(e), 'size': 'big' if sp.big else 'small',
            'has_mat_leaf': 'yes' if '"t": "mat"' in js else 'no', 'maps': '%s->%s' % (line['dom'], line['ran']),
            'functional_on_field': 'yes' if ('"t": "smul"' in js and ('"t": "l2sq"' in js or '"t": "l1"' in js or '"t": "linfn"' in js)) else 'no'}
    detail0 = {'stage': stage, 'line': line, 'profile': profile, 'big': sp.big}
    if profile == 'C' and '"t": "l2sq"' in js:
        # |x|^2 is not complex-differentiable; ODL documents the "C = R^2" convention for such maps.
        ctx.extra['complex_nonholomorphic_programs_skipped'] = ctx.extra.get('complex_nonholomorphic_programs_skipped', 0) + 1
        return
    try:
        op = U.build(e, sp)
    except Exception:
        return          # an expression the library cannot build is C04's business
    nontriv = U.has_nonlinear_leaf(e) and U.n_comb(e) >= 1
    if line['lin']:
        pairs = [(line['pts'][0], line['pts'][-1], None)]
    else:
        pairs = [(p[0], p[1], dd) for p, dd in zip(line['dpairs'], line['dd'])]
    for x_abs, d_abs, exp in pairs:
        ctx.count([e, x_abs, d_abs, profile, sp.big], nontriv)
        x = sp.point(line['dom'], x_abs)
        d = sp.point(line['dom'], d_abs)
        try:
            D = op.derivative(x)
        except NotImplementedError:
            ctx.extra['programs_without_derivative'] = ctx.extra.get('programs_without_derivative', 0) + 1
            return
        except Exception as ex:
            ctx.violation(dict(sig0, clause='derivative-raised', exc=type(ex).__name__), dict(detail0, exc=str(ex)[:200]))
            return
        if not D.is_linear:
            ctx.violation(dict(sig0, clause='derivative-not-linear', cls=type(D).__name__), detail0)
        if U.space_name(sp, D.domain) != line['dom'] or U.space_name(sp, D.range) != line['ran']:
            ctx.violation(dict(sig0, clause='derivative-wrong-spaces'), detail0)
            continue
        if exp is None:
            # linear program: own derivative -> D(d) must equal Eval(prog, d): validated by TLC as an "eval" event
            kind, want = 'eval', None
        else:
            kind, want = 'deriv', exp
        Dn = U.den_of([want if want is not None else line['vals'], x_abs, d_abs, line['vals']])
        try:
            obs, note = sp.project(line['ran'], D(d), Dn)
            err = ''
        except Exception as ex:
            obs, note, err = [NANV] * (2 if line['ran'] == 'V' else 1), '', type(ex).__name__
        ev = {'kind': kind, 'prog': e, 'x': x_abs if kind == 'deriv' else d_abs, 'd': d_abs if kind == 'deriv' else [],
              'val': obs, 'err': err, 'mode': 'derivative', 'profile': profile}
        events.append(ev)
        if err:
            ctx.violation(dict(sig0, clause='derivative-call-raised', exc=err), dict(detail0, x=x_abs, d=d_abs))
        elif want is not None and obs != want:
            ctx.violation(dict(sig0, clause='derivative-value'), dict(detail0, x=x_abs, d=d_abs, observed=obs,
                                                                       expected=want, note=note))
    if len(ctx.samples) < 3 and nontriv and U.n_comb(e) >= 2 and hash(json.dumps(e, sort_keys=True)) % 41 == 0:
        ctx.sample({'program': U.shape_of(e), 'profile': profile, 'x_d_pairs': line['dpairs'],
                    'stencil_directional_derivatives': line['dd']})


def builtin_events(ctx):
    events, meta, notbuilt = [], [], []
    for family, opts, fn in NL.recipes(ctx.tier):
        sig = dict(opts)
        sig.update({'part': 'builtin', 'class': family})
        try:
            op, xs, ds = fn()
            x = NL.make_point(op.domain, xs)
            d = NL.make_point(op.domain, ds)
        except Exception as ex:
            notbuilt.append('%s %s (%s)' % (family, opts, type(ex).__name__))
            continue
        ev = {'cls': family, 'err': '', 'q1': 0, 'q2': 0, 'q3': 0, 'lin': True, 'domok': True, 'ranok': True}
        try:
            errs, scale, D = NL.central_errors(op, x, d)
            ev.update(q1=NL.quant(errs[0], scale), q2=NL.quant(errs[1], scale), q3=NL.quant(errs[2], scale),
                      lin=bool(D.is_linear), domok=bool(D.domain == op.domain), ranok=bool(D.range == op.range))
        except NotImplementedError:
            ctx.extra.setdefault('recipes_without_derivative_exempt', []).append('%s %s' % (family, opts))
            continue
        except Exception as ex:
            ev['err'] = type(ex).__name__
            ev['msg'] = str(ex)[:160]
        events.append(ev)
        meta.append((sig, opts, family))
        ctx.count([family, opts], True)
    # ---- the rest of the operator catalogue: every nonlinear operator that offers a derivative
    from .. import opcatalog as C
    from .. import linops as L
    rng = np.random.default_rng(ctx.seed + 17)
    seen_nl = set((f, json.dumps(o, sort_keys=True)) for f, o, _ in NL.recipes(ctx.tier))
    for group, family, opts, fn in C.all_recipes(ctx.tier):
        if any(t in family for t in EXEMPT_FAMILIES) or (family, json.dumps(opts, sort_keys=True)) in seen_nl:
            continue
        if opts.get('derived', 'self') not in ('self', 'gradient', 'convex_conj', 'convex_conj.gradient') or 'via' in opts:
            continue
        try:
            op = fn()
            if op.is_linear:
                continue
            # deterministic generic base point and direction (not seed dependent): entries cycle through values that stay
            # >= 0.3 away from the kinks / poles of the catalogue (0, 1, pi/2, gamma) - a point on a kink is outside the claim
            n = L.dim(op.domain)
            xs = np.resize(np.array([1.3, 0.7, 1.9, 0.6, 1.35, 0.65]), n).astype(complex)
            ds = np.resize(np.array([0.5, -1.0, 0.75, 1.0, -0.25, 0.5]), n).astype(complex)
            if L.is_complex(op.domain):
                xs = xs + 1j * np.resize(np.array([0.4, -0.7, 0.3]), n)
                ds = ds + 1j * np.resize(np.array([0.5, 0.25, -1.0]), n)
            x = L.unflat(op.domain, xs)
            d = L.unflat(op.domain, ds)
        except Exception:
            continue
        sig = dict(opts)
        sig.update({'part': 'builtin', 'class': family})
        ev = {'cls': family, 'err': '', 'q1': 0, 'q2': 0, 'q3': 0, 'lin': True, 'domok': True, 'ranok': True}
        try:
            errs, scale, D = NL.central_errors(op, x, d)
            if not all(np.isfinite(errs)):
                continue            # outside the domain of the operator (indicator values, log of negatives, ...)
            ev.update(q1=NL.quant(errs[0], scale), q2=NL.quant(errs[1], scale), q3=NL.quant(errs[2], scale),
                      lin=bool(D.is_linear), domok=bool(D.domain == op.domain), ranok=bool(D.range == op.range))
        except NotImplementedError:
            continue
        except Exception as ex:
            ev['err'] = type(ex).__name__
            ev['msg'] = str(ex)[:160]
        events.append(ev)
        meta.append((sig, opts, family))
        ctx.count([family, opts], True)
    # ---- histories on expression objects built directly with their optional temporaries (OperatorComp tmp=, OperatorSum
    # tmp_ran= / tmp_dom=): derivative at x, then the temporaries are used elsewhere, then the derivative is evaluated
    nh = 0
    for family, opts, fn in NL.history_recipes(ctx.tier):
        sig = dict(opts)
        sig.update({'part': 'builtin', 'class': family})
        ev = {'cls': family, 'err': '', 'q1': 0, 'q2': 0, 'q3': 0, 'lin': True, 'domok': True, 'ranok': True}
        try:
            op, x, d, z = fn()
        except Exception as ex:
            notbuilt.append('%s %s (%s)' % (family, opts, type(ex).__name__))
            continue
        try:
            errs, scale, D = NL.history_errors(op, x, d, z, opts['history'])
            ev.update(q1=NL.quant(errs[0], scale), q2=NL.quant(errs[1], scale), q3=NL.quant(errs[2], scale),
                      lin=bool(D.is_linear), domok=bool(D.domain == op.domain), ranok=bool(D.range == op.range))
        except Exception as ex:
            ev['err'] = type(ex).__name__
            ev['msg'] = str(ex)[:160]
        events.append(ev)
        meta.append((sig, opts, family))
        ctx.count([family, opts], opts['history'] != 'none')
        nh += 1
    ctx.extra['direct_expression_history_events'] = nh
    ctx.extra['recipes_not_constructed'] = notbuilt[:40]
    return events, meta


def run(ctx):
    quick = ctx.tier == 'quick'
    ctx.rule = ('(A) OpMachine programs of polynomial degree <= 4 (all with <= 3 steps + simulated deeper ones) x (x, d) pairs x '
                'profiles x sizes, derivative defined from values by the exact 5-point stencil; (B) built-in operator '
                'recipes with closed-form derivatives, relational central-difference convergence; distinct = hash(program|'
                'recipe, x, d, profile); non-trivial = nonlinear leaf under at least one combinator / every built-in recipe')
    ctx.assumptions += [
        'base points away from documented kinks; L1-type (non-polynomial) programs are excluded from the exact stencil',
        'operators whose derivative is by design a discretisation of the continuum formula (deformation) are exempt',
        'relational clause: error(h/2) <= error(h)/3 + floor and error(h/4) <= 1e-3 (relative), h0 = 2^-6',
        'complex spaces: only holomorphic programs are decided exactly; programs containing |x|^2 (real-differentiable only, '
        'documented C = R^2 convention) are skipped and counted']
    work = ctx.work
    jobs = []
    for prof in ('R', 'RW', 'C'):
        jobs.append(('exh', prof, 's' if (quick or prof != 'R') else 'm3', None, None))
        jobs.append(('sim', prof, 'l', 'num=%d' % (150 if quick else 1500), 7))

    def go(j):
        name, prof, size, sim, depth = j
        out, res = U.export_programs(ctx, prof, size, name, simulate=sim, depth=depth,
                                     seed=(ctx.seed + 3) if sim else None)
        return j, out, res

    def gosane(prof):
        return 'sane-' + prof, run_tlc('MC_OpMachine.tla', 'MC_OpMachine_sane.cfg', work,
                                       env={'OM_PROFILE': prof, 'OM_SIZE': 's', 'OUT_FILE': os.devnull}, workers=3,
                                       timeout=1500)
    with ThreadPoolExecutor(max_workers=6) as ex:
        f1 = [ex.submit(go, j) for j in jobs]
        f2 = [ex.submit(gosane, p) for p in ('R',)]
        exports = [f.result() for f in f1]
        for f in f2:
            n, r = f.result()
            ctx.add_tlc(n, r)
    events = []
    nprog = 0
    for (name, prof, size, sim, depth), out, res in exports:
        ctx.add_tlc('export-%s-%s' % (name, prof), res)
        lines = [ln for ln in U.load_lines(out) if ln.get('supported', True) and (ln['lin'] or ln['dpairs'])]
        small, big = U.Spaces(prof, big=False), U.Spaces(prof, big=True)
        for i, line in enumerate(lines):
            nprog += 1
            check_program(ctx, line, small, events, prof, name)
            if (not quick) or (i + ctx.seed) % 6 == 0:
                check_program(ctx, line, big, events, prof, name)
    if nprog == 0:
        raise MachineryError('no program exported')
    ctx.traces += nprog
    ctx.extra['programs_replayed'] = nprog
    fails = validate_events(ctx, events, name='dertrace')
    for eid, clauses in fails:
        ev = events[eid]
        ctx.violation({'part': 'programs', 'profile': ev['profile'], 'top': U.top2(ev['prog']),
                       'has_mat_leaf': 'yes' if '"t": "mat"' in json.dumps(ev['prog']) else 'no',
                       'clause': 'trace-derivative'}, {'stage': 'trace', 'event': ev, 'tlc_clauses': clauses})
    ctx.extra['program_events_validated_by_tlc'] = len(events)

    bev, meta = builtin_events(ctx)
    p = os.path.join(work, 'builtin_deriv.ndjson')
    with open(p, 'w') as f:
        for k, ev in enumerate(bev):
            e = {k2: v for k2, v in ev.items() if k2 != 'msg'}
            e['id'] = k
            f.write(json.dumps(e) + '\n')
    res = run_tlc('Trace_Derivative.tla', 'Trace_Derivative.cfg', work, env={'TRACE_FILE': p}, workers=1, timeout=1500)
    ctx.add_tlc('trace-builtin-derivatives', res)
    ctx.traces += len(bev)
    nfail = 0
    for _ln, k, _cl in parse_fails(res.output):
        if True:
            nfail += 1
            sig, opts, family = meta[k]
            for clause in sorted(set(re.findall(r'<<\s*"([\w-]+)"', _cl))):
                s = dict(sig, clause=clause)
                if clause == 'raised':
                    s['exc'] = bev[k]['err']
                ctx.violation(s, {'stage': 'builtin', 'class': family, 'options': opts, 'event': bev[k]})
    ctx.extra['builtin_recipes_checked'] = len(bev)
    ctx.extra['builtin_recipes_rejected_by_tlc'] = nfail
    if bev:
        ctx.sample({'builtin_event': bev[len(bev) // 3]})
    # ---- product-space block operators with a layer-A meaning (BlockOpSem / BlockOpMachine): the derivative clauses
    from ..extras import blockops
    blockops.run_stage_c06(ctx)
    ctx.exhaustive = True


def replay(body):
    d = body['detail']
    if body.get('signature', {}).get('part') == 'blockops':
        from ..extras import blockops
        return blockops.replay(body)
    if d.get('stage') == 'builtin' and 'history' in d.get('options', {}):
        for family, opts, fn in NL.history_recipes('thorough'):
            if family == d['class'] and opts == d['options']:
                try:
                    op, x, dd, z = fn()
                    errs, scale, D = NL.history_errors(op, x, dd, z, opts['history'])
                    print('errors at h, h/2, h/4:', errs, 'scale', scale, 'linear flag', D.is_linear)
                    bad = errs[1] > errs[0] / 3 + 1e-6 * scale or errs[2] > 1e-3 * scale or not D.is_linear
                except Exception as ex:
                    print('raised', type(ex).__name__, ex)
                    bad = True
                print('REPRODUCED' if bad else 'NOT-REPRODUCED')
                return 1 if bad else 0
        print('recipe not found')
        return 2
    if d.get('stage') == 'builtin':
        for family, opts, fn in NL.recipes('thorough'):
            if family == d['class'] and opts == d['options']:
                try:
                    op, xs, ds = fn()
                    errs, scale, D = NL.central_errors(op, NL.make_point(op.domain, xs), NL.make_point(op.domain, ds))
                    print('errors at h, h/2, h/4:', errs, 'scale', scale, 'linear flag', D.is_linear)
                    bad = errs[1] > errs[0] / 3 + 1e-6 * scale or errs[2] > 1e-3 * scale or not D.is_linear
                except Exception as ex:
                    print('raised', type(ex).__name__, ex)
                    bad = True
                print('REPRODUCED' if bad else 'NOT-REPRODUCED')
                return 1 if bad else 0
        print('recipe not found')
        return 2
    if 'line' in d:
        line, prof = d['line'], d['profile']
        sp = U.Spaces(prof, big=d.get('big', False))
        op = U.build(line['prog'], sp)
        print('program', U.shape_of(line['prog']))
        bad = False
        for pr, dd in zip(line['dpairs'], line['dd']):
            Dn = U.den_of([dd, pr, line['vals']])
            try:
                obs, _ = sp.project(line['ran'], op.derivative(sp.point(line['dom'], pr[0]))(sp.point(line['dom'], pr[1])), Dn)
            except Exception as ex:
                obs = type(ex).__name__
            print(' x,d', dumps(pr), 'observed', dumps(obs), 'stencil', dumps(dd))
            bad = bad or obs != dd
        print('REPRODUCED' if bad else 'NOT-REPRODUCED')
        return 1 if bad else 0
    print(dumps(d)[:800])
    return 1

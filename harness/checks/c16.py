"""C16 - resizing and padding follow the named boundary rule; cropping undoes extension.

Pipeline (DESIGN 4/C16):
  1. TLC: ResizeMachine (configuration machine over ResizeSem, layer A: resize as a source map) with the
     invariants that formalise the statement (overlap copied, adjoint = transpose, extend-then-crop =
     identity) and sanity laws, and ResizeImpl (layer C: the slice arithmetic of resize_array and its
     helpers, Python slice semantics included) = reference as full matrices for the complete 1-d space
     n_in, n_out in 1..5 x offsets x 5 modes x 2 directions and all 2-d grow/shrink mixtures up to 3x3.
  2. TLC exports one JSON line per (configuration, query) with the expected full matrix / affine part; each
     is replayed on REAL resize_array (int / float / complex, out=, C / F order, embedded with an untouched
     extra axis) and ResizingOperator (call / adjoint / inverse) through unit arrays; numpy.pad is
     cross-checked where an equivalent mode exists; extend-then-crop is executed on the real code.
  3. Replayed calls, operator geometry (range domain, cell sides, default offsets), the adjoint identity in
     the weighted inner products, enumerations beyond the TLC constants and seeded random calls are
     recorded as events and validated by TLC against Trace_Resize.
"""
import json
import os
import random
import re
from concurrent.futures import ThreadPoolExecutor
from fractions import Fraction

import numpy as np

from ..tlc import run_tlc, parse_fails
from ..common import dumps, MachineryError
from .. import rsutil as R
from ..rsutil import cj, qj, fq

MODES = ['constant', 'periodic', 'symmetric', 'order0', 'order1']
NPMODE = {'constant': 'constant', 'periodic': 'wrap', 'symmetric': 'reflect', 'order0': 'edge'}
DRIFT_CLAUSES = {'not-raised', 'inner-product'}
# layer-C model flag: '0' mirrors _resize_discr of the current tree (open finding: explicit offset on a shrinking axis),
# '1' the repaired form of proposals/C16/shrink-offset-range-placement/fix.diff
FIXED_RANGE = '1'
LOS = [Fraction(0), Fraction(-1), Fraction(1, 2), Fraction(3)]
HS = [Fraction(1), Fraction(1, 2), Fraction(2), Fraction(1, 4)]


def size(shape):
    n = 1
    for s in shape:
        n *= s
    return n


def change_class(a, b):
    g = any(y > x for x, y in zip(a, b))
    s = any(y < x for x, y in zip(a, b))
    return 'mixed' if g and s else ('grow' if g else ('shrink' if s else 'same'))


def dkind(dtype):
    k = np.dtype(dtype).kind
    return {'i': 'int', 'u': 'int', 'f': 'real', 'c': 'complex'}[k]


def bdry_class(dbdry, rbdry):
    dflag = any(any(p) for p in (dbdry or []))
    rflag = any(any(p) for p in (rbdry or []))
    return 'both' if dflag and rflag else ('domain' if dflag else ('range' if rflag else 'none'))


def dtypes_class(dtype, rdtype):
    if not rdtype or np.dtype(rdtype) == np.dtype(dtype):
        return 'same'
    return 'wider' if np.promote_types(dtype, rdtype) == np.dtype(rdtype) else 'narrower'


def extra_of(cd):
    """family-level description of the input kind / data type relation of a call descriptor"""
    if cd.get('api') == 'resize_array':
        return {'arraylike': cd.get('kind', 'ndarray'), 'dtypes': 'out-wider' if cd.get('odtype') else 'same'}
    return {'arraylike': 'element', 'dtypes': dtypes_class(cd['dtype'], cd.get('rdtype'))}


def signature(api, variant, mode, direction, shin, shout, dtype, offset, clause, bdry='none', extra=None):
    sig = {'api': api, 'variant': variant, 'mode': mode, 'dir': direction, 'change': change_class(shin, shout),
           'ndim': '%dd' % len(shin), 'dtype': dkind(dtype), 'offset': offset, 'nodes_on_bdry': bdry,
           'arraylike': 'ndarray' if api == 'resize_array' else 'element', 'dtypes': 'same', 'clause': clause}
    sig.update(extra or {})
    return sig


def range_event(cd, g, given):
    """The 'range' event (geometry of a constructed operator) validated by Trace_Resize."""
    df, rf = R.flags_of(cd, 'dbdry'), R.flags_of(cd, 'rbdry')
    hi = [qj(fq(a) + R.span(m, fq(h), f)) for a, m, h, f in zip(cd['lo'], cd['dom'], cd['hs'], df)]
    return {'kind': 'range', 'lo': cd['lo'], 'hi': hi, 'dom': cd['dom'], 'ran': cd['ran'], 'given': given, 'offs': g['offs'],
            'ranlo': g['ranlo'], 'ranhi': g['ranhi'], 'ranshape': g['ranshape'], 'rancell': g['rancell'], 'axes': g['axes'],
            'dbdry': df, 'rbdry': rf, 'rannode0': g['rannode0'], 'invok': g['invok']}


def unrot(y, w):
    return [R.c_div_i(z) for z in y] if w == 'i' else y


def cval(a):
    if R.is_nan_c(a):
        return None
    return (fq(a[0]), fq(a[1]))


def csub(a, b):
    if R.is_nan_c(a) or R.is_nan_c(b):
        return None
    return (fq(a[0]) - fq(b[0]), fq(a[1]) - fq(b[1]))


def cfg_c(cfg, w):
    c = cj(cfg['c'])
    return R.c_mul_i(c) if w == 'i' else c


def obj_array(lst):
    a = np.empty(len(lst), dtype=object)
    for i, v in enumerate(lst):
        a[i] = v
    return a


# ------------------------------------------------------------------ spec -> code : probing a real affine map
def probe(cd_base, N, w, log):
    unit = R.c_mul_i(cj(1)) if w == 'i' else cj(1)
    zero = cj(0)
    outs, events, notes = [], [], set()
    for k in range(N + 1):
        x = [zero] * N
        if k:
            x[k - 1] = unit
        cd = dict(cd_base, x=x)
        y, err, nt, info = R.execute(cd)
        if err:
            return {'err': err, 'notes': nt, 'calls': k + 1, 'events': [(cd, y, err, info.get('offs'))] if log else []}
        notes.update(nt)
        outs.append(unrot(y, w))
        if log and (k == 0 or k == 1 + (log % N)):
            events.append((cd, y, err, info.get('offs')))
    aff = [cval(z) for z in outs[0]]
    M = [[csub(outs[k + 1][r], outs[0][r]) for k in range(N)] for r in range(len(outs[0]))]
    return {'err': '', 'M': M, 'aff': aff, 'notes': sorted(notes), 'calls': N + 1, 'events': events}


def compare(res, mat, aff):
    if len(res['M']) != len(mat) or any(len(r) != len(e) for r, e in zip(res['M'], mat)):
        return ['shape']
    bad = []
    if any(o is None or o != (e, 0) for ro, re_ in zip(res['M'], mat) for o, e in zip(ro, re_)):
        bad.append('matrix')
    if any(o is None or o != (e, 0) for o, e in zip(res['aff'], aff)):
        bad.append('affine-part')
    return bad


def probe_embedded(cfg, conc, w, log):
    """resize_array with an extra untouched axis ("restricted axes"): the slabs along that axis carry different
    probes 0, e_1..e_N of the configuration.  Returns responses per probe."""
    shin, shout, offs = cfg['shapeIn'], cfg['shapeOut'], cfg['offs']
    p, s = conc['pos'], conc['slabs']
    dom = shin[:p] + [s] + shin[p:]
    ran = shout[:p] + [s] + shout[p:]
    offs2 = offs[:p] + [conc.get('extra_off', 0)] + offs[p:]      # the entry for the untouched axis is ignored
    N = size(shin)
    unit = R.c_mul_i(cj(1)) if w == 'i' else cj(1)
    zero = cj(0)
    ncalls = -(-(N + 1) // s)
    resp, events, notes = {}, [], set()
    for k in range(ncalls):
        probes = [(k * s + t + conc.get('shift', 0)) % (N + 1) for t in range(s)]
        arr = np.empty(dom, dtype=object)
        view = np.moveaxis(arr, p, 0)
        for t, pr in enumerate(probes):
            slab = [unit if (pr and j == pr - 1) else zero for j in range(N)]
            view[t] = obj_array(slab).reshape(shin)
        x = list(arr.reshape(-1))
        cd = {'api': 'resize_array', 'variant': 'array', 'dom': dom, 'ran': ran, 'offs': offs2, 'mode': cfg['mode'],
              'dir': cfg['dir'], 'c': cfg_c(cfg, w), 'x': x, 'dtype': conc['dtype'], 'out': conc['out'],
              'order': conc['order'], 'D': 1}
        y, err, nt, info = R.execute(cd)
        if log:
            events.append((cd, y, err, None))
        if err:
            return {'err': err, 'notes': nt, 'calls': k + 1, 'events': events}
        notes.update(nt)
        yv = np.moveaxis(obj_array(y).reshape(ran), p, 0)
        for t, pr in enumerate(probes):
            resp.setdefault(pr, []).append(unrot(list(yv[t].reshape(-1)), w))
    return {'err': '', 'resp': resp, 'notes': sorted(notes), 'calls': ncalls, 'events': events}


def compare_resp(res, mat, aff, N):
    bad = set()
    for r0 in res['resp'].get(0, []):
        if len(r0) != len(aff) or any(cval(z) != (e, 0) for z, e in zip(r0, aff)):
            bad.add('affine-part')
    for pr, rs in res['resp'].items():
        if pr == 0:
            continue
        for r in rs:
            if len(r) != len(mat) or any(cval(z) is None or (cval(z)[0] - a0, cval(z)[1]) != (mat[i][pr - 1], 0)
                                         for i, (z, a0) in enumerate(zip(r, aff))):
                bad.add('matrix')
    if set(res['resp']) != set(range(N + 1)):
        bad.add('probe-missing')
    return sorted(bad)


DTYPES = ['int64', 'float64', 'complex128', 'int32', 'float32', 'complex64']


def generic(N, shift=0):
    return [cj(((k + shift) * (k + shift)) % 7 - 3) for k in range(1, N + 1)]


def replay_case(case, k, log, thorough=False):
    """Replay one exported (cfg, obs).  k: rotation counter selecting the concretisations."""
    cfg, obs = case['cfg'], case['obs']
    shin, shout, offs, mode, direction = cfg['shapeIn'], cfg['shapeOut'], cfg['offs'], cfg['mode'], cfg['dir']
    results = []
    d = len(shin)
    lo = [qj(LOS[(k + a) % len(LOS)]) for a in range(d)]
    hs = [qj(HS[(k + 2 * a) % len(HS)]) for a in range(d)]
    fwd = direction == 'forward'
    # the operator whose call / adjoint realises this array-level configuration
    opdom, opran = (shin, shout) if fwd else (shout, shin)

    def rec(api, variant, dtype, conc, clauses, res, offset='explicit', observed=None):
        results.append({'api': api, 'variant': variant, 'dtype': dtype, 'conc': conc, 'clauses': clauses,
                        'calls': res.get('calls', 1), 'notes': res.get('notes', []), 'events': res.get('events', []),
                        'offset': offset, 'observed': observed if observed is not None else
                        {kk: res.get(kk) for kk in ('err', 'M', 'aff', 'resp')}})

    if obs['q'] == 'geometry':
        # operator geometry for every combination of nodes-on-boundary flags of domain and range (1-d)
        m, n, o = shin[0], shout[0], offs[0]
        for gi, g in enumerate(obs['geo']):
            flags = [g['dL'], g['dR'], g['rL'], g['rR']]
            style = ['plain', 'alt', 'arrays'][(k + gi) % 3]
            routes = ['ran_shp'] + (['default'] if (o == 0 and m != n and gi % 3 == 0) else []) + (['range'] if gi % 4 == 1 else [])
            for route in routes:
                cd = {'api': 'operator', 'variant': 'call', 'dom': shin, 'ran': shout, 'offs': offs if route != 'default' else [None],
                      'mode': 'constant', 'c': cj(0), 'x': generic(m, k + gi), 'dtype': 'float64', 'out': 'none', 'D': 1,
                      'lo': [g['lo']], 'hs': [g['cell']], 'construct': route, 'Dg': 16, 'style': style,
                      'dbdry': [[g['dL'], g['dR']]], 'rbdry': [[g['rL'], g['rR']]]}
                y, err, nt, info = R.execute(cd)
                geo = info.get('geometry')
                conc = {'kind': 'geometry', 'flags': flags, 'route': route, 'style': style}
                evs, clauses = [], []
                if geo is None:
                    clauses = ['construct-raised']
                else:
                    if route == 'default' and geo['offs'] != offs:
                        # the default offset is judged by the trace specification; the exported case is for `offs`
                        evs = [range_event(cd, geo, [-1]), (cd, y, err, geo['offs'])]
                    else:
                        if geo['rancell'] != [g['cell']]:
                            clauses.append('cell-side')
                        if geo['ranlo'] != [g['ranlo']] or geo['ranhi'] != [g['ranhi']]:
                            clauses.append('range-domain' if n >= m else 'range-domain-shrink')
                        if geo['rannode0'] != [g['node0']]:
                            clauses.append('grid-aligned')
                        if geo['offs'] != (offs if m != n else [0]):
                            clauses.append('offset')
                        if not geo['invok']:
                            clauses.append('inverse-constructible')
                        if err:
                            clauses.append('raised')
                        evs = [range_event(cd, geo, [-1] if route == 'default' else list(offs)), (cd, y, err, geo['offs'])]
                        if n >= m and not err and geo['invok']:
                            cd2 = dict(cd, variant='inverse', x=y)
                            y2, e2, nt2, i2 = R.execute(cd2)
                            if e2 or y2 != cd['x']:
                                clauses.append('extend-then-crop')
                            evs.append((cd2, y2, e2, geo['offs']))
                results.append({'api': 'ResizingOperator', 'variant': 'construct', 'dtype': 'float64', 'conc': conc, 'clauses': clauses,
                                'calls': 2, 'notes': [], 'events': evs if (log or clauses) else evs[:1],
                                'offset': {'default': 'default', 'range': 'from-range'}.get(route, 'explicit'),
                                'bdry': bdry_class(cd['dbdry'], cd['rbdry']),
                                'observed': {'geometry': geo, 'err': err, 'expected': g}})
        return results

    if obs['q'] == 'call' and not obs['adm']:
        # outside the documented length restrictions: the implementation is expected to refuse
        x = [cj(1)] * size(shin)
        cd = {'api': 'resize_array', 'variant': 'array', 'dom': shin, 'ran': shout, 'offs': offs, 'mode': mode, 'dir': direction,
              'c': cj(cfg['c']), 'x': x, 'dtype': 'float64', 'out': 'none', 'order': 'C', 'D': 1}
        y, err, nt, info = R.execute(cd)
        rec('resize_array', 'array', 'float64', {}, [] if err else ['not-raised'],
            {'events': [(cd, y, err, None)], 'notes': nt}, observed={'err': err})
        cdo = {'api': 'operator', 'variant': 'call' if fwd else 'adjoint', 'dom': opdom, 'ran': opran, 'offs': offs, 'mode': mode,
               'c': cj(cfg['c']), 'x': x, 'dtype': 'float64', 'out': 'none', 'D': 1, 'lo': lo, 'hs': hs, 'construct': 'ran_shp'}
        y, err, nt, info = R.execute(cdo)
        rec('ResizingOperator', cdo['variant'], 'float64', {}, [] if err else ['not-raised'],
            {'events': [(cdo, y, err, None)], 'notes': nt}, observed={'err': err})
        return results

    mat, aff = obs['mat'], obs['aff']
    if obs['q'] == 'call':
        N = size(shin)
        # A. resize_array directly
        picks = [(DTYPES[k % 6], ['none', 'given'][(k // 2) % 2], ['C', 'F'][(k // 3) % 2])]
        if thorough:
            picks += [(DTYPES[(k + 1 + j) % 6], ['none', 'given'][(k + j) % 2], ['C', 'F'][(k + j + 1) % 2]) for j in range(2)]
        for dtype, out, order in picks:
            w = 'i' if dtype.startswith('complex') else 1
            style = ['plain', 'alt', 'arrays'][(k // 2) % 3]
            kinds = [kd for kd in R.KINDS if R.kind_ok(kd, shin, dtype)]
            akind = kinds[(k + len(picks)) % len(kinds)]            # every kind of array-like input, rotating
            base = {'api': 'resize_array', 'variant': 'array', 'dom': shin, 'ran': shout, 'offs': offs, 'mode': mode,
                    'dir': direction, 'c': cfg_c(cfg, w), 'dtype': dtype, 'out': out, 'order': order, 'D': 1, 'style': style,
                    'kind': akind}
            res = probe(base, N, w, log)
            rec('resize_array', 'array', dtype, {'dtype': dtype, 'out': out, 'order': order, 'kind': 'direct', 'style': style,
                                                 'arraylike': akind},
                ['raised'] if res['err'] else compare(res, mat, aff), res)
        # B. embedded with an untouched extra axis
        dtype = DTYPES[(k + 3) % 6]
        w = 'i' if dtype.startswith('complex') else 1
        conc = {'kind': 'embedded', 'pos': k % (d + 1), 'slabs': 2 + k % 2, 'dtype': dtype, 'out': ['given', 'none'][k % 2],
                'order': ['C', 'F'][(k // 2) % 2], 'shift': k, 'extra_off': [0, 2, 1][k % 3]}
        res = probe_embedded(cfg, conc, w, log)
        rec('resize_array', 'array', dtype, conc, ['raised'] if res['err'] else compare_resp(res, mat, aff, N), res)
        # C. ResizingOperator: call (forward configuration) or adjoint (adjoint configuration)
        for j in range(2 if thorough else 1):
            dtype = ['float64', 'complex128', 'float32', 'complex64'][(k + j) % 4]
            w = 'i' if dtype.startswith('complex') else 1
            construct = ['ran_shp', 'range'][(k + j) % 2]
            base = {'api': 'operator', 'variant': 'call' if fwd else 'adjoint', 'dom': opdom, 'ran': opran, 'offs': offs,
                    'mode': mode, 'c': cfg_c(cfg, w), 'dtype': dtype, 'out': ['none', 'given'][(k + j) % 2], 'D': 1,
                    'lo': lo, 'hs': hs, 'construct': construct, 'style': ['plain', 'alt', 'arrays'][(k // 3) % 3],
                    'history': bool((k // 2) % 2)}
            res = probe(base, N, w, log)
            rec('ResizingOperator', base['variant'], dtype, {'dtype': dtype, 'out': base['out'], 'construct': construct,
                                                             'lo': lo, 'hs': hs, 'kind': 'operator', 'style': base['style']},
                ['raised'] if res['err'] else compare(res, mat, aff), res,
                offset='from-range' if construct == 'range' else 'explicit')
        # D. numpy.pad where an equivalent mode exists (pure extension)
        if fwd and mode in NPMODE and all(n >= m for m, n in zip(shin, shout)):
            dtype = ['int64', 'float64'][k % 2]
            x = generic(N, k)
            cd = {'api': 'resize_array', 'variant': 'array', 'dom': shin, 'ran': shout, 'offs': offs, 'mode': mode, 'dir': 'forward',
                  'c': cj(cfg['c']), 'x': x, 'dtype': dtype, 'out': 'none', 'order': 'C', 'D': 1}
            y, err, nt, info = R.execute(cd)
            arr = R.to_array(x, tuple(shin), dtype)
            kw = {'constant_values': cfg['c']} if mode == 'constant' else {}
            ref = np.pad(arr, [((o, n - m - o) if n != m else (0, 0)) for m, n, o in zip(shin, shout, offs)], mode=NPMODE[mode], **kw)
            refy = R.snap_block(ref, 1, dtype)
            rec('resize_array', 'array', dtype, {'kind': 'numpy-pad', 'dtype': dtype, 'shift': k},
                ['raised'] if err else ([] if y == refy else ['numpy-pad']),
                {'events': [(cd, y, err, None)], 'notes': nt}, observed={'err': err, 'y': y, 'numpy_pad': refy})
        return results

    # query 'inverse' (forward configuration, both directions admissible)
    N2 = size(shout)
    dtype = ['float64', 'complex128'][k % 2]
    w = 'i' if dtype.startswith('complex') else 1
    construct = ['ran_shp', 'range'][(k // 2) % 2]
    base = {'api': 'operator', 'variant': 'inverse', 'dom': shin, 'ran': shout, 'offs': offs, 'mode': mode, 'c': cfg_c(cfg, w),
            'dtype': dtype, 'out': ['none', 'given'][k % 2], 'D': 1, 'lo': lo, 'hs': hs, 'construct': construct}
    grows = all(n >= m for m, n in zip(shin, shout))
    shrinks = all(n <= m for m, n in zip(shin, shout))
    if grows:
        # the inverse of a pure extension is the cropping (what the pseudo-inverse fills in when it has to extend is not
        # fixed by the statement, so its values are compared only here)
        res = probe(base, N2, w, log)
        rec('ResizingOperator', 'inverse', dtype, {'dtype': dtype, 'out': base['out'], 'construct': construct, 'lo': lo, 'hs': hs,
                                                   'kind': 'operator'},
            ['raised'] if res['err'] else compare(res, mat, aff), res, offset='from-range' if construct == 'range' else 'explicit')
    elif shrinks:
        # the inverse of a pure restriction extends: extending (by .inverse) and then cropping (by op) is the identity
        yv = generic(N2, k)
        cd1 = dict(base, variant='inverse', x=yv, c=cj(cfg['c']), dtype='float64')
        z1, e1, nt1, i1 = R.execute(cd1)
        cd2 = dict(base, variant='call', x=z1, c=cj(cfg['c']), dtype='float64')
        z2, e2, nt2, i2 = R.execute(cd2) if not e1 else ([], 'skipped', [], {})
        ok = (not e1) and (not e2) and z2 == yv
        rec('ResizingOperator', 'inverse', 'float64', dict(base, kind='roundtrip-inverse-then-op'), [] if ok else ['extend-then-crop'],
            {'calls': 2, 'events': [(cd2, z2, e2, i2.get('offs'))] if not e1 else []},
            observed={'y': yv, 'extended_by_inverse': z1, 'cropped_by_op': z2, 'err': [e1, e2]})
    if grows:
        # extend then crop on the real code: operator round trip and array round trip
        x = generic(size(shin), k)
        cd1 = dict(base, variant='call', x=x, c=cj(cfg['c']), dtype='float64')
        y1, e1, nt1, i1 = R.execute(cd1)
        cd2 = dict(base, variant='inverse', x=y1, c=cj(cfg['c']), dtype='float64')
        y2, e2, nt2, i2 = R.execute(cd2) if not e1 else ([], 'skipped', [], {})
        ok = (not e1) and (not e2) and y2 == x
        rec('ResizingOperator', 'inverse', 'float64', dict(base, kind='roundtrip-operator'), [] if ok else ['extend-then-crop'],
            {'calls': 2, 'events': [(cd1, y1, e1, i1.get('offs')), (cd2, y2, e2, i2.get('offs'))] if not e1 else []},
            observed={'x': x, 'extended': y1, 'cropped': y2, 'err': [e1, e2]})
        dt = DTYPES[k % 6]
        a1 = {'api': 'resize_array', 'variant': 'array', 'dom': shin, 'ran': shout, 'offs': offs, 'mode': mode, 'dir': 'forward',
              'c': cj(cfg['c']), 'x': x, 'dtype': dt, 'out': 'none', 'order': 'C', 'D': 1}
        z1, f1, _, _ = R.execute(a1)
        a2 = dict(a1, dom=shout, ran=shin, x=z1)
        z2, f2, _, _ = R.execute(a2) if not f1 else ([], 'skipped', [], {})
        ok = (not f1) and (not f2) and z2 == x
        rec('resize_array', 'array', dt, {'kind': 'roundtrip-array', 'dtype': dt, 'shift': k}, [] if ok else ['extend-then-crop'],
            {'calls': 2, 'events': [(a1, z1, f1, None), (a2, z2, f2, None)] if not f1 else []},
            observed={'x': x, 'extended': z1, 'cropped': z2, 'err': [f1, f2]})
    return results


# ------------------------------------------------------------------ code -> spec : drivers
def rand_c(rnd, cplx, Dx, lim=4):
    re = Fraction(rnd.randint(-lim * Dx, lim * Dx), Dx)
    im = Fraction(rnd.randint(-3 * Dx, 3 * Dx), Dx) if cplx and rnd.random() < 0.7 else 0
    return cj(re, im)


def geometry_cases(quick):
    """Operator constructions: all 1-d (m, n) with every explicit offset and the default one (on unchanged axes also the
    ignored non-zero entries); 2-d and 3-d mixtures of grow / shrink / same with per-axis offsets that are None, valid,
    or non-zero on an UNCHANGED axis; the scalar spelling offset=k on n-d spaces that change only some axes."""
    out = []
    top = 5 if quick else 7
    k = 0
    for m in range(1, top + 1):
        for n in range(1, top + 1):
            for o in [None] + (list(range(0, abs(n - m) + 1)) if m != n else [0, 1, 3]):
                k += 1
                out.append(([m], [n], [o], k, None))
    rnd = random.Random(99)
    shapes2 = [(a, b) for a in (1, 2, 3, 4) for b in (1, 2, 3, 4)]
    shapes3 = [(a, b, c) for a in (2, 3) for b in (1, 2, 3) for c in (2, 4)]
    pairs = [(s, t) for s in shapes2 for t in shapes2 if s != t]
    rnd.shuffle(pairs)
    pairs3 = [(s, t) for s in shapes3 for t in shapes3 if s != t]
    rnd.shuffle(pairs3)
    for s, t in pairs[:(70 if quick else 240)] + pairs3[:(30 if quick else 120)]:
        offs = []
        for m, n in zip(s, t):
            if m == n:
                offs.append(rnd.choice([None, 0, 1, 2, 3]))
            else:
                offs.append(None if rnd.random() < 0.3 else rnd.randint(0, abs(n - m)))
        k += 1
        out.append((list(s), list(t), offs, k, None))
    # the scalar spelling: one int for all axes although only some axes change (k <= every actual size change)
    scal = [(s, t) for s, t in pairs + pairs3 if any(m == n for m, n in zip(s, t))]
    for s, t in scal[:(40 if quick else 160)]:
        lim = min(abs(n - m) for m, n in zip(s, t) if m != n)
        kk = rnd.randint(1, lim) if lim >= 1 else 0
        k += 1
        out.append((list(s), list(t), [kk] * len(s), k, 'alt'))
    return out


def run_geometry(dom, ran, offs, k, style=None):
    """Construct the operator, observe geometry and one call; then use the operator (inverse, a call whose result is
    overwritten) and observe geometry and the call AGAIN (queries must not depend on earlier calls).
    Returns list of (event-dict | (cd, y, err, offs)).
    Every second case requests nodes on the boundary: the 16 combinations of (domain L, R, range L, R) rotate per axis."""
    d = len(dom)
    lo = [LOS[(k + a) % len(LOS)] for a in range(d)]
    hs = [HS[(k + 3 * a) % len(HS)] for a in range(d)]
    mode = MODES[k % 5]
    all_none = all(o is None for o in offs)
    no_none = not any(o is None for o in offs)
    if style is None:
        style = 'alt' if k % 3 == 0 else ('arrays' if (k % 3 == 1 and no_none) else 'plain')
    cd = {'api': 'operator', 'variant': 'call', 'dom': dom, 'ran': ran, 'offs': offs, 'mode': mode, 'c': cj(0),
          'x': generic(size(dom), k), 'dtype': 'float64', 'out': 'none', 'D': 1, 'lo': [qj(v) for v in lo], 'hs': [qj(v) for v in hs],
          'construct': 'default' if all_none else 'ran_shp', 'Dg': 16, 'style': style}
    if k % 2:
        dbdry, rbdry = [], []
        for a, (m, n) in enumerate(zip(dom, ran)):
            bits = (k // 2 * 7 + 5 * a) % 16
            df = [bits >> 3 & 1, bits >> 2 & 1] if m >= 2 else [0, 0]
            rf = [bits >> 1 & 1, bits & 1] if n >= 2 else [0, 0]
            dbdry.append(df)
            rbdry.append(rf)
        cd.update(dbdry=dbdry, rbdry=rbdry)
        if k % 8 == 3 and no_none:
            cd['construct'] = 'range'
    y, err, nt, info = R.execute(cd)
    evs = []
    if 'geometry' in info:
        g = info['geometry']
        given = [-1 if o is None else o for o in offs]
        evs.append(range_event(cd, g, given))
        evs.append((cd, y, err, g['offs']))
        # history: inverse, then a call whose first result is overwritten; geometry and values once more
        R.execute(dict(cd, variant='inverse', x=generic(size(ran), k + 1)))
        y2, err2, nt2, info2 = R.execute(dict(cd, history=True))
        if 'geometry' in info2:
            evs.append(range_event(cd, info2['geometry'], given))
            evs.append((dict(cd, history=True), y2, err2, info2['geometry']['offs']))
    else:
        evs.append({'kind': 'construct-failed', 'err': err, 'note': nt})
    return cd, evs


def adjid_cases(quick):
    out = []
    k = 0
    for m in range(1, 6):
        for n in range(1, 6):
            for o in range(0, abs(n - m) + 1):
                for mode in MODES:
                    k += 1
                    out.append(([m], [n], [o], mode, k))
    rnd = random.Random(77)
    shapes = [(a, b) for a in (1, 2, 3) for b in (1, 2, 3)]
    pairs = [(s, t) for s in shapes for t in shapes if s != t]
    for s, t in pairs:
        for mode in (MODES if not quick else [MODES[(k + len(out)) % 5], MODES[(k + len(out) + 2) % 5]]):
            k += 1
            out.append((list(s), list(t), [rnd.randint(0, abs(b - a)) for a, b in zip(s, t)], mode, k))
    return out


def admissible_hint(dom, ran, offs, mode):
    """Only used to avoid spending adjoint-identity runs on configurations the operator refuses."""
    for m, n, o in zip(dom, ran, offs):
        if n > m:
            pl, pr = o, n - m - o
            if mode == 'periodic' and (pl > m or pr > m):
                return False
            if mode == 'symmetric' and (pl >= m or pr >= m):
                return False
            if mode == 'order1' and m < 2:
                return False
    return True


def driver_call(rnd, fam=None):
    fam = fam or {}
    ndim = fam.get('ndim') or rnd.choice([1, 1, 2, 2, 3])
    hi = {1: 8, 2: 5, 3: 3}[ndim]
    dom = fam.get('dom') or [rnd.randint(1, hi) for _ in range(ndim)]
    ran = fam.get('ran') or [rnd.choice([m, rnd.randint(1, hi), rnd.randint(1, hi)]) for m in dom]
    offs = [rnd.randint(0, abs(n - m)) if m != n else rnd.choice([0, 0, 1, 2, 5]) for m, n in zip(dom, ran)]
    mode = fam.get('mode') or rnd.choice(MODES)
    api = fam.get('api') or rnd.choice(['resize_array', 'resize_array', 'operator'])
    if api == 'resize_array':
        dtype = rnd.choice(DTYPES)
        variant = 'array'
        direction = rnd.choice(['forward', 'forward', 'adjoint'])
    else:
        dtype = rnd.choice(['float64', 'complex128', 'float32', 'complex64'])
        variant = rnd.choice(['call', 'call', 'adjoint', 'inverse', 'derivative'])
        direction = 'forward'
    cplx = dtype.startswith('complex')
    Dx = 1 if dkind(dtype) == 'int' else rnd.choice([1, 1, 2])
    c = cj(0)
    if mode == 'constant' and rnd.random() < 0.6 and not (direction == 'adjoint' or variant == 'adjoint'):
        c = rand_c(rnd, cplx, Dx)
    shape_x = ran if variant in ('adjoint', 'inverse') else dom
    x = [rand_c(rnd, cplx, Dx) for _ in range(size(shape_x))]
    cd = {'api': api, 'variant': variant, 'dom': dom, 'ran': ran, 'offs': offs, 'mode': mode, 'dir': direction, 'c': c, 'x': x,
          'dtype': dtype, 'out': rnd.choice(['none', 'given']), 'order': rnd.choice(['C', 'F']), 'D': Dx}
    cd['style'] = rnd.choice(['plain', 'alt', 'arrays'])
    cd['history'] = api == 'operator' and rnd.random() < 0.3
    if api == 'operator':
        cd.update(lo=[qj(rnd.choice(LOS)) for _ in dom], hs=[qj(rnd.choice(HS)) for _ in dom],
                  construct=rnd.choice(['ran_shp', 'range']))
        if rnd.random() < 0.3:      # nodes on the boundary requested for domain / range (values are not affected)
            cd['dbdry'] = [[rnd.randint(0, 1), rnd.randint(0, 1)] if m >= 2 else [0, 0] for m in dom]
            cd['rbdry'] = [[rnd.randint(0, 1), rnd.randint(0, 1)] if n >= 2 else [0, 0] for n in ran]
        if variant in ('call', 'derivative') and rnd.random() < 0.25:
            # range with another data type (discr_kwargs={'dtype': ...} or an explicit range space)
            cd['rdtype'] = rnd.choice({'float64': ['float32', 'complex128'], 'float32': ['float64', 'complex64'],
                                       'complex128': ['complex64'], 'complex64': ['complex128']}[dtype])
    else:
        kinds = [kd for kd in R.KINDS if R.kind_ok(kd, dom, dtype)]
        cd['kind'] = rnd.choice(kinds)
    return cd


def arraylike_cases(quick):
    """resize_array with every kind of array-like input (ODL elements, ndarray subclass views, np.matrix, memoryview,
    objects exposing __array__ with the shared buffer, strided views, lists) x direction x pad mode x growing / shrinking
    / mixed shapes, with and without out=.  The events carry the input contents AFTER the call."""
    shapes = [([3], [5], [1]), ([5], [3], [1]), ([2, 3], [4, 2], [1, 1]), ([4, 2], [2, 3], [1, 1])]
    if not quick:
        shapes += [([4], [9], [3]), ([6], [2], [3]), ([3, 3], [5, 5], [1, 1]), ([5, 4], [3, 2], [1, 2]), ([2, 2, 3], [3, 2, 2], [1, 0, 1])]
    out = []
    k = 0
    for kind in R.KINDS:
        for dom, ran, offs in shapes:
            if not R.kind_ok(kind, dom, 'float64'):
                continue
            for direction in ('forward', 'adjoint'):
                for mode in MODES:
                    k += 1
                    dtype = ['float64', 'int64', 'complex128', 'float32'][k % 4]
                    cplx = dtype.startswith('complex')
                    x = [cj(((j * j + k) % 9) - 4, (j % 3) - 1 if cplx else 0) for j in range(1, size(dom) + 1)]
                    c = cj(3 if (mode == 'constant' and direction == 'forward' and k % 2) else 0)
                    out.append({'api': 'resize_array', 'variant': 'array', 'dom': dom, 'ran': ran, 'offs': offs, 'mode': mode,
                                'dir': direction, 'c': c, 'x': x, 'dtype': dtype, 'out': ['none', 'given'][(k // 2) % 2],
                                'order': 'C', 'D': 1, 'kind': kind, 'style': ['plain', 'alt', 'arrays'][k % 3]})
    return out


def wider_out_cases(quick):
    """resize_array with an `out` array that is WIDER than the input ("must ... be able to hold the data type of the input
    array"): the result - in particular the SUMS of the adjoint direction - is a value of the out type.  The data are chosen
    so that the exact result is representable in the out type but not in the input type (int8 sums beyond 127, float32
    sums of 2^24 and 1), so an implementation that accumulates in the input type is seen."""
    combos = [('int8', 'int64', [100, 90, 120, 101, 99, 110]), ('int8', 'float64', [100, 90, 120, 101, 99, 110]),
              ('int16', 'int64', [30000, 30001, 29000, 31000, 30500, 29999]),
              ('float32', 'float64', [2 ** 24, 1, 2 ** 24, 1, 1, 2 ** 24]), ('int32', 'complex128', [7, -3, 5, 2, 9, 4]),
              ('float32', 'complex128', [2 ** 24, 1, 1, 2 ** 24, 1, 1])]
    shapes = [([5], [3], [1]), ([6], [2], [2]), ([3], [5], [1]), ([3, 2], [2, 2], [1, 0]), ([2, 3], [2, 1], [0, 1])]
    if quick:
        shapes = shapes[:3] + shapes[4:]
    out = []
    k = 0
    for dtype, odtype, vals in combos:
        for dom, ran, offs in shapes:
            for direction in ('adjoint', 'forward'):
                for mode in MODES:
                    k += 1
                    if direction == 'forward' and k % 3:
                        continue
                    x = [cj(vals[(j + k) % len(vals)]) for j in range(size(dom))]
                    out.append({'api': 'resize_array', 'variant': 'array', 'dom': dom, 'ran': ran, 'offs': offs, 'mode': mode,
                                'dir': direction, 'c': cj(0), 'x': x, 'dtype': dtype, 'odtype': odtype, 'out': 'given',
                                'order': ['C', 'F'][k % 2], 'D': 1, 'kind': 'ndarray', 'style': ['plain', 'alt'][k % 2]})
    return out


F32EDGE = Fraction(2 ** 24 + 1, 2 ** 24)       # 1 + 2^-24: a float64 that float32 rounds to 1


def mixed_dtype_cases(quick):
    """ResizingOperator whose range has another data type than its domain (explicit range or discr_kwargs dtype), with pad
    constants that are NOT representable in the domain type.  Returns [(call descriptor | None, numpy.pad case | None)]."""
    combos = [('int64', 'float64', Fraction(1, 2), 0), ('int32', 'float32', Fraction(1, 2), 0),
              ('float32', 'float64', F32EDGE, 0), ('float64', 'complex128', Fraction(1), Fraction(2)),
              ('float32', 'complex64', Fraction(1, 2), Fraction(1)), ('int64', 'complex128', Fraction(1, 2), Fraction(-1)),
              ('int64', 'float64', Fraction(0), 0), ('float32', 'float64', Fraction(0), 0),
              # narrower range (the constructor accepts it): representable and non-representable constants
              ('float64', 'float32', Fraction(1, 2), 0), ('float64', 'float32', F32EDGE, 0), ('float64', 'int64', Fraction(2), 0)]
    shapes = [([3], [5], [1]), ([2], [5], [2]), ([5], [3], [1]), ([2, 3], [4, 3], [1, 0]), ([2, 2], [3, 4], [1, 1])]
    if quick:
        shapes = shapes[:2] + shapes[3:4]
    out = []
    k = 0
    for dtype, rdtype, cre, cim in combos:
        for dom, ran, offs in shapes:
            for construct in ('ran_shp', 'range'):
                k += 1
                c = cj(cre, cim)
                D = max(2, cre.denominator)
                base = {'api': 'operator', 'dom': dom, 'ran': ran, 'offs': offs, 'mode': 'constant', 'c': c, 'dtype': dtype,
                        'rdtype': rdtype, 'out': ['none', 'given'][k % 2], 'D': D, 'lo': [qj(LOS[(k + a) % 4]) for a in range(len(dom))],
                        'hs': [qj(HS[(k + a) % 4]) for a in range(len(dom))], 'construct': construct, 'style': 'plain'}
                xd = generic(size(dom), k)
                xr = generic(size(ran), k + 1)
                out.append((dict(base, variant='call', x=xd), None))
                out.append((dict(base, variant='derivative', x=xd), None))
                if all(n >= m for m, n in zip(dom, ran)):
                    out.append((dict(base, variant='inverse', x=xr), None))
                    # cross-check with numpy.pad computed in the RANGE data type, also for constants off every lattice
                    for cpy in ([complex(float(cre), float(cim)) if cim else float(cre)] +
                                ([0.1] if np.dtype(rdtype).kind == 'f' and k % 2 else [])):
                        out.append((None, dict(base, x=xd, cpy=[cpy.real, cpy.imag] if isinstance(cpy, complex) else cpy)))
                if cre == 0 and cim == 0 and np.dtype(rdtype).kind != 'c':
                    out.append((dict(base, variant='adjoint', x=xr), None))
        # a non-constant mode between different data types
        out.append(({'api': 'operator', 'variant': 'call', 'dom': [3], 'ran': [6], 'offs': [2], 'mode': 'order1', 'c': cj(0), 'dtype': dtype,
                     'rdtype': rdtype, 'out': 'none', 'D': 2, 'lo': [qj(0)], 'hs': [qj(1)], 'construct': 'ran_shp', 'style': 'plain',
                     'x': generic(3, k)}, None))
    return out


def numpy_pad_mixed(npc):
    """op(x) of a mixed-dtype constant-padding operator against numpy.pad evaluated in the range data type.
    Returns None or (clause, observation)."""
    import odl
    cpy = complex(*npc['cpy']) if isinstance(npc['cpy'], list) else npc['cpy']
    cd = dict(npc, c=cj(0))
    dom = R.make_domain(cd)
    try:
        if npc['construct'] == 'range':
            tmp = R._make_operator(cd)          # only to obtain the matching range space
            op = odl.ResizingOperator(dom, tmp.range, pad_mode='constant', pad_const=cpy)
        else:
            op = odl.ResizingOperator(dom, ran_shp=tuple(npc['ran']), offset=list(npc['offs']), pad_mode='constant', pad_const=cpy,
                                      discr_kwargs={'dtype': npc['rdtype']})
        x = R.to_array(npc['x'], tuple(npc['dom']), npc['dtype'])
        y = op(dom.element(x)).asarray()
    except Exception as e:
        return ('raised', {'err': type(e).__name__ + ': ' + str(e)[:100]})
    ref = np.pad(x.astype(npc['rdtype']), [(o, n - m - o) for m, n, o in zip(npc['dom'], npc['ran'], npc['offs'])],
                 mode='constant', constant_values=np.array(cpy).astype(npc['rdtype']))
    if y.dtype != ref.dtype or not np.array_equal(y, ref):
        return ('numpy-pad', {'operator': y.tolist() if y.dtype.kind != 'c' else str(y.tolist()),
                              'numpy_pad': ref.tolist() if ref.dtype.kind != 'c' else str(ref.tolist()), 'dtype': str(y.dtype)})
    if bool(op.is_linear) != (cpy == 0):
        return ('linear-flag', {'is_linear': bool(op.is_linear), 'pad_const': str(cpy)})
    return None


def beyond_bounds(quick):
    """Deterministic enumeration beyond the TLC constants: longer arrays and padding larger than the array."""
    rnd = random.Random(2024)
    out = []
    for m in ([1, 2, 3, 6] if quick else [1, 2, 3, 4, 6, 8]):
        for n in ([6, 9] if quick else [6, 7, 9, 12]):
            if m == n:
                continue
            for mode in MODES:
                for api in ('resize_array', 'operator'):
                    out.append(driver_call(rnd, {'dom': [m], 'ran': [n], 'mode': mode, 'api': api}))
                    out.append(driver_call(rnd, {'dom': [n], 'ran': [m], 'mode': mode, 'api': api}))
    return out


# ------------------------------------------------------------------ check
def run(ctx):
    quick = ctx.tier == 'quick'
    work = ctx.work
    ctx.rule = ('abstract case = (configuration [shape_in, shape_out, offsets, pad mode, direction, pad constant], query '
                '[call | inverse]) exported by TLC from ResizeMachine, times concretisation class (api, dtype kind, out=, '
                'memory order, embedding with an untouched axis, operator construction route); one evaluation = one real call '
                'compared with the specification; distinct = hash of (configuration, query, api, variant, dtype kind, '
                'concretisation kind); non-trivial = admissible configuration that changes at least one axis')
    ctx.assumptions += [
        "'symmetric' reflects about the edge entry without repeating it (NumPy 'reflect'); 'periodic' = NumPy 'wrap', "
        "'order0' = NumPy 'edge', 'constant' = NumPy 'constant'; 'order1' has no NumPy equivalent",
        'offsets are valid (0 <= offset <= |n_out - n_in|); configurations outside the documented length restrictions are '
        'only expected to refuse (a missing refusal is drift, not a violation)',
        'the adjoint direction with a non-zero pad constant is undefined (the implementation refuses it)',
        'weighted inner products: default cell-volume weighting of odl.uniform_discr (nodes_on_bdry=False) in domain and '
        'range; other weightings / boundary-node partitions are the subject of C05',
        'default offset when shrinking by an odd number: either side may lose the extra cell (the documentation only '
        'fixes the growing case)',
        "for an explicitly given offset on a shrinking axis the range is expected at domain.min + offset*cell "
        "(documented meaning of `offset`: cells removed from the left)",
        '.inverse: values are compared only where the inverse is a pure cropping (operator = pure extension); for a pure '
        'restriction only "extend by .inverse, then crop by the operator = identity" is required; mixed cases are not judged',
        'nodes on the boundary (discr_kwargs nodes_on_bdry, and domains that have them): only the GEOMETRY is judged (range limits, '
        'unchanged cell side, range nodes = continued domain nodes, .inverse constructible, extend-then-crop); the weighted adjoint '
        'identity on such partitions is the subject of C05; axes with a single node carry no flags',
        'an offset entry on an axis whose size does not change is ignored (effective offset 0): range limits, cell side and grid '
        'of the domain are kept there; this is what makes the documented scalar spelling offset=k meaningful when only some axes change',
        'caller-owned ndarrays given as ran_shp / offset / pad_const are overwritten after the construction, results of earlier calls '
        'are overwritten, and geometry / values are observed again after other calls: all must stay as specified',
        'resize_array is called with every kind of array-like (ndarray, list, ODL tensor / discretised elements, ndarray subclass '
        'view, np.matrix, memoryview, __array__ objects returning the shared buffer, strided views): value = reference, the input '
        'object is unchanged afterwards (clause input-modified), NaN / garbage pre-filled out= does not leak',
        'mixed data types: the pad constant is a value of the data type of the RESULT (range); the reference decides the fill when '
        'the constant is representable there (dyadic constants such as 1/2 for an int domain, 1 + 2^-24 for a float32 domain, 1+2i '
        'for a real domain), numpy.pad in the range data type is the oracle for every constant; is_linear is judged on the constant',
        'option spellings exercised: nested-list input, list / tuple shapes, one int offset for all axes, upper-case mode / '
        'direction strings, 0-d array pad constants, ran_shp / explicit range / default offset, discr_kwargs dtype',
        'all data on integer / half-integer lattices; results are integer combinations of them, compared exactly']

    # ---- 1. model runs + export ----
    tier = 'quick' if quick else 'thorough'
    jobs = [('1d', {'RS_PART': '1d', 'RS_TIER': tier, 'RS_MODE': 'all'})]
    jobs += [('2d-' + m, {'RS_PART': '2d', 'RS_TIER': tier, 'RS_MODE': m}) for m in MODES]
    jobs.append(('bogus', {'RS_PART': '1d', 'RS_TIER': 'quick', 'RS_MODE': 'all'}))

    def go(j):
        out = os.path.join(work, 'rs_%s.ndjson' % j[0]) if j[0] != 'bogus' else os.devnull
        env = dict(j[1], OUT_FILE=out, RS_RANGE_FIXED=FIXED_RANGE)
        cfgf = 'MC_Resize_bogus.cfg' if j[0] == 'bogus' else 'MC_Resize.cfg'
        return j, out, run_tlc('MC_Resize.tla', cfgf, work, env=env, workers=1, timeout=3000, heap='3g')
    with ThreadPoolExecutor(max_workers=8) as ex:
        results = list(ex.map(go, jobs))
    cases = []
    for j, out, res in results:
        if j[0] == 'bogus':
            ctx.add_tlc('selftest-bogus-invariant', res, expect='any')
            if res.status != 'counterexample':
                raise MachineryError('self-test: bogus invariant was not refuted by TLC')
            continue
        ctx.add_tlc('ResizeMachine+ResizeImpl ' + j[0], res)
        with open(out) as f:
            lines = f.readlines()
        if not lines:
            raise MachineryError('empty export ' + j[0])
        cases += [json.loads(l) for l in lines]
    ctx.extra['exported_cases'] = len(cases)

    # ---- 2. replay ----
    events = []       # (cd, y, err, offs) tuples or ready-made event dicts
    meta = []         # per event: (api, variant, dtype, offset-kind) for signatures
    counters = {}
    drift_seen = set()

    def add_events(evs, api, variant, dtype, offset):
        for e in evs:
            events.append(e)
            meta.append((api, variant, dtype, offset))

    def run_calls(dcalls, nontrivial=None):
        for cd in dcalls:
            y, err, nt, info = R.execute(cd)
            add_events([(cd, y, err, info.get('offs'))], 'resize_array' if cd['api'] == 'resize_array' else 'ResizingOperator',
                       cd['variant'], cd['dtype'], 'from-range' if cd.get('construct') == 'range' else 'explicit')
            ctx.count([cd['api'], cd['variant'], cd['dom'], cd['ran'], cd['offs'], cd['mode'], cd.get('dir'), dkind(cd['dtype']),
                       cd.get('kind'), cd.get('rdtype'), cd['x']], cd['dom'] != cd['ran'])

    for ci, case in enumerate(cases):
        cfg, obs = case['cfg'], case['obs']
        fam = (cfg['mode'], cfg['dir'], obs['q'], len(cfg['shapeIn']))
        k = counters.get(fam, ctx.seed % 7)
        counters[fam] = k + 1
        log = (1 + k) if (not quick or ci % 2 == 0) else 0
        recs = replay_case(case, k, log, thorough=not quick)
        nontriv = bool(obs.get('adm')) and cfg['shapeIn'] != cfg['shapeOut']
        for r in recs:
            ctx.count([cfg, obs['q'], r['api'], r['variant'], dkind(r['dtype']), r['conc'].get('kind')], nontriv, n=r['calls'])
            add_events(r['events'], r['api'], r['variant'], r['dtype'], r['offset'])
            rextra = {'arraylike': r['conc']['arraylike']} if 'arraylike' in r['conc'] else None
            if 'input-modified' in r['notes']:
                # the caller's input object (whatever kind of array-like it is) must hold what it held before
                ctx.violation(signature(r['api'], r['variant'], cfg['mode'], cfg['dir'], cfg['shapeIn'], cfg['shapeOut'],
                                        r['dtype'], r['offset'], 'input-modified', r.get('bdry', 'none'), rextra),
                              {'stage': 'replay', 'case': case, 'k': k, 'api': r['api'], 'conc': r['conc'], 'observed': r['observed']})
            for nt in r['notes']:
                if isinstance(nt, str) and nt.split(':')[0] in ('out-not-returned', 'result-not-in-range', 'argument-modified',
                                                                  'dtype-changed') and (r['api'], nt) not in drift_seen:
                    drift_seen.add((r['api'], nt))
                    ctx.drift_note('%s %s: %s (cfg %s)' % (r['api'], r['variant'], nt, dumps(cfg)))
            for clause in r['clauses']:
                if clause in DRIFT_CLAUSES:
                    if (r['api'], clause, cfg['mode']) not in drift_seen:
                        drift_seen.add((r['api'], clause, cfg['mode']))
                        ctx.drift_note('%s accepted a configuration outside the documented restrictions: %s' % (r['api'], dumps(cfg)))
                    continue
                ctx.violation(signature(r['api'], r['variant'], cfg['mode'], cfg['dir'], cfg['shapeIn'], cfg['shapeOut'],
                                        r['dtype'], r['offset'], clause, r.get('bdry', 'none'), rextra),
                              {'stage': 'replay', 'case': case, 'k': k, 'api': r['api'], 'conc': r['conc'], 'observed': r['observed']})
            if len(ctx.samples) < 3 and obs.get('adm') and r['api'] == 'ResizingOperator' and cfg['mode'] == 'order1' \
                    and len(cfg['shapeIn']) == 2 and ci % 11 == 0 and obs['q'] == 'call':
                ctx.sample({'cfg': cfg, 'query': obs['q'], 'api': r['api'], 'variant': r['variant'], 'concretisation': r['conc'],
                            'expected_first_row': obs['mat'][0], 'observed_first_row': [dumps(v) for v in (r['observed'].get('M') or [[None]])[0]]})
    ctx.traces += len(cases)

    # ---- 3. drivers ----
    # 3a operator geometry (range domain, cell sides, offsets) + one call each
    ngeo = 0
    for dom, ran, offs, k, gstyle in geometry_cases(quick):
        cd, evs = run_geometry(dom, ran, offs, k, gstyle)
        kind = 'default' if all(o is None for o in offs) else ('from-range' if cd['construct'] == 'range' else 'explicit')
        for e in evs:
            if isinstance(e, dict) and e.get('kind') == 'construct-failed':
                ctx.violation(signature('ResizingOperator', 'construct', cd['mode'], 'forward', dom, ran, 'float64', kind, 'construct-raised',
                                        bdry_class(cd.get('dbdry'), cd.get('rbdry'))),
                              {'stage': 'geometry', 'dom': dom, 'ran': ran, 'offs': offs, 'k': k, 'style': gstyle, 'observed': e})
                continue
            if isinstance(e, dict):
                e['_replay'] = {'dom': dom, 'ran': ran, 'offs': offs, 'k': k, 'style': gstyle}
            add_events([e], 'ResizingOperator', 'construct' if isinstance(e, dict) else 'call', 'float64', kind)
        ctx.count(['geometry', dom, ran, offs], dom != ran)
        ngeo += 1
    # 3b adjoint identity in the weighted inner products
    rnd = random.Random(ctx.seed * 7907 + 5)
    nadj = 0
    for dom, ran, offs, mode, k in adjid_cases(quick):
        if not admissible_hint(dom, ran, offs, mode) or not admissible_hint(ran, dom, offs, mode):
            continue
        dtype = ['float64', 'complex128'][k % 2]
        cplx = dtype.startswith('complex')
        d = len(dom)
        lo = [LOS[(k + a) % len(LOS)] for a in range(d)]
        hs = [HS[(k + a) % len(HS)] for a in range(d)]
        cd = {'api': 'operator', 'variant': 'call', 'dom': dom, 'ran': ran, 'offs': offs, 'mode': mode, 'c': cj(0), 'dtype': dtype,
              'D': 2, 'lo': [qj(v) for v in lo], 'hs': [qj(v) for v in hs], 'construct': ['ran_shp', 'range'][k % 2]}
        x = [rand_c(rnd, cplx, 2, 3) for _ in range(size(dom))]
        y = [rand_c(rnd, cplx, 2, 3) for _ in range(size(ran))]
        vol = Fraction(1)
        for h in hs:
            vol *= h
        try:
            ev = R.adjoint_identity(cd, x, y, 16 * vol.denominator)
        except Exception as e:      # the operator refused: recorded, judged by the resize events of the same family
            ctx.drift_note('adjoint identity not evaluated (%s) for %s' % (type(e).__name__, dumps([dom, ran, offs, mode])))
            continue
        ev['_replay'] = {'cd': cd}
        add_events([ev], 'ResizingOperator', 'adjoint', dtype, 'explicit')
        ev['_cfg'] = {'mode': mode, 'dom': dom, 'ran': ran}
        ctx.count(['adjid', dom, ran, offs, mode, dtype], True)
        nadj += 1
    # 3c beyond the TLC constants + seeded random concretisations
    dcalls = beyond_bounds(quick) + [driver_call(rnd) for _ in range(1000 if quick else 16000)]
    # 3d every kind of array-like input x direction x pad mode x growing / shrinking axes (deterministic)
    dcalls += arraylike_cases(quick)
    # 3d' `out` wider than the input (sums of the adjoint direction live in the out type)
    dcalls += wider_out_cases(quick)
    # 3e domain and range of different data types (fill in the RANGE data type, is_linear on the actual constant)
    mixed = mixed_dtype_cases(quick)
    dcalls += [cd for cd, _ in mixed if cd is not None]
    run_calls(dcalls)
    for cd, npc in mixed:
        if npc is None:
            continue
        cl = numpy_pad_mixed(npc)
        ctx.count(['numpy-pad-mixed', npc['dom'], npc['ran'], npc['dtype'], npc['rdtype'], npc['construct']], True)
        if cl:
            ctx.violation(signature('ResizingOperator', 'call', 'constant', 'forward', npc['dom'], npc['ran'], npc['dtype'],
                                    'from-range' if npc['construct'] == 'range' else 'explicit', cl[0], 'none',
                                    {'dtypes': dtypes_class(npc['dtype'], npc['rdtype'])}),
                          {'stage': 'numpy-pad-mixed', 'case': npc, 'observed': cl[1]})
    ctx.traces += ngeo + nadj + len(dcalls)
    ctx.extra['operator_geometries_checked'] = ngeo
    ctx.extra['adjoint_identities_checked'] = nadj

    # ---- 4. TLC validates every recorded event ----
    validate_events(ctx, events, meta, work)
    ctx.extra['bounds'] = {
        'one_axis_space': 'n_in, n_out in 1..%d x all offsets x 5 modes x {forward c=0, forward c=3 (constant), adjoint}' % (5 if quick else 7),
        'two_axis_space': 'all shape pairs with per-axis sizes in 1..%d (grow / shrink / same per axis) x all offset pairs x modes x directions' % (3 if quick else 4),
        'geometry_space': 'every 1-d (m, n, offset) of the one-axis space x 16 combinations of nodes-on-boundary flags (domain L, R; range L, R) '
                          'exported by TLC and replayed via ran_shp / default-offset / explicit-range construction',
        'drivers': 'operator geometry: all 1-d (m, n, offset|default) up to %d and %d 2-d mixtures (every second one with rotating boundary flags); adjoint identity on all admissible 1-d '
                   '(m, n, offset, mode) up to 5 and 2-d mixtures up to 3x3; 1-d sizes up to 12 with padding larger than the array; '
                   '%d random calls in 1-3 d; every array-like input kind x direction x mode x 4+ shapes; mixed domain / range data types '
                   '(11 type / constant combinations x shapes x construction routes)' % (5 if quick else 7, 100 if quick else 360, 1000 if quick else 16000)}
    ctx.extra['outside_the_statement'] = outside_statement_observations()
    ctx.exhaustive = True     # 1-d space n_in, n_out in 1..5 x offsets x modes x directions and the 2-d mixtures up to 3x3 are
    #                           enumerated completely by TLC; every exported case is replayed


def outside_statement_observations():
    """Behaviours next to the statement that were looked at on the real code; informational, never a verdict."""
    import odl
    obs = {}
    op = odl.ResizingOperator(odl.uniform_discr(0, 3, 3), ran_shp=(5,))
    try:
        op.adjoint.inverse
        obs['ResizingOperator.adjoint.inverse'] = 'available'
    except Exception as e:
        obs['ResizingOperator.adjoint.inverse'] = 'raises %s: %s' % (type(e).__name__, str(e)[:80])
    sp2 = odl.uniform_discr([0, 0], [2, 3], (2, 3))
    try:
        odl.ResizingOperator(sp2, ran_shp=(4, 4), discr_kwargs={'nodes_on_bdry': [True, (False, True)]})
        obs['discr_kwargs nodes_on_bdry mixed bool / pair per axis'] = 'accepted'
    except Exception as e:
        obs['discr_kwargs nodes_on_bdry mixed bool / pair per axis'] = 'raises %s' % type(e).__name__
    kw = {'dtype': 'float32'}
    odl.ResizingOperator(odl.uniform_discr(0, 3, 3), ran_shp=(5,), discr_kwargs=kw)
    obs['discr_kwargs dict of the caller is modified (keys popped)'] = (kw == {})
    for name, args in (('range together with offset', {'offset': 1}), ('range together with ran_shp', {'ran_shp': (5,)})):
        try:
            odl.ResizingOperator(odl.uniform_discr(0, 3, 3), odl.uniform_discr(-1, 4, 5), **args)
            obs[name] = 'accepted'
        except Exception as e:
            obs[name] = 'refused with %s' % type(e).__name__
    return obs


def as_event(e, eid):
    if isinstance(e, dict):
        ev = {k: v for k, v in e.items() if not k.startswith('_')}
        ev['id'] = eid
        return ev
    cd, y, err, offs = e
    return R.event_of(cd, y, err, eid, offs if (offs is not None and any(o is None for o in cd['offs'])) else None)


def validate_events(ctx, events, meta, work, chunk=4000):
    files = []
    for ci in range(0, len(events), chunk):
        p = os.path.join(work, 'trace_rs_%d.ndjson' % (ci // chunk))
        with open(p, 'w') as f:
            for k, e in enumerate(events[ci:ci + chunk]):
                f.write(json.dumps(as_event(e, ci + k)) + '\n')
        files.append(p)

    def val(p):
        return p, run_tlc('Trace_Resize.tla', 'Trace_Resize.cfg', work, env={'TRACE_FILE': p}, workers=1, timeout=3000, heap='3g')
    with ThreadPoolExecutor(max_workers=10) as ex:
        vres = list(ex.map(val, files))
    nfail = 0
    for p, res in vres:
        ctx.add_tlc('trace-' + os.path.basename(p), res)
        fails = parse_fails(res.output)
        mnf = re.search(r'<<\s*"NFAIL"\s*,\s*(\d+)\s*>>', res.output)
        if mnf is None or int(mnf.group(1)) != len(fails):
            raise MachineryError('trace validation %s: TLC counted %s rejected events, %d FAIL tuples were parsed' % (
                os.path.basename(p), mnf.group(1) if mnf else 'no', len(fails)))
        for _ln, eid, ctext in fails:
            nfail += 1
            e = events[eid]
            api, variant, dtype, offset = meta[eid]
            clauses = sorted(set(re.findall(r'<<\s*"([\w-]+)"', ctext)))
            bd, xtra = 'none', None
            if isinstance(e, dict):
                if e['kind'] == 'range':
                    mode, direction, dom, ran = 'any', 'forward', e['dom'], e['ran']
                    bd = bdry_class(e.get('dbdry'), e.get('rbdry'))
                else:
                    mode, direction, dom, ran = e['_cfg']['mode'], 'adjoint', e['_cfg']['dom'], e['_cfg']['ran']
                detail = {'stage': 'trace-' + e['kind'], 'event': as_event(e, eid), 'replay': e.get('_replay'), 'tlc_clauses': ctext}
            else:
                cd = e[0]
                mode, direction, dom, ran = cd['mode'], cd.get('dir', 'forward'), cd['dom'], cd['ran']
                xtra = extra_of(cd)
                detail = {'stage': 'trace', 'call': cd, 'observed': {'y': e[1], 'err': e[2], 'offs': e[3]}, 'tlc_clauses': ctext}
            for clause in clauses:
                if clause in DRIFT_CLAUSES:
                    ctx.drift_note('%s %s: %s on %s' % (api, variant, clause, dumps([dom, ran, mode])))
                    continue
                ctx.violation(signature(api, variant, mode, direction, dom, ran, dtype, offset, clause, bd, xtra), detail)
    ctx.extra['trace_events_validated_by_tlc'] = len(events)
    ctx.extra['trace_events_rejected_by_tlc'] = nfail


def replay(body):
    d = body['detail']
    st = d['stage']
    if st == 'trace':
        cd = d['call']
        y, err, nt, info = R.execute(cd)
        print('call     :', dumps({k: v for k, v in cd.items() if k != 'x'}))
        print('input    :', dumps(cd['x']))
        print('observed now :', dumps(y), err, nt)
        print('observed then:', dumps(d['observed']['y']), d['observed']['err'])
        print('TLC clauses  :', d.get('tlc_clauses'))
        same = (y == d['observed']['y'] and err == d['observed']['err'])
        print('REPRODUCED' if same else 'NOT-REPRODUCED')
        return 1 if same else 0
    if st == 'trace-range' or st == 'geometry':
        rp = d.get('replay') or d
        cd, evs = run_geometry(rp['dom'], rp['ran'], rp['offs'], rp['k'], rp.get('style'))
        now = [e for e in evs if isinstance(e, dict)]
        print('operator : ResizingOperator(uniform_discr(lo=%s, cell sides %s, shape %s), ran_shp=%s, offset=%s)' % (
            dumps(cd['lo']), dumps(cd['hs']), rp['dom'], rp['ran'], rp['offs']))
        print('observed now :', dumps(now))
        print('observed then:', dumps(d.get('event') or d.get('observed')))
        print('TLC clauses  :', d.get('tlc_clauses'))
        old = d.get('event') or {}
        same = bool(now) and all(now[0].get(kk) == old.get(kk) for kk in ('ranlo', 'ranhi', 'offs', 'rancell', 'ranshape')) \
            if st == 'trace-range' else (bool(now) and now[0].get('kind') == 'construct-failed')
        print('REPRODUCED' if same else 'NOT-REPRODUCED')
        return 1 if same else 0
    if st == 'trace-adjid':
        ev = d['event']
        cd = d['replay']['cd']
        vol = Fraction(1)
        for h in cd['hs']:
            vol *= fq(h)
        now = R.adjoint_identity(cd, ev['x'], ev['y'], 16 * vol.denominator)
        print('operator :', dumps({k: v for k, v in cd.items()}))
        print('<Rx,y> now', dumps(now['ipran']), ' <x,R*y> now', dumps(now['ipdom']))
        print('<Rx,y> then', dumps(ev['ipran']), ' <x,R*y> then', dumps(ev['ipdom']))
        print('TLC clauses  :', d.get('tlc_clauses'))
        same = now['ipran'] == ev['ipran'] and now['ipdom'] == ev['ipdom'] and now['rx'] == ev['rx'] and now['rty'] == ev['rty']
        print('REPRODUCED' if same else 'NOT-REPRODUCED')
        return 1 if same else 0
    case = d['case']
    recs = replay_case(case, d['k'], 0, thorough=True)
    want = d['conc'].get('kind')
    print('configuration:', dumps(case['cfg']), 'query', case['obs']['q'])
    print('concretisation:', dumps(d['conc']), 'api', d['api'])
    if case['obs'].get('adm') and 'mat' in case['obs']:
        print('expected matrix:', dumps(case['obs']['mat']))
        print('expected affine part:', dumps(case['obs']['aff']))
    bad = False
    for r in recs:
        if 'flags' in d['conc'] and (r['conc'].get('flags') != d['conc']['flags'] or r['conc'].get('route') != d['conc'].get('route')):
            continue
        if r['api'] != d['api'] or (want and r['conc'].get('kind') != want) or \
                (r['conc'].get('dtype') and d['conc'].get('dtype') and r['conc']['dtype'] != d['conc']['dtype']):
            continue
        print('observed:', dumps(r['observed']))
        print('clauses :', r['clauses'], r['notes'])
        bad = bad or bool(set(r['clauses']) - DRIFT_CLAUSES)
    print('REPRODUCED' if bad else 'NOT-REPRODUCED')
    return 1 if bad else 0

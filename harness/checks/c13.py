"""C13 - finite-difference operators equal reference stencils; adjoints are transposes.

Pipeline (DESIGN 4/C13):
  1. TLC: FDMachine (configuration machine over FDSem, layer A) with the invariants that formalise the
     statement (adjoint scheme = transpose, divergence = -gradient^T, derivative = zero-padding variant),
     the sanity laws of the reference, and FDImpl (layer C, the statements of finite_diff incl. the
     short-axis corrections) = reference as full matrices for the complete one-axis space.
  2. TLC exports one JSON line per (configuration, query) with the expected full matrix / affine part;
     each is replayed on REAL finite_diff / PartialDerivative / Gradient / Divergence / Laplacian through
     unit vectors (1-3 d, every axis, sizes down to 2, real / complex, dyadic cell sides, in-place out,
     C / F / strided memory) and the observed matrix is compared with the exported one.
  3. Replayed calls, exhaustive enumerations beyond the TLC constants and seeded random calls are
     recorded as events and validated by TLC against Trace_FD (re-evaluates the layer-A operators).
"""
import json
import os
import random
import re
from concurrent.futures import ThreadPoolExecutor
from fractions import Fraction
from math import gcd

from ..tlc import run_tlc, parse_fails
from ..common import dumps, MachineryError
from .. import fdutil as U

METHODS = ['forward', 'backward', 'central']
PADS = ['constant', 'symmetric', 'symmetric_adjoint', 'periodic', 'order0', 'order0_adjoint',
        'order1', 'order1_adjoint', 'order2', 'order2_adjoint']
LAP_PADS = ['constant', 'symmetric', 'symmetric_adjoint', 'periodic', 'order0', 'order0_adjoint']
API = {'pd': 'PartialDerivative', 'grad': 'Gradient', 'div': 'Divergence', 'lap': 'Laplacian'}
ONE = [1, 1]


# ------------------------------------------------------------------ expectation helpers (parsing only)
def lcm(a, b):
    return a * b // gcd(a, b)


def den_of(obs):
    D = 1
    for row in obs.get('mat', []):
        for q in row:
            D = lcm(D, q[1])
    for q in obs.get('b', []):
        D = lcm(D, q[1])
    return D


def exp_mat(obs):
    return [[U.fq(q) for q in row] for row in obs['mat']]


def exp_b(obs, nout):
    return [U.fq(q) for q in obs['b']] if 'b' in obs else [Fraction(0)] * nout


def size_class(cfg):
    ns = [cfg['shape'][cfg['axis'] - 1]] if cfg['op'] == 'pd' else cfg['shape']
    return 'short' if min(ns) <= 4 else 'regular'


def signature(api, cfg, variant, dtype, clause):
    c = cfg['c']
    czero = (c[0] == 0) if isinstance(c[0], int) else (c[0][0] == 0 and c[1][0] == 0)
    return {'api': api, 'variant': variant, 'method': cfg['method'], 'pad': cfg['pad'], 'size': size_class(cfg),
            'ndim': '%dd' % len(cfg['shape']), 'dtype': 'complex' if str(dtype).startswith('complex') else 'real',
            'padconst': 'zero' if czero else 'nonzero', 'clause': clause}


def nblocks_in(op, variant, d):
    if (op == 'div' and variant != 'adjoint') or (op == 'grad' and variant == 'adjoint'):
        return d
    return 1


def c_of(cfg, w):
    """pad constant of the configuration as C number, rotated by w in {1, 'i'}"""
    c = [list(cfg['c']), [0, 1]]
    return U.c_mul_i(c) if w == 'i' else c


def unrot(y, w):
    return [U.c_div_i(z) for z in y] if w == 'i' else y


def csub(a, b):
    if U.is_nan_c(a) or U.is_nan_c(b):
        return None
    return (U.fq(a[0]) - U.fq(b[0]), U.fq(a[1]) - U.fq(b[1]))


def cval(a):
    if U.is_nan_c(a):
        return None
    return (U.fq(a[0]), U.fq(a[1]))


# ------------------------------------------------------------------ spec -> code : operators through unit vectors
def probe_operator(cfg, variant, dtype, inplace, D, log, tag):
    """Observe the affine map (M, b) of the real operator `variant` of cfg through 0 and unit vectors.
    Returns dict(M=[[..]], b=[..], err, notes, calls, events)."""
    shape = cfg['shape']
    d = len(shape)
    N = 1
    for s in shape:
        N *= s
    nb = nblocks_in(cfg['op'], variant, d)
    w = 'i' if str(dtype).startswith('complex') else 1
    unit = U.c_mul_i(U.cj(1)) if w == 'i' else U.cj(1)
    zero = U.cj(0)
    base = {'api': 'operator', 'op': cfg['op'], 'variant': variant, 'shape': shape, 'axis': cfg['axis'],
            'hs': cfg['hs'], 'method': cfg['method'], 'pad': cfg['pad'], 'c': c_of(cfg, w),
            'dtype': dtype, 'inplace': inplace, 'D': D}
    outs, events, notes = [], [], set()
    nin = nb * N
    for k in range(nin + 1):
        x = [[zero] * N for _ in range(nb)]
        if k:
            x[(k - 1) // N][(k - 1) % N] = unit
        cd = dict(base, x=x)
        y, err, nt = U.execute(cd)
        if err:
            return {'err': err, 'notes': nt, 'calls': k + 1, 'events': [(cd, y, err, tag)] if log else []}
        notes.update(nt)
        flat = unrot([z for blk in y for z in blk], w)
        outs.append(flat)
        if log and (k == 0 or k == 1 + (log % nin)):
            events.append((cd, y, err, tag))
    b = [cval(z) for z in outs[0]]
    M = [[csub(outs[k + 1][r], outs[0][r]) for k in range(nin)] for r in range(len(outs[0]))]
    return {'err': '', 'M': M, 'b': b, 'notes': sorted(notes), 'calls': nin + 1, 'events': events}


def compare_affine(res, obs):
    """clauses in which the observed (M, b) differs from the exported expectation"""
    bad = []
    M = exp_mat(obs)
    if len(res['M']) != len(M) or any(len(r) != len(e) for r, e in zip(res['M'], M)):
        return ['shape']
    b = exp_b(obs, len(M))
    if any(o is None or o != (e, 0) for ro, re_ in zip(res['M'], M) for o, e in zip(ro, re_)):
        bad.append('matrix')
    if any(o is None or o != (e, 0) for o, e in zip(res['b'], b)):
        bad.append('affine-part')
    return bad


# ------------------------------------------------------------------ spec -> code : finite_diff on embedded lines
def embedded_fd(cfg, conc, D, tag):
    """finite_diff on an N-d array whose lines along the axis carry the probes 0, e_1..e_n (different probes on
    different lines).  Returns dict(resp={probe: [responses]}, err, notes, calls, events)."""
    n = cfg['shape'][0]
    ndim, ax0, others = conc['ndim'], conc['axis0'], conc['others']
    shape = list(others[:ax0]) + [n] + list(others[ax0:])
    L = 1
    for s in others:
        L *= s
    w = 'i' if conc['dtype'].startswith('complex') else 1
    unit = U.c_mul_i(U.cj(1)) if w == 'i' else U.cj(1)
    zero = U.cj(0)
    hs = [ONE] * ndim
    hs[ax0] = cfg['hs'][0]
    ncalls = -(-(n + 1) // L)
    resp = {}
    events, notes = [], set()
    for k in range(ncalls):
        probes = [(k * L + ell + conc.get('shift', 0)) % (n + 1) for ell in range(L)]
        lines = [[unit if (p and j == p - 1) else zero for j in range(n)] for p in probes]
        x = U.from_lines(lines, shape, ax0)
        cd = {'api': 'finite_diff', 'op': 'pd', 'variant': 'call', 'shape': shape, 'axis': ax0 + 1, 'hs': hs,
              'method': cfg['method'], 'pad': cfg['pad'], 'c': c_of(cfg, w), 'x': [x], 'dtype': conc['dtype'],
              'inplace': conc['inplace'], 'layout': conc['layout'], 'negaxis': conc['negaxis'], 'D': D}
        y, err, nt = U.execute(cd)
        events.append((cd, y, err, tag))
        if err:
            return {'err': err, 'notes': nt, 'calls': k + 1, 'events': events}
        notes.update(nt)
        ylines = U.lines_view(y[0], shape, ax0)
        for p, yl in zip(probes, ylines):
            resp.setdefault(p, []).append(unrot(yl, w))
    return {'err': '', 'resp': resp, 'notes': sorted(notes), 'calls': ncalls, 'events': events}


def compare_resp(res, obs, n):
    M = exp_mat(obs)
    b = exp_b(obs, n)
    bad = set()
    zero_resps = res['resp'].get(0, [])
    for r0 in zero_resps:
        if any(cval(z) != (e, 0) for z, e in zip(r0, b)):
            bad.add('affine-part')
    for p, rs in res['resp'].items():
        if p == 0:
            continue
        for r in rs:
            # response to e_p is column p of M plus the affine part (observed separately above)
            if any(cval(z) is None or (cval(z)[0] - e0, cval(z)[1]) != (M[i][p - 1], 0)
                   for i, (z, e0) in enumerate(zip(r, b))):
                bad.add('matrix')
    if set(res['resp']) != set(range(n + 1)):
        bad.add('probe-missing')
    return sorted(bad)


def conc_list(seed):
    geo = [(1, 0, ()), (2, 0, (3,)), (2, 1, (2,)), (3, 0, (2, 2)), (3, 1, (2, 3)), (3, 2, (3, 2))]
    out = []
    for ndim, ax0, others in geo:
        for dt in ('float64', 'float32', 'complex128', 'complex64'):
            for layout in ('C', 'F', 'T'):
                for inplace in (False, True):
                    for neg in (False, True):
                        out.append({'ndim': ndim, 'axis0': ax0, 'others': list(others), 'dtype': dt, 'layout': layout,
                                    'inplace': inplace, 'negaxis': neg})
    random.Random(1000 + seed).shuffle(out)
    return out


# ------------------------------------------------------------------ replay of one exported line
def replay_case(case, picks, log):
    """Replay one exported (cfg, obs) on real code.  picks: concretisation choices.  Returns a list of result
    records {api, variant, dtype, conc, clauses, calls, notes, events, observed}."""
    cfg, obs = case['cfg'], case['obs']
    q = obs['q']
    results = []
    D = den_of(obs) if obs['admissible'] else 2
    axis_cfg = cfg['op'] == 'pd' and len(cfg['shape']) == 1
    tag = {'cfg': cfg, 'q': q}
    if not obs['admissible']:
        # outside the documented length restrictions / admissible modes: the implementation is expected to refuse
        recs = []
        if axis_cfg:
            n = cfg['shape'][0]
            x = [U.cj(1)] * n
            cd = {'api': 'finite_diff', 'op': 'pd', 'variant': 'call', 'shape': cfg['shape'], 'axis': 1, 'hs': cfg['hs'],
                  'method': cfg['method'], 'pad': cfg['pad'], 'c': c_of(cfg, 1), 'x': [x], 'dtype': 'float64',
                  'inplace': False, 'layout': 'C', 'negaxis': False, 'D': 2}
            recs.append(('finite_diff', cd))
        d = len(cfg['shape'])
        N = 1
        for s in cfg['shape']:
            N *= s
        cdo = {'api': 'operator', 'op': cfg['op'], 'variant': 'call', 'shape': cfg['shape'], 'axis': cfg['axis'],
               'hs': cfg['hs'], 'method': cfg['method'], 'pad': cfg['pad'], 'c': c_of(cfg, 1),
               'x': [[U.cj(1)] * N for _ in range(nblocks_in(cfg['op'], 'call', d))], 'dtype': 'float64',
               'inplace': False, 'D': 2}
        recs.append((API[cfg['op']], cdo))
        for api, cd in recs:
            y, err, nt = U.execute(cd)
            results.append({'api': api, 'variant': 'call', 'dtype': 'float64', 'conc': {}, 'clauses': [] if err else ['not-raised'],
                            'calls': 1, 'notes': nt, 'events': [(cd, y, err, tag)], 'observed': {'err': err}, 'inadmissible': True})
        return results
    n_out = len(obs['mat'])
    if axis_cfg and q == 'call':
        for conc in picks['fd']:
            res = embedded_fd(cfg, conc, D, tag)
            clauses = ['raised'] if res['err'] else compare_resp(res, obs, cfg['shape'][0])
            results.append({'api': 'finite_diff', 'variant': 'call', 'dtype': conc['dtype'], 'conc': conc, 'clauses': clauses,
                            'calls': res['calls'], 'notes': res['notes'], 'events': res['events'] if log else [],
                            'observed': {k: res.get(k) for k in ('err', 'resp')}})
    for dtype, inplace in picks['op']:
        res = probe_operator(cfg, q, dtype, inplace, D, log, tag)
        clauses = ['raised'] if res['err'] else compare_affine(res, obs)
        results.append({'api': API[cfg['op']], 'variant': q, 'dtype': dtype, 'conc': {'dtype': dtype, 'inplace': inplace},
                        'clauses': clauses, 'calls': res['calls'], 'notes': res['notes'], 'events': res['events'],
                        'observed': {k: res.get(k) for k in ('err', 'M', 'b')}})
        if q == 'adjoint':
            # the scheme the documentation pairs with the adjoint, built as a REAL operator of its own (e.g. the real
            # Divergence with the adjoint method / padding for a Gradient): sign * its matrix must be the same transpose
            acfg, sign = obs['acfg'], obs['sign']
            res2 = probe_operator(acfg, 'call', dtype, inplace, D, 0, tag)
            if res2['err']:
                cl2 = ['raised']
            else:
                res2['M'] = [[None if v is None else (sign * v[0], sign * v[1]) for v in row] for row in res2['M']]
                cl2 = ['adjoint-scheme' if c_ == 'matrix' else c_ for c_ in compare_affine(res2, obs)]
            results.append({'api': API[acfg['op']], 'variant': 'call', 'dtype': dtype,
                            'conc': {'dtype': dtype, 'inplace': inplace, 'as_adjoint_scheme_of': API[cfg['op']]},
                            'clauses': cl2, 'calls': res2['calls'], 'notes': res2.get('notes', []), 'events': [],
                            'observed': {k: res2.get(k) for k in ('err', 'M', 'b')}})
    return results


DRIFT_CLAUSES = {'not-raised'}


# ------------------------------------------------------------------ code -> spec : drivers
def rand_c(rnd, cplx, Dx):
    re = Fraction(rnd.randint(-4 * Dx, 4 * Dx), Dx)
    im = Fraction(rnd.randint(-3 * Dx, 3 * Dx), Dx) if cplx and rnd.random() < 0.7 else 0
    return U.cj(re, im)


def driver_call(rnd, fam=None):
    """One random (or family-directed) call descriptor on lattice data."""
    fam = fam or {}
    api = fam.get('api') or rnd.choice(['finite_diff'] * 3 + ['operator'] * 4)
    op = 'pd' if api == 'finite_diff' else (fam.get('op') or rnd.choice(['pd', 'grad', 'div', 'lap']))
    method = fam.get('method') or rnd.choice(METHODS)
    pad = fam.get('pad') or rnd.choice(PADS if op != 'lap' or rnd.random() < 0.1 else LAP_PADS)
    ndim = fam.get('ndim') or rnd.choice([1, 1, 2, 2, 3])
    hi = {1: 9, 2: 5, 3: 4}[ndim]
    shape = fam.get('shape') or [rnd.choice([2, 2, 3, 3] + list(range(2, hi + 1))) for _ in range(ndim)]
    ndim = len(shape)
    axis = rnd.randint(1, ndim) if op == 'pd' else 0
    hs = [U.qj(rnd.choice([Fraction(1), Fraction(1, 2), Fraction(2), Fraction(1, 4), Fraction(4), Fraction(1, 8)]))
          for _ in range(ndim)]
    dtype = fam.get('dtype') or rnd.choice(['float64', 'float64', 'float32', 'complex128', 'complex64'])
    cplx = dtype.startswith('complex')
    Dx = rnd.choice([1, 1, 2])
    variant = 'call' if api == 'finite_diff' else (fam.get('variant') or rnd.choice(['call', 'call', 'adjoint', 'derivative']))
    c = U.cj(0)
    if rnd.random() < (0.7 if pad == 'constant' else 0.2):
        c = rand_c(rnd, cplx, Dx)
    if variant == 'adjoint' and pad == 'constant' and rnd.random() < 0.9:
        c = U.cj(0)
    if op == 'lap' and variant == 'adjoint':
        c = U.cj(0)
    N = 1
    for s in shape:
        N *= s
    nb = nblocks_in(op, variant, ndim)
    x = [[rand_c(rnd, cplx, Dx) for _ in range(N)] for _ in range(nb)]
    axes = [axis - 1] if op == 'pd' else list(range(ndim))
    D = U.lattice_for(hs, axes, op == 'lap', Dx)
    if api == 'finite_diff':       # finite_diff knows one cell side only
        hs = [hs[i] if i == axis - 1 else ONE for i in range(ndim)]
    cd = {'api': api, 'op': op, 'variant': variant, 'shape': shape, 'axis': axis, 'hs': hs, 'method': method if op != 'lap' else 'none',
          'pad': pad, 'c': c, 'x': x, 'dtype': dtype, 'inplace': rnd.random() < 0.5, 'D': D}
    if api == 'finite_diff':
        cd.update(layout=rnd.choice(['C', 'F', 'T']), negaxis=rnd.random() < 0.3)
    return cd


def beyond_bounds(quick):
    """Deterministic enumeration beyond the TLC constants: longer axes, other cell sides, complex pad constants."""
    rnd = random.Random(4242)
    out = []
    for n in ([8, 9] if quick else [8, 9, 10, 12, 16]):
        for method in METHODS:
            for pad in PADS:
                for dtype in (['float64'] if quick else ['float64', 'complex128', 'float32']):
                    cd = driver_call(rnd, {'api': 'finite_diff', 'method': method, 'pad': pad, 'shape': [n], 'dtype': dtype})
                    out.append(cd)
                    cd = driver_call(rnd, {'api': 'operator', 'op': 'pd', 'method': method, 'pad': pad, 'shape': [n], 'dtype': dtype,
                                           'variant': 'adjoint' if pad != 'constant' or n % 2 else 'call'})
                    out.append(cd)
    return out


# ------------------------------------------------------------------ check
def run(ctx):
    quick = ctx.tier == 'quick'
    work = ctx.work
    ctx.rule = ('abstract case = (configuration [op, shape, axis, cell sides, method, pad mode, pad constant], query '
                '[call | adjoint | derivative]) exported by TLC from FDMachine, times concretisation class (api, dtype, '
                'embedding / memory layout / in-place); one evaluation = one real call compared with the specification; '
                'distinct = hash of (configuration, query, api, dtype kind, in-place); non-trivial = admissible configuration '
                '(every admissible matrix is non-zero)')
    ctx.assumptions += [
        "'symmetric' is the edge-inclusive mirror f[-1]=f[0] (what code and tests mean by the name); 'order2' means "
        "one-sided three-point first/last rows for every method (documented 'second-order accurate edges')",
        "'<pad>_adjoint' modes are defined as minus the transpose of '<pad>' with the adjoint method (no independent "
        "textbook meaning exists)",
        'uniformly weighted spaces only: odl.uniform_discr with default nodes_on_bdry=False (constant cell-volume weighting)',
        'configurations outside the documented length restrictions (order2 with fewer than 3 entries) are only expected to '
        'refuse; a missing refusal is reported as drift, not as a violation',
        'the is_linear flag of the operators and the returned-object identity of out= are not part of the statement '
        '(recorded as drift notes only)',
        'all data dyadic: integer / half-integer inputs, cell sides powers of two, so every true result is an exact binary '
        'fraction; snapping tolerance 2^-20/D (float64), 2^-10/D (float32)']

    # ---- 1. model runs + export (parallel TLC processes, each -workers 1 because it exports) ----
    tier = 'quick' if quick else 'thorough'
    jobs = []
    for m in METHODS:
        for ps in ('base', 'adj'):
            out = os.path.join(work, 'fd_axis_%s_%s.ndjson' % (m, ps))
            jobs.append(('axis-%s-%s' % (m, ps), {'FD_PART': 'axis', 'FD_TIER': tier, 'FD_METHOD': m, 'FD_PADSET': ps,
                                                   'OUT_FILE': out}, out))
        out = os.path.join(work, 'fd_nd_%s.ndjson' % m)
        jobs.append(('nd-%s' % m, {'FD_PART': 'nd', 'FD_TIER': tier, 'FD_METHOD': m, 'FD_PADSET': 'all', 'OUT_FILE': out}, out))
    jobs.append(('bogus', {'FD_PART': 'axis', 'FD_TIER': 'quick', 'FD_METHOD': 'forward', 'FD_PADSET': 'base',
                           'OUT_FILE': os.devnull}, None))

    def go(j):
        cfgf = 'MC_FD_bogus.cfg' if j[0] == 'bogus' else 'MC_FD.cfg'
        return j, run_tlc('MC_FD.tla', cfgf, work, env=j[1], workers=1, timeout=3000, heap='2g')
    with ThreadPoolExecutor(max_workers=10) as ex:
        results = list(ex.map(go, jobs))
    cases = []
    for j, res in results:
        if j[0] == 'bogus':
            # self-test: a deliberately false invariant must be refuted (the invariants look at real matrices)
            ctx.add_tlc('selftest-bogus-invariant', res, expect='any')
            if res.status != 'counterexample':
                raise MachineryError('self-test: bogus invariant was not refuted by TLC')
            continue
        ctx.add_tlc('FDMachine+FDImpl ' + j[0], res)
        with open(j[2]) as f:
            lines = f.readlines()
        if not lines:
            raise MachineryError('empty export ' + j[0])
        cases += [json.loads(l) for l in lines]
    ctx.extra['exported_cases'] = len(cases)

    # ---- 2. replay of the exported cases on real code ----
    concs = conc_list(ctx.seed)
    per_fd = 2 if quick else 5
    counters = {}
    events = []          # (cd, y, err, tag)
    drift_seen = set()
    ncase = 0
    for ci, case in enumerate(cases):
        cfg, obs = case['cfg'], case['obs']
        fam = (cfg['op'], cfg['method'], cfg['pad'], obs['q'])
        k = counters.get(fam, ctx.seed % 5)
        counters[fam] = k + 1
        axis_cfg = cfg['op'] == 'pd' and len(cfg['shape']) == 1
        fd_picks = []
        if axis_cfg and obs['q'] == 'call':
            fd_picks = [{'ndim': 1, 'axis0': 0, 'others': [], 'dtype': 'float64', 'layout': 'C', 'inplace': False,
                         'negaxis': False}]
            fd_picks += [dict(concs[(k * per_fd + r) % len(concs)], shift=k + r) for r in range(per_fd)]
        dts = ['float64', 'complex128', 'float32', 'complex64']
        op_picks = [(dts[k % 2], bool((k // 2) % 2))]
        if not quick:
            op_picks.append((dts[(k + 1) % 2], not bool((k // 2) % 2)))
            op_picks.append((dts[2 + k % 2], bool(k % 2)))
        log = 1 + k if (quick and ci % 2 == 0) or (not quick) else 0
        recs = replay_case(case, {'fd': fd_picks, 'op': op_picks}, log)
        ncase += 1
        for r in recs:
            key = [cfg, obs['q'], r['api'], r['dtype'][0], r['conc'].get('inplace')]
            ctx.count(key, obs['admissible'], n=r['calls'])
            events += r['events']
            for nt in r['notes']:
                if nt in ('out-not-returned', 'input-modified', 'result-not-in-range') and (r['api'], nt) not in drift_seen:
                    drift_seen.add((r['api'], nt))
                    ctx.drift_note('%s %s: %s (cfg %s)' % (r['api'], r['variant'], nt, dumps(cfg)))
            for clause in r['clauses']:
                if clause in DRIFT_CLAUSES:
                    if (r['api'], clause, cfg['pad']) not in drift_seen:
                        drift_seen.add((r['api'], clause, cfg['pad']))
                        ctx.drift_note('%s accepted a configuration outside the documented restrictions: %s' % (r['api'], dumps(cfg)))
                    continue
                ctx.violation(signature(r['api'], cfg, r['variant'], r['dtype'], clause),
                              {'stage': 'replay', 'case': case, 'api': r['api'], 'conc': r['conc'], 'observed': r['observed']})
            if len(ctx.samples) < 3 and obs['admissible'] and r['api'] != 'finite_diff' and cfg['pad'].endswith('adjoint') \
                    and len(cfg['shape']) > 1 and ci % 37 == 0:
                ctx.sample({'cfg': cfg, 'query': obs['q'], 'api': r['api'], 'concretisation': r['conc'],
                            'expected_matrix_rows': len(obs['mat']), 'expected_first_row': obs['mat'][0],
                            'observed_first_row': [dumps(v) for v in (r['observed'].get('M') or [[None]])[0]]})
    ctx.traces += ncase

    # ---- 3. drivers: beyond the TLC constants + seeded random concretisations ----
    rnd = random.Random(ctx.seed * 104729 + 7)
    dcalls = beyond_bounds(quick)
    dcalls += [driver_call(rnd) for _ in range(1200 if quick else 14000)]
    for cd in dcalls:
        y, err, nt = U.execute(cd)
        events.append((cd, y, err, None))
        ctx.count([cd['api'], cd['op'], cd['variant'], cd['method'], cd['pad'], cd['shape'], cd['dtype'][0], cd['x']], True)
    ctx.traces += len(dcalls)

    # ---- 4. TLC validates every recorded event (chunks in parallel) ----
    validate_events(ctx, events, work)
    ctx.extra['bounds'] = {
        'one_axis_space': 'methods(3) x pad modes(10) x n in 2..7 x pad constants {0,1,-2} x cell sides %s; 1-d Laplacian for all 10 modes'
                          % ('{1/2,2}' if quick else '{1,1/2,2,1/4}'),
        'nd_shapes': 'PartialDerivative(every axis) / Gradient / Divergence / Laplacian on %s with cell sides (1/2, 2, 1/4)'
                     % ('(2),(3),(4),(2,3),(3,2),(2,2,3)' if quick else '14 shapes up to (4,3) and (2,3,2)'),
        'drivers': 'finite_diff / PartialDerivative with n in %s; %d random calls: 1-3 d, sizes 2..9 / 2..5 / 2..4, 6 cell sides, '
                   'complex pad constants, C / F / strided memory, negative axis' % ('{8,9}' if quick else '{8,9,10,12,16}', 1200 if quick else 14000)}
    ctx.extra['outside_the_statement'] = outside_statement_observations()
    ctx.exhaustive = True      # the declared one-axis space (methods x pads x n 2..7 x constants x cell sides) and the listed
    #                            N-d shapes are enumerated completely by TLC and every exported case is replayed


def outside_statement_observations():
    """Behaviours next to the statement that were looked at on the real code; informational, never a verdict."""
    import numpy as np
    import odl
    from odl.discr.diff_ops import finite_diff
    obs = {}
    try:
        finite_diff(np.zeros(2), axis=0, pad_mode='order2_adjoint')
        obs['order2_adjoint_on_2_entries'] = 'accepted'
    except Exception as e:
        obs['order2_adjoint_on_2_entries'] = 'refused with %s (order2 refuses with ValueError)' % type(e).__name__
    sp = odl.uniform_discr(0, 3, 3)
    obs['Laplacian(pad_const=1).is_linear'] = bool(odl.Laplacian(sp, pad_const=1).is_linear)
    obs['PartialDerivative(pad_const=1).is_linear'] = bool(odl.PartialDerivative(sp, 0, pad_const=1).is_linear)
    return obs


def validate_events(ctx, events, work, chunk=4000):
    files = []
    for ci in range(0, len(events), chunk):
        p = os.path.join(work, 'trace_fd_%d.ndjson' % (ci // chunk))
        with open(p, 'w') as f:
            for k, (cd, y, err, tag) in enumerate(events[ci:ci + chunk]):
                f.write(json.dumps(U.event_of(cd, y, err, ci + k)) + '\n')
        files.append(p)

    def val(p):
        return p, run_tlc('Trace_FD.tla', 'Trace_FD.cfg', work, env={'TRACE_FILE': p}, workers=1, timeout=3000, heap='3g')
    with ThreadPoolExecutor(max_workers=10) as ex:
        vres = list(ex.map(val, files))
    nfail = 0
    for p, res in vres:
        ctx.add_tlc('trace-' + os.path.basename(p), res)
        fails = parse_fails(res.output)
        mnf = re.search(r'<<\s*"NFAIL"\s*,\s*(\d+)\s*>>', res.output)
        if mnf is None or int(mnf.group(1)) != len(fails):
            raise MachineryError('trace validation %s: TLC counted %s rejected events, %d FAIL tuples were parsed' % (
                os.path.basename(p), mnf.group(1) if mnf else 'no', len(fails)))
        for _ln, eid, ctext in fails:
            nfail += 1
            cd, y, err, tag = events[eid]
            clauses = sorted(set(re.findall(r'<<\s*"([\w-]+)"', ctext)))
            api = 'finite_diff' if cd['api'] == 'finite_diff' else API[cd['op']]
            cfg = {'op': cd['op'], 'shape': cd['shape'], 'axis': cd['axis'], 'method': cd['method'], 'pad': cd['pad'], 'c': cd['c']}
            for clause in clauses:
                if clause in DRIFT_CLAUSES:
                    ctx.drift_note('%s accepted a configuration outside the documented restrictions: %s' % (api, dumps(cfg)))
                    continue
                ctx.violation(signature(api, cfg, cd['variant'], cd['dtype'], clause),
                              {'stage': 'trace', 'call': cd, 'observed': {'y': y, 'err': err}, 'tlc_clauses': ctext})
    ctx.extra['trace_events_validated_by_tlc'] = len(events)
    ctx.extra['trace_events_rejected_by_tlc'] = nfail


def replay(body):
    d = body['detail']
    if d['stage'] == 'trace':
        cd = d['call']
        y, err, nt = U.execute(cd)
        print('call     :', dumps({k: v for k, v in cd.items() if k != 'x'}))
        print('input    :', dumps(cd['x']))
        print('observed now :', dumps(y), err, nt)
        print('observed then:', dumps(d['observed']['y']), d['observed']['err'])
        print('TLC clauses  :', d.get('tlc_clauses'))
        same = (y == d['observed']['y'] and err == d['observed']['err'])
        print('REPRODUCED' if same else 'NOT-REPRODUCED')
        return 1 if same else 0
    case = d['case']
    cfg, obs = case['cfg'], case['obs']
    conc = d['conc']
    if d['api'] == 'finite_diff':
        picks = {'fd': [conc], 'op': []}
    else:
        picks = {'fd': [], 'op': [(conc['dtype'], conc['inplace'])]}
    recs = [r for r in replay_case(case, picks, 0) if r['api'] == d['api']] if obs['admissible'] else replay_case(case, picks, 0)
    print('configuration:', dumps(cfg), 'query', obs['q'])
    print('concretisation:', dumps(conc), 'api', d['api'])
    if obs['admissible']:
        print('expected matrix:', dumps(obs['mat']))
        print('expected affine part:', dumps(obs.get('b')))
    bad = False
    for r in recs:
        print('observed:', dumps(r['observed']))
        print('clauses :', r['clauses'], r['notes'])
        bad = bad or bool(set(r['clauses']) - DRIFT_CLAUSES)
    print('REPRODUCED' if bad else 'NOT-REPRODUCED')
    return 1 if bad else 0

"""C20 - sets and spaces: equality, hashing, membership and element creation are coherent.

Pipeline (DESIGN 4/C20):
  1. TLC, MC_Sets_laws: over all pairs / triples of the instantiated universe (three objects per descriptor)
     layer A (SetSem!SetEq) is an equivalence and separates copies exactly where an un-shared array
     weighting is involved; layer C (EqHashImpl: every __eq__/__hash__/__contains__ as written) obeys the laws
     and refines layer A without exception; the derived-space constructors (DerivedSpaceImpl) refine layer A
     except in the cells of the open findings (which are shown to be real).
  2. TLC, MC_Sets_export: every object descriptor (with its derived-space cases) as a JSON line; Python builds
     the real ODL objects (three independently constructed copies), records the observed == matrix, hashes (exceptions recorded),
     `in` for an element of every space, and the element() / derived-space / indexing cases.
  3. TLC, Trace_Sets validates everything: the laws ON THE OBSERVED relation, the observed relation
     against SetEq, element()/astype/real/complex/byaxis/byaxis_in/product-space indexing against SetSem,
     indexing vs asarray; disagreement with layer C only is DRIFT.
"""
import json
import os
from concurrent.futures import ThreadPoolExecutor

import numpy as np
import odl

from ..tlc import run_tlc
from ..common import dumps, MachineryError
from .. import c20_lib as L

FEATURE_PRIORITY = ['unordered-set', 'intervalprod-ndim', 'grid-negative-zero', 'weighting-classes']
DUMMY = {'cls': 'none', 'sub': [], 'q': [], 's': '', 'id': 0}


# ------------------------------------------------------------------ universe
def load_objects(path):
    with open(path) as f:
        recs = [json.loads(l) for l in f]
    recs.sort(key=lambda r: r['oid'])
    if [r['oid'] for r in recs] != list(range(1, len(recs) + 1)):
        raise MachineryError('object export is not a permutation of 1..N')
    return recs


def build_objects(recs, builder=None):
    b = builder or L.Builder()
    return [b.build(r['d'], r['copy']) for r in recs]


def mutate_arrays(recs, builder):
    """In-place modification of every pooled weight array (x2); returns the records with the array values of
    the descriptors updated accordingly (identities are untouched, so SetEq must not change)."""
    for arr in builder.pool.values():
        arr *= 2

    def patch(d):
        d = dict(d)
        if d['id'] != 0:
            d['q'] = [d['q'][0], [[2 * v[0] // (2 if v[1] % 2 == 0 else 1), v[1] // (2 if v[1] % 2 == 0 else 1)] for v in d['q'][1]]]
        d['sub'] = [patch(t) for t in d['sub']]
        return d
    return [dict(r, d=patch(r['d'])) for r in recs]


def obj_events(recs, objs):
    n = len(recs)
    hashes = [L.observe_hash(o) for o in objs]
    classes = {}
    evs = []
    for i, (r, o) in enumerate(zip(recs, objs)):
        row = [L.observe_eq(o, p) for p in objs]
        st, hv = hashes[i]
        h = classes.setdefault(hv, len(classes)) if st == 'ok' else -1
        isin, own = ['-'] * n, True
        if L.is_space(r['d']):
            x = o.zero()
            own = x.space is o
            for j, (r2, p) in enumerate(zip(recs, objs)):
                if L.is_space(r2['d']):
                    try:
                        isin[j] = 'T' if (x in p) else 'F'
                    except Exception:
                        isin[j] = 'E'
        evs.append({'ev': 'obj', 'oid': r['oid'], 'k': r['k'], 'copy': r['copy'], 'nobj': n, 'd': r['d'],
                    'eq': row, 'hs': st, 'h': h, 'isin': isin, 'own': bool(own)})
    return evs, hashes


# ------------------------------------------------------------------ element()
def space_values(sp, complex_part=False):
    """Small distinct exact values in the shape of the space (nested for product spaces)."""
    if isinstance(sp, odl.ProductSpace):
        return [space_values(s, complex_part) for s in sp]
    a = np.arange(1, sp.size + 1, dtype=float).reshape(sp.shape)
    if np.dtype(sp.dtype).kind == 'c' and complex_part:
        a = a + 1j * (a % 3)
    return a.astype(sp.dtype)


def convertible(src, dst):
    ks, kd = np.dtype(src).kind, np.dtype(dst).kind
    order = {'i': 0, 'f': 1, 'c': 2}
    return order[ks] <= order[kd]


def leaf_dtype(sp):
    return leaf_dtype(sp[0]) if isinstance(sp, odl.ProductSpace) else sp.dtype


def inp_shape(x, sp):
    """Tree shape of an input offered to the space sp (SetSem!ShapeOf conventions): where the target is a
    product space the input is read as a sequence of parts, elsewhere as array data."""
    if isinstance(sp, odl.ProductSpace) and isinstance(x, (list, tuple, np.ndarray,
                                                           odl.space.pspace.ProductSpaceElement)):
        out = [-len(x)]
        for k, p in enumerate(x):
            out += inp_shape(p, sp[k] if k < len(sp) else sp[0])
        return out
    if isinstance(x, odl.space.pspace.ProductSpaceElement):
        return space_shape_of_element(x)
    return list(np.shape(x))


def space_shape_of_element(x):
    return L.space_shape(x.space)


def _tuples(o):
    return tuple(_tuples(t) for t in o) if isinstance(o, list) else o


def nested_flat(data):
    if isinstance(data, (list, tuple)):
        out = []
        for p in data:
            out += nested_flat(p)
        return out
    return L.flat_values(data)


def element_cases(recs, objs, quick=True):
    """(space index, label, input object, input descriptor) for every space of copy 1."""
    spaces = [(i, r, o) for i, (r, o) in enumerate(zip(recs, objs)) if L.is_space(r['d'])]
    cases = []
    for i, r, sp in spaces:
        if r['copy'] != 1:
            continue
        ps = isinstance(sp, odl.ProductSpace)
        dt = leaf_dtype(sp)
        # elements of this and of other spaces (same shape, convertible dtype)
        for j, r2, sp2 in spaces:
            if L.space_shape(sp2) != L.space_shape(sp) or not convertible(leaf_dtype(sp2), dt):
                continue
            if ps != isinstance(sp2, odl.ProductSpace):
                continue
            if quick and r2['k'] != r['k'] and (j % 5) != (i % 5):   # own + other copies, and a fifth of the others
                continue
            x = sp2.element(space_values(sp2, True))
            cases.append((i, 'elem-of-%d' % r2['oid'], x,
                          {'k': 'elem', 'spc': r2['d'], 'shape': [[s, 1] for s in inp_shape(x, sp)], 'vals': L.flat_values(x)}))
        # plain data
        vals = space_values(sp, True)
        datas = [('data-own-dtype', vals)]
        if not ps:
            datas.append(('data-list', np.asarray(vals).tolist()))
            datas.append(('data-tuple', _tuples(np.asarray(vals).tolist())))
            big = np.zeros(tuple(2 * t for t in sp.shape), dtype=dt)
            view = big[tuple(slice(None, None, 2) for _ in sp.shape)]
            view[...] = vals
            datas.append(('data-strided-view', view))
            ro = np.array(vals)
            ro.setflags(write=False)
            datas.append(('data-readonly', ro))
            if sp.size != 1:          # a 0-d input to a one-entry space is promoted (ndmin): not an incompatible shape
                datas.append(('data-0d-scalar', np.array(1.0)))
            if len(sp.shape) == 1 and np.dtype(dt).kind != 'c':
                datas.append(('data-range', range(1, sp.size + 1)))
            if len(sp.shape) == 2:
                datas.append(('data-F-order', np.asfortranarray(vals)))
                datas.append(('data-transposed-view', np.ascontiguousarray(np.asarray(vals).T).T))
            if np.dtype(dt).kind in 'fc':
                datas.append(('data-int', np.arange(1, sp.size + 1).reshape(sp.shape)))
                datas.append(('data-f32', np.arange(1, sp.size + 1, dtype='float32').reshape(sp.shape)))
            # incompatible shapes
            flat = np.arange(1, sp.size + 2, dtype=float)
            datas.append(('shape-longer', flat))
            datas.append(('shape-extra-axis', np.asarray(vals).reshape(sp.shape + (1,))))
            datas.append(('shape-shorter', np.asarray(vals).ravel()[:-1]))
            if len(sp.shape) == 2 and sp.shape[0] != sp.shape[1]:
                datas.append(('shape-transposed', np.ascontiguousarray(np.asarray(vals).T)))
        else:
            datas.append(('parts-elements', [s.element(v) for s, v in zip(sp.spaces, vals)]))
            datas.append(('parts-tuple', tuple(vals)))
            if sp.is_power_space and not isinstance(sp[0], odl.ProductSpace):
                datas.append(('parts-as-2d-array', np.array([np.asarray(v) for v in vals])))
            datas.append(('length-shorter', vals[:-1]))
            datas.append(('length-longer', list(vals) + [vals[0]]))
        for label, data in datas:
            shp = inp_shape(data, sp)
            fv = nested_flat(data) if ps else L.flat_values(data)
            cases.append((i, label, data, {'k': 'data', 'spc': DUMMY, 'shape': [[s, 1] for s in shp], 'vals': fv}))
    return cases


def run_element(sp, inp):
    try:
        r = sp.element(inp)
    except Exception as e:
        return {'k': 'raise', 'vals': []}, type(e).__name__
    if r is inp:
        return {'k': 'same', 'vals': L.flat_values(r)}, ''
    if isinstance(r, sp.element_type) and r.space is sp:
        return {'k': 'new', 'vals': L.flat_values(r)}, ''
    return {'k': 'other', 'vals': []}, ''


# ------------------------------------------------------------------ derived spaces
def pyidx(idx):
    z = [t - 1 for t in idx]
    return z[0] if len(z) == 1 else z


def derived_call(sp, op, dt, idx, form):
    """The Python spelling of an exported derived-space case [op, dt, idx, form] (SetSem!DerivedCases)."""
    if op == 'astype':
        return sp.astype(L.DT[dt])
    if op == 'real_space':
        return sp.real_space
    if op == 'complex_space':
        return sp.complex_space
    z = [t - 1 for t in idx]
    if op in ('byaxis', 'byaxis_in'):
        acc = sp.byaxis if op == 'byaxis' else sp.byaxis_in
        if form == 'int-or-list':
            return acc[z[0] if len(z) == 1 else z]
        if form == 'negative-int':
            return acc[z[0] - len(sp.shape)]
        if form == 'slice':
            return acc[slice(z[0], z[-1] + 1) if z[0] else slice(None)]
    if op == 'getitem-int':
        return sp[z[0] - len(sp)] if form == 'negative-int' else sp[z[0]]
    if op == 'getitem-list':
        if form == 'slice':
            return sp[:]
        if form == 'slice-from-1':
            return sp[1:]
        if form == 'slice-to-1':
            return sp[:1]
        if form == 'stepped-slice':
            return sp[::2]
        if form == 'list':
            return sp[z]
    raise ValueError('unknown derived case %r' % ((op, dt, idx, form),))


def derived_cases(recs, objs):
    """(object index, op, dt, idx, form, thunk) for every case exported by TLC with the object."""
    cases = []
    for i, (r, sp) in enumerate(zip(recs, objs)):
        for c in sorted(r.get('cases', []), key=lambda c: (c['op'], c['dt'], c['idx'], c['form'])):
            cases.append((i, c['op'], c['dt'], list(c['idx']), c['form'],
                          lambda s, c=c: derived_call(s, c['op'], c['dt'], list(c['idx']), c['form']),
                          c['desc'] if c.get('hasdesc') else None))
    return cases


def run_derived(sp, fn, desc=None, builder=None, alt=2):
    """-> (out, error text, pair): pair = failures of the derived-vs-direct comparison, ['n/a'] if not applicable."""
    try:
        r = fn(sp)
        out = {'k': 'ok', 'view': L.view(r)}
    except Exception as e:
        return {'k': 'raise', 'view': L.NOVIEW}, type(e).__name__ + ': ' + str(e)[:100], ['n/a']
    if desc is None:
        return out, '', ['n/a']
    try:
        direct = (builder or L.Builder()).build(desc, alt)
    except Exception as e:
        return out, 'direct object: %s: %s' % (type(e).__name__, str(e)[:80]), ['direct-construction-raises']
    return out, '', L.pair_failures(r, direct)


# ------------------------------------------------------------------ chains (histories on one cached object)
def chain_step(sp, op):
    if op['op'] == 'astype':
        return sp.astype(L.DT[op['dt']])
    if op['op'] == 'real_space':
        return sp.real_space
    if op['op'] == 'complex_space':
        return sp.complex_space
    if op['op'] == 'byaxis':
        z = [t - 1 for t in op['idx']]
        return sp.byaxis[z[0] if len(z) == 1 else z]
    raise ValueError(op)


def run_chain(start, path):
    """-> (result space or None, identity pattern: objects numbered by first appearance, the start is 1)."""
    seen = [start]
    ids = []
    cur = start
    for op in path:
        try:
            cur = chain_step(cur, op)
        except Exception:
            return None, ids + [0]
        for k, o in enumerate(seen):
            if o is cur:
                ids.append(k + 1)
                break
        else:
            seen.append(cur)
            ids.append(len(seen))
    return cur, ids


def chain_element(sp):
    """x.real / x.imag / x.conj() of an element of sp against NumPy on asarray (2049 is not a float16)."""
    try:
        vals = np.arange(1, sp.size + 1, dtype='float64').reshape(sp.shape)
        vals.flat[0] = 2049
        if np.dtype(sp.dtype).kind == 'c':
            vals = vals + 1j * (vals % 5 + 1)
        x = sp.element(vals.astype(sp.dtype))
        a = np.asarray(x)
        bad = []
        re, im, cj = x.real, x.imag, x.conj()
        if not (np.shape(np.asarray(re)) == a.shape and np.array_equal(np.asarray(re), a.real)):
            bad.append('real-part-values')
        if not (np.shape(np.asarray(im)) == a.shape and np.array_equal(np.asarray(im), a.imag)):
            bad.append('imag-part-values')
        if not np.array_equal(np.asarray(cj), np.conj(a)):
            bad.append('conj-values')
        if im.space != re.space:
            bad.append('imag-space-differs-from-real-space')
        return {'k': 'ok', 'bad': bad, 'rview': L.view(re.space)}
    except Exception:
        return {'k': 'raise', 'bad': [], 'rview': L.NOVIEW}


def chain_events(path, first_id):
    """Replay every exported chain on ONE object per start descriptor (the caches carry over from chain to
    chain) and, for comparison, on a freshly and differently constructed equal space."""
    b = L.Builder()
    starts = {}
    evs = []
    with open(path) as f:
        for n, line in enumerate(f):
            c = json.loads(line)
            if c['si'] not in starts:
                starts[c['si']] = b.build(c['d'], 1)
            res, oids = run_chain(starts[c['si']], c['path'])
            out = {'k': 'ok', 'view': L.view(res)} if res is not None else {'k': 'raise', 'view': L.NOVIEW}
            fres, _ = run_chain(L.Builder().build(c['d'], 2 + n % 2), c['path'])
            if res is None or fres is None:
                fresh = 'n/a' if (res is None) == (fres is None) else 'raises-on-one-only'
            else:
                fresh = 'equal' if (res == fres and fres == res and L.view(res) == L.view(fres)) else 'differs'
            elem = chain_element(res) if res is not None and np.dtype(res.dtype).kind in 'fc' else \
                {'k': 'n/a', 'bad': [], 'rview': L.NOVIEW}
            pair = ['n/a']
            if res is not None and c.get('hasdesc'):
                try:
                    pair = L.pair_failures(res, L.Builder().build(c['desc'], 2 + n % 2))
                except Exception:
                    pair = ['direct-construction-raises']
            evs.append({'ev': 'chain', 'id': first_id + n, 'd': c['d'], 'path': c['path'], 'out': out, 'oids': oids,
                        'fresh': fresh, 'elem': elem, 'ids': c['ids'], 'mk': c['mk'], 'mview': c['mview'], 'pair': pair})
    return evs


# ------------------------------------------------------------------ histories: construct / hash / mutate
def _hist_construct(kind, W, G):
    from odl.space.npy_tensors import NumpyTensorSpaceArrayWeighting
    from odl.space.pspace import ProductSpaceArrayWeighting
    if kind == 'TW':
        return NumpyTensorSpaceArrayWeighting(W)
    if kind == 'PW':
        return ProductSpaceArrayWeighting(W)
    if kind == 'rn':
        return odl.rn(3, weighting=W)
    if kind == 'discr':
        return odl.uniform_discr(0, 1, 3, weighting=W)
    if kind == 'pspace':
        return odl.ProductSpace(odl.rn(2), 3, weighting=W)
    if kind == 'grid':
        return odl.RectGrid(G)
    part = odl.RectPartition(odl.IntervalProd(0, 1), odl.RectGrid(G))
    if kind == 'part':
        return part
    if kind == 'discrg':
        return odl.DiscretizedSpace(part, odl.rn(3))
    raise ValueError(kind)


def _coord_array(o):
    g = o if isinstance(o, odl.RectGrid) else (o.grid if isinstance(o, odl.RectPartition) else o.partition.grid)
    return g.coord_vectors[0]


def run_history(acts, nw):
    """Execute a history (SetSem!HAct) on fresh caller arrays; observe == and hash of all live objects at the end.
    hash(o) actions ARE performed when they occur (a remembered hash would be taken there)."""
    W = [np.array([1.0, 2.0, 3.0]) for _ in range(nw)]            # weight arrays (wrapped by identity)
    G = [np.array([0.0, 0.5, 1.0]) for _ in range(nw)]            # coordinate arrays (copied by RectGrid)
    objs = []
    for a in acts:
        if a['a'] == 'construct':
            objs.append(_hist_construct(a['kind'], W[a['w'] - 1], G[a['w'] - 1]))
        elif a['a'] == 'hash':
            try:
                hash(objs[a['o'] - 1])
            except Exception:
                pass
        elif a['a'] == 'mutate':
            W[a['w'] - 1][1] += 0.5
            G[a['w'] - 1][1] += 0.0625
        elif a['a'] == 'mutate-internal':
            _coord_array(objs[a['o'] - 1])[1] += 0.0625
    eq = [[L.observe_eq(p, q_) for q_ in objs] for p in objs]
    hs, h, classes = [], [], {}
    for o in objs:
        st, hv = L.observe_hash(o)
        hs.append(st)
        h.append(classes.setdefault(hv, len(classes)) if st == 'ok' else -1)
    return eq, hs, h


def _hist_chunk(lines):
    out = []
    for line in lines:
        c = json.loads(line)
        eq, hs, h = run_history(c['acts'], c['nw'])
        out.append({'ev': 'hist', 'acts': c['acts'], 'nw': c['nw'], 'eq': eq, 'hs': hs, 'h': h, 'eq_exported': c['eq']})
    return out


def history_events(path, first_id):
    from multiprocessing import Pool
    with open(path) as f:
        lines = f.readlines()
    chunks = [lines[k:k + 500] for k in range(0, len(lines), 500)]
    if len(chunks) > 4:
        with Pool(processes=12) as pool:
            res = pool.map(_hist_chunk, chunks)
    else:
        res = [_hist_chunk(c) for c in chunks]
    evs = [e for r in res for e in r]
    for n, e in enumerate(evs):
        e['id'] = first_id + n
    return evs


# ------------------------------------------------------------------ indexing
def index_exprs(sp):
    if isinstance(sp, odl.ProductSpace):
        ex = [('0', 0), ('-1', -1), ('0:2', slice(0, 2)), (':', slice(None)), ('[1,0]', [1, 0]), ('1:', slice(1, None))]
        if sp.is_power_space and not isinstance(sp[0], odl.ProductSpace):
            ex += [('(0,1)', (0, 1)), ('(1,0:2)', (1, slice(0, 2))), ('(0:2,0:2)', (slice(0, 2), slice(0, 2))),
                   ('(-1,::2)', (-1, slice(None, None, 2)))]
        if sp.is_power_space and isinstance(sp[0], odl.ProductSpace):
            ex += [('(0,1)', (0, 1)), ('(1,0,2)', (1, 0, 2)), ('(0,0:2)', (0, slice(0, 2)))]
        return ex
    if len(sp.shape) == 1:
        return [('0', 0), ('-1', -1), ('0:2', slice(0, 2)), (':', slice(None)), ('::2', slice(None, None, 2)),
                ('::-1', slice(None, None, -1)), ('[0,2]', [0, 2]), ('1:3', slice(1, 3)), ('...', Ellipsis)]
    return [('(0,1)', (0, 1)), ('(:,1)', (slice(None), 1)), ('(1,:)', (1, slice(None))), ('0', 0),
            ('(0:1,1:3)', (slice(0, 1), slice(1, 3))), ('0:1', slice(0, 1)), (':', slice(None)),
            ('(::-1,::2)', (slice(None, None, -1), slice(None, None, 2))), ('(-1,-1)', (-1, -1)),
            ('([0,1],[1,0])', ([0, 1], [1, 0])), ('(...,0)', (Ellipsis, 0))]


def run_index(sp, idx):
    x = sp.element(space_values(sp, True))
    try:
        arr = x.asarray()
    except Exception:
        return 'no-array'
    ea = eb = None
    try:
        a = x[idx]
        A = a.asarray() if hasattr(a, 'asarray') else np.asarray(a)
    except Exception as e:
        ea = e
    try:
        B = arr[idx]
    except Exception as e:
        eb = e
    if ea is not None and eb is not None:
        return 'raise-both'
    if ea is not None:
        return 'raise-elem'
    if eb is not None:
        return 'raise-array'
    return 'equal' if (np.shape(A) == np.shape(B) and np.array_equal(A, B)) else 'differ'


# ------------------------------------------------------------------ signatures
def wkind_of(d):
    """'array' if an array weighting occurs anywhere in the space, else the kind of the top-level weighting."""
    if 'Array"' in json.dumps(d):
        return 'array'
    try:
        if d['cls'] == 'PSpace':
            w = d['sub'][0]
        elif d['cls'] == 'Discr':
            w = d['sub'][1]['sub'][0]
        else:
            w = d['sub'][0]
        return 'const' if 'Const' in w['cls'] else 'custom'
    except Exception:
        return '-'


def exp_class(d):
    try:
        w = d['sub'][1]['sub'][0] if d['cls'] == 'Discr' else d['sub'][0]
        e = w['q'][0][0]
        return 'inf' if e[1] == 0 else ('2' if e == [2, 1] else 'other')
    except Exception:
        return '-'


def idx_class(label):
    t = label.strip('()')
    if label.startswith('('):
        parts = []
        depth, cur = 0, ''
        for ch in t:
            if ch == '[':
                depth += 1
            if ch == ']':
                depth -= 1
            if ch == ',' and depth == 0:
                parts.append(cur)
                cur = ''
            else:
                cur += ch
        parts.append(cur)
        return 'tuple(' + ','.join(idx_class(p) for p in parts) + ')'
    if label.startswith('['):
        return 'list'
    if label == '...':
        return 'ellipsis'
    return 'slice' if ':' in label else 'int'


def case_signature(clause, ev):
    """Family of an element() / derived-space / indexing / chain finding."""
    if ev['ev'] == 'part':
        return {'clause': clause, 'cls': 'RectPartition'}
    if ev['ev'] == 'hist':
        kinds = sorted({a['kind'] for a in ev['acts'] if a['a'] == 'construct'})
        return {'clause': clause, 'kinds': '+'.join(kinds),
                'mutated': 'yes' if any(a['a'].startswith('mutate') for a in ev['acts']) else 'no'}
    if ev['ev'] == 'chain':
        # clause, class and dtype class of the start space (the replay file holds the literal chain)
        dt = ev['d']['sub'][1]['s'] if ev['d']['cls'] == 'Discr' else ev['d']['s']
        dcls = 'float16' if dt == 'f16' else ('int' if dt.startswith('i') else ('complex' if dt.startswith('c') else 'float'))
        return {'clause': clause.split(':')[0], 'cls': ev['d']['cls'], 'start-dtype': dcls}
    cls = ev['spc']['cls']
    w = 'array' if wkind_of(ev['spc']) == 'array' else 'not-array'
    if ev['ev'] == 'derived':
        what, op = clause.split(':')
        opclass = 'dtype-change' if op in ('astype', 'real_space', 'complex_space') else 'axis-or-component-selection'
        sig = {'clause': what, 'op': opclass, 'cls': cls, 'w': w}
        if cls == 'Discr' and w != 'array':
            sig['exponent'] = exp_class(ev['spc'])
        return sig
    if ev['ev'] == 'index':
        return {'clause': clause, 'cls': cls, 'w': w, 'idx': idx_class(ev['idx']) if w != 'array' else 'any'}
    return {'clause': clause, 'cls': cls, 'w': w}


def run(ctx):
    quick = ctx.tier == 'quick'
    ctx.rule = ('universe of descriptors enumerated by TLC (sets, interval products, grids, partitions, every weighting '
                'class, tensor / discretised / product spaces), two independently constructed objects per descriptor; '
                'evaluations = observed ordered pairs (==, hash, in) + element()/derived-space/indexing cases; '
                'distinct = hash of the abstract pair / case; non-trivial = pair of distinct descriptors, or a case whose '
                'expected outcome is not the identity')
    ctx.assumptions += [
        'equality of layer A = same class and equal defining data (E11): unordered components for SetUnion / '
        'SetIntersection / FiniteSet, exact coordinates, weightings by kind + exponent + constant value / array IDENTITY / '
        'callable identity (documented)',
        'a hash that RAISES is not an unequal hash: recorded as a note (hash_raises), not as a violation of '
        '"equal objects have equal hashes"',
        'coordinates are dyadic, so that independently constructed copies carry bit-identical floats',
        'element(): inputs are converted exactly (int -> float -> complex, float64 <-> float32 on small integers); '
        'complex -> real and float -> int inputs are not offered',
        'astype to a non-floating dtype: shape / dtype / field only (the weighting is dropped on purpose by the code); '
        'byaxis on array-weighted spaces: claimed for permutations of all axes only; byaxis_in: weighting claimed for '
        'the default (cell volume) weighting only (documented "except possibly weighting")',
        'product-space element indexing by (slice, int) tuples keeps a length-1 axis on purpose and is not offered',
        'three objects per descriptor: generic constructors / factory + keyword spellings / alternative spellings '
        '(rn, cn, ** n, dtype given as type / np.dtype / string, uniform_grid, uniform_partition_fromgrid, '
        'nonuniform_partition, uniform_discr_frompartition, weights as int / list / wrapped element, permuted and '
        'duplicated members of unions and finite sets)',
        'the == matrix, hashes and membership are observed twice: on the fresh objects and again after all derived-space / '
        'element / indexing calls on them and after an in-place modification of every wrapped weight array',
        'a 0-d input offered to a one-entry space is promoted by ndmin and is not counted as an incompatible shape',
        'near-equal numbers (1-2 ulp) are DIFFERENT numbers: equality of coordinates / constants / exponents is exact '
        '(approx_equals is the documented tolerant comparison)',
        'chains of <= 3 derived-space operations run on ONE cached object per start (all dtypes incl. float16, ints) '
        'and on a fresh equal space; layer A is history-free',
        'attributes equality does not compare (axis_labels of a discretised space, an explicitly passed field of a product '
        'space) are part of the descriptors (x): objects differing only there are EQUAL and must hash equal; every derived '
        'space / chain result / partition part is also compared (==, hash, set, dict, element membership) with the '
        'DIRECTLY constructed object layer A describes',
        'dtype changes of product spaces are component-wise (also for components of different dtypes / kinds)',
        'histories of <= 4 actions construct / hash / mutate caller array / mutate coordinates in place / construct '
        'again: equal => equal hash and the documented (identity resp. value) equality after every history']
    work = ctx.work
    out = os.path.join(work, 'objects.ndjson')

    # ---- 1. model ----
    big = '0' if quick else '1'
    chains = os.path.join(work, 'chains.ndjson')
    hists = os.path.join(work, 'histories.ndjson')
    jobs = [('laws', 'MC_Sets.tla', 'MC_Sets_laws.cfg', {'OUT_FILE': os.devnull, 'ST_BIG': big}, 8),
            ('export', 'MC_Sets.tla', 'MC_Sets_export.cfg', {'OUT_FILE': out, 'ST_BIG': big}, 1),
            ('chains-check', 'MC_SpaceChain.tla', 'MC_SpaceChain_check.cfg', {'OUT_FILE': os.devnull, 'ST_BIG': big}, 4),
            ('chains-export', 'MC_SpaceChain.tla', 'MC_SpaceChain_export.cfg', {'OUT_FILE': chains, 'ST_BIG': big}, 1),
            ('histories-check', 'MC_HashHistory.tla', 'MC_HashHistory_check.cfg', {'OUT_FILE': os.devnull, 'ST_BIG': big}, 4),
            ('histories-export', 'MC_HashHistory.tla', 'MC_HashHistory_export.cfg', {'OUT_FILE': hists, 'ST_BIG': big}, 1)]

    def go(j):
        return j[0], run_tlc(j[1], j[2], work, env=j[3], workers=j[4], timeout=3000)
    with ThreadPoolExecutor(max_workers=6) as ex:
        for name, res in ex.map(go, jobs):
            ctx.add_tlc(name, res)

    # ---- 2. the universe in real ODL ----
    recs = load_objects(out)
    builder = L.Builder()
    try:
        objs = build_objects(recs, builder)
    except Exception as e:
        raise MachineryError('cannot instantiate the universe: %s: %s' % (type(e).__name__, e))
    events, hashes = obj_events(recs, objs)
    n = len(recs)
    ctx.count(None, False, n=n * n)
    for k1 in range(1, n // 3 + 1):
        for k2 in range(k1 + 1, n // 3 + 1):
            ctx.count([k1, k2], True, n=0)
    meta = {}                       # trace line -> python-side detail
    extra_events = []
    eid = 0
    for i, label, inp, idesc in element_cases(recs, objs, quick):
        outp, err = run_element(objs[i], inp)
        eid += 1
        extra_events.append({'ev': 'element', 'id': eid, 'spc': recs[i]['d'], 'inp': idesc, 'out': outp})
        meta[eid] = {'kind': 'element', 'oid': recs[i]['oid'], 'label': label, 'err': err}
        ctx.count(['element', recs[i]['k'], label], label not in ('data-own-dtype',))
    for i, op, dt, idx, form, fn, desc in derived_cases(recs, objs):
        outp, err, pair = run_derived(objs[i], fn, desc, builder, 2 + eid % 2)
        eid += 1
        extra_events.append({'ev': 'derived', 'id': eid, 'op': op, 'spc': recs[i]['d'], 'dt': dt, 'idx': idx, 'form': form,
                             'out': outp, 'pair': pair})
        meta[eid] = {'kind': 'derived', 'oid': recs[i]['oid'], 'op': op, 'dt': dt, 'idx': idx, 'form': form, 'err': err}
        ctx.count(['derived', recs[i]['k'], op, dt, idx], True)
    for i, r in enumerate(recs):
        for c in sorted(r.get('pcases', []), key=lambda c: (c['op'], c['idx'])):
            eid += 1
            try:
                z = [t - 1 for t in c['idx']]
                got = objs[i].set if c['op'] == 'set' else (objs[i].grid if c['op'] == 'grid' else
                                                             objs[i].byaxis[z[0] if len(z) == 1 else z])
                k, pair = 'ok', L.pair_failures(got, builder.build(c['desc'], 2 + eid % 2))
            except Exception:
                k, pair = 'raise', ['n/a']
            extra_events.append({'ev': 'part', 'id': eid, 'spc': r['d'], 'op': c['op'], 'idx': list(c['idx']), 'k': k,
                                 'pair': pair})
            meta[eid] = {'kind': 'part', 'oid': r['oid'], 'op': c['op'], 'idx': list(c['idx'])}
            ctx.count(['part', r['k'], c['op'], list(c['idx'])], True)
    nidx = 0
    for i, (r, sp) in enumerate(zip(recs, objs)):
        if not L.is_space(r['d']) or r['copy'] != 1:
            continue
        for label, idx in index_exprs(sp):
            res = run_index(sp, idx)
            if res == 'no-array':
                continue
            eid += 1
            nidx += 1
            extra_events.append({'ev': 'index', 'id': eid, 'spc': r['d'], 'idx': label, 'out': res})
            meta[eid] = {'kind': 'index', 'oid': r['oid'], 'idx': label}
            ctx.count(['index', r['k'], label], label not in (':', '...'))

    nchain0 = eid
    cevs = chain_events(chains, eid + 1)
    for e in cevs:
        eid = e['id']
        extra_events.append(e)
        meta[eid] = {'kind': 'chain', 'start': e['d'], 'path': e['path']}
        ctx.count(['chain', e['d'], e['path']], len(e['path']) > 1)
    ctx.extra['chains_replayed'] = len(cevs)

    hevs = history_events(hists, eid + 1)
    for e in hevs:
        eid = e['id']
        extra_events.append(e)
        meta[eid] = {'kind': 'hist', 'acts': e['acts']}
        ctx.count(['hist', e['acts']], any(a['a'].startswith('mutate') for a in e['acts']))
    ctx.extra['histories_replayed'] = len(hevs)

    # the same objects AFTER all of the above (cached real / complex spaces, lazily computed attributes) and after
    # an in-place modification of every wrapped weight array: the laws and layer A must still hold
    recs2 = mutate_arrays(recs, builder)
    events2, _ = obj_events(recs2, objs)
    ctx.count(None, False, n=n * n)

    # ---- 3. TLC validates ----
    p1 = os.path.join(work, 'trace_objects.ndjson')
    p2 = os.path.join(work, 'trace_objects_after.ndjson')
    for p, evs in ((p1, events), (p2, events2)):
        with open(p, 'w') as f:
            for e in evs:
                f.write(json.dumps(e) + '\n')
    files = [p1, p2]
    chunk = 1500
    for ci in range(0, len(extra_events), chunk):
        p = os.path.join(work, 'trace_cases_%d.ndjson' % (ci // chunk))
        with open(p, 'w') as f:
            for e in extra_events[ci:ci + chunk]:
                f.write(json.dumps(e) + '\n')
        files.append(p)

    def val(p):
        return p, run_tlc('Trace_Sets.tla', 'Trace_Sets.cfg', work, env={'TRACE_FILE': p}, workers=1, timeout=3000)
    with ThreadPoolExecutor(max_workers=8) as ex:
        vres = list(ex.map(val, files))

    sigcount = {}

    def report(sig, detail):
        key = dumps(sig, sort_keys=True)
        sigcount[key] = sigcount.get(key, 0) + 1
        if sigcount[key] <= 3:
            ctx.violation(sig, detail)

    notes, drift = [], []
    nfail = 0
    for p, res in vres:
        ctx.add_tlc('trace-' + os.path.basename(p), res)
        is_obj = p in (p1, p2)
        for line in res.output.splitlines():
            if line.startswith('"NOTE '):
                notes += json.loads(json.loads(line)[5:])['notes']
            elif line.startswith('"DRIFT '):
                drift += json.loads(json.loads(line)[6:])['drift']
            elif line.startswith('"FAIL '):
                rec = json.loads(json.loads(line)[5:])
                nfail += 1
                for b in rec['bad']:
                    clause = b['c']
                    if is_obj:
                        ri, rj = recs[b['i'] - 1], recs[b['j'] - 1]
                        feat = next((f for f in FEATURE_PRIORITY if f in b['f']), '')
                        if feat:
                            sig = {'clause': clause, 'feature': feat}
                        else:
                            sig = {'clause': clause, 'feature': '-', 'cls': ri['d']['cls'], 'cls2': rj['d']['cls']}
                        if p == p2:
                            sig['when'] = 'after-mutation-and-use'
                        detail = {'stage': 'objects', 'clause': clause, 'after_mutation': p == p2,
                                  'a': {'oid': ri['oid'], 'copy': ri['copy'], 'd': ri['d']},
                                  'b': {'oid': rj['oid'], 'copy': rj['copy'], 'd': rj['d']}}
                        if b['k']:
                            rk = recs[b['k'] - 1]
                            detail['c'] = {'oid': rk['oid'], 'copy': rk['copy'], 'd': rk['d']}
                        report(sig, detail)
                    else:
                        m = meta[b['i']]
                        ev = extra_events[b['i'] - 1]
                        sig = case_signature(clause, ev)
                        report(sig, {'stage': m['kind'], 'clause': clause, 'event': ev, 'meta': m})
    for d in drift:
        if d[0].startswith('chain') and 0 < d[1] <= len(extra_events):
            ev_ = extra_events[d[1] - 1]
            d = [d[0], dumps(ev_['path']), dumps(ev_['d'])[:120], ev_['ids'], ev_['oids'], dumps(ev_['out'])[:160]]
        elif d[0].startswith('derived') and 0 < d[1] <= len(extra_events):
            ev_ = extra_events[d[1] - 1]
            d = [d[0], ev_.get('op'), ev_.get('idx'), ev_.get('form'), dumps(ev_['spc'])[:160], dumps(ev_['out'])[:200]]
        ctx.drift_note('layer C (EqHashImpl / DerivedSpaceImpl) vs real code: %s %s' % (d[0], d[1:]))
    ctx.traces += len(events) + len(extra_events)
    raised = sorted({recs[nn[1] - 1]['d']['cls'] for nn in notes})
    ctx.extra['hash_raises_classes'] = raised
    ctx.extra['hash_raises_objects'] = len(notes)
    ctx.extra['objects'] = n
    ctx.extra['descriptors'] = n // 3
    ctx.extra['ordered_pairs_observed'] = n * n
    ctx.extra['element_cases'] = sum(1 for m in meta.values() if m['kind'] == 'element')
    ctx.extra['derived_space_cases'] = sum(1 for m in meta.values() if m['kind'] == 'derived')
    ctx.extra['indexing_cases'] = nidx
    ctx.extra['trace_events_rejected_by_tlc'] = nfail
    ctx.extra['violating_cases_per_family'] = dict(sorted(sigcount.items()))
    for i in (0, n // 3, n - 1):
        ctx.sample({'object': recs[i]['d'], 'copy': recs[i]['copy'], 'hash': events[i]['hs'],
                    'equal_to_objects': [j + 1 for j, v in enumerate(events[i]['eq']) if v == 'T']})
    ctx.exhaustive = True


def replay(body):
    d = body['detail']
    b = L.Builder()
    if d['stage'] == 'objects':
        A = b.build(d['a']['d'], d['a']['copy'])
        same = d['a']['oid'] == d['b']['oid']
        B = A if same else b.build(d['b']['d'], d['b']['copy'])
        print('a =', L.safe_repr(A, 200))
        print('b =', 'a (the same object)' if same else L.safe_repr(B, 200))
        ab, ba = L.observe_eq(A, B), L.observe_eq(B, A)
        ha, hb = L.observe_hash(A), L.observe_hash(B)
        print('a == b:', ab, ' b == a:', ba, ' hash(a):', ha[0], ' hash(b):', hb[0],
              ' hashes equal:', ha == hb if ha[0] == hb[0] == 'ok' else 'n/a')
        clause = d['clause']
        bad = False
        if clause == 'reflexive':
            bad = ab != 'T'
        elif clause == 'symmetric':
            bad = ab != ba
        elif clause == 'equal-objects-unequal-hash':
            bad = ab == 'T' and ha[0] == hb[0] == 'ok' and ha != hb
        elif clause == 'transitive':
            C = b.build(d['c']['d'], d['c']['copy'])
            bc, ac = L.observe_eq(B, C), L.observe_eq(A, C)
            print('c =', L.safe_repr(C, 200), ' b == c:', bc, ' a == c:', ac)
            bad = ab == 'T' and bc == 'T' and ac != 'T'
        elif clause == 'membership':
            x = A.zero()
            isin = x in B
            print('a.zero() in b:', isin)
            bad = isin != (ab == 'T')
        elif clause == 'differs-from-reference':
            print('(observed equality differs from the structural equality of SetSem)')
            bad = True
        else:
            bad = ab not in ('T', 'F')
        print('REPRODUCED' if bad else 'NOT-REPRODUCED')
        return 1 if bad else 0
    ev, m = d['event'], d['meta']
    if d['stage'] == 'part':
        print('event:', dumps(ev)[:500])
        print('(re-run the check to replay partition parts)')
        return 2
    if d['stage'] not in ('chain', 'hist'):
        recs = [{'oid': 1, 'k': 1, 'copy': 1, 'd': ev['spc']}]
        sp = b.build(ev['spc'], 1)
        print('space =', L.safe_repr(sp, 200))
    if d['stage'] == 'derived':
        outp, err, _ = run_derived(sp, lambda x: derived_call(x, m['op'], m['dt'], m['idx'], m['form']))
        print(m['op'], m['dt'], m['idx'], m['form'], '->', dumps(outp), err)
        bad = outp == ev['out']
        print('REPRODUCED' if bad else 'NOT-REPRODUCED')
        return 1 if bad else 0
    if d['stage'] == 'index':
        for label, idx in index_exprs(sp):
            if label == m['idx']:
                res = run_index(sp, idx)
                print('x[%s].asarray() vs x.asarray()[%s]: %s' % (label, label, res))
                bad = res == ev['out']
                print('REPRODUCED' if bad else 'NOT-REPRODUCED')
                return 1 if bad else 0
    if d['stage'] == 'hist':
        eq, hs, h = run_history(ev['acts'], ev['nw'])
        print('history:', dumps(ev['acts']))
        print('observed == matrix:', eq, ' hash classes:', h, hs)
        bad = (eq, hs, h) == (ev['eq'], ev['hs'], ev['h'])
        print('REPRODUCED' if bad else 'NOT-REPRODUCED')
        return 1 if bad else 0
    if d['stage'] == 'chain':
        start = b.build(ev['d'], 1)
        res, oids = run_chain(start, ev['path'])
        out = {'k': 'ok', 'view': L.view(res)} if res is not None else {'k': 'raise', 'view': L.NOVIEW}
        print('start =', L.safe_repr(start), ' chain =', dumps(ev['path']))
        print('result now :', dumps(out), ' (fresh object, no earlier history)')
        print('result then:', dumps(ev['out']), ' elem:', dumps(ev['elem'])[:200], ' fresh:', ev['fresh'])
        bad = out == ev['out']
        print('REPRODUCED' if bad else 'NOT-REPRODUCED (history dependent or repaired)')
        return 1 if bad else 0
    if d['stage'] == 'element':
        inp = ev['inp']
        objs = [sp]
        if inp['k'] == 'elem':
            same = m['label'] == 'elem-of-%d' % m['oid']
            recs.append({'oid': 2, 'k': 1 if inp['spc'] == ev['spc'] else 2, 'copy': 2, 'd': inp['spc']})
            objs.append(sp if same else b.build(inp['spc'], 2))
        for i, label, data, idesc in element_cases(recs, objs, quick=False):
            if i == 0 and idesc['k'] == inp['k'] and idesc['shape'] == inp['shape'] and idesc['vals'] == inp['vals'] and \
                    (inp['k'] == 'data' and label == m['label'] or inp['k'] == 'elem' and
                     (label == 'elem-of-1') == (m['label'] == 'elem-of-%d' % m['oid'])):
                outp, err = run_element(sp, data)
                print('element(%s) -> %s %s   (recorded: %s)' % (m['label'], outp['k'], err, ev['out']['k']))
                bad = outp == ev['out']
                print('REPRODUCED' if bad else 'NOT-REPRODUCED')
                return 1 if bad else 0
    print('event:', dumps(ev)[:600])
    print('case not found in the regenerated case list')
    return 2

"""C01 - vector arithmetic is entry-wise exact under every aliasing pattern.

Pipeline (DESIGN 4/C01):
  1. TLC: VecMachine action properties (frame, stale-output independence, returns-target)
     and LincombImpl (layer C) refines the reference for every (aliasing, scalars, regime) cell.
  2. TLC exports every (pre-state, action) transition of the bounded machine; each is replayed
     on real ODL elements under concretisations that straddle the size regimes, dtypes, layouts
     and space kinds; the observed post-state is compared with the exported one.
  3. Every replayed call and a seeded random driver's call sequences are recorded as events and
     validated by TLC against Trace_VecMachine (code -> spec).
"""
import itertools
import json
import os
import random
from concurrent.futures import ThreadPoolExecutor

import numpy as np
import odl

from ..tlc import run_tlc, parse_fails


class _FailM(object):
    def __init__(self, eid, cl):
        self._g = {2: str(eid), 3: cl}

    def group(self, k):
        return self._g[k]

from ..concrete import Concrete, cnum_to_scalar, lattice_den
from ..common import dumps, MachineryError

PROFILES = {'R': ['float64', 'float32'], 'C': ['complex128', 'complex64'], 'I': ['int64', 'int32']}
SIZES = [2, 5, 98, 100, 102, 49998, 50000, 50001]
NAN_TOKEN = [[0, 0], [0, 0]]
DRIFT = set()
SPELL = [0]
FIXED_AXPY = '1'      # layer-C model flag: mirrors the fallback_axpy form of the current tree


def regime(n):
    return 'small' if n < 100 else ('medium' if n < 50000 else 'large')


def combos(profile, seed):
    """All concretisation choices for a profile, essential ones (regime x dtype x contiguity) first."""
    dts = PROFILES[profile]
    ess, rest = [], []
    for n in SIZES:
        for dt in dts:
            for kind, lay in [('tensor', 'C1'), ('tensor', 'S1'), ('tensor', 'C'), ('tensor', 'F'),
                              ('tensor', 'S'), ('discr', 'C1'), ('discr', 'C'), ('pspace', 'C1'),
                              ('power', 'C1'), ('nested', 'C1'), ('shapedt', 'C')]:
                if kind in ('power', 'shapedt') and n % 2:
                    continue
                if kind == 'shapedt' and n == 50000:
                    n_eff = 100000      # so that the per-component count alone is already in the BLAS regime
                    c = (kind, n_eff, dt, lay)
                    ess.append(c)
                    continue
                c = (kind, n, dt, lay)
                if n in (5, 102, 50000) and (kind, lay) in (('tensor', 'C1'), ('tensor', 'S1'), ('tensor', 'F'), ('shapedt', 'C')):
                    ess.append(c)
                else:
                    rest.append(c)
    rnd = random.Random(seed)
    rnd.shuffle(rest)
    return ess + rest


_cc = {}


def concrete(c):
    if c not in _cc:
        if len(_cc) > 400:
            _cc.clear()
        _cc[c] = Concrete(*c)
    return _cc[c]


def pattern(act):
    op = act['op']
    if op in ('lincomb', 'multiply', 'divide'):
        x, y, o = act['x'], act['y'], act['o']
        if o == 0:
            return 'out=None' + ('/x1=x2' if x == y else '')
        if x == y == o:
            return 'all'
        if o == x:
            return 'out=x1'
        if o == y:
            return 'out=x2'
        return 'x1=x2' if x == y else 'none'
    if op == 'lincomb1':
        return 'out=None' if act['o'] == 0 else ('out=x1' if act['o'] == act['x'] else 'none')
    if op in ('bin', 'ibin', 'assign', 'abin', 'rabin', 'iabin', 'pbin', 'rpbin', 'ipbin'):
        return 'x=y' if act['x'] == act['y'] else 'none'
    return '-'


def sclass(c):
    if c == [[0, 1], [0, 1]]:
        return '0'
    if c == [[1, 1], [0, 1]]:
        return '1'
    if c == [[-1, 1], [0, 1]]:
        return '-1'
    return 'complex' if c[1] != [0, 1] else 'generic'


def target(act):
    op = act['op']
    if op in ('lincomb', 'lincomb1', 'multiply', 'divide'):
        return act['o']
    if op in ('ibin', 'iabin', 'ipbin', 'isbin', 'ipow', 'assign', 'set_zero'):
        return act['x']
    return 0


def reads(act):
    op = act['op']
    if op in ('lincomb', 'bin', 'ibin', 'abin', 'rabin', 'iabin', 'pbin', 'rpbin', 'ipbin', 'multiply', 'divide'):
        return {act['x'], act['y']}
    if op == 'assign':
        return {act['y']}
    if op in ('zero', 'one', 'set_zero'):
        return set()
    return {act['x']}


PYOP = {'add': lambda a, b: a + b, 'sub': lambda a, b: a - b, 'mul': lambda a, b: a * b,
        'div': lambda a, b: a / b}


def ibin(f, x, y):
    if f == 'add':
        x += y
    elif f == 'sub':
        x -= y
    elif f == 'mul':
        x *= y
    else:
        x /= y
    return x


def raw_array(el):
    """The ndarray / nested list a user would hand in instead of an element, sharing memory where possible."""
    if isinstance(el.space, odl.ProductSpace):
        return [raw_array(p) for p in el]
    t = getattr(el, 'tensor', el)
    return t.data


def perform(space, objs, act, dtype):
    """Perform the action through the public API; objs: list of elements (index 0 = object 1)."""
    op = act['op']
    g = lambda i: objs[i - 1]
    sc = lambda c: cnum_to_scalar(c, dtype)
    alt = SPELL[0] % 2 == 1       # alternate between the space-level and the element-level spelling of the same call
    SPELL[0] += 1
    if op == 'lincomb':
        out = None if act['o'] == 0 else g(act['o'])
        if alt and out is not None:
            return out.lincomb(sc(act['a']), g(act['x']), sc(act['b']), g(act['y']))
        return space.lincomb(sc(act['a']), g(act['x']), sc(act['b']), g(act['y']), out=out)
    if op == 'lincomb1':
        out = None if act['o'] == 0 else g(act['o'])
        if alt and out is not None:
            return out.lincomb(sc(act['a']), g(act['x']))
        return space.lincomb(sc(act['a']), g(act['x']), out=out)
    if op == 'bin':
        return PYOP[act['f']](g(act['x']), g(act['y']))
    if op == 'ibin':
        return ibin(act['f'], g(act['x']), g(act['y']))
    if op in ('pbin', 'rpbin', 'ipbin'):
        # power-space broadcasting: the right operand is an element of the COMPONENT space (first component of object y)
        comp = g(act['y'])[0]
        if op == 'pbin':
            return PYOP[act['f']](g(act['x']), comp)
        if op == 'rpbin':
            return PYOP[act['f']](comp, g(act['x']))
        return ibin(act['f'], g(act['x']), comp)
    if op in ('abin', 'rabin', 'iabin'):
        arr = raw_array(g(act['y']))        # the caller's own ndarray (no copy): it must not be modified
        if op == 'abin':
            return PYOP[act['f']](g(act['x']), arr)
        if op == 'rabin':
            return PYOP[act['f']](arr, g(act['x']))
        return ibin(act['f'], g(act['x']), arr)
    if op == 'sbin':
        return PYOP[act['f']](g(act['x']), sc(act['a']))
    if op == 'rsbin':
        return PYOP[act['f']](sc(act['a']), g(act['x']))
    if op == 'isbin':
        return ibin(act['f'], g(act['x']), sc(act['a']))
    if op == 'pow':
        return g(act['x']) ** act['n']
    if op == 'ipow':
        x = g(act['x'])
        x **= act['n']
        return x
    if op == 'neg':
        return -g(act['x'])
    if op == 'pos':
        return +g(act['x'])
    if op == 'multiply':
        out = None if act['o'] == 0 else g(act['o'])
        if alt:
            return g(act['x']).multiply(g(act['y']), out=out)
        return space.multiply(g(act['x']), g(act['y']), out=out)
    if op == 'divide':
        out = None if act['o'] == 0 else g(act['o'])
        if alt:
            return g(act['x']).divide(g(act['y']), out=out)
        return space.divide(g(act['x']), g(act['y']), out=out)
    if op == 'assign':
        g(act['x']).assign(g(act['y']))
        return g(act['x'])
    if op == 'copy':
        return g(act['x']).copy()
    if op == 'set_zero':
        r = g(act['x']).set_zero()
        return g(act['x']) if r is None else r
    if op == 'zero':
        return space.zero()
    if op == 'one':
        return space.one()
    raise ValueError(op)


def observe(cz, objs, act, plen, D, pre, skip_post=None):
    """Perform `act` on the real objects and project everything. Returns (event, info)."""
    err = ''
    res = None
    try:
        res = perform(cz.space, objs, act, cz.dtype)
    except Exception as e:      # the model says the action is enabled: an exception is an observation
        err = type(e).__name__ + ': ' + str(e)[:120]
    post, notes = [], []
    for i, o in enumerate(objs, start=1):
        if skip_post == i and err:
            post.append(pre[i - 1])
            continue
        pv, note = cz.project(o, plen, D)
        post.append(pv)
        if note:
            notes.append('obj%d:%s' % (i, note))
    ret = {'k': 'obj', 'o': 0, 'v': []}
    if not err:
        hit = [i for i, o in enumerate(objs, start=1) if o is res]
        if hit:
            ret = {'k': 'obj', 'o': hit[0], 'v': []}
        else:
            okspace = res in cz.space
            if okspace:
                pv, note = cz.project(res, plen, D)
            else:
                # C01 is about VALUES; which space wraps the result of a NumPy-dispatched operation is C17's business.
                # Re-wrap the values and remember the observation as drift.
                try:
                    arr = np.asarray(res)
                    pv, note = cz.project(cz.space.element(arr.reshape(cz.space.shape).astype(cz.dtype)), plen, D)
                    DRIFT.add('result of %s is wrapped in a different space than its operands (%s)' % (act['op'], cz.kind))
                except Exception:
                    pv, note = [NAN_TOKEN] * plen, 'not-in-space'
            if note:
                notes.append('ret:' + note)
            ret = {'k': 'new', 'o': 0, 'v': pv}
    ev = {'act': act, 'pre': pre, 'post': post, 'ret': ret, 'err': err.split(':')[0] if err else ''}
    return ev, {'notes': notes, 'err': err, 'D': D}, res


def execute(case, combo, prefill, D=None):
    """Run one abstract transition on freshly set-up real elements. Returns the observed event and notes."""
    cz = concrete(combo)
    act = case['act']
    pre = case['pre']
    plen = len(pre[0])
    if D is None:
        D = lattice_den([case['pre'], case.get('post', []), case.get('ret', {}).get('v', [])])
    D = max(D, 1)
    t = target(act)
    objs = []
    garbage = False
    for i, v in enumerate(pre, start=1):
        if prefill and i == t and t not in reads(act):
            fill = np.nan if cz.dtype.kind in 'fc' else -7777
            objs.append(cz.element(fill=fill))
            garbage = True
        else:
            objs.append(cz.element(vals=v))
    ev, info, _ = observe(cz, objs, act, plen, D, pre, skip_post=t if garbage else None)
    info['garbage'] = garbage
    return ev, info


def signature(act, combo, clause):
    kind, n, dt, lay = combo
    return {'op': act['op'] + ('/' + act['f'] if act['f'] else ''), 'pattern': pattern(act),
            'a': sclass(act['a']), 'b': sclass(act['b']),
            'dtype': np.dtype(dt).kind, 'regime': regime(n), 'kind': kind,
            'contig': 'no' if lay in ('S', 'S1') else 'yes', 'clause': clause}


def nontrivial(case):
    act = case['act']
    if act['op'] in ('zero', 'one', 'pos', 'copy'):
        return False
    al = pattern(act) not in ('none', '-', 'out=None')
    gen = sclass(act['a']) not in ('0', '1') or sclass(act['b']) not in ('0', '1')
    tgt = target(act)
    newval = case['post'][tgt - 1] if tgt else case['ret'].get('v')
    differs = all(newval != p for p in case['pre'])
    return bool(differs and (al or gen or act['op'] not in ('lincomb', 'lincomb1')))



# ------------------------------------------------------------------ lattice mirror
# Exact entry-wise arithmetic in Python, used ONLY to learn on which lattice (common denominator,
# magnitude) the true result of a random step lives, so that the observation can be snapped with a
# sound tolerance.  Values are judged by TLC (Trace_VecMachine), never by this mirror.
def _cz(c):
    from fractions import Fraction
    return (Fraction(c[0][0], c[0][1]), Fraction(c[1][0], c[1][1]))


def _cmul(a, b):
    return (a[0] * b[0] - a[1] * b[1], a[0] * b[1] + a[1] * b[0])


def _cinv(a):
    n = a[0] * a[0] + a[1] * a[1]
    return (a[0] / n, -a[1] / n)


def _cpow(a, k):
    from fractions import Fraction
    r = (Fraction(1), Fraction(0))
    for _ in range(abs(k)):
        r = _cmul(r, a)
    return _cinv(r) if k < 0 else r


def mirror_new_values(heap, act):
    """Exact new values (list of (re, im) Fractions) produced by the action."""
    op = act['op']
    H = [[_cz(c) for c in v] for v in heap]
    a, b = _cz(act['a']), _cz(act['b'])
    X = H[act['x'] - 1] if act['x'] else None
    Y = H[act['y'] - 1] if act['y'] else None
    add = lambda u, v: (u[0] + v[0], u[1] + v[1])
    binf = {'add': add, 'sub': lambda u, v: (u[0] - v[0], u[1] - v[1]), 'mul': _cmul,
            'div': lambda u, v: _cmul(u, _cinv(v))}
    if op == 'lincomb':
        return [add(_cmul(a, u), _cmul(b, v)) for u, v in zip(X, Y)]
    if op == 'lincomb1':
        return [_cmul(a, u) for u in X]
    if op in ('bin', 'ibin', 'abin', 'iabin', 'pbin', 'ipbin'):
        return [binf[act['f']](u, v) for u, v in zip(X, Y)]
    if op in ('rabin', 'rpbin'):
        return [binf[act['f']](v, u) for u, v in zip(X, Y)]
    if op in ('sbin', 'isbin'):
        return [binf[act['f']](u, a) for u in X]
    if op == 'rsbin':
        return [binf[act['f']](a, u) for u in X]
    if op in ('pow', 'ipow'):
        return [_cpow(u, act['n']) for u in X]
    if op == 'multiply':
        return [_cmul(u, v) for u, v in zip(X, Y)]
    if op == 'divide':
        return [_cmul(u, _cinv(v)) for u, v in zip(X, Y)]
    return [(0, 0)]


def lattice_of(heap, act):
    from fractions import Fraction
    from math import gcd
    vals = mirror_new_values(heap, act) + [_cz(c) for v in heap for c in v]
    D, mag = 1, 0
    for re, im in vals:
        for q in (Fraction(re), Fraction(im)):
            D = D * q.denominator // gcd(D, q.denominator)
            mag = max(mag, abs(q))
    return D, mag

# ------------------------------------------------------------------ driver
def random_episode(rnd, profile, tid, maxlen):
    """A call sequence on 3-4 live objects of a random space; values stay on a small dyadic lattice."""
    dt = rnd.choice(PROFILES[profile])
    plen = rnd.choice([2, 3, 4, 6])
    kind, lay = rnd.choice([('tensor', 'C1'), ('tensor', 'S1'), ('tensor', 'F'), ('tensor', 'S'), ('discr', 'C'),
                            ('pspace', 'C1'), ('nested', 'C1'), ('power', 'C1')])
    n = rnd.choice([plen, plen * 2, 96, 100, 120, 50000, 50004])
    if kind == 'power' and n % 2:
        n += 1
    if kind == 'nested' and n < 4:
        n = 4
    combo = (kind, n, dt, lay)

    def rq():
        if profile == 'I':
            return [[rnd.randint(-3, 3), 1], [0, 1]]
        re = [rnd.randint(-6, 6), rnd.choice([1, 1, 2, 4])]
        from math import gcd
        g = gcd(abs(re[0]), re[1]) or 1
        re = [re[0] // g, re[1] // g]
        im = [0, 1]
        if profile == 'C' and rnd.random() < 0.6:
            im = [rnd.randint(-3, 3), 1]
        return [re, im]

    def rscal():
        if rnd.random() < 0.45:
            return rnd.choice([[[0, 1], [0, 1]], [[1, 1], [0, 1]], [[-1, 1], [0, 1]]])
        return rq()
    heap = [[rq() for _ in range(plen)] for _ in range(3)]
    cz = concrete(combo)
    objs = [cz.element(vals=v) for v in heap]
    f32 = np.dtype(dt) in (np.dtype('float32'), np.dtype('complex64'))
    events = []
    for step in range(maxlen):
        nobj = len(heap)
        op = rnd.choice(['lincomb'] * 6 + ['lincomb1', 'bin', 'ibin', 'abin', 'rabin', 'iabin', 'sbin', 'rsbin', 'isbin', 'pow', 'ipow', 'neg',
                                          'multiply', 'divide', 'assign', 'copy', 'set_zero', 'zero', 'one'])
        act = {'op': op, 'f': '', 'a': [[0, 1], [0, 1]], 'b': [[0, 1], [0, 1]], 'x': 0, 'y': 0, 'o': 0, 'n': 0}
        ro = lambda: rnd.randint(1, nobj)
        if op in ('lincomb', 'multiply', 'divide'):
            act.update(x=ro(), y=ro(), o=rnd.choice([0] + list(range(1, nobj + 1)) * 2))
            if op == 'lincomb':
                act.update(a=rscal(), b=rscal())
        elif op == 'lincomb1':
            act.update(a=rscal(), x=ro(), o=rnd.choice([0] + list(range(1, nobj + 1))))
        elif op in ('bin', 'ibin'):
            act.update(f=rnd.choice(['add', 'sub', 'mul', 'div']), x=ro(), y=ro())
        elif op in ('abin', 'rabin', 'iabin'):
            act.update(f=rnd.choice(['add', 'sub', 'mul', 'div']), x=ro(), y=ro())
            if act['x'] == act['y']:
                continue
        elif op in ('sbin', 'rsbin', 'isbin'):
            act.update(f=rnd.choice(['add', 'sub', 'mul', 'div']), x=ro(), a=rscal())
        elif op in ('pow', 'ipow'):
            act.update(x=ro(), n=rnd.choice([0, 1, 2, 3] if profile == 'I' else [-1, 0, 1, 2, 3]))
        elif op in ('neg', 'copy', 'set_zero'):
            act.update(x=ro())
        elif op == 'assign':
            act.update(x=ro(), y=ro())
        # enabledness (the same guards as VecMachine!Acts)
        zero = [[0, 1], [0, 1]]
        if profile == 'I' and (act['f'] == 'div' or op == 'divide'):
            continue
        if act['f'] == 'div' or op == 'divide':
            den = heap[act['y'] - 1] if op in ('bin', 'ibin', 'divide', 'abin', 'iabin') else (
                heap[act['x'] - 1] if op in ('rsbin', 'rabin') else [act['a']])
            if any(v == zero for v in den):
                continue
        if op in ('pow', 'ipow') and act['n'] < 0 and any(v == zero for v in heap[act['x'] - 1]):
            continue
        # the SAME real objects live through the episode; pre = projection of their current contents
        DD, mag = lattice_of(heap, act)
        # bounds keep TLC's 32-bit rational arithmetic (cross-multiplications in Q / C operations) far from overflow
        lim_d, lim_m = (8, 32) if profile == 'C' else ((16, 64) if f32 else (32, 256))
        if DD > lim_d or mag > lim_m:
            break                       # the exact result would leave the lattice that snapping can resolve
        pre = [list(v) for v in heap]
        ev, info, res = observe(cz, objs, act, plen, DD, pre)
        info['garbage'] = False
        ev['tid'] = tid
        events.append((ev, info, combo))
        if ev['err'] or info['notes']:
            break
        heap = [list(v) for v in ev['post']]
        if ev['ret']['k'] == 'new' and len(objs) < 4:
            if res not in cz.space:     # NumPy-dispatched result wrapped in another space (drift, see observe): re-wrap
                res = cz.space.element(np.asarray(res).reshape(cz.space.shape).astype(cz.dtype))
            objs.append(res)            # the fresh result stays alive as a new object
            heap.append(ev['ret']['v'])
    return events


# ------------------------------------------------------------------ check
def run(ctx):
    quick = ctx.tier == 'quick'
    ctx.rule = ('abstract transitions of VecMachine exported by TLC (every (heap, action) pair of the bounded '
                'machine) x concretisations (size regime, dtype, layout, space kind) and random call sequences; '
                'distinct = hash of (abstract transition, regime, dtype kind, contiguity); non-trivial = result differs '
                'from every operand pre-value and (operands aliased or a scalar outside {0,1} or a derived operator)')
    ctx.assumptions += [
        'values on small dyadic / Gaussian-rational lattices; long vectors are periodic tilings (tiling verified on the whole array)',
        'true division in integer spaces follows NumPy casting rules and is outside the claim',
        'snapping tolerance 2^-20/D (float64) resp. 2^-10/D (float32) separates rounding from logic errors']
    work = ctx.work
    depth = '1' if quick else '2'
    big = '0' if quick else '1'

    # ---- 1. model runs (parallel) ----
    jobs = []
    for prof in 'RCI':
        jobs.append(('props-' + prof, 'MC_VecMachine.tla', 'MC_VecMachine_props.cfg',
                     {'VM_PROFILE': prof, 'VM_BIG': '0', 'VM_DEPTH': depth, 'OUT_FILE': os.devnull}, 4))
        jobs.append(('lincombimpl-' + prof, 'MC_LincombImpl.tla', 'MC_LincombImpl_Correct.cfg',
                     {'VM_PROFILE': prof, 'LC_FIXED': FIXED_AXPY}, 2))
        out = os.path.join(work, 'exp_%s.ndjson' % prof)
        jobs.append(('export-' + prof, 'MC_VecMachine.tla', 'MC_VecMachine_export.cfg',
                     {'VM_PROFILE': prof, 'VM_BIG': big, 'VM_DEPTH': '1', 'OUT_FILE': out}, 1))

    def go(j):
        return j[0], run_tlc(j[1], j[2], work, env=j[3], workers=j[4], timeout=3000)
    with ThreadPoolExecutor(max_workers=5) as ex:
        results = list(ex.map(go, jobs))
    for name, res in results:
        ctx.add_tlc(name, res)

    # ---- 2. replay of exported transitions ----
    events = []          # (event, info, combo) for trace validation
    per_case = 1 if quick else 3
    for prof in 'RCI':
        cb = combos(prof, ctx.seed)
        counters = {}
        path = os.path.join(work, 'exp_%s.ndjson' % prof)
        with open(path) as f:
            lines = f.readlines()
        if not lines:
            raise MachineryError('empty export for profile ' + prof)
        for ln, line in enumerate(lines):
            case = json.loads(line)
            act = case['act']
            ckey = (act['op'], act['f'], pattern(act), sclass(act['a']) in ('0', '1'), sclass(act['b']) in ('0', '1'))
            for rep in range(per_case):
                k = counters.get(ckey, ctx.seed % 7)
                counters[ckey] = k + 1
                combo = cb[k % len(cb)]
                if combo[0] == 'nested' and combo[1] < 4:
                    combo = ('tensor', combo[1], combo[2], 'C1')
                if act['op'] in ('pbin', 'rpbin', 'ipbin'):
                    # only meaningful on power spaces whose component length is a multiple of the abstract period
                    combo = ('power', (4, 100, 50000, 8, 104)[k % 5], combo[2], 'C1')
                prefill = (k % 2 == 0)
                ev, info = execute(case, combo, prefill)
                ev['tid'] = 0
                events.append((ev, info, combo))
                bad = []
                if ev['err']:
                    bad.append('raised')
                else:
                    for i, (o, e) in enumerate(zip(ev['post'], case['post']), start=1):
                        if o != e:
                            bad.append('value' if i == target(act) else 'frame')
                    er = case['ret']
                    if er['k'] == 'obj' and (ev['ret']['k'] != 'obj' or ev['ret']['o'] != er['o']):
                        bad.append('ret-is-not-out')
                    if er['k'] == 'new' and ev['ret']['k'] != 'new':
                        bad.append('ret-not-fresh')
                    if er['k'] == 'new' and ev['ret']['k'] == 'new' and ev['ret']['v'] != er['v']:
                        bad.append('ret-value')
                cellkey = [case['act'], case['pre'], regime(combo[1]), np.dtype(combo[2]).kind, combo[3] in ('S', 'S1')]
                ctx.count(cellkey, nontrivial(case))
                if len(ctx.samples) < 4 and nontrivial(case) and pattern(act) not in ('none', '-') and ln % 97 == 0:
                    ctx.sample({'abstract': case, 'concretisation': concrete(combo).key(), 'garbage_prefill': info['garbage'],
                                'observed_post': ev['post'], 'observed_ret': ev['ret']})
                for clause in sorted(set(bad)):
                    ctx.violation(signature(act, combo, clause),
                                  {'stage': 'replay', 'case': case, 'concretisation': list(combo), 'prefill': prefill,
                                   'observed': ev, 'info': info})
    ctx.traces += len(events)
    n_replay_events = len(events)

    # ---- 3. random driver ----
    rnd = random.Random(ctx.seed * 7919 + 13)
    nep = 150 if quick else 800
    tid = 0
    for _ in range(nep):
        tid += 1
        eps = random_episode(rnd, rnd.choice('RRCCI'), tid, 10)
        if eps:
            ctx.traces += 1
        for ev, info, combo in eps:
            events.append((ev, info, combo))
            ctx.count([ev['act'], ev['pre'], regime(combo[1]), np.dtype(combo[2]).kind], True)

    # ---- 4. TLC trace validation (chunks, in parallel) ----
    chunk = 6000
    files = []
    random_files = set()
    # replayed transitions and random episodes go to separate chunks
    bounds = list(range(0, n_replay_events, chunk)) + list(range(n_replay_events, len(events), 1500))
    spans = [(b, min([x for x in bounds + [len(events)] if x > b])) for b in bounds]
    for n_chunk, (ci, cj) in enumerate(spans):
        p = os.path.join(work, 'trace_%d.ndjson' % n_chunk)
        with open(p, 'w') as f:
            for k, (ev, info, combo) in enumerate(events[ci:cj]):
                e = dict(ev)
                e['id'] = ci + k
                f.write(json.dumps(e) + '\n')
        files.append(p)
        if ci >= n_replay_events:
            random_files.add(p)

    def val(p):
        return p, run_tlc('Trace_VecMachine.tla', 'Trace_VecMachine.cfg', work, env={'TRACE_FILE': p}, workers=1,
                          timeout=3000)
    import re
    with ThreadPoolExecutor(max_workers=12) as ex:
        vres = list(ex.map(val, files))
    nfail = 0
    for p, res in vres:
        if res.status == 'machinery' and 'Overflow' in res.output and p in random_files:
            # a random episode left the range of TLC's 32-bit integers: that chunk gives no verdict (never a wrong one)
            ctx.skip('random-episode trace chunk %s not validated: TLC integer overflow' % os.path.basename(p))
            continue
        ctx.add_tlc('trace-' + os.path.basename(p), res)
        for _ln, _eid, _cl in parse_fails(res.output):
            nfail += 1
            eid = _eid
            ev, info, combo = events[eid]
            clauses = sorted(set(re.findall(r'<<\s*"([\w-]+)"', _cl)))
            for clause in clauses:
                act = ev['act']
                cl = clause
                if clause == 'value':
                    objs = [int(o) for o in re.findall(r'<<\s*"value",\s*(\d+)\s*>>', _cl)]
                    cl = 'value' if target(act) in objs else 'frame'
                ctx.violation(signature(act, combo, cl),
                              {'stage': 'trace', 'event': ev, 'concretisation': list(combo), 'info': info,
                               'tlc_clauses': _cl})
    ctx.extra['trace_events_validated_by_tlc'] = len(events)
    ctx.extra['trace_events_rejected_by_tlc'] = nfail
    for msg in sorted(DRIFT):
        ctx.drift_note(msg)

    # ---- 4b. special values: inf / -inf / nan entries under every operation form (VecSpecial, "all element values") ----
    from ..extras import vecspecial
    vecspecial.run_stage(ctx)

    # ---- 5. harvest: lincomb calls made inside the repository's own tests (hook ODL_VERIF_TRACE) ----
    from .. import harvest as H
    for sig, detail in H.harvest(ctx, {'lincomb'}, H.QUICK_MODULES if quick else H.THOROUGH_MODULES,
                                 ('lincomb-value', 'lincomb-operand-modified', 'lincomb-does-not-return-out')):
        ctx.violation(sig, detail)
    ctx.exhaustive = True   # the exported transition set is the complete (state, action) product of the bounded machine


def replay(body):
    d = body['detail']
    if d.get('stage_kind'):                 # special-values stage (harness/extras/vecspecial.py)
        from ..extras import vecspecial
        return vecspecial.replay(body)
    combo = tuple(d['concretisation'])
    if d.get('stage') == 'replay':
        case = d['case']
        ev, info = execute(case, combo, d.get('prefill', False))
        exp_post, exp_ret = case['post'], case['ret']
        ok = (not ev['err']) and ev['post'] == exp_post and ev['ret']['k'] == exp_ret['k'] and \
            (ev['ret']['o'] == exp_ret['o'] if exp_ret['k'] == 'obj' else ev['ret']['v'] == exp_ret['v'])
        print('case     :', dumps(case['act']))
        print('concrete :', combo, 'prefill', d.get('prefill'))
        print('expected :', dumps(exp_post), dumps(exp_ret))
        print('observed :', dumps(ev['post']), dumps(ev['ret']), ev['err'], info['notes'])
    else:
        old = d['event']
        case = {'act': old['act'], 'pre': old['pre']}
        ev, info = execute(case, combo, False, D=d['info']['D'])
        print('event    :', dumps(old['act']), 'pre', dumps(old['pre']))
        print('concrete :', combo)
        print('observed now :', dumps(ev['post']), dumps(ev['ret']), ev['err'])
        print('observed then:', dumps(old['post']), dumps(old['ret']), old['err'])
        print('TLC clauses  :', d.get('tlc_clauses'))
        ok = False if (ev['post'] == old['post'] and ev['ret'] == old['ret'] and ev['err'] == old['err']) else True
    print('REPRODUCED' if not ok else 'NOT-REPRODUCED')
    return 1 if not ok else 0

"""C07 - a proximal operator returns the minimiser of f(z) + ||z - x||^2 / (2 sigma).

Pipeline (DESIGN 4/C07):
  1. TLC: sanity laws of the reference on the bounded FuncMachine (sub-gradient certificate <=> value
     optimality, uniqueness, firm non-expansiveness, indicator idempotence, search heuristic = full scan);
     layer C (FuncRulesImpl: the proximal rules and closed forms transcribed as written) against layer A.
  2. TLC exports every functional program (depth <= 1, depth 2 on a core) x sigma x x together with the
     certified lattice argmin z*; each case is replayed on real ODL functionals.  Alarm = the property read
     literally on the implementation's own numbers: f(p) finite and no logged probe (z*, coordinate / mixed
     lattice perturbations of p, segment points towards x) with F(z) < F(p) - slack.
  3. Every replayed call, a deterministic enumeration beyond the TLC constants (3 and 5 points per
     component) and seeded random inputs are recorded as events and validated by TLC against
     Trace_FuncMachine (sub-gradient inclusion at the snapped p, f_real = Val on probes, firm
     non-expansiveness on logged pairs, idempotence of indicator proximals).
"""
import hashlib
import json
import multiprocessing as mp
import os
import random
from fractions import Fraction

import numpy as np

from .. import funcutil as fu
from ..common import dumps, MachineryError

LAYOUTS = [0, 1, 2, 3]
LAYNAME = {0: 'one-axis', 1: 'multi-axis', 2: 'multi-axis', 3: 'multi-axis'}
ROT = {'rn2': 'norms', 'rnw2': 'ind2', 'discrH': 'smooth', 'discr2': 'ind1', 'power1': 'kl', 'pspace1': 'core'}
ROT2 = {'rn2': 'ind2', 'rnw2': 'norms', 'discrH': 'ind1', 'discr2': 'smooth', 'power1': 'norms', 'pspace1': 'core2'}
LAWGROUPS = ['norms', 'ind2', 'smooth', 'ind1', 'kl']


def tlc_jobs(ctx, quick):
    jobs, exports = [], []
    xset = 'quick' if quick else 'full'
    M, X = 'MC_FuncMachine.tla', 'MC_FuncMachine_export.cfg'

    def exp(name, sp, depth, group, deep='all', xs=None):
        out = os.path.join(ctx.work, 'exp_%s.ndjson' % name)
        exports.append(out)
        jobs.append(('export-' + name, M, X,
                     fu.fm_env(sp, depth, group, 'prox', deep=deep, xset=xs or xset, mode='prox', out=out), 1))
    for sp in fu.SPACES_2D:
        # layer C against layer A (depth <= 1, all leaves)
        jobs.append(('impl-' + sp, 'MC_FuncRulesImpl.tla', 'MC_FuncRulesImpl_Prox.cfg',
                     fu.fm_env(sp, 1, 'all', 'prox', xset='quick'), 1))
        if quick:
            exp('d0-' + sp, sp, 0, 'all')
            exp('d1-' + sp, sp, 1, ROT[sp], xs='quick' if ROT[sp] in ('smooth', 'kl', 'core') else 'tiny')
        else:
            for g in LAWGROUPS:
                exp('d0-%s-%s' % (sp, g), sp, 0, g, xs='full')           # every leaf: 64 points x 5 steps
            for g in LAWGROUPS + (['core'] if sp == 'pspace1' else []):
                exp('d1-%s-%s' % (sp, g), sp, 1, g, xs='quick')          # every leaf x every rule: 16 points x 3 steps
    # WEIGHTED power spaces (ProductSpace(X, 2, weighting=[1, 4] / 4.0 / [1/4, 1])): every leaf; one rule on top of
    # the vector-field functionals (their point-wise norms carry the component weights)
    for sp in fu.SPACES_W:
        full = sp == 'wpowerA' or not quick
        exp('d0-' + sp, sp, 0, 'all' if full else 'vf', xs='quick' if quick else 'full')
        if full:
            exp('d1-' + sp, sp, 1, 'vf', xs='tiny' if quick else 'quick')
            jobs.append(('impl-' + sp, 'MC_FuncRulesImpl.tla', 'MC_FuncRulesImpl_Prox.cfg',
                         fu.fm_env(sp, 1, 'vf', 'prox', xset='quick'), 1))
        if full or sp == 'wpowerQ':
            jobs.append(('laws-%s-vf' % sp, M, 'MC_FuncMachine_lawsProx.cfg', fu.fm_env(sp, 0, 'vf', 'prox', xset='quick'), 1))
    if not quick:
        exp('big-wpower2', 'wpower2', 0, 'vf', xs='quick')
    # sanity laws of the reference
    # (quick: every leaf on three spaces; thorough: every leaf on every space, every leaf x rule on one weighted space)
    lawspaces = ['rn2', 'discr2', 'power1'] if quick else fu.SPACES_2D
    for sp in lawspaces:
        for g in LAWGROUPS:
            deep = (not quick) and sp == 'rnw2'
            jobs.append(('laws-%s-%s' % (sp, g), M, 'MC_FuncMachine_lawsProx.cfg',
                         fu.fm_env(sp, 1 if deep else 0, g, 'prox', xset='quick'), 1))
    # depth 2 on a core of leaves ("derived rules preserve optimality")
    if quick:
        exp('d2-rn2', 'rn2', 2, 'one', deep='one', xs='tiny')
    else:
        for sp in ['rn2', 'discr2', 'rnw2']:
            for g in ['core', 'core2']:
                exp('d2-%s-%s' % (sp, g), sp, 2, g, deep=g, xs='tiny')
        for sp in fu.SPACES_BIG:
            exp('big-' + sp, sp, 1 if sp in ('rn3', 'discr3') else 0, 'all', xs='quick')
    # non-vacuity of the law run: a deliberately false law must be refuted
    jobs.append(('bogus-law', M, 'MC_FuncMachine_bogus.cfg', fu.fm_env('rn2', 0, 'core', 'prox'), 1))
    return jobs, exports


# ------------------------------------------------------------------ replay worker
def _rnd(rec_key, seed):
    return random.Random(int(hashlib.sha1((rec_key + str(seed)).encode()).hexdigest()[:12], 16))


def nontrivial_case(case):
    if not case['nz']:
        return False
    z, x = case['z'], case['x']
    return z != x and any(q[0] != 0 for q in z)


def judge(B, ev, info, case, sp, f, kind):
    """Literal reading of the property on the implementation's own numbers -> list of (clause, extra)."""
    out = []
    if info['err']:
        et = info['err'].split(':')[1] if ':' in info['err'] else info['err']
        out.append(('raises', {'error': et.strip()}))
        return out
    if not ev['finite']:
        out.append(('f(p)-not-finite', {}))
    elif info.get('better') is not None:
        out.append(('probe-has-smaller-objective', {}))
    return out


def replay_program(arg):
    rec, seed, per_case, want_pairs = arg
    sp, f = rec['sp'], rec['f']
    key = json.dumps(f, sort_keys=True) + rec['space']
    rnd = _rnd(key, seed)
    res = {'events': [], 'viol': [], 'counts': [], 'classes': set(), 'dropped': 0, 'noprox': 0, 'drift': [],
           'samples': [], 'unbuildable': ''}
    cases = sorted(rec['cases'], key=lambda c: json.dumps([c['sk'], c['sig'], c['x']]))
    if not cases:
        return res
    built = {}
    for variant, layout in [(v, l) for v in range(per_case) for l in LAYOUTS]:
        try:
            built[(variant, layout)] = fu.Built(sp, f, variant, layout=layout)
        except (NotImplementedError, fu.Unbuildable):
            res['noprox'] += 1     # e.g. a convex conjugate the class does not offer
            return res
        except Exception as e:     # the program is well-formed: construction must work
            res['viol'].append((fu.signature(sp, f, 'construction-raises', {'error': type(e).__name__, 'layout': LAYNAME[layout]}),
                                {'stage': 'replay', 'sp': sp, 'f': f, 'error': str(e)[:200], 'layout': layout}))
            return res
    res['classes'] = fu.class_names(built[(0, 0)].func)
    prev = {}
    for ci, case in enumerate(cases):
        zstar = fu.frv(case['z']) if case['nz'] else None
        if not case['nz']:
            res['dropped'] += 1
        xv = fu.frv(case['x'])
        for variant in range(per_case):
            # the n points of the abstract space are laid out on 1, 2 or 3 axes in turn (same abstract case)
            layout = LAYOUTS[(ci + variant + seed) % len(LAYOUTS)]
            B = built[(variant, layout)]
            style = (ci + variant + seed) % 3
            ev, info = fu.observe_prox(B, case['sig'], case['sk'], xv, zstar, rnd, style=style,
                                       want_idem=rec['attrs']['indicator'])
            if ev is None:
                res['noprox'] += 1
                return res
            ev['tag'] = 'replay'
            res['counts'].append(([f, rec['space'], case['sk'], case['sig'], case['x']], nontrivial_case(case)))
            detail = {'stage': 'replay', 'sp': sp, 'f': f, 'case': case, 'variant': variant, 'style': style, 'layout': layout,
                      'observed': {'p': info.get('p'), 'Fp': info.get('Fp'), 'better': info.get('better'),
                                   'err': info['err']}}
            for clause, extra in judge(B, ev, info, case, sp, f, case['sk']):
                extra = dict(extra)
                extra['sigma'] = 'scalar' if case['sk'] == 's' else 'vector'
                extra['layout'] = LAYNAME[B.layout]
                res['viol'].append((fu.signature(sp, f, clause, extra), detail))
            if info.get('rounding_infeasible'):
                res['rounding'] = res.get('rounding', 0) + 1
            if not info['err']:
                if zstar is not None and ev['p'] != case['z'] and info.get('better') is None and ev['finite']:
                    res['drift'].append('p differs from the certified argmin although no probe is better: %s on %s'
                                        % (fu.shape(f), rec['space']))
                res['events'].append((ev, detail))
                if want_pairs and case['sk'] == 's' and (ci % 3 == 0 or per_case > 1):
                    pk = (variant, layout, json.dumps(case['sig']))
                    if pk in prev:
                        x1, p1, xs1 = prev[pk]
                        x2, p2 = B.el(xv), B.el(info['p'])
                        lhs = float((p1 - p2).norm()) ** 2
                        rhs = float((p1 - p2).inner(x1 - x2))
                        lq, rq = fu.fixq(lhs), fu.fixq(rhs)
                        if lq is not None and rq is not None:
                            pe = {'k': 'pair', 'sp': sp, 'x1': xs1, 'x2': ev['x'], 'p1': fu.snapvec(fu.flat(p1)),
                                  'p2': ev['p'], 'lhsq': lq, 'rhsq': rq, 'slackq': fu.REL_SLACKQ, 'tag': 'replay'}
                            res['events'].append((pe, {'stage': 'pair', 'sp': sp, 'f': f, 'sig': case['sig'],
                                                       'x1': xs1, 'x2': ev['x'], 'variant': variant}))
                    prev[pk] = (B.el(xv), B.el(info['p']), ev['x'])
            if len(res['samples']) < 1 and nontrivial_case(case) and not info['err']:
                res['samples'].append({'space': rec['space'], 'program': fu.shape(f), 'sigma': case['sig'],
                                       'x': case['x'], 'zstar_from_TLC': case['z'], 'observed_p': info.get('p'),
                                       'F(p)': info.get('Fp')})
    if rec['k'] <= 1:
        chain_prox(built[(0, LAYOUTS[seed % len(LAYOUTS)])], [c_ for c_ in cases if c_['sk'] == 's'], rnd, res, sp, f,
                   2 if per_case == 1 else 6)
    return res


def chain_prox(B, cases, rnd, res, sp, f, ncases):
    """Derived-of-derived: f -> f* -> f** -> f*** as the library builds them; at every node that offers a proximal
    the C07 clauses apply to the node's own values (the node f** denotes the program Conj(Conj(f)), so the
    certificate of the specification applies as well)."""
    import copy
    node, prog = B.func, f
    step = max(1, len(cases) // ncases)
    for depth in (1, 2, 3):
        try:
            node = node.convex_conj
        except Exception:
            return
        prog = mkf('Conj', args=[prog])
        WB = copy.copy(B)
        WB.func, WB.f, WB.factory = node, prog, None
        for case in cases[::step][:ncases]:
            xv = fu.frv(case['x'])
            ev, info = fu.observe_prox(WB, case['sig'], 's', xv, None, rnd, style=0, want_idem=False)
            if ev is None:
                break
            ev['tag'] = 'replay'
            res['counts'].append(([prog, sp['kind'], case['sig'], case['x']], True))
            detail = {'stage': 'replay', 'sp': sp, 'f': prog, 'sig': case['sig'], 'sk': 's', 'x': case['x'],
                      'layout': B.layout, 'chain': depth,
                      'observed': {'p': info.get('p'), 'Fp': info.get('Fp'), 'better': info.get('better'), 'err': info['err']}}
            for clause, extra in judge(WB, ev, info, None, sp, prog, 's'):
                extra = dict(extra, sigma='scalar', layout=LAYNAME[B.layout], node='f' + '*' * depth)
                res['viol'].append((fu.signature(sp, prog, clause, extra), detail))
            if not info['err']:
                res['events'].append((ev, detail))


# ------------------------------------------------------------------ driver beyond the TLC constants
def q(n, d=1):
    return fu.qj(Fraction(n, d))


def mkf(op, s=0, c=0, v=(), u=(), args=()):
    return {'op': op, 's': q(*s) if isinstance(s, tuple) else q(s), 'c': q(*c) if isinstance(c, tuple) else q(c),
            'v': [fu.qj(Fraction(t)) for t in v], 'u': [fu.qj(Fraction(t)) for t in u], 'args': list(args)}


def driver_spaces():
    H = Fraction(1, 2)
    return [('rn', 1, 3, [1] * 3), ('rnw', 1, 4, [4] * 4), ('discr', 1, 3, [2] * 3), ('discr', 1, 6, [H] * 6),
            ('power', 2, 2, [H] * 4), ('power', 3, 2, [2] * 6), ('power', 2, 4, [2] * 8), ('pspace', 2, 2, [4, 4, H, H]),
            # weighted power spaces (kind, m, n, W, component weights): array weighting, constant weighting, 3 components
            ('wpower', 2, 2, [H, H, 2, 2], [1, 4]), ('wpower', 2, 3, [6] * 6, [3, 3]),
            ('wpower', 3, 2, [H, H, 1, 1, 2, 2], [Fraction(1, 4), H, 1])]


def driver_leaves(kind, m, N, rnd):
    alt = lambda a, b: [a if i % 2 == 0 else b for i in range(N)]
    H = Fraction(1, 2)
    L = [mkf('L1'), mkf('L2'), mkf('L2sq'), mkf('Huber', (1, 2)), mkf('Huber', 1), mkf('IndBox', -1, 2),
         mkf('IndBox', (-1, 2), (1, 2)), mkf('IndNonneg'), mkf('IndZero'), mkf('IndBall2'), mkf('IndBallInf'),
         mkf('Const', 0, 3), mkf('Const', 0, 0), mkf('KL', v=alt(1, 2)), mkf('KLcc', v=alt(1, 2)),
         mkf('Huber', 2), mkf('KL'), mkf('KLcc'), mkf('KL', v=alt(Fraction(1, 2), 3)),
         # documented boundary values of the parameters, on every space kind
         mkf('Huber', 0), mkf('IndBox', 1, 1), mkf('IndBox', 0, 0), mkf('IndZero', 0, -2)]
    if m == 1:
        L += [mkf('Linf'), mkf('IndBall1'), mkf('IndSum', 1), mkf('IndSum', (5, 2)), mkf('IndSum', 0), mkf('IndSum', -2), mkf('IndSimplex', 2), mkf('IndSimplex', 1)]
    if fu.is_vf(kind):
        L += [mkf('GroupL1'), mkf('IndGroupBall'), mkf('GroupL1', 1), dict(mkf('IndGroupBall'), s=[1, 0])]
    if kind == 'wpower':
        # the functionals whose implementation meets the weighting of the product space
        L = [l for l in L if l['op'] in ('L1', 'L2', 'L2sq', 'Huber', 'IndBall2', 'IndBallInf', 'GroupL1', 'IndGroupBall')]
    if kind == 'pspace':
        n = N // 2
        parts = [mkf('L1'), mkf('L2sq'), mkf('L2'), mkf('IndBox', -1, 2), mkf('Huber', (1, 2))]
        L = [mkf('SepSum', args=[a, b]) for a in parts for b in parts if a is not b][:12] + \
            [mkf('L1'), mkf('L2'), mkf('L2sq')]
    return L


def driver_rules(N, rnd):
    rv = lambda: [Fraction(rnd.choice([-2, -1, -1, 1, 1, 2, 3]), rnd.choice([1, 2])) for _ in range(N)]
    return [lambda g: g,
            lambda g: mkf('Translate', u=rv(), args=[g]),
            lambda g: mkf('ArgScale', rnd.choice([(2, 1), (-1, 2), (-1, 1)]), args=[g]),
            lambda g: mkf('LScale', rnd.choice([(2, 1), (1, 2), (4, 1)]), args=[g]),
            lambda g: mkf('AddConst', 0, -2, args=[g]),
            lambda g: mkf('QuadPert', rnd.choice([(1, 2), (3, 2)]), 1, u=rv(), args=[g]),
            lambda g: mkf('QuadPert', 0, 0, u=rv(), args=[g]),
            lambda g: mkf('QuadPert', 0, 0, args=[g]),                      # coefficient 0, no linear term
            lambda g: mkf('LScale', (16, 1), args=[g]),                     # weight beyond every |x|
            lambda g: mkf('Conj', args=[g]),
            lambda g: mkf('Bregman', v=rv(), u=rv(), args=[g])]


def driver_points(N, rnd, k):
    """fixed structured points (ties, zeros, Pythagorean groups) + k seeded random quarter-lattice points"""
    H = Fraction(1, 2)
    fixed = [[0] * N, [3 if i % 2 == 0 else 4 for i in range(N)], [-3 if i % 2 == 0 else 4 for i in range(N)],
             [Fraction(i + 1, 2) for i in range(N)], [2] * N, [H * (-1) ** i for i in range(N)],
             [Fraction(5, 2)] + [0] * (N - 1), [Fraction(-3, 4) * (i % 3) for i in range(N)]]
    rand = [[Fraction(rnd.randint(-16, 16), 4) for _ in range(N)] for _ in range(k)]
    return fixed, rand


FINITE_LEAVES = {'L1', 'L2', 'L2sq', 'Linf', 'GroupL1', 'Huber', 'Const', 'Quad'}


def _lam_g(B):
    """(lam, g) of a program  [Conj(] LScale(lam, [Translate(] leaf [, g)] ) [)]  - the options of a proximal factory"""
    f = B.f['args'][0] if B.f['op'] == 'Conj' else B.f
    lam = float(fu.fr(f['s']))
    inner = f['args'][0]
    if inner['op'] == 'Translate':
        return lam, B.el(fu.frv(inner['u']))
    if inner['op'] == 'KL':
        return lam, B.el(fu.frv(inner['v']))
    return lam, None


FACTORIES = {
    'proximal_l1': lambda B: fu.S.proximal_l1(B.space, *_lam_g(B)),
    'proximal_l2': lambda B: fu.S.proximal_l2(B.space, *_lam_g(B)),
    'proximal_l2_squared': lambda B: fu.S.proximal_l2_squared(B.space, *_lam_g(B)),
    'proximal_l1_l2': lambda B: fu.S.proximal_l1_l2(B.space, *_lam_g(B)),
    'proximal_convex_conj_l1': lambda B: fu.S.proximal_convex_conj_l1(B.space, *_lam_g(B)),
    'proximal_convex_conj_l2': lambda B: fu.S.proximal_convex_conj_l2(B.space, *_lam_g(B)),
    'proximal_convex_conj_l2_squared': lambda B: fu.S.proximal_convex_conj_l2_squared(B.space, *_lam_g(B)),
    'proximal_convex_conj_l1_l2': lambda B: fu.S.proximal_convex_conj_l1_l2(B.space, *_lam_g(B)),
    'proximal_convex_conj_kl': lambda B: fu.S.proximal_convex_conj_kl(B.space, *_lam_g(B)),
}
VEC_SIGMA_FACTORIES = {'proximal_l1', 'proximal_l2_squared', 'proximal_convex_conj_l1',
                       'proximal_convex_conj_l2_squared'}        # documented: sigma may be a space element


def factory_programs(kind, m, N):
    """(factory name, program) for every closed-form factory with options lam / g (with and without g)."""
    gv = [Fraction(1) if i % 2 == 0 else Fraction(-1, 2) for i in range(N)]
    pv = [Fraction(1) if i % 2 == 0 else Fraction(2) for i in range(N)]
    out = []
    for lam in [(2, 1), (1, 2)]:
        for withg in (True, False):
            def wrap(leaf):
                inner = mkf('Translate', u=gv, args=[leaf]) if withg else leaf
                return mkf('LScale', lam, args=[inner])
            out.append(('proximal_l1', wrap(mkf('L1'))))
            out.append(('proximal_l2', wrap(mkf('L2'))))
            out.append(('proximal_l2_squared', wrap(mkf('L2sq'))))
            out.append(('proximal_convex_conj_l1', mkf('Conj', args=[wrap(mkf('L1'))])))
            out.append(('proximal_convex_conj_l2', mkf('Conj', args=[wrap(mkf('L2'))])))
            out.append(('proximal_convex_conj_l2_squared', mkf('Conj', args=[wrap(mkf('L2sq'))])))
            if fu.is_vf(kind):
                out.append(('proximal_l1_l2', wrap(mkf('GroupL1'))))
                out.append(('proximal_convex_conj_l1_l2', mkf('Conj', args=[wrap(mkf('GroupL1'))])))
        if kind != 'pspace':
            out.append(('proximal_convex_conj_kl', mkf('Conj', args=[mkf('LScale', lam, args=[mkf('KL', v=pv)])])))
    return out


def opaque_recipes():
    """Functionals with a proximal that the specification has no semantics for: literal clauses only."""
    import odl
    S = fu.S
    out = []
    M = odl.ProductSpace(odl.ProductSpace(odl.rn(2), 2), 2)
    for e in (1, 2, np.inf):
        out.append(('NuclearNorm', 'singular_vector_exp=%s' % e, lambda e=e: fu.Opaque(
            'NuclearNorm', 'singular_vector_exp=%s' % e, M, S.NuclearNorm(M, 1, e))))
    for e in (1, 2, np.inf):
        out.append(('IndicatorNuclearNormUnitBall', 'singular_vector_exp=%s' % e, lambda e=e: fu.Opaque(
            'IndicatorNuclearNormUnitBall', 'singular_vector_exp=%s' % e, M,
            S.IndicatorNuclearNormUnitBall(M, np.inf, e), indicator=True)))
    for nm, mk in [('rn', lambda: odl.rn(3)), ('discr', lambda: odl.uniform_discr(0, 6, 3))]:
        out.append(('KullbackLeiblerCrossEntropy', nm, lambda mk=mk: (lambda X: fu.Opaque(
            'KullbackLeiblerCrossEntropy', 'prior', X, S.KullbackLeiblerCrossEntropy(X, prior=X.element([1, 2, 0.5]))))(mk())))
        out.append(('KullbackLeiblerCrossEntropyConvexConj', nm, lambda mk=mk: (lambda X: fu.Opaque(
            'KullbackLeiblerCrossEntropyConvexConj', 'prior', X,
            S.KullbackLeiblerCrossEntropy(X, prior=X.element([1, 2, 0.5])).convex_conj))(mk())))

    def comp():
        X = odl.rn(2)
        R = odl.MatrixOperator(np.array([[0.6, 0.8], [-0.8, 0.6]]), domain=X, range=X)     # R R* = I
        g = 2 * S.L1Norm(X)
        return fu.Opaque('proximal_composition', 'rotation', X, g * R,
                         factory=S.proximal_composition(g.proximal, R, 1.0))
    out.append(('proximal_composition', 'rotation', comp))
    # user-built functionals and the default conjugate object: every node of the chain f -> f* -> f** -> f***
    from . import c08
    for ui, (uname, uopt, umk) in enumerate(c08.user_recipes()):
        for k in range(4):
            def node(umk=umk, k=k, uname=uname, uopt=uopt):
                X, nodes, refs = umk()
                if k >= len(nodes):
                    return None
                nd = nodes[k]
                try:
                    nd(X.zero())
                    func = nd                      # the node evaluates itself (simple_functional: fcall)
                except Exception:
                    func = refs[k]                 # default conjugate object: values of the class-based conjugate
                return fu.Opaque(uname, '%s node %d' % (uopt, k), X, func, factory=nd.proximal)
            out.append((uname, '%s node %d' % (uopt, k), node))
    return out


def opaque_program(arg):
    idx, seed, nrand = arg
    name, option, mk = opaque_recipes()[idx]
    res = {'events': [], 'viol': [], 'counts': [], 'classes': set(), 'noprox': 0}
    B = mk()
    if B is None:
        return res
    res['classes'] = fu.class_names(B.func) | {name}
    rnd = _rnd(name + option, seed)
    N = B.N
    pos = name.startswith('KullbackLeiblerCrossEntropy') and not name.endswith('Conj')
    fixed, rand = driver_points(N, rnd, nrand)
    sp = {'kind': option, 'm': 1, 'n': N, 'W': []}
    for xi, xv in enumerate(fixed + rand):
        if pos:
            xv = [abs(v) + Fraction(1, 4) for v in xv]
        for sg in ([Fraction(1, 2), Fraction(2)] if xi < len(fixed) else [Fraction(1)]):
            sig = [fu.qj(sg)] * N
            ev, info = fu.observe_prox(B, sig, 's', xv, None, rnd, style=0, want_idem=B.indicator)
            if ev is None:
                res['noprox'] += 1
                return res
            ev['k'] = 'probe'
            ev['isind'] = 1 if B.indicator else 0
            ev['tag'] = 'driver'
            detail = {'stage': 'opaque', 'recipe': idx, 'name': name, 'option': option, 'sp': B.sp, 'f': B.f, 'sig': sig,
                      'sk': 's', 'x': [fu.qj(Fraction(v)) for v in xv],
                      'observed': {'p': info.get('p'), 'Fp': info.get('Fp'), 'better': info.get('better'),
                                   'err': info['err']}}
            res['counts'].append(([name, option, sig, detail['x']], True))
            for clause, extra in judge(B, ev, info, None, sp, B.f, 's'):
                sigd = {'leaf': name, 'ops': name, 'option': option, 'space': 'opaque', 'clause': clause, 'sigma': 'scalar'}
                sigd.update(extra)
                res['viol'].append((sigd, detail))
            if not info['err']:
                res['events'].append((ev, detail))
    return res


def driver_program(arg):
    """All events of one driver program (worker)."""
    spd, f, seed, nrand = arg[:4]
    fname = arg[4] if len(arg) > 4 else None
    kind, m, n, W = spd[:4]
    sp = fu.sp_desc(*spd)
    N = m * n
    rnd = _rnd(json.dumps(f, sort_keys=True) + kind + str(N), seed)
    res = {'events': [], 'viol': [], 'counts': [], 'classes': set(), 'noprox': 0}
    Bs = {}
    for layout in LAYOUTS:
        try:
            Bs[layout] = fu.Built(sp, f, 0, factory=FACTORIES[fname] if fname else None, layout=layout)
        except (NotImplementedError, fu.Unbuildable):
            res['noprox'] += 1
            return res
        except Exception as e:
            res['viol'].append((fu.signature(sp, f, 'construction-raises', {'error': type(e).__name__, 'layout': LAYNAME[layout]}),
                                {'stage': 'driver', 'sp': sp, 'f': f, 'error': str(e)[:200], 'factory': fname, 'layout': layout}))
            return res
    B = Bs[0]
    res['classes'] = fu.class_names(B.func)
    fixed, rand = driver_points(N, rnd, nrand)
    vecsig = [fu.qj(Fraction(1, 2) if i % 2 == 0 else Fraction(2)) for i in range(N)]
    for xi, xv in enumerate(fixed + rand):
        B = Bs[LAYOUTS[(xi + seed) % len(LAYOUTS)]]
        if xi < len(fixed):
            # (16: a step beyond every |x|: everything is thresholded / projected to the far side)
            sgs = [Fraction(1, 2), Fraction(2), Fraction(16)] if nrand > 4 else [[Fraction(1, 2), Fraction(2), Fraction(16)][xi % 3]]
        else:
            sgs = [rnd.choice([Fraction(1, 4), Fraction(1, 2), 1, 2, 4])]
        sigs = [([fu.qj(sg)] * N, 's') for sg in sgs]
        if fname in VEC_SIGMA_FACTORIES and xi < len(fixed) and xi % 2 == 0:
            sigs.append((vecsig, 'v'))
        for sig, sk in sigs:
            ev, info = fu.observe_prox(B, sig, sk, xv, None, rnd, style=xi % 3, want_idem=True)
            if ev is None:
                res['noprox'] += 1
                return res
            ev['tag'] = 'driver'
            detail = {'stage': 'driver', 'sp': sp, 'f': f, 'sig': sig, 'sk': sk, 'x': [fu.qj(Fraction(v)) for v in xv],
                      'factory': fname, 'layout': B.layout,
                      'observed': {'p': info.get('p'), 'Fp': info.get('Fp'), 'better': info.get('better'),
                                   'err': info['err']}}
            res['counts'].append(([f, kind, N, sig, detail['x'], fname], True))
            for clause, extra in judge(B, ev, info, None, sp, f, sk):
                extra = dict(extra)
                extra['sigma'] = 'scalar' if sk == 's' else 'vector'
                extra['layout'] = LAYNAME[B.layout]
                if fname:
                    extra['factory'] = fname
                    extra['option_g'] = 'yes' if _lam_g(B)[1] is not None else 'no'
                res['viol'].append((fu.signature(sp, f, clause, extra), detail))
            if not info['err']:
                res['events'].append((ev, detail))
    return res


def driver_args(seed, quick):
    dargs = []
    drnd = random.Random(seed * 7919 + 7)
    for spd in driver_spaces():
        kind, m, n, W = spd[:4]
        N = m * n
        for leaf in driver_leaves(kind, m, N, drnd):
            rules = driver_rules(N, drnd)
            picks = rules if not quick else [rules[0]] + drnd.sample(rules[1:], 2)
            for rule in picks:
                prog = rule(leaf)
                if prog['op'] == 'Bregman' and not all(o in FINITE_LEAVES or o in ('Bregman', 'SepSum')
                                                       for o in fu.ops_of(prog)):
                    continue           # the reference point of a Bregman distance must lie in dom f
                dargs.append((spd, prog, seed, 2 if quick else 8))
        for fname, prog in factory_programs(kind, m, N):
            if kind in ('rn', 'discr', 'power', 'wpower') and (not quick or n <= 3):
                dargs.append((spd, prog, seed, 2 if quick else 8, fname))
    return dargs


# ------------------------------------------------------------------ check
def run(ctx):
    quick = ctx.tier == 'quick'
    ctx.rule = ('functional programs of the bounded FuncMachine exported by TLC with the certified lattice argmin and replayed on '
                'real ODL functionals: ' +
                ('every catalogue leaf on each of 6 space kinds x 16 points x steps {1/2, 5/2, per-component}; one rule on top '
                 'of the leaf group assigned to each space (rotation table ROT: every (leaf, rule) pair on one space); two '
                 'rules on top of L1 on rn; weighted power spaces ProductSpace(X, 2, weighting=[1,4] / 4.0 / [1/4,1]) with every leaf '
                 '/ the vector-field functionals and one rule on top of them' if quick else
                 'every catalogue leaf on each of 6 space kinds x 64 points x steps {1/2, 1, 2, 5/2, per-component}; every '
                 '(leaf, rule) pair on every space x 16 points; two rules on two cores of 4 leaves on 3 spaces; 3- and '
                 '4-entry spaces (rn3, discr3, power2, pspace2, wpower2); weighted power spaces (array / constant / below-one '
                 'component weights) with every leaf and every (vector-field leaf, rule) pair') +
                '; plus a deterministic enumeration on larger spaces (incl. every closed-form factory with lam / g / per-point '
                'step options and functionals outside the catalogue) and seeded random inputs, all validated by TLC; '
                'distinct = hash of (program, space, sigma, x); non-trivial = the certified prox differs from x and from 0')
    ctx.assumptions += [
        'steps sigma in {1/2, 1, 2, 5/2} (scalar) and one per-component step where the documentation allows it',
        'inputs and parameters on the quarter lattice; observations snapped to multiples of 1/240 with tolerance 2^-36',
        'the alarm uses f as implemented and the norm of f.domain (e.g. the L-infinity functional is the un-weighted max, as documented)',
        'on a weighted power space the point-wise norms of GroupL1Norm / IndicatorGroupL1UnitBall / Huber carry the component '
        'weights (PointwiseNorm takes them from domain.weighting, as documented); FunctionalQuadraticPerturb is enumerated over '
        '{coefficient 0 / >0} x {linear term absent / explicit zero / nonzero} x {constant 0 / !=0} directly on every leaf',
        'slack 2^-12 on F: a lattice-step error of the proximal point costs at least 1/160 by strong convexity',
        'cases whose true proximal point is not on the search lattice are dropped at export (counted) but still probed']
    import time
    t0 = time.time()
    stage = {}
    jobs, exports = tlc_jobs(ctx, quick)
    results = fu.run_jobs_allow(ctx, jobs, allow={'bogus-law'})
    stage['tlc_model_export'] = round(time.time() - t0, 1)
    if results['bogus-law'].status != 'counterexample':
        raise MachineryError('the deliberately false law was not refuted: the law run is vacuous')
    # ---- layer C against layer A: design-level counter-examples (confirmed or not by the replay below)
    design = set()
    for name, res in results.items():
        if name.startswith('impl-'):
            design |= fu.impl_mismatches(res)
    ctx.extra['layerC_vs_layerA_mismatch_cells'] = sorted('%s %s %s' % t for t in design)[:200]

    # ---- replay
    recs = []
    for path in exports:
        recs += fu.read_export(path)
    if not recs:
        raise MachineryError('empty export')
    seen, progs = set(), []
    for r in recs:
        k = json.dumps(r['f'], sort_keys=True) + r['space']
        if k not in seen:
            seen.add(k)
            progs.append(r)
    ctx.extra['programs_exported'] = len(progs)
    ctx.extra['programs_by_outermost_rule'] = fu.by_rule(progs)       # every action of the machine is exercised
    ctx.extra['programs_with_prox_cases'] = sum(1 for r in progs if r['cases'])
    per_case = 1 if quick else 2
    args = [(r, ctx.seed, per_case if r['k'] <= 1 else 1, True) for r in progs if r['cases']]
    sink = fu.EventSink(ctx, 'c07')
    classes = set()
    tot = {'dropped': 0, 'noprox': 0, 'rounding': 0, 'replayed': 0, 'driver_events': 0}

    def absorb(o, driver):
        for sig, det in o['viol']:
            fu.report(ctx, sig, det)
        for key, nt in o['counts']:
            ctx.count(key, nt)
        for ev, det in o['events']:
            sink.add(ev, det)
        classes.update(o['classes'])
        tot['dropped'] += o.get('dropped', 0)
        tot['noprox'] += o['noprox']
        tot['rounding'] += o.get('rounding', 0)
        tot['driver_events' if driver else 'replayed'] += len(o['counts'])
        for d in o.get('drift', []):
            if d not in ctx.drift:
                ctx.drift_note(d)
        for s in o.get('samples', []):
            if len(ctx.samples) < 5 and (len(ctx.samples) == 0 or s['program'] != ctx.samples[-1]['program']):
                ctx.sample(s)
    with mp.Pool(min(14, os.cpu_count() or 4)) as pool:
        for o in pool.imap(replay_program, args, chunksize=4):
            absorb(o, False)
        # ---- driver beyond the TLC constants
        dargs = driver_args(ctx.seed, quick)
        for o in pool.imap(driver_program, dargs, chunksize=4):
            absorb(o, True)
        for o in pool.imap(opaque_program, [(i, ctx.seed, 2 if quick else 10) for i in range(len(opaque_recipes()))]):
            absorb(o, True)
    stage['replay_and_driver'] = round(time.time() - t0 - stage['tlc_model_export'], 1)
    ctx.traces += tot['replayed'] + tot['driver_events']
    ctx.extra['cases_dropped_prox_not_on_lattice'] = tot['dropped']
    ctx.extra['programs_without_proximal'] = tot['noprox']
    ctx.extra['f(p)_infinite_only_by_rounding'] = tot['rounding']
    ctx.extra['driver_programs'] = len(dargs)

    # ---- trace validation by TLC
    fails = sink.validate()
    stage['tlc_trace_validation'] = round(time.time() - t0 - stage['tlc_model_export'] - stage['replay_and_driver'], 1)
    ctx.extra['stage_wall_s'] = stage
    for eid, clauses in sorted(fails.items()):
        ev, det = sink.get(eid)
        f = det['f']
        for cl in clauses:
            if cl == 'value':
                msg = 'f_real differs from Val on a probe (C09 clause): %s' % fu.shape(f)
                if msg not in ctx.drift:
                    ctx.drift_note(msg)
                continue
            if cl == 'not-the-minimiser(subgradient)' and 'value' in clauses:
                continue          # the implementation's f is not the reference f here: no verdict from the certificate
            extra = {'sigma': 'scalar' if ev.get('sk', 's') == 's' else 'vector'} if ev['k'] in ('prox', 'probe') else {}
            d = dict(det)
            d['stage'] = 'trace:' + det['stage']
            d['event'] = ev
            d['tlc_clauses'] = clauses
            if det['stage'] == 'opaque':
                sigd = {'leaf': det['name'], 'ops': det['name'], 'option': det['option'], 'space': 'opaque', 'clause': cl}
                sigd.update(extra)
                fu.report(ctx, sigd, d)
                continue
            if det.get('factory'):
                extra['factory'] = det['factory']
            fu.report(ctx, fu.signature(det['sp'], f, cl, extra), d)
    ctx.extra['trace_events_validated_by_tlc'] = sink.n
    ctx.extra['trace_events_by_kind'] = sink.kinds
    ctx.extra['trace_events_rejected_by_tlc'] = len(fails)
    fu.design_drift(ctx, design, ctx.extra.get('_ops', []))
    fu.uncovered_report(ctx, classes)
    ctx.exhaustive = True      # the exported program x sigma x x set is the complete product of the bounded machine


def replay(body):
    d = body['detail']
    sp, f = d['sp'], d['f']
    print('program  :', fu.shape(f), 'on', sp['kind'], 'W =', d['sp']['W'])
    if 'error' in d and 'case' not in d and 'sig' not in d:
        try:
            fu.Built(sp, f, d.get('variant', 0), layout=d.get('layout', 0))
            print('NOT-REPRODUCED')
            return 0
        except Exception as e:
            print('construction raises', type(e).__name__, e)
            print('REPRODUCED')
            return 1
    B = fu.Built(sp, f, d.get('variant', 0), layout=d.get('layout', 0),
                 factory=FACTORIES[d['factory']] if d.get('factory') else None)
    if 'case' in d:
        case = d['case']
        sig, sk, xv = case['sig'], case['sk'], fu.frv(case['x'])
        zstar = fu.frv(case['z']) if case['nz'] else None
    elif d['stage'].endswith('pair'):
        print('firm non-expansiveness pair; re-running both calls')
        sig, sk = d['sig'], 's'
        P = B.func.proximal(float(fu.fr(sig[0])))
        x1, x2 = B.el(fu.frv(d['x1'])), B.el(fu.frv(d['x2']))
        p1, p2 = P(x1), P(x2)
        lhs, rhs = float((p1 - p2).norm()) ** 2, float((p1 - p2).inner(x1 - x2))
        print('||p1-p2||^2 =', lhs, ' <p1-p2, x1-x2> =', rhs)
        bad = lhs > rhs + 1e-4
        print('REPRODUCED' if bad else 'NOT-REPRODUCED')
        return 1 if bad else 0
    else:
        sig, sk, xv, zstar = d['sig'], d['sk'], fu.frv(d['x']), None
    rnd = random.Random(0)
    ev, info = fu.observe_prox(B, sig, sk, xv, zstar, rnd, style=d.get('style', 0), want_idem=True)
    print('sigma    :', [str(fu.fr(t)) for t in sig], ' x =', [str(v) for v in xv])
    print('z* (TLC) :', None if zstar is None else [str(v) for v in zstar])
    if ev is None:
        print('no proximal offered now')
        print('NOT-REPRODUCED')
        return 0
    print('observed : p =', info.get('p'), ' F(p) =', info.get('Fp'), ' f(p) finite =', ev['finite'], ' err =', info['err'])
    print('better   :', info.get('better'))
    bad = bool(info['err']) or not ev['finite'] or info.get('better') is not None
    if not bad and d['stage'].startswith('trace'):
        class C(object):
            pass
        import tempfile, shutil
        c = C()
        c.work = tempfile.mkdtemp(dir=os.path.join(os.path.dirname(os.path.dirname(os.path.dirname(__file__))), '.work'))
        c.add_tlc = lambda name, res: None
        ev['id'] = 0
        fails = fu.validate_events(c, [ev], 'replay')
        shutil.rmtree(c.work, ignore_errors=True)
        print('TLC clauses now:', fails.get(0), ' then:', d.get('tlc_clauses'))
        bad = bool(fails.get(0))
    print('REPRODUCED' if bad else 'NOT-REPRODUCED')
    return 1 if bad else 0

"""C18 - Fourier and wavelet transforms invert exactly and agree across back-ends.

Pipeline (DESIGN 4/C18, HARNESS_API):
  1. TLC (model): DFTSem laws (round trip as the exact root-of-unity sum rule, Hermitian symmetry, grid
     laws), RecipGridImpl (layer C) refines DFTSem for every (n, shift, halved, sign, x0), DFTMachine
     action properties, WaveLayout laws.
  2. Spec -> code: TLC exports (a) every transform configuration with its exponent tables, (b) every call
     history of length <= 3 with the heap after each step, (c) every wavelet layout; Python replays them on
     real ODL objects (impl x dtype x in-place/out-of-place ...) and compares with the exported expectation.
  3. Code -> spec: every observation (replayed cases, cases beyond the TLC constants, relational clauses)
     is an NDJSON event validated by TLC against Trace_FT (total trace spec); rejected events become
     violations with a family-level signature.
"""
import hashlib
import itertools
import json
import math
import os
import random
import re
from collections import defaultdict
from concurrent.futures import ThreadPoolExecutor
from fractions import Fraction

import numpy as np

from ..tlc import run_tlc, parse_fails
from ..common import dumps, MachineryError
from .. import c18_util as U

HCFIX = '1'          # layer-C flag: '0' mirrors the current tree (raw halfcomplex flag decides the range shape)
STRIDES = [0.5, 1.0, 0.25, 2.0, 0.75, 1.5, 0.3, 0.1]     # the last two are not binary fractions (ulp-near nodes)
OTHER_MODES = ['constant', 'periodic', 'symmetric', 'order0', 'order1', 'reflect', 'antireflect', 'antisymmetric']
ALL_MODES = OTHER_MODES + ['pywt_periodic']
QUICK_WAVELETS = ['haar', 'db2', 'db3', 'db7', 'sym4', 'sym5', 'coif1', 'coif3', 'bior1.3', 'bior2.2', 'bior3.5',
                  'bior6.8', 'rbio1.5', 'rbio2.4', 'rbio3.3']
QUICK_ORTHO = ['haar', 'db2', 'db5', 'sym4', 'coif2']


def h16(o):
    return hashlib.sha1(dumps(o, sort_keys=True).encode()).hexdigest()[:16]


# ------------------------------------------------------------------ family bookkeeping
class Families(object):
    """Collects failed observations and turns them into family-level signatures: a secondary attribute
    (dims, parity, shift, mode, how, axes, ...) is part of the signature only if it discriminates, i.e. if
    not every value of it that was executed in the same context (class, impl, field, halfcomplex, clause)
    failed with that outcome."""

    def __init__(self):
        self.executed = defaultdict(lambda: defaultdict(set))
        self.fails = []

    @staticmethod
    def wkey(where):
        return tuple(sorted(where.items()))

    def ran(self, where, extras):
        d = self.executed[self.wkey(where)]
        for k, v in extras.items():
            d[k].add(v)

    def fail(self, where, outcome, extras, detail):
        self.fails.append((where, outcome, extras, detail))

    def signatures(self):
        groups = defaultdict(list)
        for f in self.fails:
            groups[(self.wkey(f[0]), f[1])].append(f)
        out = []
        for (wk, outcome), fl in sorted(groups.items(), key=lambda kv: str(kv[0])):
            ex = self.executed[wk]
            keep = []
            for key in sorted(ex):
                failed_vals = {f[2].get(key) for f in fl}
                if failed_vals != ex[key] and key not in ('after',):
                    keep.append(key)
            for where, _, extras, detail in fl:
                sig = dict(where)
                sig['outcome'] = outcome
                for key in keep:
                    sig[key] = extras.get(key, '-')
                out.append((sig, detail))
        return out


# ------------------------------------------------------------------ concretisations
mirror_case = U.mirror_case


def variants(hc, quick, idx):
    """(field, hcflag) variants of an abstract case whose documented (effective) half-complex flag is hc."""
    if hc:
        return [('R', True)]
    v = [('R', False), ('C', False)]
    if not quick or idx % 3 == 0:
        v.append(('C', True))          # documented: the flag has no effect on complex spaces
    return v


def dft_tasks(cases, quick, seed, impls):
    """quick: precisions alternate over (case, variant) and the inverse is taken as (.inverse, out-of-place) and
    (constructor, in-place); thorough: both precisions and all four inverse combinations."""
    tasks = []
    for ci, case in enumerate(cases):
        for vi, (field, hcflag) in enumerate(variants(case['hc'], quick, ci)):
            first = True
            precs = (64, 32) if not quick else ((64,) if (ci + vi + seed) % 2 == 0 else (32,))
            for prec in precs:
                for impl in impls:
                    tasks.append({'type': 'dft', 'case': case,
                                  'conc': {'field': field, 'hcflag': hcflag, 'prec': prec, 'impl': impl,
                                           'numpy_ref': first,
                                           'fwd_modes': ['oop', 'ip'] if (not quick or (ci + vi) % 2 == 0) else ['ip'],
                                           'inv': [['prop', 'oop'], ['ctor', 'ip']] if quick else
                                           [['prop', 'oop'], ['prop', 'ip'], ['ctor', 'oop'], ['ctor', 'ip']]}})
                    first = False
    return tasks


def ft_tasks(cases, quick, seed, impls):
    tasks = []
    for ci, case in enumerate(cases):
        nd = len(case['shape'])
        strides = [STRIDES[(seed + ci + 2 * a) % len(STRIDES)] for a in range(nd)]
        for vi, (field, hcflag) in enumerate(variants(case['hc'], quick, ci)):
            # both precisions for 1-d cases in the thorough tier; otherwise they alternate over (case, variant)
            precs = (64, 32) if (not quick and nd == 1) else ((64,) if (ci + vi + seed) % 2 == 0 else (32,))
            for prec in precs:
                for impl in impls:
                    tasks.append({'type': 'ft', 'case': case,
                                  'conc': {'field': field, 'hcflag': hcflag, 'prec': prec, 'impl': impl,
                                           'strides': strides,
                                           # quick: in-place and out-of-place alternate between the forward and
                                           # the inverse observations of consecutive cases
                                           'fwd_modes': ['oop', 'ip'] if (not quick or ci % 2 == 0) else ['oop'],
                                           'inv_modes': ['oop', 'ip'] if (not quick or ci % 2 == 1) else ['ip']}})
    return tasks


def driver_cases(quick, seed):
    """Configurations beyond the constants of the TLC export runs (longer axes, 3-d, other first nodes)."""
    rnd = random.Random(seed * 31 + 5)
    dft, ft = [], []
    shapes = [(7,), (8,), (9,), (2, 7), (8, 3)]
    if not quick:
        shapes += [(7, 7), (10,), (12,), (2, 3, 2), (3, 2, 4), (2, 2, 5), (3, 4, 3)]
    else:
        shapes += [(2, 3, 2)]
    for shape in shapes:
        nd = len(shape)
        axsets = [ax for r in range(1, nd + 1) for ax in itertools.permutations(range(nd), r)]
        if nd == 3:
            axsets = [(0, 1, 2), (2, 0), (1,), (0, 2), (2, 1, 0), (1, 2)]
        if quick:
            axsets = axsets[:4] if nd < 3 else axsets[:3]
        for axes in axsets:
            for hc in (False, True):
                for sign in ((-1,) if hc else (-1, 1)):
                    dft.append(mirror_case('dft', shape, axes, sign, hc))
                    combos = list(itertools.product([True, False], repeat=len(axes)))
                    rnd.shuffle(combos)
                    for shifts in combos[:2 if quick else 4]:
                        if hc and not shifts[-1]:
                            continue
                        pool = [[1 - shape[a], 2] for a in axes], [[5, 2]] * len(axes), [[-3, 1]] * len(axes), \
                            [[2, 3]] * len(axes), [[0, 1]] * len(axes)        # last: first node exactly at the origin
                        x0 = pool[rnd.randrange(len(pool))]
                        x0 = [[Fraction(p, q).numerator, Fraction(p, q).denominator] for p, q in x0]
                        ft.append(mirror_case('ft', shape, axes, sign, hc, shifts, x0))
    return dft, ft


def hist_concs(quick, impls):
    """quick: shapes (5,), (3,4), float64 / complex128, a fresh T.inverse per call.  thorough: also a 3-d shape, and
    for (3,4) additionally single precision and an inverse object that is created once and kept (its plan persists)."""
    concs = []
    for kind in ('dft', 'ft'):
        for impl in impls:
            for field, hcflag in (('C', False), ('R', True), ('R', False)):
                combos = [((5,), 64, 'fresh'), ((3, 4), 64, 'fresh')]
                if not quick:
                    combos += [((3, 4), 64, 'cached'), ((3, 4), 32, 'fresh'), ((2, 3, 4), 64, 'fresh')]
                for shape, prec, inv_mode in combos:
                    concs.append({'kind': kind, 'impl': impl, 'field': field, 'hcflag': hcflag,
                                  'shape': list(shape), 'prec': prec, 'inv_mode': inv_mode})
                    if not quick and (shape, prec, inv_mode) != ((3, 4), 64, 'fresh'):
                        concs[-1]['subset'] = 'half'     # thorough: every length-4 history on (3,4), half elsewhere
                # T is itself a derived operator (a third of the behaviours), and, for the continuous transform,
                # caller-owned temporaries handed to the constructor (behaviours with a scribble action)
                if field == 'R' and hcflag or (not quick and field == 'C'):
                    for chain in (('ii',) if quick else ('ii', 'aa')):
                        concs.append({'kind': kind, 'impl': impl, 'field': field, 'hcflag': hcflag, 'shape': [3, 4],
                                      'prec': 64, 'inv_mode': 'fresh', 'chain': chain, 'subset': 'third'})
                if kind == 'ft' and (field == 'C' or hcflag):
                    concs.append({'kind': kind, 'impl': impl, 'field': field, 'hcflag': hcflag, 'shape': [3, 4],
                                  'prec': 64, 'inv_mode': 'fresh', 'tmp': 'given', 'subset': 'scribble'})
                # the sign option: wherever the constructors accept '+' (no effective half-complex storage) every
                # history is also run on an operator whose sign differs from the default of its class - T has
                # sign '+', the kept T.inverse (planinv / tempsinv / inv) has sign '-' - plain and as a derived T
                if not (field == 'R' and hcflag):
                    concs.append({'kind': kind, 'impl': impl, 'field': field, 'hcflag': hcflag, 'shape': [3, 4],
                                  'prec': 64, 'inv_mode': 'fresh', 'sign': '+'})
                    if not quick:
                        concs.append({'kind': kind, 'impl': impl, 'field': field, 'hcflag': hcflag, 'shape': [5],
                                      'prec': 32, 'inv_mode': 'cached', 'sign': '+'})
                    concs.append({'kind': kind, 'impl': impl, 'field': field, 'hcflag': hcflag, 'shape': [4, 3],
                                  'prec': 64, 'inv_mode': 'fresh', 'sign': '+', 'chain': 'ii', 'subset': 'third'})
    return concs


def wavelets_with_len(flen, names):
    return [w for w in names if U.pywt.Wavelet(w).dec_len == flen]


def batch_worker(batch):
    """Runs in a worker process: executes the tasks and returns the observations with their events
    de-duplicated (many concretisations of one case produce the identical projected observation)."""
    bodies = {}
    out = []
    for t in batch:
        recs = []
        for o in U.run_task(t):
            if 'event' in o:
                ev = o.pop('event')
                key = h16(ev)
                if key not in bodies:
                    bodies[key] = ev
                o['evkey'] = key
            recs.append(o)
        out.append((t['tid'], recs))
    return out, bodies


# ------------------------------------------------------------------ the check
def run(ctx):
    import time
    quick = ctx.tier == 'quick'
    work = ctx.work
    seed = ctx.seed
    t0 = time.time()
    timing = ctx.extra.setdefault('timing_s', {})
    ctx.rule = ('abstract case = transform configuration (kind, shape, axes, sign, effective half-complex flag, '
                'per-axis shift, first node / stride) exported by TLC or enumerated beyond its constants, call '
                'history of length <= 3(4) (incl. caller-side mutation of constructor arguments, plan / temporaries handed '
                'to T or to a kept T.inverse, on constructed and on derived operators, default and non-default sign), '
                'derivation chain of .inverse / .adjoint to depth 2(3) over option records (the derived object itself then receives init_fftw_plan / create_temporaries in both orders between calls), wavelet layout (shape, axes, filter length, mode class, levels), wavelet '
                'operator (wavelet, pad mode, levels, shape); one evaluation = one projected observation '
                '(matrix, round trip, history step, layout, relation) of a concretisation (field, flag, precision, '
                'back-end, in-place / out-of-place, strides) compared with the specification; distinct = hash of '
                '(abstract case, field, flag); all are non-trivial except plan / temporaries steps and level-0 layouts')
    ctx.assumptions += [
        'matrices are taken by unit vectors (complex spaces: e_j and i e_j must agree); entries are projected to '
        '(magnitude class, exponent of exp(2 pi i / M)); magnitudes below 1e-9 (1e-4 float32) of the largest entry are 0',
        'effective half-complex flag = flag and real space (documented: no effect on complex spaces); sign + with '
        'half-complex and an un-shifted halved axis are rejected by the constructors and outside the claim',
        'continuous FT: domains with rational first-node / stride so that all phases are roots of unity; the magnitude '
        'stride * sinc / sqrt(2 pi), the Gaussian convergence, wavelet identities are relational-only (numbers from the '
        'implementation, relation checked by TLC): each refinement n -> 2n -> 4n must at least halve the sup error',
        'inverse of half-complex and of real-to-complex transforms is tested on genuine spectra only (NumPy FFT of '
        'unit vectors and ODL round trips): c2r back-ends are unspecified on non-Hermitian input',
        'FFTW wisdom is forgotten before every operator is built (results must not depend on case order)',
        'wavelet adjoint identity is claimed for orthogonal wavelets with pad_mode pywt_periodic on sizes divisible by '
        '2^nlevels (weaker reading of "periodic extension"); wavelets whose filter bank is not perfect-reconstruction '
        'under plain PyWavelets (dmey) are outside the round-trip claim',
        'transformed axes of length 1: FourierTransform cannot be constructed (reciprocal space) and the default range '
        'of DiscreteFourierTransform cannot be built; the harness passes an explicit range / skips, outside the claim']
    impls = ['numpy']
    if U.HAVE_FFTW:
        impls.append('pyfftw')
    else:
        ctx.skip('pyfftw not installed: FFTW back-end clauses skipped')
    if not U.HAVE_PYWT:
        ctx.skip('PyWavelets not installed: wavelet clauses skipped')

    # ---- 1. TLC model runs and exports (threads) -----------------------------------------------------
    f_dft = os.path.join(work, 'exp_dft.ndjson')
    f_ft = os.path.join(work, 'exp_ft.ndjson')
    f_hist = os.path.join(work, 'exp_hist.ndjson')
    f_wl = os.path.join(work, 'exp_wl.ndjson')
    f_der = os.path.join(work, 'exp_deriv.ndjson')
    f_heff = os.path.join(work, 'exp_hist_eff.ndjson')
    n2_ft = '4' if quick else '6'
    x0 = 'two' if quick else 'all'
    env_dft = {'C18_KIND': 'dft', 'C18_MAXN1': '6', 'C18_MAXN2': '6', 'C18_X0': 'two'}
    env_ft = {'C18_KIND': 'ft', 'C18_MAXN1': '6', 'C18_MAXN2': n2_ft, 'C18_X0': x0}
    env_wl = {'C18_WMAXN1': '12', 'C18_WMAXN2': '4' if quick else '7'}
    jobs = [
        ('export-dft', 'MC_DFTSem.tla', 'MC_DFTSem_export.cfg', dict(env_dft, OUT_FILE=f_dft), 1),
        ('export-ft', 'MC_DFTSem.tla', 'MC_DFTSem_export.cfg', dict(env_ft, OUT_FILE=f_ft), 1),
        ('export-hist+props', 'MC_DFTMachine.tla', 'MC_DFTMachine.cfg',
         {'C18_HLEN': '3' if quick else '4', 'C18_HSLIM': '0', 'C18_HEFF': '2', 'OUT_FILE': f_hist}, 1),
        ('export-hist-efforts', 'MC_DFTMachine.tla', 'MC_DFTMachine.cfg',
         {'C18_HLEN': '3', 'C18_HSLIM': '1', 'C18_HEFF': '2' if quick else '3', 'OUT_FILE': f_heff}, 1),
        ('export-wavelayout', 'MC_WaveLayout.tla', 'MC_WaveLayout_export.cfg', dict(env_wl, OUT_FILE=f_wl), 1),
        ('export-deriv+laws', 'MC_DFTDerive.tla', 'MC_DFTDerive.cfg',
         {'C18_DLEN': '2' if quick else '3', 'OUT_FILE': f_der}, 1),
        ('laws-dft', 'MC_DFTSem.tla', 'MC_DFTSem_laws.cfg', dict(env_dft, OUT_FILE=os.devnull), 3),
        ('laws-ft', 'MC_DFTSem.tla', 'MC_DFTSem_laws.cfg', dict(env_ft, OUT_FILE=os.devnull), 3 if quick else 6),
        ('recipgrid-impl', 'MC_RecipGridImpl.tla', 'MC_RecipGridImpl.cfg', {'C18_HCFIX': HCFIX}, 2),
        ('laws-wavelayout', 'MC_WaveLayout.tla', 'MC_WaveLayout_laws.cfg', dict(env_wl, OUT_FILE=os.devnull), 2),
    ]

    def go(j):
        return j[0], run_tlc(j[1], j[2], work, env=j[3], workers=j[4], timeout=2400, heap='3g')
    tex = ThreadPoolExecutor(max_workers=8)
    futs = {j[0]: tex.submit(go, j) for j in jobs}

    def need(name):
        nm, res = futs[name].result()
        ctx.add_tlc(nm, res)
        return res

    def lines(path):
        with open(path) as f:
            out = [json.loads(l) for l in f if l.strip()]
        if not out:
            raise MachineryError('empty export ' + path)
        return out

    # ---- 2. tasks ------------------------------------------------------------------------------------
    tasks = []
    need('export-dft')
    dft_cases = lines(f_dft)
    tasks += dft_tasks(dft_cases, quick, seed, impls)
    need('export-hist+props')
    behaviours = lines(f_hist)
    concs = hist_concs(quick, impls)
    for conc in concs:
        app = [b for b in behaviours if U.hist_applicable(conc, b['steps'])]
        if conc.get('subset') == 'third':
            app = [b for i, b in enumerate(app) if (i + seed) % 3 == 0]
        elif conc.get('subset') == 'half':
            app = [b for i, b in enumerate(app) if (i + seed) % 2 == 0]
        elif conc.get('subset') == 'scribble':
            app = [b for b in app if any(st['act']['op'] == 'scribble' for st in b['steps'])]
        step = 40
        for i in range(0, len(app), step):
            tasks.append({'type': 'hist', 'conc': conc, 'behaviours': app[i:i + step], 'seed': seed})
    # call keywords: planning effort x plan store (fresh / after a call / after init_fftw_plan, also on a kept
    # inverse) x in-place / out-of-place, FFTW back-end only
    if 'pyfftw' in impls:
        need('export-hist-efforts')
        eff_beh = lines(f_heff)
        econcs = []
        for kind in ('dft', 'ft'):
            for field, hcflag in (('C', False), ('R', True), ('R', False)):
                for shape, prec in ((((4, 4), 64),) if quick else (((4, 4), 64), ((8,), 64), ((3, 4), 32))):
                    econcs.append({'kind': kind, 'impl': 'pyfftw', 'field': field, 'hcflag': hcflag,
                                   'shape': list(shape), 'prec': prec, 'inv_mode': 'cached'})
        for conc in econcs:
            for i in range(0, len(eff_beh), 40):
                tasks.append({'type': 'hist', 'conc': conc, 'behaviours': eff_beh[i:i + 40], 'seed': seed})
        for shape, axes in (((4,), (0,)), ((3, 4), (0, 1)), ((8,), (0,)), ((4, 4), (1,))):
            for sign in (-1, 1):
                for eff in (('estimate', 'measure') if quick else ('estimate', 'measure', 'patient')):
                    for prec in (64, 32):
                        for fresh_each in (False, True):
                            tasks.append({'type': 'pyfftw_alias', 'shape': list(shape), 'axes': list(axes), 'sign': sign,
                                          'effort': eff, 'prec': prec, 'fresh_each': fresh_each})
    # random longer histories (code -> spec only)
    rnd = random.Random(seed * 101 + 3)
    for conc in concs:
        behs = [random_history(rnd, conc, 6) for _ in range(6 if quick else 25)]
        tasks.append({'type': 'hist', 'conc': conc, 'behaviours': behs, 'seed': seed + 1})
    # derivation chains (.inverse / .adjoint to depth 2 (3)) exported by DFTDerive
    need('export-deriv+laws')
    seen_chain = set()
    for c in lines(f_der):
        ck = h16([c['base'], c['path']])
        if ck in seen_chain or c['base']['impl'] not in impls + ['pywt'] or \
                (c['base']['kind'] == 'wave' and not U.HAVE_PYWT):
            continue
        seen_chain.add(ck)
        tasks.append({'type': 'deriv', 'base': c['base'], 'path': c['path'], 'desc': c['desc']})
    d_dft, d_ft = driver_cases(quick, seed)
    tasks += dft_tasks(d_dft, quick, seed, impls)
    tasks += ft_tasks(d_ft, quick, seed, impls)
    # Gaussian convergence
    for nd in ((1,) if quick else (1, 2)):
        for field, hcflag in (('R', True), ('R', False), ('C', False)):
            for shift in (True, False):
                if hcflag and not shift:
                    continue
                for sign in ((-1,) if hcflag else (-1, 1)):
                    for impl in impls:
                        for prec in ((64,) if quick else (64, 32)):
                            for n0, c in (((16, 0.0), (15, 1.0)) if nd == 1 else ((8, 0.0),)):
                                tasks.append({'type': 'gauss', 'nd': nd, 'field': field, 'hcflag': hcflag, 'prec': prec,
                                              'impl': impl, 'shift': shift, 'sign': sign, 'n0': n0, 'L': 8.0, 'c': c})
    # wavelets
    outside = {}
    if U.HAVE_PYWT:
        allw = U.pywt.wavelist(kind='discrete')
        fberr = {w: U.filter_bank_error(w) for w in allw}
        notpr = sorted(w for w in allw if fberr[w] > 1e-8)
        outside['wavelets_not_perfect_reconstruction_in_pywt'] = {w: '%.1e' % fberr[w] for w in notpr}
        names = [w for w in (QUICK_WAVELETS if quick else allw) if w not in notpr]
        shapes = [((8,), None), ((9,), None), ((5, 6), None), ((6, 5), (0,))]
        if not quick:
            shapes += [((12,), None), ((7, 4), (1,)), ((3, 4, 5), None)]
        for w in names:
            for mode in ALL_MODES:
                for shape, axes in shapes:
                    if len(shape) == 3 and mode not in ('constant', 'pywt_periodic', 'symmetric'):
                        continue
                    for L in (1, 2, None):
                        tasks.append({'type': 'wave_rt', 'shape': list(shape), 'axes': axes, 'wavelet': w,
                                      'mode': mode, 'L': L})
        ortho = [w for w in (QUICK_ORTHO if quick else allw) if U.pywt.Wavelet(w).orthogonal]
        for w in ortho:
            for shape, axes, Ls in (((8,), None, (1, 2, 3)), ((16,), None, (1, 2, 3)), ((4, 8), None, (1, 2)),
                                    ((6, 8), (1,), (1, 2, 3)), ((12,), None, (1, 2))):
                for L in Ls:
                    tasks.append({'type': 'wave_adj', 'shape': list(shape), 'axes': axes, 'wavelet': w,
                                  'mode': 'pywt_periodic', 'L': L, 'cell': 0.5})
    need('export-ft')
    ft_cases = lines(f_ft)
    tasks += ft_tasks(ft_cases, quick, seed, impls)
    if U.HAVE_PYWT:
        need('export-wavelayout')
        wl_cases = sorted((c for grp in lines(f_wl) for c in grp),
                          key=lambda c: (c['shape'], c['axes'], c['flen'], c['mode'], c['L']))
        pool_names = [w for w in allw if w not in notpr]
        for ci, case in enumerate(wl_cases):
            ws = wavelets_with_len(case['flen'], pool_names)
            if not ws:
                raise MachineryError('no wavelet with filter length %d' % case['flen'])
            reps = 1 if quick else 2
            for rep in range(reps):
                w = ws[(ci + seed + 5 * rep) % len(ws)]
                mode = 'pywt_periodic' if case['mode'] == 'periodization' else \
                    OTHER_MODES[(ci + seed + 3 * rep) % len(OTHER_MODES)]
                tasks.append({'type': 'wave_lay', 'case': case, 'wavelet': w, 'mode': mode, 'seed': seed})
    for i, t in enumerate(tasks):
        t['tid'] = i
    timing['exports_and_tasks'] = round(time.time() - t0, 1)

    # ---- 3. run on real ODL objects (processes) ------------------------------------------------------
    import multiprocessing as mp
    groups = defaultdict(list)        # all concretisations of one case stay together (one pickle, good de-duplication)
    for t in tasks:
        groups[id(t['case']) if t['type'] in ('dft', 'ft') else -t['tid'] - 1].append(t)
    glist = sorted(groups.values(), key=lambda g: -sum(task_cost(t) for t in g))
    nproc = 12
    batches = [[] for _ in range(nproc * 10)]
    for k, g in enumerate(glist):
        batches[k % len(batches)] += g
    batches = [b for b in batches if b]
    with mp.get_context('fork').Pool(nproc) as pool:
        results = pool.map(batch_worker, batches, chunksize=1)
    timing['replay_pool'] = round(time.time() - t0, 1)
    by_tid, bodies = {}, {}
    for recs, bd in results:
        bodies.update(bd)
        for tid, obs in recs:
            by_tid[tid] = obs

    # ---- 4. events, replay-stage comparison --------------------------------------------------------
    fam = Families()
    events = {}            # key -> [event, [(tid, where, extras, conc), ...]]
    unsupported = defaultdict(int)
    replay_mismatch = {}   # event key -> True (exported expectation differs from the observation)
    replay_match = set()   # event keys that equal an exported expectation
    prov_cnt = defaultdict(int)
    sample_cand = []
    nrep = 0
    for t in tasks:
        for o in by_tid[t['tid']]:
            if 'unsupported' in o:
                unsupported[o['unsupported']] += 1
                continue
            key = o['evkey']
            ev = bodies[key]
            fam.ran(o['where'], o['extras'])
            ctx.evaluations += 1
            if o['nontrivial']:
                ctx.nontrivial.add(h16(o['abstract']))
            if key not in events:
                events[key] = [ev, []]
            pk = (key, Families.wkey(o['where']))
            prov_cnt[pk] += 1          # the concretisation is kept for the first few observations of a family only
            events[key][1].append((t['tid'], o['where'], o['extras'], o['conc'] if prov_cnt[pk] <= 3 else None))
            if o.get('expkey'):
                o['expected'] = t['case'][o['expkey']]
            if o.get('expected') is not None:
                nrep += 1
                got = ev.get('obs') if ev['k'] in ('tab', 'deriv') else \
                    (ev.get('post') if ev['k'] == 'hist' else ev.get('blocks'))
                if ev.get('err') or got != o['expected']:
                    replay_mismatch[key] = True
                else:
                    replay_match.add(key)
            if len(sample_cand) < 400 and ev['k'] in ('tab', 'conv', 'lay', 'adj', 'mag') and not ev.get('err') and \
                    t['tid'] % 97 == 0 and key not in {c[0] for c in sample_cand}:
                sample_cand.append((key, {k: v for k, v in t.items() if k not in ('case', 'behaviours')}))
    ctx.traces += nrep
    keys = sorted(events)
    for i, k in enumerate(keys):
        events[k][0]['id'] = i

    # ---- 5. TLC validates every event ----------------------------------------------------------------
    def weight(ev):
        return 1 + len(json.dumps(ev)) // 400
    chunks, cur, wsum = [], [], 0
    for k in keys:
        cur.append(k)
        wsum += weight(events[k][0])
        if len(cur) >= 6000 or wsum > 9000:
            chunks.append(cur)
            cur, wsum = [], 0
    if cur:
        chunks.append(cur)
    files = []
    for ci, ch in enumerate(chunks):
        p = os.path.join(work, 'trace_%d.ndjson' % ci)
        with open(p, 'w') as f:
            for k in ch:
                f.write(json.dumps(events[k][0]) + '\n')
        files.append(p)

    timing['events_written'] = round(time.time() - t0, 1)

    def val(p):
        return p, run_tlc('Trace_FT.tla', 'Trace_FT.cfg', work, env={'TRACE_FILE': p}, workers=1, timeout=2400,
                          heap='2g')
    with ThreadPoolExecutor(max_workers=10) as ex:
        vres = list(ex.map(val, files))
    rejected = {}
    for p, res in vres:
        ctx.add_tlc('trace-' + os.path.basename(p), res)
        for line, eid, clauses in parse_fails(res.output):
            rejected[keys[eid]] = clauses
    ctx.traces += len(keys)
    timing['trace_validated'] = round(time.time() - t0, 1)
    # remaining model runs
    for name in ('laws-dft', 'laws-ft', 'recipgrid-impl', 'laws-wavelayout'):
        need(name)
    tex.shutdown()

    # consistency of the two directions: an observation that differs from the exported expectation must be
    # rejected by the trace specification and vice versa (otherwise the machinery disagrees with itself)
    for k in keys:
        ev = events[k][0]
        has_exp = k in replay_mismatch
        if has_exp and k not in rejected:
            raise MachineryError('replay mismatch accepted by Trace_FT: ' + dumps(ev)[:300])
    harness_clauses = ('numpy-table', 'period', 'freqs', 'not-enabled', 'unknown-kind')
    for k, cl in rejected.items():
        names = set(re.findall(r'<<\s*"([\w-]+)"', cl))
        if names & set(harness_clauses):
            raise MachineryError('harness-side clause rejected: %s %s' % (cl, dumps(events[k][0])[:300]))
        if k in replay_match and k not in replay_mismatch and names <= {'table', 'hist', 'layout-blocks', 'derived'}:
            raise MachineryError('observation equal to the exported expectation rejected by Trace_FT: %s %s'
                                 % (cl, dumps(events[k][0])[:300]))

    kinds_seen = set()
    for key, tinfo in sample_cand:          # literal cases that the specification accepted, one per event kind
        ev = events[key][0]
        kk = (ev['k'], ev.get('t'), tinfo.get('type'))
        if key in rejected or kk in kinds_seen or len(json.dumps(ev)) > 1500:
            continue
        kinds_seen.add(kk)
        ctx.sample({'task': tinfo, 'event': ev})

    # layer C mirrors the current tree: note a drift if the modelled range-shape rule is not what the code does
    try:
        import odl
        probe = odl.trafos.DiscreteFourierTransform(odl.uniform_discr(0, 1, 4, dtype='complex128'),
                                                     halfcomplex=True, impl='numpy')
        code_fixed = probe.range.shape == (4,)
        if code_fixed != (HCFIX == '1'):
            ctx.drift_note('RecipGridImpl!RanShapeImpl models Fixed=%s but the code %s the raw halfcomplex flag for '
                           'the range shape: set HCFIX in harness/checks/c18.py accordingly'
                           % (HCFIX == '1', 'no longer uses' if code_fixed else 'uses'))
    except Exception as e:
        ctx.drift_note('range-shape probe failed: %s' % type(e).__name__)

    outside.update(outside_claim_observations())

    # ---- 6. verdicts ---------------------------------------------------------------------------------
    task_by_tid = {t['tid']: t for t in tasks}
    for k, cl in sorted(rejected.items()):
        ev, provs = events[k]
        for tid, where, extras, conc in provs:
            outcome = outcome_of(ev, cl, where)
            t = task_by_tid[tid]
            detail = {'task': slim_task(t), 'event': slim_event(ev), 'tlc_clauses': cl, 'where': where,
                      'extras': extras, 'conc': conc}
            fam.fail(where, outcome, extras, detail)
    per_sig = defaultdict(int)
    unlisted = {}
    sigs = fam.signatures()
    sigs.sort(key=lambda sd: 0 if sd[1].get('conc') is not None else 1)     # replayable details first
    for sig, detail in sigs:
        sk = dumps(sig, sort_keys=True)
        per_sig[sk] += 1
        # listed (known) families are counted case by case; unlisted ones get at most 3 replay files each
        if sk not in unlisted or not unlisted[sk] or per_sig[sk] <= 3:
            unlisted[sk] = ctx.violation(sig, detail)
    ctx.extra['events_validated_by_tlc'] = len(keys)
    ctx.extra['events_rejected_by_tlc'] = len(rejected)
    ctx.extra['replayed_exported_cases'] = nrep
    ctx.extra['tasks'] = len(tasks)
    ctx.extra['failed_observations_by_family'] = {k: v for k, v in sorted(per_sig.items())}
    ctx.extra['unsupported_configurations'] = dict(unsupported)
    ctx.extra['observations_outside_claim'] = outside
    ctx.extra['bounds'] = {'dft_export': env_dft, 'ft_export': env_ft, 'wavelayout': env_wl,
                           'history_length': 3 if quick else 4, 'back_ends': impls}
    ctx.exhaustive = True     # every exported configuration / history / layout is replayed


def outside_claim_observations():
    """Numbers recorded for the reader, never judged: behaviour just outside the (weaker) reading of the statement."""
    out = {}
    try:
        import odl
        if U.HAVE_PYWT:
            adj = {}
            for w, mode, shape, L in (('db2', 'pywt_periodic', (16,), 2), ('db2', 'periodic', (16,), 1),
                                      ('haar', 'pywt_periodic', (9,), 2), ('db2', 'symmetric', (16,), 1)):
                sp = U.wave_space(shape, 0.5)
                W = odl.trafos.WaveletTransform(sp, w, nlevels=L, pad_mode=mode)
                rs = np.random.RandomState(0)
                x, y = sp.element(rs.randn(*shape)), W.range.element(rs.randn(W.range.size))
                a, b = W(x).inner(y), x.inner(W.adjoint(y))
                adj['%s/%s/n=%s/L=%d' % (w, mode, shape[0], L)] = '%.1e' % (abs(a - b) / max(abs(a), abs(b), 1e-300))
            out['wavelet_adjoint_relative_mismatch (claimed only: pywt_periodic, size divisible by 2^L)'] = adj
            try:
                odl.trafos.WaveletTransform(U.wave_space((8,)), 'haar', pad_mode='pywt_per')
                out['documented_pad_mode_name_pywt_per'] = 'accepted'
            except Exception as e:
                out['documented_pad_mode_name_pywt_per'] = 'raises ' + type(e).__name__ + ' (the accepted name is pywt_periodic)'
        try:
            odl.trafos.DiscreteFourierTransform(odl.uniform_discr([0, 0], [1, 1], (1, 4)), axes=(1,), impl='numpy')
            out['dft_default_range_with_length_1_axis'] = 'constructed'
        except Exception as e:
            out['dft_default_range_with_length_1_axis'] = 'raises ' + type(e).__name__
    except Exception as e:
        out['error'] = type(e).__name__
    return out


def task_cost(t):
    if t['type'] in ('dft', 'ft'):
        n = int(np.prod(t['case']['shape']))
        return n * (3 if t['type'] == 'ft' else 1)
    if t['type'] == 'hist':
        return 4 * len(t['behaviours'])
    if t['type'] == 'deriv':
        return 2 * int(np.prod(t['base']['shape']))
    if t['type'] == 'pyfftw_alias':
        return int(np.prod(t['shape']))
    if t['type'] == 'gauss':
        return 30
    if t['type'] == 'wave_lay':
        return 2
    return int(np.prod(t['shape'])) * (4 if t['type'] == 'wave_adj' else 1)


def random_history(rnd, conc, length):
    """A random enabled action sequence (the enabledness mirror only selects actions; TLC re-checks it)."""
    heap = {'x1': 'a', 'x2': 'b', 'y': 'nan', 'z': 'nan', 'r': 'none', 'q': 'none'}
    F = {'a': 'Fa', 'b': 'Fb'}
    I = {'Fa': 'a', 'Fb': 'b'}
    steps = []
    for _ in range(length):
        acts = []
        for x in ('x1', 'x2', 'z', 'r'):
            if heap[x] in F:
                acts += [{'op': 'call', 'x': x, 'o': 'r'}, {'op': 'callip', 'x': x, 'o': 'y'}]
        for x in ('y', 'r'):
            if heap[x] in I:
                acts += [{'op': 'inv', 'x': x, 'o': 'r'}, {'op': 'invip', 'x': x, 'o': 'z'}] * 2
        if conc['impl'] == 'pyfftw':
            acts.append({'op': 'plan', 'x': '-', 'o': '-'})
            acts.append({'op': 'planinv', 'x': '-', 'o': '-'})
            if not conc.get('chain'):      # call keywords only where the exported effort histories run, too
                acts = [dict(a_, e=rnd.choice(['-', '-', 'estimate', 'measure']))
                        if a_['op'] != 'plan' or rnd.random() < 0.5 else a_ for a_ in acts]
        if conc['kind'] == 'ft':
            acts.append({'op': 'temps', 'x': '-', 'o': '-'})
            acts.append({'op': 'tempsinv', 'x': '-', 'o': '-'})
        acts.append({'op': 'scribble', 'x': '-', 'o': '-'})
        a = rnd.choice(acts)
        if a['op'] == 'call':
            heap['q'], heap['r'] = heap['r'], F[heap[a['x']]]
        elif a['op'] == 'inv':
            heap['q'], heap['r'] = heap['r'], I[heap[a['x']]]
        elif a['op'] == 'callip':
            heap['y'] = F[heap[a['x']]]
        elif a['op'] == 'invip':
            heap['z'] = I[heap[a['x']]]
        steps.append({'act': a, 'mirror': dict(heap)})   # no exported heap: judged by TLC only; the mirror only
        #                                                  tells the driver when the real objects left the plan
    return {'steps': steps}


def outcome_of(ev, clauses, where):
    names = re.findall(r'<<\s*"([\w-]+)"\s*,\s*("?[\w-]*"?)', clauses)
    if ev.get('err'):
        return 'raises:' + ev['err']
    if ev['k'] == 'deriv':
        return 'wrong-options:' + '+'.join(sorted({b.strip('"') for a, b in names if a == 'derived'}))
    if ev['k'] == 'hist':
        objs = {b.strip('"') for a, b in names if a == 'hist'}
        act = ev['act']
        fresh = act['op'] in ('call', 'inv')          # the result is a new object r, the old r is kept as q
        tgt = {'r'} if fresh else {act['o']}
        src = 'q' if (fresh and act['x'] == 'r') else act['x']
        if where['clause'] == 'input-modified' or src in objs:
            return 'input-modified'
        if objs & tgt:
            return 'wrong-value'
        return 'other-object-modified'
    return 'wrong-' + (names[0][0] if names else 'value')


def slim_task(t):
    t = dict(t)
    if 'case' in t and t['case']:
        t['case'] = {k: v for k, v in t['case'].items() if k not in ('tab', 'inv')}
    if t.get('type') == 'wave_lay':
        t['case'] = {k: v for k, v in (t.get('case') or {}).items()}
    if 'behaviours' in t:
        t['behaviours'] = t['behaviours'][:0]
    return t


def slim_event(ev):
    return ev


# ------------------------------------------------------------------ replay of one violation
def replay(body):
    import tempfile
    d = body['detail']
    t = dict(d['task'])
    old = d['event']
    if t['type'] == 'hist':
        t['behaviours'] = [{'steps': [{'act': a} for a in _behaviour_of(d)]}]
    obs = [o for o in U.run_task(t) if 'event' in o]
    same = [o for o in obs if o['where'] == d['where'] and
            all(o['extras'].get(k) == v for k, v in d['extras'].items() if k != 'after')]
    if t['type'] == 'hist':
        same = [o for o in same if o['event']['act'] == old['act'] and o['event']['pre'] == old['pre']] or same
    work = tempfile.mkdtemp(prefix='c18replay-', dir=os.path.join(os.path.dirname(os.path.dirname(
        os.path.dirname(os.path.abspath(__file__)))), '.work'))
    p = os.path.join(work, 'ev.ndjson')
    with open(p, 'w') as f:
        for i, o in enumerate(same):
            e = dict(o['event'])
            e['id'] = i
            f.write(json.dumps(e) + '\n')
    res = run_tlc('Trace_FT.tla', 'Trace_FT.cfg', work, env={'TRACE_FILE': p}, workers=1)
    fails = parse_fails(res.output)
    import shutil
    shutil.rmtree(work, ignore_errors=True)
    print('signature :', dumps(body['signature'], sort_keys=True))
    print('task      :', dumps({k: v for k, v in t.items() if k not in ('behaviours',)})[:600])
    print('then      : %s  %s' % (d['tlc_clauses'], dumps(old)[:400]))
    for line, eid, cl in fails[:3]:
        print('now       : %s  %s' % (cl, dumps(same[eid]['event'])[:400]))
    ok = res.status == 'ok' and bool(fails)
    print('REPRODUCED' if ok else 'NOT-REPRODUCED')
    return 1 if ok else 0


def _behaviour_of(d):
    return (d.get('conc') or {}).get('behaviour') or []

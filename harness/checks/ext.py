"""EXT: specification coverage beyond the twenty listed properties.

`./vcheck EXT --tier quick|thorough` runs every module of `harness/extras/` that declares `STANDALONE = True` and a
`run_stage(ctx)`: each one model-checks a TLA+ machine of a part of ODL that no listed property talks about, replays the
exported behaviours on the real objects and validates recorded traces, exactly as the property checks do.  EXT is not a
property and is not registered as a check in MANIFEST.json (it is listed under `engines`); its findings are reported
with `property=EXT` and never influence the verdict of a listed property.  Stages that belong to the statement of a
listed property are staged into that property's check instead (e.g. `extras/callbacks.py` in C11).

`VERIF_EXT=<name>[,<name>]` restricts the run to the named stages.
"""
import importlib
import os
import pkgutil

from .. import extras


def stages():
    out = []
    for m in sorted(pkgutil.iter_modules(extras.__path__), key=lambda m: m.name):
        mod = importlib.import_module('harness.extras.' + m.name)
        if getattr(mod, 'STANDALONE', False) and hasattr(mod, 'run_stage'):
            out.append((m.name, mod))
    return out


def run(ctx):
    only = [s for s in os.environ.get('VERIF_EXT', '').split(',') if s]
    ran = []
    for name, mod in stages():
        if only and name not in only:
            continue
        mod.run_stage(ctx)
        ran.append(name)
    ctx.extra['stages'] = ran
    ctx.rule = ('one abstract case per exported state / behaviour of each extension machine (see the stage modules); '
                'non-trivial = the behaviour contains at least one state-changing action')
    ctx.assumptions = ['extension stages: not tied to a listed property']


def replay(body):
    stage = body.get('detail', {}).get('stage_module')
    for name, mod in stages():
        if name == stage and hasattr(mod, 'replay'):
            return mod.replay(body)
    print('replay: re-run ./vcheck EXT with VERIF_EXT=%s' % stage)
    return 0

"""C03 - operator calls: in-place equals out-of-place, input untouched, result in range.

  1. TLC: DispatchImpl - the signature classification of Operator.__new__ and the checks of Operator.__call__
     (layer C) refine the call protocol (layer B) on all (signature kind, _call behaviour, x kind, out kind,
     functional) cells; the cells are exported and replayed on toy operator classes generated here.
  2. Catalogue: every operator recipe (built-in linear and nonlinear operators, functionals with gradients,
     proximals, conjugates, transforms, ...) is called out-of-place (twice), in-place with a NaN-filled and with a
     garbage-filled out, with an input that cannot be cast and with an out from another space; one event per call,
     validated by TLC (Trace_OpCall).  Operator subclasses not reached by any recipe are listed in the evidence.
"""
import json
import os
import re

import numpy as np
import odl

from ..tlc import run_tlc, parse_fails
from ..common import dumps, MachineryError
from .. import linops as L
from .. import opcatalog as C


# ------------------------------------------------------------------ toy classes for the dispatch cells
def toy_class(sig, beh, fnl):
    r3 = odl.rn(3)
    F = lambda x: 2 * x + 1

    def value(x, raw):
        y = F(x)
        return y.asarray().copy() if raw else y
    if fnl:
        class Op(odl.Operator):
            def __init__(self):
                super(Op, self).__init__(r3, r3.field)

            def _call(self, x):
                v = float(x.inner(r3.one()))
                return np.float64(v) if beh == 'raw' else v
        return Op, (lambda x: float(x.inner(r3.one())))
    if sig == 'oop':
        class Op(odl.Operator):
            def __init__(self):
                super(Op, self).__init__(r3, r3)

            def _call(self, x):
                return value(x, beh == 'raw')
    elif sig == 'ip':
        class Op(odl.Operator):
            def __init__(self):
                super(Op, self).__init__(r3, r3)

            def _call(self, x, out):
                out.assign(F(x))
                return {'none': None, 'out': out, 'other': F(x)}[beh]
    elif sig == 'dual':
        class Op(odl.Operator):
            def __init__(self):
                super(Op, self).__init__(r3, r3)

            def _call(self, x, out=None):
                if out is None:
                    return value(x, beh.startswith('raw'))
                out.assign(F(x))
                return out if beh.endswith('out') else None
    else:
        class Op(odl.Operator):
            def __init__(self):
                super(Op, self).__init__(r3, r3)

            def _call(self, x, *, out=None):
                if out is None:
                    return value(x, beh.startswith('raw'))
                out.assign(F(x))
                return out if beh.endswith('out') else None
    return Op, F


def run_cell(cell):
    r3 = odl.rn(3)
    Op, F = toy_class(cell['sig'], cell['beh'], cell['fnl'])
    op = Op()
    x = {'elem': r3.element([1, 2, 3]), 'castable': [1.0, 2.0, 3.0], 'bad': [1.0, 2.0]}[cell['xk']]
    out = {'none': None, 'range': (r3.element([9, 9, 9]) if not cell['fnl'] else r3.element([9, 9, 9])),
           'bad': odl.rn(4).element([9, 9, 9, 9])}[cell['ok']]
    if cell['fnl'] and cell['ok'] == 'range':
        out = 9.0       # a "range element" of a functional is a scalar
    status, ret, outval = 'ok', '-', 'stale'
    try:
        r = op(x, out=out) if out is not None else op(x)
        xe = r3.element(x) if cell['xk'] != 'bad' else None
        if out is not None:
            ret = 'the-out-object' if r is out else 'other-object'
        else:
            ret = 'new-in-range' if r in op.range else 'not-in-range'
            if ret == 'new-in-range' and xe is not None:
                want = F(xe)
                same = np.allclose(np.asarray(r), np.asarray(want))
                ret = ret if same else 'wrong-value'
    except Exception as ex:
        status = type(ex).__name__
    if out is not None and not np.isscalar(out):
        arr = out.asarray()
        if np.all(arr == 9):
            outval = 'stale'
        elif cell['xk'] != 'bad' and arr.shape == (3,) and np.allclose(arr, np.asarray(F(r3.element(x)))):
            outval = 'F(x)'
        else:
            outval = 'garbage'
    return {'status': status, 'ret': ret, 'out': outval}


# ------------------------------------------------------------------ catalogue events
def nan_fill(sp):
    c = np.full(L.dim(sp), np.nan, dtype=complex)
    if L.is_complex(sp):
        c = c + 1j * np.nan
    return L.unflat(sp, c)


def tol_unit(op):
    dts = []
    for sp in (op.domain, op.range):
        dt = getattr(sp, 'dtype', None)
        if dt is not None:
            dts.append(np.dtype(dt))
    if any(dt in (np.dtype('float32'), np.dtype('complex64')) for dt in dts):
        return 1e-4
    return 1e-9


def dist(op, a, b, unit):
    fa, fb = L.flat(op.range, a), L.flat(op.range, b)
    if fa.shape != fb.shape:
        return 10 ** 6
    both_nan = np.isnan(fa) & np.isnan(fb)
    with np.errstate(invalid='ignore'):
        same_inf = np.isinf(fa) & np.isinf(fb) & (fa == fb)
        d = np.abs(fa - fb)
    d[both_nan | same_inf] = 0.0
    if d.size == 0:
        return 0
    m = float(np.max(np.nan_to_num(d, nan=np.inf)))
    scale = max(1.0, float(np.max(np.abs(np.nan_to_num(fb, nan=0.0, posinf=0.0, neginf=0.0)))))
    q = m / scale / unit
    return int(min(q, 10 ** 6)) if np.isfinite(q) else 10 ** 6


def xbytes(sp, x):
    return L.flat(sp, x).tobytes()


def catalogue_events(ctx, rng):
    events, meta = [], []
    notbuilt, reached = [], set()
    for group, family, opts, fn in C.all_recipes(ctx.tier):
        sig0 = dict(opts)
        sig0.update({'class': family})
        try:
            op = fn()
        except NotImplementedError:
            continue                    # the operator does not offer this derived operator
        except Exception as ex:
            if 'via' not in opts:
                notbuilt.append('%s %s (%s)' % (family, opts, type(ex).__name__))
            continue
        C.classes_in(op, reached)
        unit = tol_unit(op)
        try:
            x = C.random_point(op.domain, rng)
        except Exception as ex:
            notbuilt.append('%s %s: no input (%s)' % (family, opts, type(ex).__name__))
            continue
        base = {'cls': family, 'in_range': True, 'ret_is_out': True, 'x_same': True, 'out_same': True, 'dist': 0,
                'raised': '', 'fill': ''}

        def emit(ev, clause_meta):
            events.append(ev)
            meta.append((sig0, opts, family, clause_meta))
            ctx.count([family, opts, ev['mode'], ev.get('fill', '')], ev['mode'] in ('ip', 'oop'))
        # out-of-place, twice
        xb = xbytes(op.domain, x)
        try:
            y0 = op(x)
        except NotImplementedError:
            ctx.extra.setdefault('recipes_without_call', []).append('%s %s' % (family, opts))
            continue
        except Exception as ex:
            emit(dict(base, mode='oop', raised=type(ex).__name__), str(ex)[:160])
            continue
        ev = dict(base, mode='oop')
        ev['in_range'] = bool(y0 in op.range)
        ev['x_same'] = xbytes(op.domain, x) == xb
        try:
            # history: the caller re-uses the returned object as a work array, then calls again: the second result must
            # not depend on that (an operator handing out its internal state would)
            y0_keep = L.unflat(op.range, L.flat(op.range, y0))
            if not L.is_field(op.range) and y0 is not x:
                try:
                    y0 *= 3.0
                    y0 += op.range.one() if hasattr(op.range, 'one') else 0
                except Exception:
                    pass
            if xbytes(op.domain, x) != xb:      # the result aliases the input: restore x for the second call
                x = L.unflat(op.domain, np.frombuffer(xb, dtype=complex))
            # history: a call on ANOTHER input in between (cached temporaries / plans must not leak into the next result)
            try:
                op(C.random_point(op.domain, rng))
            except Exception:
                pass
            y1 = op(x)
            ev['dist'] = dist(op, y1, y0_keep, unit)
            y0 = y0_keep
        except Exception as ex:
            ev['raised'] = type(ex).__name__
        emit(ev, '')
        if L.is_field(op.range):
            pass
        else:
            for fill in ('nan', 'prev'):
                ev = dict(base, mode='ip', fill=fill)
                try:
                    out = nan_fill(op.range) if fill == 'nan' else L.unflat(op.range, L.flat(op.range, y0) * -3.0 + 7.0)
                    x2 = L.unflat(op.domain, L.flat(op.domain, x))
                    xb2 = xbytes(op.domain, x2)
                    r = op(x2, out=out)
                    ev['ret_is_out'] = r is out
                    ev['x_same'] = xbytes(op.domain, x2) == xb2
                    ev['dist'] = dist(op, out, y0, unit)
                except Exception as ex:
                    ev['raised'] = type(ex).__name__
                    ev['msg'] = str(ex)[:160]
                emit(ev, '')
        # rejections
        n = L.dim(op.domain)
        bad_x = np.zeros(n + 3) if not L.is_field(op.domain) else 'not-a-number'
        out_probe = None
        ev = dict(base, mode='reject-x')
        try:
            if L.is_field(op.range):
                op(bad_x)
            else:
                out_probe = L.unflat(op.range, np.full(L.dim(op.range), 5.0, dtype=complex))
                ob = xbytes(op.range, out_probe)
                op(bad_x, out=out_probe)
            ev['raised'] = 'no-exception'
        except Exception as ex:
            ev['raised'] = type(ex).__name__
        if out_probe is not None:
            ev['out_same'] = xbytes(op.range, out_probe) == ob
        emit(ev, '')
        if not L.is_field(op.range):
            ev = dict(base, mode='reject-out')
            bad_out = odl.rn(L.dim(op.range) + 2).element(np.full(L.dim(op.range) + 2, 5.0))
            try:
                op(x, out=bad_out)
                ev['raised'] = 'no-exception'
            except Exception as ex:
                ev['raised'] = type(ex).__name__
            ev['out_same'] = bool(np.all(bad_out.asarray() == 5.0))
            emit(ev, '')
    allc = C.all_operator_classes()
    abstract = ('odl.operator.operator.Operator', 'odl.solvers.functional.functional.Functional')
    unc = sorted(n for n, c in allc.items() if c not in reached and n not in abstract)
    ctx.extra['operator_classes_total'] = len(allc)
    ctx.extra['operator_classes_reached'] = len([n for n, c in allc.items() if c in reached])
    ctx.extra['uncovered_classes'] = unc
    ctx.extra['recipes_not_constructed'] = notbuilt[:60]
    return events, meta


def run(ctx):
    ctx.rule = ('(1) all 135 dispatch cells of DispatchImpl replayed on generated toy operator classes; (2) every operator '
                'recipe (class x options) x {out-of-place twice, in-place NaN-filled out, in-place garbage-filled out, uncastable '
                'input, foreign out}; distinct = hash(recipe, call mode, fill); non-trivial = a value-producing call')
    ctx.assumptions += [
        'in-place and out-of-place results may differ by rounding: relative tolerance 1e-9 (float64) / 1e-4 (float32)',
        'inputs are drawn positive (0.5..2) so that domain-restricted operators (log, sqrt, KL) are defined',
        'operators whose _call raises NotImplementedError are not counted']
    work = ctx.work
    out = os.path.join(work, 'cells.ndjson')
    res = run_tlc('MC_DispatchImpl.tla', 'MC_DispatchImpl.cfg', work, env={'OUT_FILE': out}, workers=1, timeout=600)
    ctx.add_tlc('dispatch-impl', res)
    cells, seen = [], set()
    for line in open(out):
        if line.strip() and line not in seen:
            seen.add(line)
            cells.append(json.loads(line))
    if len(cells) < 100:
        raise MachineryError('dispatch cell export too small: %d' % len(cells))
    for cell in cells:
        obs = run_cell(cell)
        well = cell['beh'] != 'other'
        ctx.count(['cell', cell['sig'], cell['beh'], cell['xk'], cell['ok'], cell['fnl']], cell['ok'] != 'none' or cell['xk'] != 'elem')
        exp = cell['protocol']
        sig = {'part': 'dispatch', 'sig': cell['sig'], 'beh': cell['beh'], 'x': cell['xk'], 'out': cell['ok'],
               'functional': str(cell['fnl'])}
        if well:
            if obs['status'] != exp['status']:
                ctx.violation(dict(sig, clause='status', observed=obs['status'], expected=exp['status']),
                              {'cell': cell, 'observed': obs})
            elif exp['status'] == 'ok' and (obs['ret'] != exp['ret'] or obs['out'] != exp['out']):
                ctx.violation(dict(sig, clause='result', observed=obs['ret'] + '/' + obs['out']), {'cell': cell, 'observed': obs})
            elif exp['status'] != 'ok' and obs['out'] != 'stale':
                ctx.violation(dict(sig, clause='out-written-before-rejection'), {'cell': cell, 'observed': obs})
        else:
            if obs['status'] != cell['impl']['status']:
                ctx.drift_note('ill-behaved toy class cell %s: observed %s, layer C predicts %s' % (
                    dumps(sig), obs['status'], cell['impl']['status']))
    ctx.traces += len(cells)
    ctx.sample({'dispatch_cell': cells[len(cells) // 2], 'observed': run_cell(cells[len(cells) // 2])})

    rng = np.random.default_rng(ctx.seed + 11)
    events, meta = catalogue_events(ctx, rng)
    p = os.path.join(work, 'opcall.ndjson')
    with open(p, 'w') as f:
        for k, ev in enumerate(events):
            e = {k2: v for k2, v in ev.items() if k2 != 'msg'}
            e['id'] = k
            f.write(json.dumps(e) + '\n')
    res = run_tlc('Trace_OpCall.tla', 'Trace_OpCall.cfg', work, env={'TRACE_FILE': p}, workers=1, timeout=1500)
    ctx.add_tlc('trace-opcall', res)
    ctx.traces += len(events)
    nfail = 0
    for _ln, k, _cl in parse_fails(res.output):
        if True:
            nfail += 1
            sig0, opts, family, _ = meta[k]
            for cl, arg in re.findall(r'<<\s*"([\w-]+)",\s*"([^"]*)"\s*>>', _cl):
                s = dict(sig0, part='catalogue', clause=cl)
                if arg:
                    s['arg'] = arg
                ctx.violation(s, {'stage': 'catalogue', 'class': family, 'options': opts, 'event': events[k]})
    ctx.extra['catalogue_events'] = len(events)
    ctx.extra['catalogue_events_rejected_by_tlc'] = nfail
    ok = [e for e in events if e['mode'] == 'ip' and not e['raised']]
    if ok:
        ctx.sample({'catalogue_event': ok[len(ok) // 2]})
    # ---- harvest: every Operator.__call__ made inside the repository's own tests (hook ODL_VERIF_TRACE) ----
    from .. import harvest as H
    quick = ctx.tier == 'quick'
    for sig, detail in H.harvest(ctx, {'call'}, H.QUICK_MODULES if quick else H.THOROUGH_MODULES,
                                 ('in-place-does-not-return-out', 'input-modified', 'result-not-in-range')):
        ctx.violation(sig, detail)
    ctx.exhaustive = True


def replay(body):
    d = body['detail']
    if 'cell' in d:
        obs = run_cell(d['cell'])
        print('cell', dumps(d['cell']))
        print('observed', obs)
        bad = obs['status'] != d['cell']['protocol']['status'] or (obs['status'] == 'ok' and (
            obs['ret'] != d['cell']['protocol']['ret'] or obs['out'] != d['cell']['protocol']['out']))
        print('REPRODUCED' if bad else 'NOT-REPRODUCED')
        return 1 if bad else 0
    for group, family, opts, fn in C.all_recipes('thorough'):
        if family == d['class'] and opts == d['options']:
            op = fn()
            rng = np.random.default_rng(body.get('seed', 0) + 11)
            x = C.random_point(op.domain, rng)
            ev = d['event']
            print('class', family, opts, 'mode', ev['mode'], ev.get('fill'))
            try:
                y0 = op(x)
                if ev['mode'] == 'ip':
                    out = nan_fill(op.range) if ev.get('fill') == 'nan' else L.unflat(op.range, L.flat(op.range, y0) * -3.0 + 7.0)
                    xb = xbytes(op.domain, x)
                    r = op(x, out=out)
                    dd = dist(op, out, y0, tol_unit(op))
                    print('ret is out', r is out, 'x unchanged', xbytes(op.domain, x) == xb, 'dist', dd)
                    bad = (r is not out) or xbytes(op.domain, x) != xb or dd > 10
                else:
                    print('recorded event', dumps(ev))
                    bad = True
            except Exception as ex:
                print('raised', type(ex).__name__, str(ex)[:200])
                bad = True
            print('REPRODUCED' if bad else 'NOT-REPRODUCED')
            return 1 if bad else 0
    print('recipe not found')
    return 2

"""C15 - sampling and interpolation reproduce the function at the nodes and between them.

Pipeline (DESIGN 4/C15):
  1. TLC: Config_Interp over InterpSem (layer A) + InterpImpl (layer C: _find_indices, the two weight/edge helpers,
     the 2^ndim corner loop, the nearest evaluator) in six modes (sample, interp1/2/3, resample, deform): laws of the
     reference (node reproduction, exactness for affine data, right neighbour on ties, convex weights, zero extension)
     and Impl = reference wherever the reference is defined.
  2. Every (configuration, query) state is exported with the layer-A answer and replayed on the real code:
       sampling     space.element / sampling_function + point_collocation (+out) / point arrays / single points, each
                    abstract function under every calling convention (native, native full-shape, odl.util.vectorize with and
                    without otypes, in-place only, dual use, keyword-only out, callable object, NumPy scalar, ufunc),
                    float64/32, complex128/64, int64
       interpolation nearest_/linear_/per_axis_interpolator x single points / point array (+out) / mesh grid (+out) x
                    float64/32, complex128/64, int64 and strings (nearest)
       Resampling, linear_deform (+out), LinDeformFixedTempl, LinDeformFixedDisp on lattice data
       call histories: every sequence of <= 3 calls (in-place / out-of-place / element() x int, float32, float64, complex64,
                    complex128, and overwriting the previously returned object) on ONE function object (SampleHist machine),
                    with values that need float64 precision, compared exactly
  3. Every call above and the calls of a seeded random driver (random dyadic non-uniform grids, data, points, polynomials)
     are recorded as events and validated by TLC (Trace_Interp).
"""
import itertools
import json
import os
import random
import re
from concurrent.futures import ThreadPoolExecutor
from fractions import Fraction

import numpy as np

from ..tlc import run_tlc, parse_fails
from ..common import dumps, MachineryError
from .. import c15lib as L

MODES = ['sample', 'interp1', 'interp2', 'interp3', 'resample', 'deform']
AFFINES = [[1000, -14], [-300.5, -12]]          # x -> offset + 2^k * x (exact in float64, not representable in float32)


# ------------------------------------------------------------------ executing one planned call
def dtype_class(dt):
    dt = np.dtype(dt)
    if dt.kind == 'U':
        return 'str-wide' if dt.itemsize // 4 >= 32 else 'str'
    return {'f': 'float', 'c': 'complex', 'i': 'int'}[dt.kind]


def exec_sample(cvs, poly, conc, D):
    ev = {'kind': 'sample', 'cvs': cvs, 'poly': poly, 'obs': [], 'err': ''}
    try:
        arr = L.sample_real(cvs, poly, conc['conv'], conc['api'], conc['dtype'], conc.get('space', 'nonuniform'))
        if arr is None:
            return None
        shape = tuple(len(cv) for cv in cvs)
        if tuple(arr.shape) != shape:
            ev['err'] = 'ShapeError'
            ev['_errmsg'] = 'result shape %r, expected %r' % (arr.shape, shape)
        else:
            ev['obs'] = L.proj_arr(arr, D, conc['dtype'])
    except Exception as e:
        ev['err'] = type(e).__name__
        ev['_errmsg'] = '%s: %s' % (type(e).__name__, str(e)[:160])
    return ev


def exec_interp(cvs, f, schemes, xs, pts, conc, D):
    """generic interpolator call; conc: which, form, dtype"""
    ndim = len(cvs)
    shape = tuple(len(cv) for cv in cvs)
    dt = conc['dtype']
    is_str = np.dtype(dt).kind == 'U'
    if is_str:
        ev = {'kind': 'nearest_idx', 'cvs': cvs, 'xs': xs, 'obs': [], 'err': ''}
        farr = L.str_values(shape, np.dtype(dt).itemsize // 4)
    else:
        ev = {'kind': 'interp', 'cvs': cvs, 'f': f, 'schemes': schemes, 'xs': xs, 'obs': [], 'err': ''}
        farr = L.np_values(f, shape, dt)
    try:
        aff = L.aff_of(conc)
        itp = L.make_interpolator(farr, L.cvs_float(cvs, aff), schemes, conc['which'])
        res = L.call_interp(itp, conc['form'], xs, pts, ndim, farr.dtype, aff)
        if len(res) != len(xs):
            ev['err'] = 'ShapeError'
            ev['_errmsg'] = '%d results for %d points' % (len(res), len(xs))
        elif is_str:
            ev['obs'] = [L.untoken(r) for r in res]
        else:
            ev['obs'] = [L.proj_c(z, D, dt) for z in res]
    except Exception as e:
        ev['err'] = type(e).__name__
        ev['_errmsg'] = '%s: %s' % (type(e).__name__, str(e)[:160])
    return ev


def exec_resample(cfg, conc, D):
    import odl
    dt = conc['dtype']
    ev = {'kind': 'interp', 'cvs': cfg['cvs'], 'f': cfg['f'], 'schemes': cfg['schemes'], 'xs': L.mesh_points(cfg['tcvs']),
          'obs': [], 'err': ''}
    A = L.unit_space(cfg['src'], dt)
    B = L.unit_space(cfg['tgt'], dt)
    if L.grid_q(A) != cfg['cvs'] or L.grid_q(B) != cfg['tcvs']:
        raise MachineryError('uniform_discr grid differs from the catalogue grid (C14 territory): %r' % (cfg['src'],))
    try:
        sch = cfg['schemes']
        interp = sch[0] if (conc.get('interp_as') == 'str' and len(set(sch)) == 1) else list(sch)
        op = odl.Resampling(A, B, interp=interp)
        x = A.element(L.np_values(cfg['f'], A.shape, dt))
        if conc.get('inplace'):
            y = B.element(np.full(B.shape, np.nan, dtype=dt))      # garbage pre-fill
            r = op(x, out=y)
            if r is not y:
                raise AssertionError('op(x, out=y) did not return y')
        else:
            y = op(x)
        if y not in B:
            ev['err'] = 'RangeError'
        else:
            ev['obs'] = L.proj_arr(y.asarray(), D, dt)
    except Exception as e:
        ev['err'] = type(e).__name__
        ev['_errmsg'] = '%s: %s' % (type(e).__name__, str(e)[:160])
    return ev


def exec_deform(cfg, pts, conc, D):
    from odl.deform import linear_deform, LinDeformFixedTempl, LinDeformFixedDisp
    dt = conc['dtype']
    ev = {'kind': 'interp', 'cvs': cfg['cvs'], 'f': cfg['f'], 'schemes': cfg['schemes'], 'xs': pts, 'obs': [], 'err': ''}
    sp = L.unit_space(cfg['src'], dt)
    if L.grid_q(sp) != cfg['cvs']:
        raise MachineryError('uniform_discr grid differs from the catalogue grid: %r' % (cfg['src'],))
    try:
        sch = cfg['schemes']
        interp = sch[0] if (conc.get('interp_as') == 'str' and len(set(sch)) == 1) else list(sch)
        templ = sp.element(L.np_values(cfg['f'], sp.shape, dt))
        rsp = sp.real_space
        comps = []
        for d in cfg['disp']:
            V = np.array([L.flt(v) for v in d], dtype=rsp.dtype).reshape(sp.shape)      # C order = order of space.points()
            lay = conc.get('layout', 'C')
            if lay == 'F':
                comps.append(rsp.element(V, order='F'))
            elif lay == 'strided':
                big = np.full(tuple(2 * n for n in sp.shape), np.nan, dtype=rsp.dtype)
                view = big[tuple(slice(None, None, 2) for _ in sp.shape)]
                view[...] = V
                comps.append(rsp.element(view))
            elif lay == 'FT':                   # Fortran-ordered via a transposed C array
                comps.append(rsp.element(np.ascontiguousarray(V.T).T))
            else:
                comps.append(rsp.element(V))
        disp = rsp.tangent_bundle.element(comps)
        if not all(np.array_equal(c.asarray(), np.array([L.flt(v) for v in d]).reshape(sp.shape)) for c, d in zip(disp, cfg['disp'])):
            raise MachineryError('displacement element does not hold the requested values')
        if conc.get('templ_layout') == 'F':
            templ = sp.element(templ.asarray(), order='F')
        api = conc['api']
        if api == 'linear_deform':
            r = linear_deform(templ, disp, interp=interp)
        elif api == 'linear_deform_out':
            out = np.empty(sp.size, dtype=sp.dtype)
            r = linear_deform(templ, disp, interp=interp, out=out)
        elif api == 'LinDeformFixedTempl':
            r = LinDeformFixedTempl(templ, interp=interp)(disp).asarray()
        elif api == 'LinDeformFixedDisp':
            r = LinDeformFixedDisp(disp, templ_space=sp, interp=interp)(templ).asarray()
        elif api == 'LinDeformFixedDisp.inverse':
            # documented: "inverse deformation using -v as displacement" - so the inverse of the deformation by -v IS the
            # deformation by v, with the interpolation scheme the user chose for the operator
            r = LinDeformFixedDisp(-disp, templ_space=sp, interp=interp).inverse(templ).asarray()
        elif api == 'LinDeformFixedDisp.inverse.inverse':
            r = LinDeformFixedDisp(disp, templ_space=sp, interp=interp).inverse.inverse(templ).asarray()
        else:
            raise ValueError(api)
        r = np.asarray(r)
        if r.shape != tuple(sp.shape):
            ev['err'] = 'ShapeError'
            ev['_errmsg'] = 'shape %r' % (r.shape,)
        else:
            ev['obs'] = L.proj_arr(r, D, dt)
    except Exception as e:
        ev['err'] = type(e).__name__
        ev['_errmsg'] = '%s: %s' % (type(e).__name__, str(e)[:160])
    return ev


def execute(plan):
    k = plan['k']
    if k == 'sample':
        return exec_sample(plan['cvs'], plan['poly'], plan['conc'], plan['D'])
    if k == 'interp':
        return exec_interp(plan['cvs'], plan['f'], plan['schemes'], plan['xs'], plan['pts'], plan['conc'], plan['D'])
    if k == 'resample':
        return exec_resample(plan['cfg'], plan['conc'], plan['D'])
    if k == 'deform':
        return exec_deform(plan['cfg'], plan['pts'], plan['conc'], plan['D'])
    if k == 'hist':
        calls = L.run_history(plan['obj'], plan['hist'], plan['conc'])
        msgs = [c.pop('errmsg') for c in calls if 'errmsg' in c]
        return {'kind': 'history', 'fn': plan['obj']['fn'], 'cvs': plan['obj']['cvs'], 'calls': calls, 'err': '',
                '_errmsg': '; '.join(msgs)}
    raise ValueError(k)


def compare_hist(ev, hist):
    """-> [(clause, index of the call)]"""
    out = []
    for j, (c, h) in enumerate(zip(ev['calls'], hist), start=1):
        if c['kind'] == 'mutate':
            continue
        if c['err']:
            out.append(('raised', j))
        elif len(c['obs']) != len(h['exp']):
            out.append(('length', j))
        else:
            wrong = any(d and o != e for o, e, d in zip(c['obs'], h['exp'], h['def']))
            if wrong:
                out.append(('hist', j))
            if c['grid'] != ev['cvs']:
                out.append(('grid', j))
            if c['frame']:
                out.append(('frame', j))
            if not wrong and c['obs_end'] and any(d and o != e for o, e, d in zip(c['obs_end'], h['exp'], h['def'])):
                out.append(('changed-later', j))
    return out


def compare(ev, exp, defined=None):
    """python side of the replay comparison -> clause names"""
    if ev['err']:
        return ['raised']
    if len(ev['obs']) != len(exp):
        return ['length']
    name = {'sample': 'sample', 'interp': 'value', 'nearest_idx': 'node'}[ev['kind']]
    for i, (o, e) in enumerate(zip(ev['obs'], exp)):
        if defined is not None and not defined[i]:
            continue
        if o != e:
            return [name]
    return []


def signature(ev, plan, clause, k=0, failing=()):
    """Family-level signature (no literal numbers); a raised exception is identified by call site and error class,
    a wrong value additionally by value type / function class / point-passing form.  `failing`: indices of all failing
    calls of a behaviour (history events)."""
    conc = plan['conc']
    if plan['k'] == 'hist':
        calls = ev['calls']
        c = calls[k - 1] if 1 <= k <= len(calls) else {'kind': '-', 'dt': '-', 'err': ''}
        real = [j for j, x in enumerate(calls, start=1) if x['kind'] != 'mutate']
        sig = {'api': 'history', 'conv': conc['conv'], 'func': plan['fnclass'], 'clause': clause,
               'mutated': 'yes' if any(x['kind'] == 'mutate' for x in calls[:max(k - 1, 0)]) else 'no'}
        # independent of the history: every earlier call into a non-integer value type is wrong as well
        # (calls into an integer type are compared at integer-valued points only and do not discriminate)
        if all(j in failing for j in real if j <= k and calls[j - 1]['dt'] != 'int'):
            sig['history'] = 'independent'
        else:
            first = calls[real[0] - 1] if real and real[0] < k else None
            sig['history'] = 'dependent'
            sig['first'] = '-' if first is None else first['kind'] + '/' + first['dt']
            sig['dtype'] = c['dt']
        if clause == 'raised':
            sig['error'] = c['err']
        return sig
    nd = '1' if len(ev['cvs']) == 1 else 'nd'
    dtc = dtype_class(conc['dtype'])
    if plan['k'] == 'sample':
        sig = {'api': conc['api'], 'conv': conc['conv'], 'ndim': nd, 'clause': clause}
        if clause == 'raised':
            sig['error'] = ev['err']
        else:
            sig.update(dtype=dtc, func=plan.get('pclass', 'poly').replace('complex-', ''))
        return sig
    sch = ev.get('schemes') or plan.get('schemes')
    scl = 'nearest' if all(s == 'nearest' for s in sch) else ('linear' if all(s == 'linear' for s in sch) else 'mixed')
    api = conc['which'] if plan['k'] == 'interp' else conc.get('api', 'Resampling') + ('/out' if conc.get('inplace') else '')
    if clause == 'raised':
        sig = {'api': api, 'dtype': dtc if dtc in ('str', 'str-wide', 'int') else 'numeric', 'ndim': nd, 'clause': clause, 'error': ev['err']}
        if plan['k'] == 'interp':
            sig['form'] = 'mesh_1pt' if conc['form'] == 'mesh_1pt' else 'any'
        if dtc in ('str', 'str-wide', 'int'):
            sig['scheme'] = scl
        return sig
    sig = {'api': api, 'dtype': dtc, 'scheme': scl, 'ndim': nd, 'clause': clause}
    if plan['k'] == 'interp':
        sig['form'] = conc['form']
        sig['coords'] = 'far/fine' if conc.get('affine') else 'plain'
        if np.dtype(conc['dtype']) in (np.dtype('float32'), np.dtype('complex64')):
            sig['dtype'] = dtc + '32'
    if plan['k'] == 'resample':
        cfg = plan.get('shapes')
        sig['shapes'] = cfg or '-'
    if plan['k'] == 'deform':
        sig['layout'] = conc.get('layout', 'C')
    return sig


# ------------------------------------------------------------------ plans from exported states
def poly_class(poly, ndim):
    used = {k for m in poly for k, p in enumerate(m['e']) if p}
    cpx = any(m['c'][1] != [0, 1] for m in poly)
    if not used:
        return 'complex-const' if cpx else 'const'
    return ('complex-' if cpx else '') + ('partial' if len(used) < ndim else 'full')


def plans_sample(case, rot, thorough):
    cfg, q = case['cfg'], case['q']
    cvs, poly = cfg['cvs'], cfg['poly']
    ndim = len(cvs)
    exp = q['ans']
    D = L.lcm_den(exp)
    cpx = (not L.is_real_vals(exp)) or any(m['c'][1] != [0, 1] for m in poly)
    if cpx:
        dts = ['complex128', 'complex64']
    else:
        dts = ['float64', 'float32'] + (['int64'] if L.is_int_vals(exp) else []) + (['complex128'] if thorough else [])
    convs = L.conventions(cfg['pname'], poly, ndim)
    out = []
    i = rot
    for dt in dts:
        for conv in convs:
            if conv == 'ufunc' and np.dtype(dt).kind in 'iu':
                continue        # a float ufunc cannot write into an integer `out` (NumPy casting rule, not ODL)
            if thorough:
                apis = L.SAMPLE_APIS
            else:
                apis = [L.SAMPLE_APIS[i % 6], L.SAMPLE_APIS[(i + 3) % 6]]
            i += 1
            for api in apis:
                for spk in (['nonuniform', 'uniform_discr'] if (api == 'element' or thorough) else ['nonuniform']):
                    out.append(({'k': 'sample', 'cvs': cvs, 'poly': poly, 'D': D, 'pclass': poly_class(poly, ndim),
                                 'conc': {'conv': conv, 'api': api, 'dtype': dt, 'space': spk}}, exp, None))
    return out


def plans_interp(cfg, qs, rot, thorough):
    cvs, f, schemes, pts = cfg['cvs'], cfg['f'], cfg['schemes'], cfg['pts']
    byx = {json.dumps(q['x']): q for q in qs}
    xs = L.mesh_points(pts)
    try:
        ordered = [byx[json.dumps(x)] for x in xs]
    except KeyError:
        raise MachineryError('exported interp states do not cover the point product of their configuration')
    exp = [q['ans'] for q in ordered]
    defined = [q['defined'] for q in ordered]
    nidx = [q['nidx'] for q in ordered]
    D = L.lcm_den([e for e, d in zip(exp, defined) if d], L.lcm_den(f))
    real = L.is_real_vals(f)
    allnear = all(s == 'nearest' for s in schemes)
    dts = (['float64'] + (['float32'] if D <= 256 else []) + (['complex128'] if thorough else [])) if real else ['complex128'] + (
        ['complex64'] if D <= 256 else [])
    whichs = L.interpolators_for(schemes)
    out = []
    i = rot
    for n_dt, dt in enumerate(dts):
        combos = list(itertools.product(whichs, L.FORMS))
        if not thorough:        # quick: three rotating forms for the first dtype, one for each further dtype
            combos = [(whichs[(i + j) % len(whichs)], form) for j, form in enumerate(L.FORMS)]
            combos = [combos[i % 5], combos[(i + 2) % 5], combos[(i + 4) % 5]] if n_dt == 0 else [combos[(i + 1) % 5]]
        i += 1
        narrow = np.dtype(dt) in (np.dtype('float32'), np.dtype('complex64'))
        for ci, (which, form) in enumerate(combos):
            conc = {'which': which, 'form': form, 'dtype': dt}
            # the same abstract case far from the origin with fine cells: coordinates need > 24 significant bits, points are float64
            if (narrow and (not thorough or ci % 3)) or (not narrow and (ci + rot) % 3 == 2):
                conc['affine'] = AFFINES[(rot + ci) % len(AFFINES)]
            out.append(({'k': 'interp', 'cvs': cvs, 'f': f, 'schemes': schemes, 'xs': xs, 'pts': pts, 'D': D, 'conc': conc}, exp, defined))
    # a mesh grid whose first axis holds a single point (the other axes keep all their points)
    j1 = rot % len(pts[0])
    pts1 = [[pts[0][j1]]] + pts[1:]
    xs1 = L.mesh_points(pts1)
    sub = [byx[json.dumps(x)] for x in xs1]
    out.append(({'k': 'interp', 'cvs': cvs, 'f': f, 'schemes': schemes, 'xs': xs1, 'pts': pts1, 'D': D,
                 'conc': {'which': whichs[rot % len(whichs)], 'form': 'mesh_1pt', 'dtype': dts[0]}},
                [q['ans'] for q in sub], [q['defined'] for q in sub]))
    if allnear:
        extra = []
        if real and L.is_int_vals(f):
            extra.append(('int64', exp))
        if cfg['fname'] == 'idx':
            extra += [('U8', nidx), ('U40', nidx)]
        for dt, e in extra:
            forms = L.FORMS if thorough else [L.FORMS[(i + j) % 5] for j in (0, 2)]
            i += 1
            for form in sorted(set(forms)):
                out.append(({'k': 'interp', 'cvs': cvs, 'f': f, 'schemes': schemes, 'xs': xs, 'pts': pts, 'D': D,
                             'conc': {'which': 'nearest', 'form': form, 'dtype': dt}}, e, None))
    return out


def fn_class(fn):
    if fn['kind'] == 'pw':
        return 'intfirst'
    return 'ident' if (len(fn['poly']) == 1 and fn['poly'][0]['c'] == [[1, 1], [0, 1]] and sum(fn['poly'][0]['e']) == 1) else 'fine'


def plans_hist(case, rot, thorough):
    obj, hist = case['obj'], case['hist']
    variants = [(r, p) for r in (False, True) for p in ('mesh', 'array')]
    r, p = variants[rot % 4]              # one rotating (wrapper reuse, point-passing, space sharing) variant per behaviour
    single = any(len(cv) == 1 for cv in obj['cvs'])
    conc = {'conv': obj['conv'], 'reuse_sf': r, 'points': p, 'spaces': ['siblings', 'independent', 'siblings', 'fresh'][(rot // 4) % 4],
            'degenerate': bool(single and (rot // 2) % 3 == 0)}
    return [({'k': 'hist', 'obj': obj, 'hist': hist, 'fnclass': fn_class(obj['fn']) + ('/singleton' if single else ''), 'D': 1,
              'conc': conc}, hist, None)]


def plans_resample(case, rot, thorough):
    cfg, q = case['cfg'], case['q']
    exp = q['ans']
    D = L.lcm_den(exp, L.lcm_den(cfg['f']))
    real = L.is_real_vals(cfg['f'])
    dts = (['float64'] + (['float32'] if D <= 256 else [])) if real else (['complex128'] + (['complex64'] if D <= 256 else []))
    same_shape = [s_['n'] for s_ in cfg['src']] == [t_['n'] for t_ in cfg['tgt']]
    return [({'k': 'resample', 'cfg': cfg, 'D': D, 'schemes': cfg['schemes'], 'shapes': 'equal' if same_shape else 'different',
              'conc': {'api': 'Resampling', 'dtype': dt, 'interp_as': ias, 'inplace': ip}}, exp, None)
            for j, dt in enumerate(dts) for ias in (['str', 'list'] if thorough else [['str', 'list'][rot % 2]])
            for ip in ([False, True] if (thorough or same_shape) else [bool((rot + j) % 2)])]


def plans_deform(case, rot, thorough):
    cfg, q = case['cfg'], case['q']
    exp = q['ans']
    D = L.lcm_den(exp, L.lcm_den(cfg['f']))
    real = L.is_real_vals(cfg['f'])
    dts = (['float64'] + (['float32'] if D <= 256 else [])) if real else ['complex128']
    # (in-place evaluation of the two operator classes is the open finding KF-C03-3: they are called out-of-place)
    apis = ['linear_deform', 'linear_deform_out', 'LinDeformFixedTempl', 'LinDeformFixedDisp',
            'LinDeformFixedDisp.inverse', 'LinDeformFixedDisp.inverse.inverse']
    layouts = ['C', 'F', 'strided', 'FT']
    out = []
    combos = [(dt, api, lay) for dt in dts for api in apis for lay in layouts]
    if not thorough:        # quick: rotate; every case still gets a C- and an F-ordered displacement
        n = len(combos)
        pick = [(rot * 5) % n, (rot * 5 + 7) % n]
        combos = [combos[i] for i in pick]
        if not any(lay in ('F', 'FT') for _, _, lay in combos):
            combos.append((dts[rot % len(dts)], apis[rot % len(apis)], 'F'))
        if not any(lay == 'C' for _, _, lay in combos):
            combos.append((dts[0], apis[(rot + 1) % len(apis)], 'C'))
        if not any(api.startswith('LinDeformFixedDisp.') for _, api, _ in combos):     # a derived operator for every case
            combos.append((dts[rot % len(dts)], apis[4 + rot % 2], layouts[rot % 4]))
    for j, (dt, api, lay) in enumerate(combos):
        out.append(({'k': 'deform', 'cfg': cfg, 'pts': q['pts'], 'D': D, 'schemes': cfg['schemes'],
                     'conc': {'api': api, 'dtype': dt, 'interp_as': ['str', 'list'][(rot + j) % 2], 'layout': lay,
                              'templ_layout': 'F' if (rot + j) % 3 == 0 else 'C'}}, exp, None))
    return out


def replay_task(args):
    """-> list of (event, plan-without-bulk, clauses, nontrivial)"""
    mode, cases, rot0, thorough = args
    plans = []
    if mode == 'sample':
        for j, c in enumerate(cases):
            plans += plans_sample(c, rot0 + j, thorough)
    elif mode.startswith('interp'):
        groups = {}
        for c in cases:
            groups.setdefault(json.dumps(c['cfg'], sort_keys=True), []).append(c)
        for j, (key, cs) in enumerate(sorted(groups.items())):
            plans += plans_interp(cs[0]['cfg'], [c['q'] for c in cs], rot0 + j, thorough)
    elif mode == 'resample':
        for j, c in enumerate(cases):
            plans += plans_resample(c, rot0 + j, thorough)
    elif mode == 'deform':
        for j, c in enumerate(cases):
            plans += plans_deform(c, rot0 + j, thorough)
    elif mode == 'hist':
        for j, c in enumerate(cases):
            plans += plans_hist(c, rot0 + j, thorough)
    out = []
    for plan, exp, defined in plans:
        ev = execute(plan)
        if ev is None:
            continue
        if plan['k'] == 'hist':
            cl = compare_hist(ev, exp)
            if cl:
                ev['_expected'] = [{'kind': h['kind'], 'dt': h['dt'], 'exp': h['exp'], 'def': h['def']} for h in exp]
            out.append((ev, slim(plan), cl, True))
            continue
        cl = compare(ev, exp, defined)
        if cl:
            ev['_expected'] = exp
        zero = [[0, 1], [0, 1]]
        nontriv = any(e != zero and e != exp[0] for e in exp) if exp and isinstance(exp[0], list) else True
        out.append((ev, slim(plan), cl, bool(nontriv)))
    return out


def slim(plan):
    return {k: v for k, v in plan.items() if k in ('k', 'conc', 'pclass', 'schemes', 'D', 'fnclass', 'shapes')}


# ------------------------------------------------------------------ seeded random driver (code -> spec)
def _q(fr):
    fr = Fraction(fr)
    return [int(fr.numerator), int(fr.denominator)]


def _c(re, im=0):
    return [_q(re), _q(im)]


def rnd_grid(rnd, ndim, pow2):
    steps = [2, 4, 8, 16] if pow2 else [2, 4, 6, 8, 12, 16]       # in eighths
    cvs = []
    for _ in range(ndim):
        n = rnd.randint(2, 6 if ndim < 3 else 3)
        g = [Fraction(rnd.randint(-16, 16), 8)]
        for _ in range(n - 1):
            g.append(g[-1] + Fraction(rnd.choice(steps), 8))
        cvs.append(g)
    return cvs


def rnd_points_axis(rnd, g, k):
    lo, hi = g[0] - (g[1] - g[0]), g[-1] + (g[-1] - g[-2])
    special = list(g) + [(g[i] + g[i + 1]) / 2 for i in range(len(g) - 1)] + [lo, hi]
    pts = set()
    while len(pts) < k:
        if rnd.random() < 0.4:
            pts.add(rnd.choice(special))
        else:
            pts.add(lo + Fraction(rnd.randint(0, int((hi - lo) * 16)), 16))
    return sorted(pts)


def random_plans(rnd, count):
    plans = []
    while len(plans) < count:
        r = rnd.random()
        if r < 0.6:
            ndim = rnd.choice([1, 1, 2, 2, 3])
            f32 = rnd.random() < 0.25
            cvs = rnd_grid(rnd, ndim, pow2=(ndim == 3 or f32))
            shape = [len(g) for g in cvs]
            size = int(np.prod(shape))
            cpx = rnd.random() < 0.3
            half = 1 if (f32 or rnd.random() < 0.5) else 2
            f = [_c(Fraction(rnd.randint(-9, 9), half), Fraction(rnd.randint(-9, 9), half) if cpx else 0) for _ in range(size)]
            schemes = [rnd.choice(['nearest', 'linear']) for _ in range(ndim)]
            pts = [rnd_points_axis(rnd, g, rnd.randint(2, 4 if ndim < 3 else 3)) for g in cvs]
            whichs = L.interpolators_for(schemes)
            form = rnd.choice(L.FORMS)
            if form.startswith('mesh') or rnd.random() < 0.5:
                xs = [list(t) for t in itertools.product(*pts)]
            else:
                xs = [[rnd.choice(p) for p in pts] for _ in range(rnd.randint(1, 6))]
                if form.startswith('mesh'):
                    form = 'array'
            den = 2
            for g, s in zip(cvs, schemes):
                if s == 'linear':
                    l = 1
                    for i in range(len(g) - 1):
                        st = int((g[i + 1] - g[i]) * 16)
                        l = l * st // np.gcd(l, st)
                    den *= int(l)
            if den > 2 ** 21 or (f32 and den > 256):
                continue
            dt = ('complex64' if cpx else 'float32') if f32 else ('complex128' if cpx else 'float64')
            jq = lambda seq: [[_q(v) for v in p] for p in seq]
            conc = {'which': rnd.choice(whichs), 'form': form, 'dtype': dt}
            if rnd.random() < 0.4:
                conc['affine'] = [rnd.choice([1000, -300.5, 4096.25]), rnd.choice([-8, -12, -14])]
            plans.append({'k': 'interp', 'cvs': jq(cvs), 'f': f, 'schemes': schemes, 'xs': jq(xs), 'pts': jq(pts), 'D': den, 'conc': conc})
        else:
            ndim = rnd.choice([1, 2, 2, 3])
            cvs = []
            for _ in range(ndim):
                n = rnd.randint(1, 5 if ndim < 3 else 3)
                vals = sorted(rnd.sample(range(-12, 13), n))
                cvs.append([Fraction(v, 4) for v in vals])
            cpx = rnd.random() < 0.3
            poly = []
            deg = 0
            for _ in range(rnd.randint(1, 4)):
                e = [0] * ndim
                for _ in range(rnd.choice([0, 1, 1, 2])):
                    e[rnd.randrange(ndim)] += 1
                deg = max(deg, sum(e))
                poly.append({'c': _c(rnd.randint(-3, 3), rnd.randint(-2, 2) if cpx else 0), 'e': e})
            D = 4 ** max(deg, 1)
            dt = rnd.choice(['complex128', 'complex64'] if cpx else ['float64', 'float64', 'float32'])
            convs = L.conventions('rnd', poly, ndim)
            jq = lambda seq: [[_q(v) for v in p] for p in seq]
            plans.append({'k': 'sample', 'cvs': jq(cvs), 'poly': poly, 'D': D, 'pclass': poly_class(poly, ndim),
                          'conc': {'conv': rnd.choice(convs), 'api': rnd.choice(L.SAMPLE_APIS), 'dtype': dt, 'space': 'nonuniform'}})
    return plans


def beyond_plans():
    """Deterministic enumeration beyond the TLC constants: 1-d grids of 6 and 9 dyadic nodes, every 1/8-lattice point from one edge
    step below to one edge step above (all ties, all nodes, the whole zero-extension zone), both schemes, every interpolator / form."""
    plans = []
    grids = [[Fraction(v, 4) for v in (-6, -4, -3, 0, 2, 8)], [Fraction(v, 8) for v in (-8, -6, -5, -1, 0, 4, 6, 12, 16)]]
    jq = lambda seq: [[_q(v) for v in p] for p in seq]
    for g in grids:
        lo, hi = g[0] - (g[1] - g[0]), g[-1] + (g[-1] - g[-2])
        pts = []
        x = lo
        while x <= hi:
            pts.append(x)
            x += Fraction(1, 8)
        # result lattice: weights are (x - g_j) / step with x, g_j on the 1/8 lattice -> denominator lcm(step * 8)
        D = 1
        for i in range(len(g) - 1):
            st = int((g[i + 1] - g[i]) * 8)
            D = D * st // int(np.gcd(D, st))
        f = [_c((3 * i * i) % 11 - 4, 0) for i in range(len(g))]
        fc = [_c((3 * i * i) % 11 - 4, i - 2) for i in range(len(g))]
        for sch in ('nearest', 'linear'):
            for which in L.interpolators_for([sch]):
                for j, form in enumerate(L.FORMS):
                    cpx = (j % 2 == 1)
                    plans.append({'k': 'interp', 'cvs': jq([g]), 'f': fc if cpx else f, 'schemes': [sch], 'xs': jq([[p] for p in pts]),
                                  'pts': jq([pts]), 'D': D, 'conc': {'which': which, 'form': form, 'dtype': 'complex128' if cpx else 'float64'}})
    return plans


def random_task(plans):
    out = []
    for plan in plans:
        ev = execute(plan)
        if ev is not None:
            out.append((ev, slim(plan), None, True))
    return out


# ------------------------------------------------------------------ check
def report(ctx, counts, sig, detail, cap=8):
    """every violating case is counted; at most `cap` replay files are written per family (known findings: no files)"""
    key = dumps(sig, sort_keys=True)
    counts[key] = counts.get(key, 0) + 1
    if counts[key] <= cap or ctx._match_known(sig) is not None:
        ctx.violation(sig, detail)


def clean(ev):
    return {k: v for k, v in ev.items() if not k.startswith('_')}


def weight_of(ev):
    if ev['kind'] == 'history':
        return max(1, sum(len(c['obs']) for c in ev['calls']))
    return max(1, len(ev.get('xs', ev.get('obs', []))))


def run(ctx):
    import multiprocessing as mp
    quick = ctx.tier == 'quick'
    ctx.rule = ('abstract case = (configuration, query) state of Config_Interp exported by TLC: (grid, function) for sampling; (grid, data, '
                'per-axis schemes, point) for interpolation; (source, target, data, schemes) for Resampling; (grid, data, schemes, '
                'displacement) for linear_deform; concretisation = calling convention x API x dtype (sampling), interpolator x point-passing '
                'form x dtype (interpolation); distinct = hash of (abstract case batch, concretisation); non-trivial = expected values are '
                'not all equal / zero')
    ctx.assumptions += [
        'interpolation cases are also replayed after an exact affine change of coordinates x -> offset + 2^k x (offset 1000 / -300.5, k = -14 / -12) '
        'applied to grid and points together (law checked by TLC on small numbers): the coordinates then need > 24 significant bits, the points '
        'are passed as float64, values of type float32 / complex64 must still reproduce nodes, ties and blends exactly',
        'grids, data and points are dyadic (exactly representable), so nearest ties and node hits are exact; float32 runs are restricted '
        'to cases whose result lattice has denominator <= 256',
        'linear / mixed interpolation outside the hull is compared only within one edge step (the documented implicit zero node); '
        'nearest is compared everywhere (closest node = edge node)',
        'integer and string value types are claimed for nearest_interpolator only (per-axis / linear arithmetic on integers raises in NumPy)',
        'grids for interpolation have >= 2 nodes per axis (a one-node axis has no surrounding nodes); sampling includes one-node axes',
        'Resampling is exercised out-of-place and in place (out pre-filled with NaN); Resampling(s, s)(x, out=x) (input aliased with '
        'output) belongs to the aliasing properties C03/C10 and is not exercised here',
        'call histories: a call into an integer value type is compared only at grid points where the exact value is an integer; '
        'float32 / complex64 results must equal the IEEE round-to-nearest-even of the exact value (computed in TLA+), float64 results '
        'the exact value (27 significant bits)']
    import time
    T = [time.time()]
    phase = {}

    def lap(name):
        T.append(time.time())
        phase[name] = round(T[-1] - T[-2], 1)
    work = ctx.work
    big = '0' if quick else '1'
    jobs = []
    for m in MODES:
        out = os.path.join(work, 'exp_%s.ndjson' % m)
        if m in ('interp2', 'interp3'):
            # large modes: invariants with several workers, export (one JSON line per state) separately with one worker
            jobs.append(('export-' + m, 'MC_Interp_export.cfg', {'INTERP_MODE': m, 'INTERP_BIG': big, 'OUT_FILE': out}, 1))
            jobs.append(('model-' + m, 'MC_Interp_check.cfg', {'INTERP_MODE': m, 'INTERP_BIG': big, 'OUT_FILE': os.devnull}, 4))
        else:
            jobs.append(('model+export-' + m, 'MC_Interp_both.cfg', {'INTERP_MODE': m, 'INTERP_BIG': big, 'OUT_FILE': out}, 1))
    jobs.append(('nonvacuity', 'MC_Interp_bogus.cfg', {'INTERP_MODE': 'interp1', 'INTERP_BIG': '0', 'OUT_FILE': os.devnull}, 1))
    # call histories on one function object: all sequences of <= 3 (quick: the decorated core 3, the rest 2) calls
    HSETS = [('deco-core', '3', 'all'), ('deco-rest', '2' if quick else '3', 'all'), ('other', '2' if quick else '3', 'all'),
             ('view', '3', 'few' if quick else 'all'), ('single' if quick else 'single-all', '3', 'two' if quick else 'few')]
    for hs, hl, hd in HSETS:
        jobs.append(('hist-' + hs, 'MC_SampleHist_check.cfg',
                     {'HIST_SET': hs, 'HIST_LEN': hl, 'HIST_DTS': hd, 'OUT_FILE': os.path.join(work, 'exp_hist-%s.ndjson' % hs)}, 1))
    jobs.append(('nonvacuity-hist', 'MC_SampleHist_bogus.cfg',
                 {'HIST_SET': 'deco-core', 'HIST_LEN': '2', 'HIST_DTS': 'all', 'OUT_FILE': os.devnull}, 1))

    def go(j):
        mod = 'MC_SampleHist.tla' if 'hist' in j[0] else 'MC_Interp.tla'
        return j[0], run_tlc(mod, j[1], work, env=j[2], workers=j[3], timeout=3000, heap='4g')
    with ThreadPoolExecutor(max_workers=8) as ex:
        results = list(ex.map(go, jobs))
    for name, res in results:
        if name.startswith('nonvacuity'):
            ctx.add_tlc(name, res, expect='any')
            if res.status != 'counterexample':
                raise MachineryError('self-test: the deliberately false invariant was not refuted')
        else:
            ctx.add_tlc(name, res)

    lap('tlc_model_and_export')

    # ---- 2. replay ----
    tasks = []
    nlines = {}
    for m in MODES:
        with open(os.path.join(work, 'exp_%s.ndjson' % m)) as f:
            cases = [json.loads(l) for l in f if l.strip()]
        if not cases:
            raise MachineryError('empty export for mode ' + m)
        nlines[m] = len(cases)
        if m.startswith('interp'):
            groups = {}
            for c in cases:
                groups.setdefault(json.dumps(c['cfg'], sort_keys=True), []).append(c)
            keys = sorted(groups)
            step = 8
            for i in range(0, len(keys), step):
                tasks.append((m, [c for k in keys[i:i + step] for c in groups[k]], ctx.seed + i, not quick))
        else:
            step = 10
            for i in range(0, len(cases), step):
                tasks.append((m, cases[i:i + step], ctx.seed + i, not quick))
    for hs, hl, hd in HSETS:
        with open(os.path.join(work, 'exp_hist-%s.ndjson' % hs)) as f:
            cases = [json.loads(l) for l in sorted(set(l for l in f if l.strip()))]       # (TLC may write a state twice)
        if not cases:
            raise MachineryError('empty export for history set ' + hs)
        nlines['hist-' + hs] = len(cases)
        if quick:
            # quick tier replays a structural subset of the length-3 behaviours: the middle step is an in-place call (any value
            # type) or an overwrite; every (first call, last call) pair stays covered. TLC still enumerates and checks all of them.
            cases = [c for c in cases if len(c['hist']) < 3 or c['hist'][1]['kind'] in ('mutate', 'inplace')]
            if hs == 'single':      # singleton-axis objects: call - overwrite - call is the pattern that matters
                cases = [c for c in cases if c['hist'][1]['kind'] == 'mutate']
        nlines['hist-' + hs + '-replayed'] = len(cases)
        for i in range(0, len(cases), 400):
            tasks.append(('hist', cases[i:i + 400], ctx.seed + i // 400, not quick))
    rnd = random.Random(ctx.seed * 7919 + 15)
    rplans = beyond_plans() + random_plans(rnd, 2500 if quick else 25000)
    # Results are STREAMED: every event is written to its trace chunk as soon as it arrives, only a light record
    # (plan, python verdict, position in the chunk) stays in memory; events are re-read from the chunk when TLC rejects them.
    light = []                 # id -> (plan, cl_is_bad or None, chunk index, line in chunk)
    paths, cur_f, cur_n, cur_w = [], None, 0, 0
    points = 0
    fam_counts = {}
    sampled = set()
    nreplayed = 0

    def take(rec, from_export):
        nonlocal cur_f, cur_n, cur_w, points
        ev, plan, cl, nontriv = rec
        i = len(light)
        ev['id'] = i
        w = weight_of(ev)
        points += w
        if cur_f is None or cur_w + w > 12000 or cur_n >= 2500:
            if cur_f is not None:
                cur_f.close()
            paths.append(os.path.join(work, 'trace_%d.ndjson' % len(paths)))
            cur_f, cur_n, cur_w = open(paths[-1], 'w'), 0, 0
        cur_f.write(json.dumps(clean(ev)) + '\n')
        cur_n += 1
        cur_w += w
        light.append((plan, None if cl is None else bool(cl), len(paths) - 1, cur_n))
        ctx.count([{k: v for k, v in clean(ev).items() if k not in ('obs', 'err', 'id')} if ev['kind'] != 'history' else
                   [ev['fn'], ev['cvs'], [(c['kind'], c['dt']) for c in ev['calls']]], plan['conc']], nontriv)
        seen = set()
        failing = [it[1] for it in (cl or []) if isinstance(it, tuple)]
        for item in (cl or []):
            clause, kk = item if isinstance(item, tuple) else (item, 0)
            sig = signature(ev, plan, clause, kk, failing)
            if dumps(sig, sort_keys=True) in seen:
                continue
            seen.add(dumps(sig, sort_keys=True))
            report(ctx, fam_counts, sig,
                   {'stage': 'replay', 'event': clean(ev), 'plan': plan, 'errmsg': ev.get('_errmsg', ''),
                    'expected_by_spec': ev.get('_expected')})
        if (ev['kind'] not in sampled and not cl and nontriv and not ev['err'] and i % 11 == 0 and ev['kind'] != 'history'
                and len(dumps(ev)) < 3000):
            sampled.add(ev['kind'])
            ctx.sample({'event': clean(ev), 'concretisation': plan['conc']})

    with mp.get_context('fork').Pool(14) as pool:
        rit = pool.imap(random_task, [rplans[i:i + 250] for i in range(0, len(rplans), 250)], chunksize=1)
        for ch in pool.imap(replay_task, tasks, chunksize=1):
            for rec in ch:
                take(rec, True)
        nreplayed = len(light)
        for ch in rit:
            for rec in ch:
                take(rec, False)
    if cur_f is not None:
        cur_f.close()
    ctx.extra['exported_states'] = nlines
    ctx.extra['replayed_calls'] = nreplayed
    ctx.extra['random_driver_calls'] = len(light) - nreplayed
    ctx.extra['values_compared'] = points
    ctx.traces += len(light)

    lap('replay_and_random_driver')

    # ---- 3. TLC validates every recorded event ----
    def load_event(ci, line):
        with open(paths[ci]) as f:
            for n, l in enumerate(f, start=1):
                if n == line:
                    return json.loads(l)
        raise MachineryError('event not found in its trace chunk')

    def val(p):
        return p, run_tlc('Trace_Interp.tla', 'Trace_Interp.cfg', work, env={'TRACE_FILE': p}, workers=1, timeout=3000, heap='3g')
    with ThreadPoolExecutor(max_workers=14) as ex:
        vres = list(ex.map(val, paths))
    nfail = 0
    tlc_bad = set()
    for p, res in vres:
        ctx.add_tlc('trace-' + os.path.basename(p), res)
        for _line, eid, ctext in parse_fails(res.output):
            nfail += 1
            tlc_bad.add(eid)
            plan, clb, ci, line = light[eid]
            ev = load_event(ci, line)
            if ev['id'] != eid:
                raise MachineryError('trace chunk bookkeeping broken')
            pairs = re.findall(r'<<\s*"([\w-]+)"\s*,\s*(\d+)\s*>>', ctext)
            if not pairs:
                raise MachineryError('unparsable FAIL clauses from TLC: %s' % ctext[:200])
            if ev['kind'] == 'history':
                names = sorted(set((c, int(k)) for c, k in pairs))
            else:
                names = sorted(set((c, 0) for c, k in pairs))
            if any(c in ('precondition', 'unknown-kind') for c, _ in names):
                raise MachineryError('driver produced an inadmissible event: %s' % dumps(ev)[:300])
            seen = set()
            for clause, kk in names:
                sig = signature(ev, plan, clause, kk, [k2 for _, k2 in names])
                if dumps(sig, sort_keys=True) in seen:
                    continue
                seen.add(dumps(sig, sort_keys=True))
                report(ctx, fam_counts, sig,
                       {'stage': 'trace', 'event': ev, 'plan': plan, 'errmsg': '', 'tlc_clauses': ctext[:600]})
    # both directions judge the replayed exported cases with the same layer-A operators: they must agree event by event
    for i, (plan, clb, ci, line) in enumerate(light):
        if clb is not None and clb != (i in tlc_bad):
            raise MachineryError('replay comparison and TLC trace validation disagree on event %d: %s' % (i, dumps(load_event(ci, line))[:300]))
    lap('tlc_trace_validation')
    ctx.extra['phase_s'] = phase
    ctx.extra['violating_cases_by_family'] = fam_counts
    ctx.extra['trace_events_validated_by_tlc'] = len(light)
    ctx.extra['trace_events_rejected_by_tlc'] = nfail
    ctx.extra['unsupported_not_claimed'] = ['per_axis_interpolator / linear_interpolator on integer data raise UFuncTypeError '
                                            '(NumPy refuses float->int in-place accumulation)']
    ctx.extra['history_bounds'] = ('SampleHist: 15 function objects (2 decorated conventions x fine / 2-d / int-first functions; native, dual, '
                                   'in-place, object; view-returning callables) x every behaviour of <= 3 steps over {in-place, out-of-place, '
                                   'element()} x {int, f32, f64, c64, c128} + overwrite-previous-result; quick: length 3 for the decorated core '
                                   'and the view objects (3 value types), length 2 otherwise, replay of the length-3 behaviours whose middle '
                                   'step is an in-place call or an overwrite; thorough: everything at length 3')
    ctx.extra['bounds'] = ('TLC: 8 one-d grids of 2-4 (non-)uniform dyadic nodes x quarter lattice from min-1 to max+1 (+ midpoints, nodes); '
                           '2-d: 9 grid pairs x 4 scheme mixtures x 7x7 (thorough 9x9) points; 3-d: 8 grid triples x 8 mixtures x 4^3 (thorough 5^3) points; '
                           '8 abstract functions on 29 grids; 5 uniform discretisations of [0,1] (and 3 two-d ones) for Resampling / '
                           'linear_deform with 5 displacement patterns. Random driver: 1-3 d, 2-6 random dyadic nodes per axis, random data, '
                           'points on a 1/16 lattice incl. ties and the zero-extension zone, random integer polynomials of degree <= 2')
    ctx.exhaustive = True


def replay(body):
    d = body['detail']
    old = d['event']
    plan = dict(d['plan'])
    if plan['k'] == 'sample':
        plan.update(cvs=old['cvs'], poly=old['poly'])
        ev = execute(plan)
    elif plan['k'] == 'hist':
        plan.update(obj={'fn': old['fn'], 'cvs': old['cvs'], 'conv': plan['conc']['conv']},
                    hist=[{'kind': c['kind'], 'dt': c['dt']} for c in old['calls']])
        ev = execute(plan)
        ev['obs'] = [c['obs'] for c in ev['calls']]
        old = dict(old, obs=[c['obs'] for c in old['calls']])
        print('behaviour:', [(c['kind'], c['dt'], c['err']) for c in old['calls']], '(all calls on ONE function object)')
    elif plan['k'] == 'interp':
        pts = None
        xs = old['xs']
        # the mesh forms need the per-axis point lists: recover them from the product
        pts = [sorted({json.dumps(x[k]) for x in xs}, key=lambda s: Fraction(*json.loads(s))) for k in range(len(old['cvs']))]
        pts = [[json.loads(s) for s in p] for p in pts]
        f = old.get('f') or [[[0, 1], [0, 1]]] * int(np.prod([len(c) for c in old['cvs']]))
        sch = old.get('schemes') or plan.get('schemes') or ['nearest'] * len(old['cvs'])
        plan.update(cvs=old['cvs'], f=f, schemes=sch, xs=xs, pts=pts)
        ev = execute(plan)
    else:
        print('replay of Resampling / deform cases: re-run through the interpolator the operator rides on')
        sch = old['schemes']
        pts = [[x[k] for x in old['xs']] for k in range(len(old['cvs']))]
        plan2 = {'k': 'interp', 'cvs': old['cvs'], 'f': old['f'], 'schemes': sch, 'xs': old['xs'], 'pts': pts, 'D': plan['D'],
                 'conc': {'which': 'per_axis', 'form': 'array', 'dtype': plan['conc']['dtype']}}
        ev = execute(plan2)
    print('case     :', dumps({k: v for k, v in old.items() if k not in ('obs',)})[:900])
    print('concrete :', dumps(plan['conc']))
    if d.get('expected_by_spec') is not None:
        print('expected (layer A):', dumps(d['expected_by_spec'])[:500])
    print('observed then:', dumps(old.get('obs'))[:500], old.get('err'), d.get('errmsg'))
    print('observed now :', dumps(ev['obs'])[:500], ev['err'], ev.get('_errmsg', ''))
    print('failed clauses:', d.get('tlc_clauses') or body['signature'].get('clause'))
    same = ev['obs'] == old.get('obs') and ev['err'] == old.get('err')
    print('REPRODUCED' if same else 'NOT-REPRODUCED')
    return 1 if same else 0

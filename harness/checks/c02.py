"""C02 - inner product, norm and distance obey their axioms and the documented weighting.

Pipeline (DESIGN 4/C02):
  1. TLC, MC_Space_axioms: the laws of C02 as invariants of the layer-A reference (SpaceSem) on every
     enumerated case, the sanity lemmas (boundary fractions = cell-size quadrature, ||1||^p = volume,
     tiling), and the layer-C model of the anchored code (WeightingImpl) against layer A.
  2. TLC, MC_Space_export: every case (space descriptor, x, y, z, a) with the layer-A expectations is
     written as a JSON line and replayed on real ODL spaces under concretisations the specification
     abstracts from (dtype, C/F/strided layout of data and weights, 1-d / 2-d shape, sizes beyond the
     BLAS thresholds by periodic tiling, power-space form).
  3. Every replayed case and seeded random cases (random descriptors of the same families, random lattice
     vectors) are logged as events and validated by TLC against Trace_Space: the values against layer A
     (recomputed by TLC) AND the axioms on the observed values.
"""
import json
import os
import random
import time
from concurrent.futures import ThreadPoolExecutor
from multiprocessing import Pool

import numpy as np

from ..tlc import run_tlc
from ..common import dumps, MachineryError
from .. import c02_lib as L

GROUPS = ['tensor', 'small', 'custom', 'discr1', 'discr2', 'pspace']
NV_QUICK = {'tensor': 6, 'small': 3, 'custom': 6, 'discr1': 3, 'discr2': 3, 'pspace': 3}
NV_THOROUGH = {'tensor': 10, 'small': 4, 'custom': 10, 'discr1': 6, 'discr2': 4, 'pspace': 6}
DTYPES = {'R': ['float64', 'float32', 'int64'], 'C': ['complex128', 'complex64']}


# ------------------------------------------------------------------ concretisations
def tiles_for(n):
    """1, about 100 entries, the largest size <= 50 000 (THRESHOLD_MEDIUM itself for n = 2), just above it."""
    n = max(n, 1)
    return [1, (101 // n) + 1, 50000 // n, (50001 // n) + 1]


def _mix(k):
    """Deterministic spread of the secondary axes (weighting form, exponent form, construction route,
    call spelling) over the list position k."""
    return {'wform': ('value', 'instance', 'list')[k % 3], 'expform': ('float', 'int')[(k // 2) % 2],
            'route': ('direct', 'direct', 'astype', 'field')[(k // 3) % 4], 'spell': (k + k // 4) % 2}


def variants(group, fld, desc, seed):
    """Ordered list of concretisation choices for a case family; essential ones first."""
    dts = DTYPES[fld]
    f64, f32 = dts[0], dts[1]
    ints = dts[2:]
    V = L.Variant
    out, rest = [], []
    if group == 'tensor':
        t1, t100, tmid, tbig = tiles_for(desc['n'])
        ess = [(f64, t1, '1d', 'C', 'C', 'C'), (f64, tbig, '1d', 'C', 'C', 'C'), (f64, tbig, '2d', 'F', 'F', 'F'),
               (f32, tbig, '1d', 'C', 'C', 'C'), (f64, t100, '2d', 'F', 'C', 'C'), (f64, t100, '1d', 'S', 'C', 'C'),
               (f64, tmid, '1d', 'C', 'C', 'C'), (f32, t1, '2d', 'F', 'F', 'C'), (f64, tbig, '2d', 'C', 'F', 'F'),
               (f32, t100, '2d', 'F', 'F', 'F'), (f64, tmid, '2d', 'F', 'F', 'C'), (f64, tbig, '1d', 'S', 'S', 'C'),
               (f32, tbig, '2d', 'F', 'F', 'F'), (f64, t1, '2d', 'F', 'F', 'F'), (f32, tmid, '1d', 'C', 'C', 'C')]
        ess += [(d, t, sh, lx, 'C', lw) for d in ints for t, sh, lx, lw in
                ((t1, '1d', 'C', 'C'), (t100, '2d', 'F', 'F'), (tbig, '1d', 'C', 'C'), (t1, '2d', 'F', 'C'))]
        out = [V(*e) for e in ess]
        for dt in dts:
            for t in (t1, t100, tmid, tbig):
                for sh in ('1d', '2d'):
                    for lx in ('C', 'F', 'S'):
                        for ly in ('C', 'F', 'S'):
                            for lw in ('C', 'F'):
                                if sh == '1d' and ('F' in (lx, ly) or lw == 'F'):
                                    continue
                                e = (dt, t, sh, lx, ly, lw)
                                if e not in ess:
                                    rest.append(V(*e))
    elif group == 'small':
        out = [V(dt, 1, sh, lx, lx, 'C') for dt in dts for sh, lx in (('1d', 'C'), ('2d', 'F'), ('1d', 'S'))]
    elif group == 'custom':
        out = [V(dt, 1, sh, lx, lx, 'C') for dt in dts[:2] for sh, lx in (('1d', 'C'), ('1d', 'S'), ('2d', 'F'))]
    elif group == 'discr1':
        out = [V(dt, 1, '1d', lx, ly, 'C') for dt in dts for lx, ly in (('C', 'C'), ('S', 'C'), ('C', 'S'))]
    elif group == 'discr2':
        out = [V(dt, 1, '2d', lx, ly, 'C') for dt in dts
               for lx, ly in (('C', 'C'), ('F', 'F'), ('F', 'C'), ('S', 'F'), ('C', 'S'))]
    else:
        out = [V(dt, 1, '1d', lx, lx, 'C', power) for dt in dts for power in (True, False)
               for lx in ('C', 'S')]
    rnd = random.Random(seed * 31 + 7)
    rnd.shuffle(rest)
    res = out + rest
    # secondary axes: deterministic in the list position, so that every family meets every value
    return [v.with_(**_mix(k)) for k, v in enumerate(res)]


def nentries(desc, var):
    if desc['kind'] == 'tensor':
        return desc['n'] * var.tile
    if desc['kind'] == 'pspace':
        return sum(nentries(d, var) for d in desc['parts'])
    return desc['n']


def _all_q(o, pred):
    ok = [True]
    L._walk_q(o, lambda v: ok.__setitem__(0, ok[0] and pred(v)))
    return ok[0]


def int_ok(case):
    """Integer dtype: every entry, the scalar and every array weight must be an integer (true division and
    fractional data in integer spaces follow NumPy's casting rules and are outside the claim)."""
    def weights_int(d):
        if d['kind'] == 'pspace':
            return all(weights_int(s) for s in d['parts'])
        return d['w']['k'] != 'array' or _all_q(d['w']['arr'], lambda v: v[1] == 1)
    return _all_q([case['x'], case['y'], case['z'], case['a']], lambda v: v[1] == 1) and weights_int(case['spc'])


def admissible(case, var, D, fld):
    """Replace a concretisation that cannot represent the case exactly by the float64 / complex128 one."""
    name = var.dtype.name
    if name in ('float32', 'complex64') and not L.f32_ok(case, D, nentries(case['spc'], var)):
        return var.with_(dtype=DTYPES[fld][0])
    if name == 'int64' and not int_ok(case):
        return var.with_(dtype=DTYPES[fld][0])
    return var


_spaces = {}


def get_space(desc, var):
    key = (json.dumps(desc, sort_keys=True), var.space_key())
    if key not in _spaces:
        if len(_spaces) > 3000:
            _spaces.clear()
        _spaces[key] = L.build_space(desc, var)
    return _spaces[key]


def execute(case, var, D=None):
    """One abstract case on one concretisation -> (event, info)."""
    desc = case['spc']
    if D is None:
        D, _ = L.case_lattice(case)
    space = get_space(desc, var)
    raw = L.observe_raw(space, desc, case, var)
    obs = L.project(raw, case, var, D)
    ev = {'spc': desc, 'pw': case['pw'], 'D': D, 'x': case['x'], 'y': case['y'], 'z': case['z'], 'a': case['a'],
          'xzero': case['xzero'], 'o': obs, 'qn': L.quantised(raw)}
    info = {'D': D, 'raised': {n: v[1] for n, v in raw.items() if v[0] != 'ok'},
            'raw': {n: (repr(v[1]) if v[0] == 'ok' else None) for n, v in raw.items()}}
    return ev, info


def signature(desc, feat, name, clause, vkey=None):
    f = sorted(feat)
    if f:       # a cell the specification names: the family is the cell
        sig = {'kind': desc['kind'], 'feature': f[0], 'clause': clause}
    else:
        sig = {'kind': L.kinds(desc), 'w': desc['w']['k'], 'p': L.pclass(desc),
               'feature': '-', 'obs': L.obs_class(name), 'clause': clause}
    if vkey is not None and np.dtype(vkey['dtype']).kind == 'i':
        # integer spaces are their own (coarse) families: leaf kind x level x raised / wrong
        leaf = L.kinds(desc)
        leaf = leaf[7:-1] if leaf.startswith('pspace(') else leaf
        sig = {'dtype': 'int', 'leaf': leaf, 'level': 'pspace' if desc['kind'] == 'pspace' else 'leaf',
               'feature': f[0] if f else '-', 'clause': 'raised' if clause == 'raised' else 'value-or-axiom'}
    return sig


def compare(case, ev):
    """Exported layer-A expectation vs projected observation -> list of (name, clause)."""
    bad = []
    for name in L.OBS:
        exp = case['e'][name]
        if exp['s'] != 'ok':
            continue
        ob = ev['o'][name]
        if ob['s'] == 'raised':
            bad.append((name, 'raised'))
        elif ob['s'] == 'off':
            bad.append((name, 'offlattice'))
        elif ob['v'] != exp['v']:
            bad.append((name, 'value'))
    return bad


def nontrivial(case):
    e = case['e']
    vals = [e[n]['v'] for n in ('ixy', 'nx', 'dxy') if e[n]['s'] == 'ok']
    return bool(vals) and any(v != L.ZERO_C for v in vals) and case['x'] != case['y']


# ------------------------------------------------------------------ replay worker
def _replay_chunk(args):
    group, lines, per_case, seed, start = args
    out = []
    counters = {}
    for ln, line in enumerate(lines):
        case = json.loads(line)
        desc = case['spc']
        fld = desc['fld']
        vs = variants(group, fld, desc, seed)
        D, _ = L.case_lattice(case)
        fam = (json.dumps(desc['w'], sort_keys=True), desc['p'], desc['n'])
        for rep in range(per_case):
            k = counters.get(fam, seed + start)
            counters[fam] = k + 1
            var = vs[k % len(vs)]
            var = admissible(case, var, D, fld)
            try:
                ev, info = execute(case, var, D)
            except Exception as ex:           # cannot even set the case up: machinery, not a verdict
                out.append(('error', '%s: %s | %s %s' % (type(ex).__name__, ex, dumps(desc), var.key())))
                continue
            out.append(('event', case, var.key(), ev, info, compare(case, ev)))
    return out


# ------------------------------------------------------------------ random driver
def random_case(rnd, fld):
    """A random descriptor of one of the enumerated families + random lattice vectors (concretisation
    and values are random; the families are the ones the deterministic enumeration covers)."""
    Q = lambda n, d=1: [n, d]
    R = lambda v: [list(v), [0, 1]]

    def rweight():
        return rnd.choice([Q(1), Q(2), Q(1, 2), Q(3), Q(1, 4), Q(5)])

    def rexp():
        return rnd.choice([1, 2, 2, 3, L.PINF])

    def tensor(n, p):
        k = rnd.choice(['none', 'const', 'array'])
        w = {'k': k, 'c': rweight() if k == 'const' else Q(1), 'arr': [rweight() for _ in range(n)] if k == 'array' else [],
             'tag': ''}
        return {'kind': 'tensor', 'fld': fld, 'n': n, 'p': p, 'w': w, 'axes': [], 'parts': []}

    def axis(n):
        from fractions import Fraction as F
        l, r = (0, 0) if n == 1 else rnd.choice([(0, 0), (1, 0), (0, 1), (1, 1)])
        h = rnd.choice([F(1, 2), F(1), F(2), F(1, 4), F(3, 2)])
        a = rnd.choice([F(0), F(-1), F(1, 2), F(-3)])
        b = a + h * F(2 * n - l - r, 2)
        return {'n': n, 'min': [a.numerator, a.denominator], 'max': [b.numerator, b.denominator], 'l': l, 'r': r}

    def discr(shape, p):
        n = 1
        for s in shape:
            n *= s
        return {'kind': 'discr', 'fld': fld, 'n': n, 'p': p,
                'w': {'k': 'none', 'c': Q(1), 'arr': [], 'tag': ''}, 'axes': [axis(s) for s in shape], 'parts': []}

    def pspace(parts, p):
        k = rnd.choice(['none', 'const', 'array'])
        w = {'k': k, 'c': rweight() if k == 'const' else Q(1),
             'arr': [rweight() for _ in parts] if k == 'array' else [], 'tag': ''}
        return {'kind': 'pspace', 'fld': fld, 'n': 0, 'p': p, 'w': w, 'axes': [], 'parts': parts}

    fam = rnd.choice(['tensor', 'tensor', 'discr1', 'discr2', 'pspace', 'pspace', 'nested', 'custom'])
    p = rexp()
    if fam == 'tensor':
        desc, group = tensor(rnd.choice([2, 3, 4, 5]), p), 'tensor'
    elif fam == 'custom':
        desc = tensor(rnd.choice([2, 3, 4]), 2)
        desc['w'] = {'k': 'custom', 'c': Q(1), 'arr': [], 'tag': rnd.choice(['inner:iw', 'norm:l1x2', 'dist:l1'])}
        group = 'custom'
    elif fam == 'discr1':
        desc, group = discr([rnd.choice([1, 2, 3, 4, 5])], p), 'discr1'
    elif fam == 'discr2':
        desc, group = discr([rnd.choice([1, 2, 3]), rnd.choice([2, 3])], p), 'discr2'
    elif fam == 'pspace':
        q = p if rnd.random() < 0.7 else rexp()
        if rnd.random() < 0.3:
            part = discr([rnd.choice([2, 3])], q)
            parts = [part, json.loads(json.dumps(part))]
        elif rnd.random() < 0.5:
            part = tensor(rnd.choice([2, 3]), q)
            parts = [part] * rnd.choice([2, 3])
        else:
            parts = [tensor(rnd.choice([1, 2, 3]), q) for _ in range(rnd.choice([2, 3]))]
        desc, group = pspace(parts, p), 'pspace'
    else:
        inner = pspace([tensor(2, p), tensor(rnd.choice([1, 2]), p)], p)
        desc, group = pspace([inner, tensor(rnd.choice([2, 3]), p)], p), 'pspace'

    if fld == 'R':
        alph = [R((v, 1)) for v in (0, 1, -1, 2, -2, 3, -3, 4)] + [R((1, 2)), R((-3, 2))]
        scal = [R((2, 1)), R((-1, 1)), R((1, 2)), R((0, 1)), R((-3, 1)), R((3, 2))]
    else:
        alph = [[[a, 1], [b, 1]] for a, b in ((0, 0), (1, 0), (0, 1), (3, 4), (-4, 3), (0, -2), (-6, -8), (2, 0), (5, 12), (-1, 0))]
        scal = [[[a, 1], [b, 1]] for a, b in ((0, 1), (2, 0), (0, -2), (3, 4), (-1, 0))] + [[[1, 2], [0, 1]]]

    def rvec(d):
        if d['kind'] == 'pspace':
            return [rvec(s) for s in d['parts']]
        return [rnd.choice(alph) for _ in range(d['n'])]

    x = rvec(desc)
    if rnd.random() < 0.05:
        x = _zero_like(x)
    y = rvec(desc)
    if rnd.random() < 0.1:
        y = json.loads(json.dumps(x))
    z = rvec(desc)
    a = rnd.choice(scal)
    pw = 2 if (desc['w']['k'] == 'custom' and desc['w']['tag'] == 'inner:iw') else (
        1 if desc['w']['k'] == 'custom' or desc['p'] == L.PINF else desc['p'])
    case = {'g': group, 'spc': desc, 'pw': pw, 'x': x, 'y': y, 'z': z, 'a': a, 'xzero': _is_zero(x), 'feat': None,
            'e': {}}
    return group, case


def _zero_like(v):
    if isinstance(v, list) and len(v) == 2 and isinstance(v[0], list) and len(v[0]) == 2 and isinstance(v[0][0], int):
        return [[0, 1], [0, 1]]
    return [_zero_like(t) for t in v]


def _is_zero(v):
    if isinstance(v, list) and len(v) == 2 and isinstance(v[0], list) and len(v[0]) == 2 and isinstance(v[0][0], int):
        return v == L.ZERO_C
    return all(_is_zero(t) for t in v)


def _random_chunk(args):
    seed, n, start = args
    rnd = random.Random(seed)
    out = []
    for k in range(n):
        fld = rnd.choice('RRC')
        for attempt in range(8):
            group, case = random_case(rnd, fld)
            desc = case['spc']
            D, mag = L.case_lattice(case)
            if D <= 1024 and L.magnitude_bound(case) * D < 8192:
                break                    # inside the lattice / 32-bit range the trace clauses work on
        else:
            continue
        vs = variants(group, fld, desc, seed)
        var = vs[rnd.randrange(len(vs))]
        if var.dtype.name in ('float32', 'complex64') and not L.f32_ok(case, D, nentries(desc, var),
                                                                       bound=L.magnitude_bound(case)):
            var = var.with_(dtype=DTYPES[fld][0])
        if var.dtype.name == 'int64':       # integer spaces: deterministic enumeration only (seed-robust families)
            var = var.with_(dtype=DTYPES[fld][0])
        try:
            ev, info = execute(case, var, D)
        except Exception as ex:
            out.append(('error', '%s: %s | %s %s' % (type(ex).__name__, ex, dumps(desc), var.key())))
            continue
        out.append(('event', case, var.key(), ev, info, []))
    return out


# ------------------------------------------------------------------ check
def run(ctx):
    quick = ctx.tier == 'quick'
    ctx.rule = ('abstract cases (space descriptor x vectors x, y, z x scalar a) enumerated and exported by TLC, '
                'each replayed under concretisations (dtype, data/weight layout C/F/strided, 1-d/2-d shape, tiled size '
                'regime, power-space form), plus seeded random descriptors/vectors of the same families; '
                'distinct = hash of (descriptor, x, y, dtype kind, size regime); non-trivial = x # y and at least one '
                'of inner(x,y), norm(x), dist(x,y) is defined and non-zero')
    ctx.assumptions += [
        'entries are small (Gaussian) integers / dyadics with rational modulus where an odd power of |.| is needed; '
        'norms and distances are compared through r -> r^p (max for p = inf), never as roots',
        'long vectors are k-fold periodic tilings; observed sums are divided by k before snapping (SpaceSem!TilingLemma, '
        'checked by TLC for k = 2, 3)',
        'discretised spaces: the documented default weighting only (weighting=None); for p = inf the norm is the plain '
        'maximum; explicit weightings on discretised spaces are outside the value clauses',
        'an inner product is claimed only where every level has exponent 2; for a product space over components with '
        'another exponent only norm/dist are claimed (documented formula sum_k w_k ||x_k||^p)',
        'triangle inequality for p = 3 on observed values is a quantised relation (2 quanta slack); '
        'float32/complex64 concretisations are used only where magnitudes x lattice denominator <= 2^14',
        'custom inner/norm/dist: fixed catalogue inner:iw, norm:l1x2, dist:l1 on tensor spaces',
        'concretisation axes beyond dtype/layout/size: weighting passed as value / Weighting instance / list, exponent as '
        'int / float, spaces built directly / via astype / via real_space, complex_space, element-level vs space-level '
        'calls and the transpose functional x.T(y) = <y, x>, rn / cn / tensor_space spellings, sizes 1, ~100, <= 50000, '
        '> 50000; zero-size and one-entry spaces are part of the universe (||0|| = 0 on the zero-size space)',
        'integer dtype is offered where entries, scalar and array weights are integers (fractional data / true division '
        'in integer spaces follow NumPy casting and are outside the claim); integer spaces are enumerated '
        'deterministically only (not by the random driver)']
    work = ctx.work
    nvs = NV_QUICK if quick else NV_THOROUGH
    big = '0' if quick else '1'

    # ---- 1. model runs + exports (parallel TLC processes) ----
    base = {'SP_FLD': 'RC', 'SP_BIG': big, 'SP_ALL': '0', 'OUT_FILE': os.devnull}
    for g in GROUPS:
        base['SP_NV_' + g.upper()] = nvs[g]
    jobs = [('axioms-all', 'MC_Space_axioms.cfg', dict(base, SP_GROUP='all'), 8)]
    # all vectors over the alphabet on the small tensor leaves (reference laws only)
    jobs.append(('axioms-allvectors-tensor2', 'MC_Space_axioms.cfg', dict(base, SP_GROUP='tensor2', SP_ALL='1'), 6))
    if not quick:     # all 125^2 pairs of real 3-vectors (the complex alphabet would be 216^2 pairs x 16 spaces)
        jobs.insert(0, ('axioms-allvectors-tensor3-real', 'MC_Space_axioms.cfg',
                        dict(base, SP_GROUP='tensor', SP_FLD='R', SP_ALL='1'), 8))
    exports = []
    for g in GROUPS:
        for fld in (['RC'] if g in ('tensor', 'custom', 'small') else ['R', 'C']):      # one worker each: split the long ones
            out = os.path.join(work, 'exp_%s_%s.ndjson' % (g, fld))
            exports.append((g, out))
            jobs.append(('export-%s-%s' % (g, fld), 'MC_Space_export.cfg',
                         dict(base, SP_GROUP=g, SP_FLD=fld, OUT_FILE=out), 1))

    def go(j):
        return j[0], run_tlc('MC_Space.tla', j[1], work, env=j[2], workers=j[3], timeout=3000)
    with ThreadPoolExecutor(max_workers=10) as ex:
        results = list(ex.map(go, jobs))
    for name, res in results:
        ctx.add_tlc(name, res)
    t_model = time.time()

    # ---- 2. replay of exported cases on real ODL (process pool); events are streamed into trace chunks ----
    per_case = 2 if quick else 3
    tasks = []
    for g, path in exports:
        with open(path) as f:
            lines = f.readlines()
        if not lines:
            raise MachineryError('empty export ' + os.path.basename(path))
        step = 150
        for s in range(0, len(lines), step):
            tasks.append((g, lines[s:s + step], per_case, ctx.seed, s // step))
        del lines
    nrand = 3000 if quick else 20000
    rtasks = [(ctx.seed * 1000003 + 17 * t, 250, t) for t in range(nrand // 250)]

    chunk = 2000
    files = []
    vkeys = []                        # per event: concretisation (the rest is re-read from the trace chunk if needed)
    state = {'f': None}
    sigcount = {}
    featstat = {}
    sampled = set()
    errors = []

    def emit(ev, vkey):
        eid = len(vkeys)
        if eid % chunk == 0:
            if state['f']:
                state['f'].close()
            files.append(os.path.join(work, 'trace_%d.ndjson' % (eid // chunk)))
            state['f'] = open(files[-1], 'w')
        e = dict(ev)
        e['id'] = eid
        e['tid'] = 0
        state['f'].write(json.dumps(e) + '\n')
        vkeys.append(vkey)

    def report(sig, detail):
        key = dumps(sig, sort_keys=True)
        sigcount[key] = sigcount.get(key, 0) + 1
        if sigcount[key] <= 3:        # a few replay files per family, all cases counted
            ctx.violation(sig, detail)

    with Pool(processes=14) as pool:
        for ch in pool.imap(_replay_chunk, tasks, chunksize=1):
            for item in ch:
                if item[0] == 'error':
                    errors.append(item[1])
                    continue
                _, case, vkey, ev, info, bad = item
                emit(ev, vkey)
                regime = 'small' if vkey['tile'] == 1 else ('medium' if vkey['tile'] < 1000 else 'large')
                ctx.count([case['spc'], case['x'], case['y'], np.dtype(vkey['dtype']).kind, regime], nontrivial(case))
                skey = (case['g'], regime)
                if nontrivial(case) and skey not in sampled and len(sampled) < 5 and \
                        (case['g'] != 'tensor' or regime == 'large') and case['e']['ixy']['s'] == 'ok' and not bad:
                    sampled.add(skey)
                    ctx.sample({'abstract': {k: case[k] for k in ('spc', 'x', 'y', 'a')}, 'concretisation': vkey,
                                'expected': {n: case['e'][n] for n in ('ixy', 'nx', 'dxy', 'none')},
                                'observed': {n: ev['o'][n] for n in ('ixy', 'nx', 'dxy', 'none')}})
                if case['feat']:
                    fk = '+'.join(sorted(case['feat']))
                    tot, nb = featstat.get(fk, (0, 0))
                    featstat[fk] = (tot + 1, nb + (1 if bad else 0))
                for name, clause in bad:
                    report(signature(case['spc'], case['feat'], name, clause, vkey),
                           {'stage': 'replay', 'case': case, 'concretisation': vkey, 'observable': name,
                            'expected': case['e'][name], 'observed': ev['o'][name], 'info': info})
        nreplayed = len(vkeys)
        for ch in pool.imap(_random_chunk, rtasks, chunksize=1):
            for item in ch:
                if item[0] == 'error':
                    errors.append(item[1])
                    continue
                _, case, vkey, ev, info, _ = item
                emit(ev, vkey)
                ctx.count([case['spc'], case['x'], case['y'], np.dtype(vkey['dtype']).kind], True)
    if state['f']:
        state['f'].close()
    for fk, (tot, nb) in sorted(featstat.items()):
        if nb == 0:
            ctx.drift_note('layer C (WeightingImpl) predicts deviations in cell %s; the real code agreed with layer A '
                           'on all %d cases of that cell' % (fk, tot))
    if errors:
        ctx.machinery.append('cases that could not be set up: %d, first: %s' % (len(errors), errors[0]))
        raise MachineryError('case set-up failed: ' + errors[0])
    nevents = len(vkeys)
    ctx.traces += nevents
    t_replay = time.time()

    # ---- 3. TLC trace validation (chunks, in parallel) ----
    def val(p):
        return p, run_tlc('Trace_Space.tla', 'Trace_Space.cfg', work, workers=1, timeout=3000, heap='2g',
                          env={'TRACE_FILE': p, 'JAVA_TOOL_OPTIONS': '-XX:ParallelGCThreads=2'})
    nfail = 0
    with ThreadPoolExecutor(max_workers=12) as ex:
        for p, res in ex.map(val, files):
            ctx.add_tlc('trace-' + os.path.basename(p), res)
            recs = [json.loads(json.loads(line)[5:]) for line in res.output.splitlines() if line.startswith('"FAIL ')]
            res.output = ''
            if not recs:
                continue
            with open(p) as f:
                lines = f.readlines()
            for rec in recs:
                nfail += 1
                ev = json.loads(lines[rec['id'] % chunk])
                if ev['id'] != rec['id']:
                    raise MachineryError('trace chunk %s out of step' % p)
                vkey = vkeys[rec['id']]
                for clause, name in sorted(set(map(tuple, rec['bad']))):
                    report(signature(ev['spc'], rec['feat'], name, clause, vkey),
                           {'stage': 'trace', 'case': {k: ev[k] for k in ('spc', 'pw', 'x', 'y', 'z', 'a', 'xzero')},
                            'concretisation': vkey, 'observable': name, 'observed': ev['o'], 'qn': ev['qn'],
                            'info': {'D': ev['D']}, 'tlc_clauses': rec['bad']})
    ctx.extra['phase_wall_s'] = {'model+export': round(t_model - ctx.t0, 1), 'replay+random': round(t_replay - t_model, 1),
                                 'trace-validation': round(time.time() - t_replay, 1)}
    ctx.extra['cases_replayed'] = nreplayed
    ctx.extra['random_cases'] = nevents - nreplayed
    ctx.extra['trace_events_validated_by_tlc'] = nevents
    ctx.extra['trace_events_rejected_by_tlc'] = nfail
    ctx.extra['violating_cases_per_family'] = {k: v for k, v in sorted(sigcount.items())}
    ctx.exhaustive = True     # every exported case of the declared universes is replayed


def replay(body):
    d = body['detail']
    case = d['case']
    var = L.Variant.from_key(d['concretisation'])
    D = d['info']['D']
    case.setdefault('e', {})
    ev, info = execute(case, var, D)
    name = d['observable']
    print('space    :', dumps(case['spc']))
    print('concrete :', var.key())
    print('x, y, a  :', dumps(case['x']), dumps(case['y']), dumps(case['a']))
    if d['stage'] == 'replay':
        exp = d['expected']
        ob = ev['o'][name]
        print('observable %s: expected %s observed %s raw %s %s' % (name, dumps(exp), dumps(ob), info['raw'].get(name),
                                                                   info['raised'].get(name, '')))
        bad = ob['s'] != 'ok' or ob['v'] != exp['v']
    else:
        print('TLC clauses then:', d.get('tlc_clauses'))
        print('observed now    :', dumps(ev['o']))
        bad = ev['o'] == d['observed']
    print('REPRODUCED' if bad else 'NOT-REPRODUCED')
    return 1 if bad else 0

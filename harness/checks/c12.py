"""C12 - solvers decrease what they promise to decrease and converge to optimality.

Pipeline (DESIGN 4/C12):
  1. TLC, SolverMachine, exact in Q over the instance catalogue: CG - energy-norm error strictly decreases
     and is 0 after dim steps (A positive definite by Sylvester, A sol = b certified); CGN, Landweber - residual
     never increases; Kaczmarz - distance to a solution of a consistent system never increases; steepest
     descent with Armijo backtracking (tau = 1/2) - objective strictly decreases; power iteration - estimate^4
     <= lam_max(A^T A)^2 (lam_max certified root-free: lam I - A^T A PSD and singular); non-smooth solvers
     (pdhg, admm_linearized, douglas_rachford_pd, forward_backward_pd, proximal_gradient): every KKT pair TLC
     finds by sub-gradient inclusion over the lattice is a fixed point of one iteration (for DR: of its lifted
     state; for forward-backward also of the as-coded variant), fixed points of proximal gradient are KKT
     points, and Fejer monotonicity of pdhg / forward-backward / proximal gradient in their own metric.
  2. TLC exports every instance (exact iterates with D_k, KKT pairs, the KKT pairs from which a real call can
     be started through the API); each is replayed on REAL ODL.
  3. Random instances beyond the catalogue (well- and ill-conditioned SPD matrices, consistent systems,
     least-squares problems, constructed lattice KKT pairs, random operators for the power method); all
     observations are validated by Trace_SolverMachine (relation from the spec, numbers from the code).

Alarm discipline: VIOLATION only for per-step monotonicity of CG / CGN / Landweber / Kaczmarz / backtracking
steepest descent, CG exact after dim steps, the fixed-point law, convergence towards a KKT point
(kkt_N <= kkt_0 / 10) and the power-method bound.  Agreement with textbook iterates: drift only.
"""
import json
import os
import random
import zlib
from concurrent.futures import ThreadPoolExecutor
from fractions import Fraction

import numpy as np
import odl

from ..tlc import run_tlc
from ..common import MachineryError, dumps
from .. import solver_lib as SL
from .c11 import load_export, tlc_env, validate_events, snapped_its, drift_add, drift_flush

S = odl.solvers
KKT_SOLVERS = ['pdhg', 'admm', 'dr', 'fb', 'pg']
MONO_QTY = {'cg': 'energy-norm error', 'cgn': 'residual', 'landweber': 'residual',
            'kaczmarz': 'distance to solution', 'sdbt': 'objective',
            # anchored (smooth/newton.py, smooth/nonlinear_cg.py) but not named by the statement: drift only
            'bfgs': 'objective', 'nlcg': 'objective', 'newton': 'objective'}
DRIFT_ONLY = ('bfgs', 'nlcg', 'newton')
SL.REALNAME.update({'bfgs': 'bfgs_method+BacktrackingLineSearch', 'nlcg': 'conjugate_gradient_nonlinear+BacktrackingLineSearch',
                    'newton': 'newtons_method+BacktrackingLineSearch'})


def sig_of(solver, clause, **kw):
    d = {'solver': SL.REALNAME.get(solver, solver), 'clause': clause}
    d.update(kw)
    return d


def strongly_convex(inst):
    return any(fr['k'] == 'L2sq' for fr in [inst['f'], inst['h']] + list(inst['gs']))


def pclass(inst):
    """Problem class of a non-smooth instance (family-level): without any strongly convex term the problem is a
    saddle problem whose solvers rely on their extrapolation / relaxation steps."""
    return 'strongly-convex' if strongly_convex(inst) else 'saddle-no-strong-convexity'


def tight(M):
    """L^T L (or L L^T) is a multiple of the identity: condition number 1 (exact on integer matrices)."""
    M = np.asarray(M, dtype=float)
    G = M.T.dot(M) if M.shape[0] >= M.shape[1] else M.dot(M.T)
    return G[0, 0] > 0 and np.array_equal(G, G[0, 0] * np.eye(G.shape[0]))


def well_conditioned(inst):
    """The class on which 50 iterations must already reduce the KKT residual tenfold: a strongly convex term,
    one operator with condition number 1, no under-relaxation."""
    return strongly_convex(inst) and len(inst['Ls']) == 1 and tight(SL.mat(inst['Ls'][0])) and SL.qf(inst['th']) == 1.0


MIN_KKT0 = 1e-3      # a start that is (numerically) optimal already is outside the scenario


# ------------------------------------------------------------------ monotone quantities (numbers from the code)
def quantity(kind, A, b, sol, x):
    """The quantity solver `kind` promises not to increase, evaluated at iterate x (float)."""
    if kind == 'cg':
        e = x - sol
        return float(np.sqrt(max(e.dot(A.dot(e)), 0.0)))
    if kind in ('cgn', 'landweber'):
        return float(np.linalg.norm(A.dot(x) - b))
    if kind == 'kaczmarz':
        return float(np.linalg.norm(x - sol))
    if kind in ('sdbt',) + DRIFT_ONLY:
        return float(np.linalg.norm(A.dot(x) - b) ** 2)
    raise ValueError(kind)


def mono_event(kind, vals):
    v0 = vals[0]
    return {'kind': 'mono', 'solver': kind, 'qty': MONO_QTY[kind], 'v': [SL.limbs(v, v0) for v in vals]}


def smooth_run(d):
    """Real run of a smooth / linear instance description; returns (iterates incl. start, error)."""
    kind = d['kind']
    A = np.array(d['A'], dtype=float)
    op = odl.MatrixOperator(A.copy())
    x = op.domain.element(np.array(d['x0'], dtype=float))
    its = [SL.flat(x)]
    rec = SL.Rec()
    try:
        if kind == 'cg':
            S.conjugate_gradient(op, x, op.range.element(np.array(d['b'], dtype=float)), d['niter'], callback=rec)
        elif kind == 'cgn':
            S.conjugate_gradient_normal(op, x, op.range.element(np.array(d['b'], dtype=float)), d['niter'],
                                        callback=rec)
        elif kind == 'landweber':
            np.random.seed(12345)          # the default omega = 1/|A|^2 uses a randomly started norm estimate
            S.landweber(op, x, op.range.element(np.array(d['b'], dtype=float)), d['niter'], omega=d['omega'],
                        callback=rec)
        elif kind == 'kaczmarz':
            blocks = d.get('blocks') or [[i] for i in range(A.shape[0])]
            rows = [odl.MatrixOperator(A[bl].copy(), domain=op.domain) for bl in blocks]
            rhs = [r.range.element(np.array(d['b'])[bl]) for bl, r in zip(blocks, rows)]
            np.random.seed(d.get('np_seed', 0))          # random=True draws its sweep orders from np.random
            S.kaczmarz(rows, x, rhs, d['niter'], omega=d['omegas'], callback=rec, random=bool(d.get('random')),
                       callback_loop=d.get('loop', 'outer'))
        elif kind in ('sdbt',) + DRIFT_ONLY:
            obj = S.L2NormSquared(op.range).translated(op.range.element(np.array(d['b'], dtype=float))) * op
            ls = S.BacktrackingLineSearch(obj)
            if kind == 'sdbt':
                S.steepest_descent(obj, x, line_search=ls, maxiter=d['niter'], callback=rec)
            elif kind == 'bfgs':
                S.bfgs_method(obj, x, line_search=ls, maxiter=d['niter'], callback=rec)
            elif kind == 'nlcg':
                S.conjugate_gradient_nonlinear(obj, x, line_search=ls, maxiter=d['niter'], callback=rec)
            else:
                S.newtons_method(obj, x, line_search=ls, maxiter=d['niter'], cg_iter=A.shape[1], callback=rec)
        else:
            raise ValueError(kind)
    except Exception as e:
        return its + rec.its, type(e).__name__ + ': ' + str(e)[:160]
    return its + rec.its, None


def smooth_desc(rnd, kind, cond):
    """Random smooth instance: SPD matrix with prescribed condition number (cg), random rectangular
    matrices (cgn, landweber, sdbt), consistent systems (kaczmarz)."""
    n = int(rnd.integers(2, 6))
    d = {'kind': kind, 'cond': cond}
    if kind == 'cg':
        Q, _ = np.linalg.qr(rnd.normal(size=(n, n)))
        A = Q.dot(np.diag(np.geomspace(1.0, cond, n))).dot(Q.T)
        A = (A + A.T) / 2
        sol = rnd.normal(size=n)
        d.update(A=A.tolist(), sol=sol.tolist(), b=A.dot(sol).tolist(), x0=rnd.normal(size=n).tolist(), niter=n)
        return d
    m = n + int(rnd.integers(0, 3))
    U, _ = np.linalg.qr(rnd.normal(size=(m, m)))
    V, _ = np.linalg.qr(rnd.normal(size=(n, n)))
    A = U[:, :n].dot(np.diag(np.geomspace(1.0, cond, n))).dot(V.T)
    # CG-type recurrences terminate after dim steps in exact arithmetic; iterating further divides rounding noise
    # by rounding noise (textbook CGLS in NumPy grows the residual in the same way) - outside "up to rounding"
    d.update(A=A.tolist(), x0=rnd.normal(size=n).tolist(), niter=n if kind == 'cgn' else 15)
    if kind == 'kaczmarz':
        # >= 3 blocks (one or two rows each) of very different operator norm, a PER-OPERATOR relaxation
        # omega_i = c_i / |A_i|^2 (admissible: 0 < c_i < 2), fixed or random sweep order, callback per sweep or per block
        if m < 3:
            A = np.vstack([A, rnd.normal(size=(3 - m, n))])
            m = 3
        blocks, i = [], 0
        while i < m:
            k = 2 if (m - i >= 4 and rnd.random() < 0.4) else 1
            blocks.append(list(range(i, i + k)))
            i += k
        for bl in blocks:
            A[bl] *= float(rnd.choice([1e-3, 0.1, 1.0, 1.0, 10.0, 1e3]))
        sol = rnd.normal(size=n)
        d.update(A=A.tolist(), sol=sol.tolist(), b=A.dot(sol).tolist(), niter=6, blocks=blocks,
                 omegas=[float(rnd.choice([0.5, 1.0, 1.5])) / float(np.linalg.norm(A[bl], 2) ** 2) for bl in blocks],
                 loop=str(rnd.choice(['outer', 'inner'])), random=bool(rnd.random() < 0.6),
                 np_seed=int(rnd.integers(0, 2 ** 31 - 1)))
    else:
        d['b'] = rnd.normal(size=m).tolist()
        if kind == 'landweber':
            w = float(rnd.choice([0.0, 0.5, 1.0, 1.9]))        # 0: the default step-size rule (omega=None)
            d['omega'] = w / float(np.linalg.norm(A, 2) ** 2) if w else None
        if kind == 'sdbt':
            d['niter'] = 8
        if kind in DRIFT_ONLY:
            d['niter'] = 5
    return d


def apply_scale(d, sc):
    """Scale operator and data (x unchanged; step sizes by 1/s^2), or - for the line-search solvers - data and start
    (x scales): the stated relations are invariant."""
    if sc == 1:
        return d
    d = dict(d, scale=sc)
    A = np.array(d['A'])
    if d['kind'] in ('cg', 'cgn', 'landweber', 'kaczmarz'):
        d['A'] = (A * sc).tolist()
        d['b'] = (np.array(d['b']) * sc).tolist()
        if d.get('omega'):
            d['omega'] = d['omega'] / sc ** 2
        if 'omegas' in d:
            d['omegas'] = [w / sc ** 2 for w in d['omegas']]
    else:
        d['b'] = (np.array(d['b']) * sc).tolist()
        d['x0'] = (np.array(d['x0']) * sc).tolist()
    return d


def smooth_case(args):
    kind, cond, seed = args
    rnd = np.random.default_rng(seed)
    d = smooth_desc(rnd, kind, cond)
    d = apply_scale(d, float(rnd.choice([1.0, 1.0] + SL.SCALES)))
    its, err = smooth_run(d)
    cls = ('well' if cond <= 100 else 'ill') + ('/scaled' if d.get('scale') else '')
    out = {'viol': [], 'events': [], 'key': [kind, cls, seed]}
    meta = {'desc': d, 'stage': 'relational'}
    A, b = np.array(d['A']), np.array(d['b'])
    sol = np.array(d['sol']) if 'sol' in d else None
    vals = [quantity(kind, A, b, sol, x) for x in its]
    if err:
        # BacktrackingLineSearch asserts a STRICT decrease: at a numerically stationary iterate (the gradient
        # step no longer changes the objective) it raises.  That is outside the scenario (never start the line
        # search at a stationary point); the iterates observed so far are still checked.
        grad = 2 * A.T.dot(A.dot(its[-1]) - b) if kind in ('sdbt',) + DRIFT_ONLY else None
        stationary = kind == 'sdbt' and len(vals) >= 2 and 'AssertionError' in err and \
            float(grad.dot(grad)) <= 1e-12 * max(vals[0], 1e-300)
        if kind in DRIFT_ONLY:
            out['drift'] = ['%s random: raised %s' % (SL.REALNAME[kind], err.split(':')[0])]
            return out
        if not stationary:
            out['viol'].append((sig_of(kind, 'raised', cond=cls), dict(meta, error=err)))
            return out
        out['drift'] = ['steepest_descent+BacktrackingLineSearch random: the line search raised AssertionError at a '
                        'numerically stationary iterate (k=%d)' % (len(vals) - 1)]
    if not (vals[0] > 0 and all(np.isfinite(vals))):
        out['key'] = None
        return out
    ev = mono_event(kind, vals)
    ev['meta'] = dict(meta, sig=sig_of(kind, 'monotone', cond=cls), values=vals, drift_only=kind in DRIFT_ONLY)
    out['events'].append(ev)
    if kind == 'cg' and cond <= 100:
        if len(its) != d['niter'] + 1:        # returned before dim steps although the error is not zero
            vals = vals + [vals[-1]]
        q = int(min(round(vals[-1] / vals[0] * 2 ** 30), 2 ** 31 - 1))
        out['events'].append({'kind': 'cgfinal', 'e0': 2 ** 30, 'eN': q,
                              'meta': dict(meta, sig=sig_of(kind, 'exact-after-dim', cond=cls), values=vals)})
    return out


# ------------------------------------------------------------------ power method
def power_desc(rnd):
    m, n = int(rnd.integers(1, 5)), int(rnd.integers(1, 5))
    kind = rnd.choice(['int', 'normal', 'sym', 'lowrank', 'scaling'])
    if kind == 'int':
        A = rnd.integers(-3, 4, size=(m, n)).astype(float)
    elif kind == 'sym':
        B = rnd.normal(size=(n, n))
        A = B + B.T
    elif kind == 'lowrank':
        A = np.outer(rnd.normal(size=m), rnd.normal(size=n))
    elif kind == 'scaling':           # ScalingOperator is its own adjoint: the branch without A^T A
        A = float(rnd.choice([-3, -2, -0.5, 0.5, 2, 3])) * np.eye(n)
    else:
        A = rnd.normal(size=(m, n))
    if not np.any(A):
        A[0, 0] = 1.0
    A = A * float(rnd.choice([1.0, 1.0] + SL.SCALES))      # the bound is scale invariant
    x0 = rnd.normal(size=A.shape[1])
    return {'A': A.tolist(), 'x0': x0.tolist(), 'maxiter': int(rnd.choice([2, 4, 10, 100])), 'mkind': str(kind)}


def power_op(d):
    A = np.array(d['A'])
    if d.get('mkind') == 'scaling':
        return odl.ScalingOperator(odl.rn(A.shape[0]), float(A[0, 0]))
    return odl.MatrixOperator(A.copy())


def power_case(seed):
    rnd = np.random.default_rng(seed)
    d = power_desc(rnd)
    A = np.array(d['A'])
    op = power_op(d)
    out = {'viol': [], 'events': [], 'key': ['power', d['mkind'], seed]}
    meta = {'desc': d, 'stage': 'relational', 'sig': sig_of('power', 'power-bound')}
    try:
        est = float(odl.power_method_opnorm(op, xstart=op.domain.element(np.array(d['x0'])), maxiter=d['maxiter']))
    except ValueError as e:
        if 'reached ``x=0``' in str(e):        # start vector in the kernel: no estimate is produced
            out['key'] = None
            return out
        out['viol'].append((sig_of('power', 'raised'), dict(meta, error=str(e)[:160])))
        return out
    true = float(np.linalg.norm(A, 2))
    a, b = SL.exact.quantise_pair(est, true, bits=30)
    out['events'].append({'kind': 'power', 'est': a, 'norm': b, 'meta': dict(meta, est=est, true=true)})
    return out


# ------------------------------------------------------------------ default step-size rules
ROT = np.array([[0.6, -0.8], [0.8, 0.6]])          # rational rotation: n * ROT has operator norm exactly n


def stepsize_case(args):
    """Replay one exported (rule, branch, norms, given steps) case of MC_SolverStepsize on the real helper, with the
    operator given as an Operator of exactly known norm (scaled rotation) or as its norm (float)."""
    case, form = args
    ns = [SL.qf(v) for v in case['ns']]
    tau = SL.qf(case['tau']) if case['branch'] in ('both', 'tau') else None
    sig = [SL.qf(v) for v in case['sig']] if case['branch'] in ('both', 'sigma') else None
    Ls = [odl.MatrixOperator(n * ROT) if form == 'operator' else n for n in ns]
    out = {'viol': [], 'events': [], 'key': ['stepsize', case['rule'], case['branch'], case['ns'], case['tau'], case['sig'], form]}
    name = 'pdhg_stepsize' if case['rule'] == 'pdhg' else 'douglas_rachford_pd_stepsize'
    sg = {'solver': name, 'clause': 'stepsize-admissible', 'branch': case['branch']}
    np.random.seed(4711)
    try:
        if case['rule'] == 'pdhg':
            t, s_ = S.pdhg_stepsize(Ls[0], tau=tau, sigma=None if sig is None else sig[0])
            Pq = float(t) * float(s_) * ns[0] ** 2
        else:
            t, s_ = S.douglas_rachford_pd_stepsize(Ls, tau=tau, sigma=sig)
            Pq = float(t) * sum(float(si) * n ** 2 for si, n in zip(s_, ns))
    except Exception as e:
        out['viol'].append((dict(sg, clause='raised'), {'stage': 'replay', 'stepsize_case': case, 'form': form,
                                                        'error': type(e).__name__ + ': ' + str(e)[:120]}))
        return out
    D = case['P'][1]
    out['events'].append({'kind': 'stepsize', 'rule': case['rule'], 'branch': case['branch'], 'P': case['P'],
                          'obs': SL.snapvec([Pq], D)[0], 'obsq': int(min(round(Pq * 2 ** 20), 2 ** 31 - 1)),
                          'meta': {'stage': 'replay', 'stepsize_case': case, 'form': form, 'observed': Pq, 'sig': sg}})
    return out


# ------------------------------------------------------------------ replay of exported instances
def replay_mono(args):
    case, quick = args
    inst = case['inst']
    rows = {int(k): v for k, v in case['rows'].items()}
    sol = inst['solver']
    N = max(rows)
    out = {'viol': [], 'drift': [], 'events': [], 'counts': [], 'sample': None}
    base = {'inst': inst, 'conc': 'rn', 'stage': 'replay'}
    if sol == 'power':
        A = SL.mat(inst['Ls'][0])
        op = odl.MatrixOperator(A.copy())
        for K in range(1, N + 1):
            vprev = [Fraction(q[0], q[1]) for q in rows[K - 1]['ref']['x']]
            D = sum(v * v for v in vprev)
            D = D.numerator
            try:
                est = float(odl.power_method_opnorm(op, xstart=op.domain.element(SL.vec(inst['x0'])),
                                                    maxiter=2 * K, rtol=0, atol=0))
            except Exception as e:
                out['viol'].append((sig_of(sol, 'raised'), dict(base, K=K, error=str(e)[:160])))
                continue
            out['counts'].append(([sol, inst['tag'], inst['x0'], K], True))
            if 0 < D <= SL.MAXDEN:
                out['events'].append({'kind': 'power-exact', 'inst': inst, 'nit': K,
                                      'est4': SL.snapvec([est ** 4], D)[0],
                                      'meta': dict(base, K=K, est=est, sig=sig_of(sol, 'power-bound'))})
            true = float(np.linalg.norm(A, 2))
            a, b = SL.exact.quantise_pair(est, true, bits=30)
            out['events'].append({'kind': 'power', 'est': a, 'norm': b,
                                  'meta': dict(base, K=K, est=est, true=true, sig=sig_of(sol, 'power-bound'))})
        return out
    nontriv = any(rows[k]['ref']['x'] != inst['x0'] for k in rows if k >= 1)
    exp = {k: rows[k]['ref']['x'] for k in rows if k >= 1}
    h = zlib.crc32(json.dumps([inst['tag'], inst['x0']]).encode())
    scales = [SL.SCALES[h % 3]] if quick else SL.SCALES
    # the instance as exported and at dyadic scalings of operator / data (iterates scale exactly; every relation is
    # invariant, an absolute tolerance inside the solver is not)
    for o in [None] + [{'scale': v} for v in scales]:
        base = {'inst': inst, 'conc': 'rn', 'stage': 'replay', 'opts': o}
        okw = {'option': 'scaled'} if o else {}
        r = SL.run_real(inst, 'rn', 'opt', [N], opts=o)
        out['counts'].append(([sol, inst['tag'], inst['x0'], inst['tau'], inst['sig'], o], nontriv))
        if r['err']:
            out['viol'].append((sig_of(sol, 'raised', **okw), dict(base, error=r['err'])))
            continue
        so = snapped_its(r['its'], rows, N)
        tb = [k for k in so if so[k] != exp[k]]
        if o is None:
            out['events'].append({'kind': 'exact', 'inst': inst, 'nit': N, 'ncb': -1,
                                  'xs': [so.get(k, []) for k in range(1, N + 1)],
                                  'meta': dict(base, clausemap='textbook')})
        if tb:
            out['drift'].append('%s %s: real iterates%s leave the textbook sequence at k=%d' % (
                SL.REALNAME[sol], inst['tag'], ' (scaled instance)' if o else '', tb[0]))
        if sol == 'cg':
            # stated: exact after dimension-many steps  (sol is an integer vector: lattice D = 1)
            fin = SL.snapvec(r['x'], 1)
            if fin != inst['sol'] or len(r['its']) != N:
                out['viol'].append((sig_of(sol, 'exact-after-dim', **okw),
                                    dict(base, observed=r['x'].tolist(), expected=inst['sol'], iterations=len(r['its']))))
        if sol in MONO_QTY:
            A = SL.mat(inst['Ls'][0]) if sol != 'kaczmarz' else np.vstack([SL.mat(M) for M in inst['Ls']])
            b = SL.vec(inst['b'][0]) if sol != 'kaczmarz' else np.concatenate([SL.vec(v) for v in inst['b']])
            s = SL.vec(inst['sol']) if inst['sol'] else None
            vals = [quantity(sol, A, b, s, x) for x in [SL.vec(inst['x0'])] + r['its']]
            if vals[0] > 0:
                ev = mono_event(sol, vals)
                ev['meta'] = dict(base, sig=sig_of(sol, 'monotone', cond='lattice', **okw), values=vals)
                out['events'].append(ev)
            if o is None:
                out['sample'] = {'solver': SL.REALNAME[sol], 'instance': inst['tag'], 'quantity': MONO_QTY[sol],
                                 'values': vals}
    return out


def fixed_run(inst, real, xstar, ystar, nit=3, opts=None):
    """Start the real solver at a KKT pair the way the API allows; returns observed iterates."""
    i2 = dict(inst, solver=real)
    ys = SL.vec(ystar[0]) if real == 'pdhg' else None
    conc, o2 = split_conc(opts)
    r = SL.run_real(i2, conc, 'opt', [nit], x_start=SL.vec(xstar), y_start=ys, pass_state=(real == 'pdhg'),
                    opts=o2)
    return r


def split_conc(o):
    """('rn' | 'block', remaining options): the pseudo-option conc='block' realises a single operator with >= 2 rows
    as a BroadcastOperator into a product space (functionals on the range as SeparableSum)."""
    o = dict(o or {})
    conc = o.pop('conc', 'rn')
    return conc, (o or None)


def block_variant(inst, real):
    i2 = dict(inst, solver=real)
    return [{'conc': 'block'}] if 'block' in SL.applicable_concs(i2) else []


def kkt_options(inst, real):
    """Keyword options of the non-smooth solvers that leave the claim unchanged: accelerated pdhg (gamma_primal
    needs f, gamma_dual needs g* strongly convex - the moduli follow from the squared-norm weights), relaxation
    passed as a callable."""
    out = []
    if real == 'pdhg' and SL.qf(inst['th']) == 1.0:
        g, f = inst['gs'][0], inst['f']
        if g['k'] == 'L2sq':
            out.append({'gamma_dual': 1.0 / (4 * SL.qf(g['c']))})
        if f['k'] == 'L2sq':
            out.append({'gamma_primal': SL.qf(f['c'])})
    if real in ('pg', 'dr'):
        out.append({'lam_callable': True})
    return out


def okw_for(inst, o):
    """signature key `option`: the keyword options / variants a run was made under (family level)."""
    nm = opt_name(o) if o else None
    if inst.get('ls'):
        nm = 'l' if nm in (None, 'default') else 'l+' + nm
    return {'option': nm} if nm else {}


def opt_name(o):
    from .c11 import option_name
    conc, o2 = split_conc(o)
    nm = option_name(o2 or {})
    return nm if conc == 'rn' else ('product-range' if nm == 'default' else 'product-range+' + nm)


def replay_kkt(args):
    case, quick, seed = args
    inst = case['inst']
    rows = {int(k): v for k, v in case['rows'].items()}
    aux = rows.pop(-1, None)
    sol = inst['solver']
    N = max(rows)
    out = {'viol': [], 'drift': [], 'events': [], 'counts': [], 'sample': None, 'nfixed': 0, 'nconv': 0}
    base = {'inst': inst, 'conc': 'rn', 'stage': 'replay'}
    fk = SL.fkind(inst['f'])
    # ---- textbook iterates from x0 (drift level)
    r = SL.run_real(inst, 'rn', 'opt', [N], pass_state=False)
    out['counts'].append(([sol, inst['tag'], inst['tau'], inst['sig'], 'iterates'], True))
    if r['err']:
        out['viol'].append((sig_of(sol, 'raised', functional=fk, problem=pclass(inst)), dict(base, error=r['err'])))
        return out
    so = snapped_its(r['its'], rows, N)
    exp = {k: rows[k]['ref']['x'] for k in rows if k >= 1}
    tb = [k for k in so if so[k] != exp[k]]
    if tb:
        follows = so[tb[0]] == rows[tb[0]]['impl']['x']
        out['drift'].append('%s %s: real iterates leave the textbook sequence at k=%d%s' % (
            SL.REALNAME[sol], inst['tag'], tb[0], ' and follow the as-coded model (layer C)' if follows else ''))
    if r['ncb'] != [N]:
        out['drift'].append('%s %s: %s callbacks for %d iterations' % (SL.REALNAME[sol], inst['tag'], r['ncb'], N))
    if not aux:
        return out
    # ---- fixed-point law: start at TLC-certified KKT pairs from which the API can start
    pts = aux['apifixed']
    pts = sorted(pts, key=lambda w: (all(q[0] == 0 for q in w[0]), json.dumps(w)))
    rnd = random.Random(seed ^ zlib.crc32(inst['tag'].encode()))
    chosen = pts[:2] + (rnd.sample(pts[2:], min(2 if quick else 6, len(pts) - 2)) if len(pts) > 2 else [])
    reals = [sol] + (['apg'] if sol == 'pg' and SL.qf(inst['th']) == 1.0 else [])
    h = zlib.crc32(json.dumps([inst['tag'], inst['tau'], inst['sig']]).encode())
    for wi, w in enumerate(chosen):
        xstar, ystar = w
        D = 1
        for qq in xstar:
            D = max(D, qq[1])
        for real in reals:
            # as exported, and (first points) at dyadic scalings and under every applicable keyword option
            variants = [None]
            if wi < (1 if quick else 2):
                variants += [{'scale': v} for v in ([SL.SCALES[(h + wi) % 3]] if quick else SL.SCALES)]
                variants += kkt_options(inst, real)
                if not quick or (h + wi) % 2 == 0:
                    variants += block_variant(inst, real)
            for o in variants:
                okw = okw_for(inst, o)
                fr = fixed_run(inst, real, xstar, ystar, nit=4 if real == 'pdhg' else 3, opts=o)
                out['counts'].append(([real, inst['tag'], inst['tau'], inst['sig'], 'fixed', xstar, ystar, o], True))
                sg = sig_of(real, 'fixed-point', functional=fk, problem=pclass(inst), **okw)
                detail = dict(base, real=real, xstar=xstar, ystar=ystar, opts=o)
                if fr['err']:
                    out['viol'].append((sig_of(real, 'raised', functional=fk, problem=pclass(inst), **okw), dict(detail, error=fr['err'])))
                    continue
                obs = [SL.snapvec(v, D) for v in fr['its']] + [SL.snapvec(fr['x'], D)]
                if any(ob != xstar for ob in obs):
                    out['viol'].append((sg, dict(detail, observed=[v.tolist() for v in fr['its']] + [fr['x'].tolist()])))
                out['events'].append({'kind': 'fixed', 'inst': inst, 'xstar': xstar, 'ystar': ystar,
                                      'obs': obs, 'nit': len(obs), 'meta': dict(detail, sig=sg, catalogue=True)})
                out['nfixed'] += 1
                if out['sample'] is None and o is None and any(q[0] != 0 for q in xstar):
                    out['sample'] = {'solver': SL.REALNAME[real], 'instance': inst['tag'], 'kkt_pair': w,
                                     'observed_after_1_2_3_iterations': [v.tolist() for v in fr['its']]}
    # ---- convergence towards optimality (relational): instances that have a solution
    # (with l the dual terms are finite everywhere and h is strongly convex: a solution exists in any case)
    if aux['kkt'] or inst.get('ls'):
        r0 = SL.kkt_residual(inst, SL.vec(inst['x0']))
        if r0 >= MIN_KKT0:
            for real in reals:
                runs = [(Nn, None) for Nn in ([50, 200] if well_conditioned(inst) else [200])]
                if real == sol or not quick:
                    runs += [(200, {'scale': v}) for v in ([SL.SCALES[h % 3]] if quick else SL.SCALES)]
                runs += [(200, o) for o in kkt_options(inst, real)]
                if not quick or h % 2 == 1:
                    runs += [(200, o) for o in block_variant(inst, real)]
                for Nn, o in runs:
                    okw = okw_for(inst, o)
                    conc, o2 = split_conc(o)
                    rr = SL.run_real(dict(inst, solver=real), conc, 'opt', [Nn], pass_state=False, opts=o2)
                    out['counts'].append(([real, inst['tag'], inst['tau'], inst['sig'], 'conv', Nn, o], True))
                    sg = sig_of(real, 'convergence', functional=fk, problem=pclass(inst), **okw)
                    if rr['err']:
                        out['viol'].append((sig_of(real, 'raised', functional=fk, problem=pclass(inst), **okw),
                                            dict(base, real=real, N=Nn, opts=o, error=rr['err'])))
                        continue
                    rN = SL.kkt_residual(inst, rr['x'])
                    a, b = SL.exact.quantise_pair(r0, rN, bits=20)
                    out['events'].append({'kind': 'conv', 'solver': real, 'r0': a, 'rN': b,
                                          'meta': dict(base, real=real, N=Nn, opts=o, kkt0=r0, kktN=rN, sig=sg)})
                    out['nconv'] += 1
    return out


# ------------------------------------------------------------------ constructed KKT pairs beyond the catalogue
def q2(fr):
    return SL.exact.to_q(Fraction(fr))


def kkt_desc(rnd, solver, nblocks=None):
    """A random lattice instance with a KKT tuple known by construction (TLC certifies it).  Returns
    (inst, xstar, ystar).  f absorbs: its translation / kink is fitted to s = -grad h(x*) - sum L_i^T y_i*.
    douglas_rachford_pd / forward_backward_pd get 1-3 non-trivial operators with ranges of different sizes and
    different sigma_i."""
    H = Fraction(1, 2)
    n = rnd.randint(2, 3)
    if nblocks is None:
        nblocks = rnd.choice([1, 2, 2, 3]) if solver in ('dr', 'fb') else 1
    sizes = rnd.sample([1, 2, 3], nblocks) if nblocks > 1 else [rnd.randint(1, 3)]
    Ms = []
    for m in sizes:
        M = [[rnd.choice([-1, 0, 1, 1, 2]) for _ in range(n)] for _ in range(m)]
        for r_ in M:
            if not any(r_):
                r_[rnd.randrange(n)] = 1
        Ms.append(M)
    fro2 = sum(v * v for M in Ms for r_ in M for v in r_)
    # dyadic admissible steps (root-free certificates with Frobenius norms)
    e = 0
    while Fraction(1, 4 ** e) * fro2 >= 1:
        e += 1
    tau = Fraction(1, 2 ** (e + (1 if solver == 'fb' else 0)))
    sigs = [Fraction(1, 2 ** e)]
    if solver == 'admm':
        sigs = [Fraction(rnd.choice([1, 2]))]
        tau = sigs[0] / (2 ** (fro2.bit_length()))
    if solver == 'dr':
        tau = Fraction(1)
        s0 = Fraction(1, 2 ** (fro2.bit_length() - 1)) if fro2 > 1 else Fraction(1)
        sigs = [s0 / rnd.choice([1, 2, 4]) if nblocks > 1 else s0 for _ in Ms]
    if solver == 'fb':
        sigs = [sigs[0] / rnd.choice([1, 2, 4]) if nblocks > 1 else sigs[0] for _ in Ms]
    if solver == 'pg':
        tau = Fraction(1, 2 ** (fro2.bit_length() + 1))
    xs = [Fraction(rnd.randint(-4, 4), 2) for _ in range(n)]
    dual_free = solver in ('pdhg',)

    # forward-backward: infimal-convolution terms l_i = c_l |. - t_l|^2 (option l) in half of the cases; with the
    # duals 0 the dual inclusion reads 0 in dg_i(L_i x* - t_l), so g_i is fitted to the shifted point
    use_l = solver == 'fb' and rnd.random() < 0.5
    lts = [[Fraction(rnd.randint(-2, 2)) for _ in M] if use_l else [Fraction(0)] * len(M) for M in Ms]
    lcs = [rnd.choice([Fraction(1, 2), Fraction(1)]) for _ in Ms]
    # with l half of the cases get NON-ZERO duals (not startable through the API: convergence clause only)
    dual_free = dual_free or (use_l and rnd.random() < 0.5)

    def fit_g(M, kind, c, ys, lt=None, lc=None):
        """translation of g so that ys lies in dg(M x* - t_l)"""
        Lx = [sum(M[i][j] * xs[j] for j in range(n)) - ((lt[i] + ys[i] / (2 * lc)) if use_l else 0)
              for i in range(len(M))]          # argument of g_i: L_i x* - grad l_i*(y_i)
        if kind == 'L1':
            t = [Lx[i] - rnd.randint(1, 2) if ys[i] == c else Lx[i] + rnd.randint(1, 2) if ys[i] == -c else Lx[i]
                 for i in range(len(M))]
        else:
            t = [Lx[i] - ys[i] / (2 * c) for i in range(len(M))]
        return {'k': kind, 'c': q2(c), 't': [q2(v) for v in t], 'lo': [0, 1], 'hi': [0, 1]}
    gk, gc, yss = [], [], []
    for M in Ms:
        m = len(M)
        kind = rnd.choice(['L1', 'L2sq']) if solver != 'pg' else 'L2sq'
        if kind == 'L1':
            c = Fraction(rnd.choice([1, 2]))
            ys = [rnd.choice([c, -c, Fraction(0), c / 2, -c / 2]) if dual_free else Fraction(0) for _ in range(m)]
        else:
            c = Fraction(1, 2) if solver == 'pg' else rnd.choice([Fraction(1, 2), Fraction(1, 4)])
            ys = [Fraction(rnd.randint(-2, 2), 1) if (dual_free or solver == 'pg') else Fraction(0) for _ in range(m)]
        gk.append(kind)
        gc.append(c)
        yss.append(ys)
    hfun = {'k': 'Zero', 'c': [1, 1], 't': [], 'lo': [0, 1], 'hi': [0, 1]}
    gradh = [Fraction(0)] * n
    if solver == 'fb':
        th = [Fraction(rnd.randint(-2, 2)) for _ in range(n)]
        hfun = {'k': 'L2sq', 'c': [1, 4], 't': [q2(v) for v in th], 'lo': [0, 1], 'hi': [0, 1]}
        gradh = [H * (xs[j] - th[j]) for j in range(n)]
    s = [-gradh[j] - sum(M[i][j] * ys[i] for M, ys in zip(Ms, yss) for i in range(len(M))) for j in range(n)]
    fk = rnd.choice(['L1', 'L2sq', 'Box'] if solver != 'fb' else ['L1', 'L2sq'])
    if fk == 'L2sq':
        cf = rnd.choice([Fraction(1, 2), Fraction(1)])
        f = {'k': 'L2sq', 'c': q2(cf), 't': [q2(xs[j] - s[j] / (2 * cf)) for j in range(n)], 'lo': [0, 1], 'hi': [0, 1]}
    elif fk == 'L1':
        cf = max([abs(v) for v in s] + [Fraction(1)]) + rnd.choice([0, 0, 1])
        tf = [xs[j] - rnd.randint(1, 2) if s[j] == cf else xs[j] + rnd.randint(1, 2) if s[j] == -cf else xs[j]
              for j in range(n)]
        f = {'k': 'L1', 'c': q2(cf), 't': [q2(v) for v in tf], 'lo': [0, 1], 'hi': [0, 1]}
    else:
        # box: x*_j sits at the bound that the sign of s_j demands (h = 0 here, so s does not depend on x*)
        lo = Fraction(rnd.randint(-3, 0))
        hi = lo + rnd.randint(1, 4)
        xs[:] = [lo if s[j] < 0 else hi if s[j] > 0 else xs[j] if lo <= xs[j] <= hi else min(lo + H, hi)
                 for j in range(n)]
        f = {'k': 'Box', 'c': [1, 1], 't': [], 'lo': q2(lo), 'hi': q2(hi)}
    gs = [fit_g(M, k_, c_, ys, lt, lc) for M, k_, c_, ys, lt, lc in zip(Ms, gk, gc, yss, lts, lcs)]   # (x* final)
    inst = {'solver': solver, 'tag': 'rand%s/%s/%s' % ('' if nblocks == 1 else str(nblocks) + 'op', SL.fkind(f),
                                                      '+'.join(SL.fkind(g) for g in gs)),
            'Ls': [[[q2(v) for v in r_] for r_ in M] for M in Ms], 'f': f, 'gs': gs, 'h': hfun,
            'tau': q2(tau), 'sig': [q2(v) for v in sigs], 'th': [1, 1],
            'x0': [q2(v + rnd.randint(2, 4)) for v in xs],
            'y0': [], 'b': [], 'sol': [], 'lam': [0, 1], 'N': 3, 'pw': 1,
            'ls': [{'k': 'L2sq', 'c': q2(c_), 't': [q2(v) for v in lt], 'lo': [0, 1], 'hi': [0, 1]}
                   for c_, lt in zip(lcs, lts)] if use_l else []}
    if use_l:
        inst['tag'] += '/l'
    return inst, [q2(v) for v in xs], [[q2(v) for v in ys] for ys in yss]


def kkt_case(args):
    solver, seed, quick = args
    rnd = random.Random(seed)
    got = None
    for _ in range(20):
        got = kkt_desc(rnd, solver)
        if got is not None:
            break
    out = {'viol': [], 'events': [], 'key': None}
    if got is None:
        return out
    inst, xstar, ystar = got
    if solver == 'dr':
        inst['th'] = rnd.choice([[1, 1], [1, 1], [1, 2], [3, 2]])          # relaxation 0 < lam < 2
    fk = SL.fkind(inst['f'])
    D = max([q[1] for q in xstar] + [1])
    reals = [solver] + (['apg'] if solver == 'pg' else [])
    out['key'] = [solver, inst['tag'], seed]
    for real in reals:
        # a keyword option / dyadic scaling drawn per case (the plain call is the most frequent)
        o = rnd.choice([None, None, {'scale': rnd.choice(SL.SCALES)}] + kkt_options(inst, real)
                       + block_variant(inst, real))
        okw = okw_for(inst, o)
        fr = fixed_run(inst, real, xstar, ystar, nit=4 if real == 'pdhg' else 3, opts=o)
        detail = {'inst': inst, 'conc': 'rn', 'stage': 'relational', 'real': real, 'xstar': xstar, 'ystar': ystar,
                  'opts': o}
        if fr['err']:
            out['viol'].append((sig_of(real, 'raised', functional=fk, problem=pclass(inst), **okw), dict(detail, error=fr['err'])))
            continue
        obs = [SL.snapvec(v, D) for v in fr['its']] + [SL.snapvec(fr['x'], D)]
        out['events'].append({'kind': 'fixed', 'inst': inst, 'xstar': xstar, 'ystar': ystar, 'obs': obs,
                              'nit': len(obs),
                              'meta': dict(detail, sig=sig_of(real, 'fixed-point', functional=fk, problem=pclass(inst), **okw), catalogue=False,
                                           observed=[v.tolist() for v in fr['its']])})
        # convergence from a distant start: a solution exists by construction; strongly convex instances only
        if strongly_convex(inst):
            r0 = SL.kkt_residual(inst, SL.vec(inst['x0']))
            conc, o2 = split_conc(o)
            rr = SL.run_real(dict(inst, solver=real), conc, 'opt', [200], pass_state=False, opts=o2)
            if r0 >= MIN_KKT0 and not rr['err']:
                rN = SL.kkt_residual(inst, rr['x'])
                a, b = SL.exact.quantise_pair(r0, rN, bits=20)
                out['events'].append({'kind': 'conv', 'solver': real, 'r0': a, 'rN': b,
                                      'meta': dict(detail, N=200, kkt0=r0, kktN=rN,
                                                   sig=sig_of(real, 'convergence', functional=fk, problem=pclass(inst), **okw))})
            # the solver's own default step-size rules: neither step given, only tau, only sigma
            # (pdhg_stepsize / douglas_rachford_pd_stepsize; a run with one step given must still converge)
            if real in ('pdhg', 'dr') and r0 >= MIN_KKT0:
                for mode in ([(True, 'tau', 'sigma')[seed % 3]] if quick else (True, 'tau', 'sigma')):
                    mname = 'default' if mode is True else 'only-' + mode
                    rd = SL.run_real(inst, 'rn', 'opt', [200], pass_state=False, default_steps=mode)
                    if rd['err']:
                        out['viol'].append((sig_of(real, 'raised', functional=fk, problem=pclass(inst), steps=mname),
                                            dict(detail, error=rd['err'], default_steps=mode, opts=None)))
                    else:
                        rN = SL.kkt_residual(inst, rd['x'])
                        a, b = SL.exact.quantise_pair(r0, rN, bits=20)
                        out['events'].append({'kind': 'conv', 'solver': real, 'r0': a, 'rN': b,
                                              'meta': dict(detail, N=200, kkt0=r0, kktN=rN, default_steps=mode, opts=None,
                                                           sig=sig_of(real, 'convergence', functional=fk,
                                                                      problem=pclass(inst), steps=mname))})
    return out


# ------------------------------------------------------------------ check
def run(ctx):
    quick = ctx.tier == 'quick'
    tier = ctx.tier
    work = ctx.work
    ctx.rule = ('instances of the SolverMachine catalogue exported by TLC (monotone solvers: matrix x data x start; '
                'non-smooth solvers: matrix x f x g x admissible steps, with their lattice KKT pairs) replayed on real '
                'ODL, plus seeded random instances (SPD matrices cond 2..1e6, consistent systems, least squares, '
                'constructed KKT pairs, random operators); distinct = hash of (solver, instance, clause, start); '
                'non-trivial = the run moves / the KKT point is not the origin-only case')
    ctx.assumptions += [
        'monotonicity on observed sequences: relative slack 2^-30 (~1e-9) and an absolute floor of 1e-10 x the initial value',
        'KKT residual = min over duals in dg(Lx) of dist(-grad h - L^T y, df(x)) + infeasibility, sub-differentials '
        'enlarged by 2^-5 (relative) around kinks so that the residual is continuous near a solution',
        'convergence relation kkt_N <= kkt_0/10 for N = 200 on every instance that has a solution and whose start is not '
        'optimal already (kkt_0 >= 1e-3), and for N = 50 only on well-conditioned instances (a strongly convex term, one '
        'operator with condition number 1, no under-relaxation); step sizes admissible by a root-free certificate',
        'the fixed-point law is exercised on real code from the state the API lets a caller set: x (and y, x_relax for '
        'pdhg); KKT pairs that need non-zero internal duals of admm / DR / forward-backward are checked on the model only',
        'Fejer monotonicity and agreement with textbook iterates are checked on the model; on real runs they are drift only',
        'backtracking steepest descent is never started at a stationary point; instances whose Armijo test meets an '
        'exact tie are not in the catalogue']

    # ---- 1. model runs ----
    jobs = [('mono', 'MC_SolverMachine.tla', 'MC_SolverMachine_c12both.cfg',
             tlc_env('mono', tier, '0', '0', os.path.join(work, 'exp_mono.ndjson')), 1, 'ok'),
            ('selftest-bogus', 'MC_SolverMachine.tla', 'MC_SolverMachine_c12bogus.cfg',
             tlc_env('mono', 'quick', '0', '0'), 1, 'any')]
    jobs.append(('stepsize-rules', 'MC_SolverStepsize.tla', 'MC_SolverStepsize.cfg',
                 {'OUT_FILE': os.path.join(work, 'exp_steps.ndjson')}, 1, 'ok'))
    for s in KKT_SOLVERS:
        jobs.append(('kkt-' + s, 'MC_SolverMachine.tla', 'MC_SolverMachine_c12both.cfg',
                     tlc_env('kkt-' + s, tier, '0', '0', os.path.join(work, 'exp_kkt-%s.ndjson' % s), kkt='1'), 1, 'ok'))

    def go(j):
        return j, run_tlc(j[1], j[2], work, env=j[3], workers=j[4], timeout=3000)
    with ThreadPoolExecutor(max_workers=7) as ex:
        results = list(ex.map(go, jobs))
    for j, res in results:
        ctx.add_tlc(j[0], res, expect=j[5])
        if j[0] == 'selftest-bogus' and res.status != 'counterexample':
            raise MachineryError('model self-test: the deliberately false monotonicity property was not refuted')

    # ---- 2. replay on real ODL ----
    import multiprocessing as mp
    mono_cases = load_export(os.path.join(work, 'exp_mono.ndjson'))
    if not mono_cases:
        raise MachineryError('empty export (mono)')
    kkt_cases = []
    stats = {}
    for s in KKT_SOLVERS:
        cs = load_export(os.path.join(work, 'exp_kkt-%s.ndjson' % s))
        if not cs:
            raise MachineryError('empty export (kkt-%s)' % s)
        withk = [c for c in cs if c['rows'].get(-1) and c['rows'][-1]['kkt']]
        withf = [c for c in cs if c['rows'].get(-1) and c['rows'][-1]['apifixed']]
        stats[s] = {'instances': len(cs), 'with_lattice_kkt_pair': len(withk), 'startable_through_api': len(withf)}
        if not withf:
            raise MachineryError('vacuous: no API-startable KKT pair for ' + s)
        kkt_cases += cs
    ctx.extra['kkt_catalogue'] = stats
    pool = mp.get_context('fork').Pool(8 if quick else 12)
    try:
        mouts = pool.map(replay_mono, [(c, quick) for c in mono_cases], chunksize=4)
        kouts = pool.map(replay_kkt, [(c, quick, ctx.seed) for c in kkt_cases], chunksize=2)
        # ---- 3. random drivers ----
        base = ctx.seed * 104729 + 17
        conds = [2, 10, 100, 1e3, 1e6]
        nsm = 40 if quick else 800
        stasks = [(kind, conds[i % len(conds)], base + 1000 * ki + i)
                  for ki, kind in enumerate(['cg', 'cgn', 'landweber', 'kaczmarz', 'sdbt']) for i in range(nsm)]
        stasks += [(kind, conds[i % 3], base + 7000 + 1000 * ki + i)
                   for ki, kind in enumerate(DRIFT_ONLY) for i in range(nsm // 4)]
        souts = pool.map(smooth_case, stasks, chunksize=8)
        pouts = pool.map(power_case, [base + 900000 + i for i in range(200 if quick else 4000)], chunksize=16)
        ktasks = [(s, base + 500000 + 1000 * si + i, quick) for si, s in enumerate(KKT_SOLVERS)
                  for i in range(20 if quick else 500)]
        couts = pool.map(kkt_case, ktasks, chunksize=4)
        with open(os.path.join(work, 'exp_steps.ndjson')) as f:
            scases = list({line: json.loads(line) for line in f}.values())
        if len(scases) < 100:
            raise MachineryError('step-size export too small')
        couts += pool.map(stepsize_case, [(c, form) for c in scases for form in ('operator', 'norm')], chunksize=20)
    finally:
        pool.close()
        pool.join()
    events = []
    driftagg = {}
    nfixed = nconv = 0
    for (case, r) in list(zip(mono_cases, mouts)) + list(zip(kkt_cases, kouts)):
        for sg, detail in r['viol']:
            ctx.violation(sg, detail)
        for d in r['drift']:
            drift_add(driftagg, d)
        for key, nt in r['counts']:
            ctx.count(key, nt)
        if r['sample'] and len(ctx.samples) < 5 and zlib.crc32(json.dumps(r['sample'], default=str).encode()) % 5 == 0:
            ctx.sample(r['sample'])
        events += r['events']
        nfixed += r.get('nfixed', 0)
        nconv += r.get('nconv', 0)
        ctx.traces += 1
    for r in souts + pouts + couts:
        for sg, detail in r['viol']:
            ctx.violation(sg, detail)
        for dmsg in r.get('drift', []):
            drift_add(driftagg, dmsg)
        if r['key'] is not None:
            ctx.count(r['key'], True)
            ctx.traces += 1
        events += r['events']
    drift_flush(ctx, driftagg)
    ctx.extra['fixed_point_runs_from_catalogue'] = nfixed
    ctx.extra['convergence_runs_from_catalogue'] = nconv

    # ---- 4. TLC validates every observation ----
    skipped = [0]
    tlcdrift = {}

    def on_fail(ev, clauses):
        meta = ev['meta']
        for cl in clauses:
            if cl.startswith('harness-'):
                if cl in ('harness-not-api-fixed', 'harness-too-fine') and not meta.get('catalogue'):
                    skipped[0] += 1       # TLC: the constructed pair needs internal duals the API cannot set
                    continue
                raise MachineryError('trace event rejected as ill-formed by TLC: %s %s' % (cl, dumps(meta)[:300]))
            if cl == 'textbook' and 'stepsize_case' in meta:
                drift_add(tlcdrift, '%s branch=%s: TLC: the chosen steps differ from the documented formula (layer C)'
                          % (meta['sig']['solver'], meta['sig']['branch']))
                continue
            if cl == 'textbook':
                inst = meta['inst']
                drift_add(tlcdrift, '%s %s: TLC (Trace_SolverMachine): snapped observation differs from the reference iteration'
                          % (SL.REALNAME[inst['solver']], inst['tag']))
                continue
            sg = dict(meta['sig']) if 'sig' in meta else sig_of(meta['inst']['solver'], cl)
            if meta.get('drift_only'):
                drift_add(tlcdrift, '%s random: TLC: %s (not named by the property statement)' % (sg['solver'], cl))
                continue
            if cl in ('callback-count', 'length') and ev['kind'] in ('exact', 'fixed'):
                ctx.drift_note('%s: %s' % (sg.get('solver'), cl))
                continue
            ctx.violation(sg, dict(meta, stage=meta.get('stage', 'trace'), tlc_clauses=clauses))
    nfail = validate_events(ctx, events, work, on_fail)
    drift_flush(ctx, tlcdrift)
    kinds = {}
    for ev in events:
        kinds[ev['kind']] = kinds.get(ev['kind'], 0) + 1
    ctx.extra['trace_events_validated_by_tlc'] = len(events)
    ctx.extra['trace_events_by_kind'] = kinds
    ctx.extra['trace_events_rejected_by_tlc'] = nfail
    ctx.extra['constructed_pairs_not_startable_through_api'] = skipped[0]
    ctx.exhaustive = True


def replay(body):
    d = body['detail']
    sig = body['signature']
    clause = sig['clause']
    print('signature:', dumps(sig))
    if 'stepsize_case' in d:
        o = stepsize_case((d['stepsize_case'], d['form']))
        ev = o['events'][0] if o['events'] else None
        print('case:', dumps(d['stepsize_case']), 'form', d['form'], 'observed', ev and ev['meta']['observed'], o['viol'])
        lim = 1.0 if d['stepsize_case']['rule'] == 'pdhg' else 4.0
        bad = bool(o['viol']) or not (0 < ev['meta']['observed'] < lim)
        print('REPRODUCED' if bad else 'NOT-REPRODUCED')
        return 1 if bad else 0
    if 'desc' in d and 'kind' in d['desc']:
        desc = d['desc']
        its, err = smooth_run(desc)
        A, b = np.array(desc['A']), np.array(desc['b'])
        sol = np.array(desc['sol']) if 'sol' in desc else None
        vals = [quantity(desc['kind'], A, b, sol, x) for x in its]
        print('values   :', vals, err)
        if clause == 'exact-after-dim':
            bad = vals[-1] > vals[0] * 2.0 ** -26
        else:
            bad = bool(err) or any(vals[i + 1] > vals[i] * (1 + 2.0 ** -30) + 1e-10 * vals[0] for i in range(len(vals) - 1))
        print('REPRODUCED' if bad else 'NOT-REPRODUCED')
        return 1 if bad else 0
    if 'desc' in d:      # power
        desc = d['desc']
        A = np.array(desc['A'])
        op = power_op(desc)
        est = float(odl.power_method_opnorm(op, xstart=op.domain.element(np.array(desc['x0'])), maxiter=desc['maxiter']))
        true = float(np.linalg.norm(A, 2))
        print('estimate', est, 'true norm', true)
        bad = est > true * (1 + 2e-9)
        print('REPRODUCED' if bad else 'NOT-REPRODUCED')
        return 1 if bad else 0
    inst = d['inst']
    print('instance :', inst['solver'], inst['tag'])
    if clause == 'fixed-point':
        fr = fixed_run(inst, d['real'], d['xstar'], d['ystar'], nit=4 if d['real'] == 'pdhg' else 3, opts=d.get('opts'))
        xs = SL.vec(d['xstar'])
        print('KKT point:', xs, 'observed:', [v.tolist() for v in fr['its']], fr['err'])
        bad = bool(fr['err']) or any(not np.allclose(v, xs, rtol=0, atol=2.0 ** -21) for v in fr['its'] + [fr['x']])
    elif clause == 'convergence':
        r0 = SL.kkt_residual(inst, SL.vec(inst['x0']))
        conc, o2 = split_conc(d.get('opts'))
        rr = SL.run_real(dict(inst, solver=d['real']), conc, 'opt', [d['N']], pass_state=False,
                         default_steps=d.get('default_steps') or False, opts=o2)
        rN = SL.kkt_residual(inst, rr['x']) if not rr['err'] else float('inf')
        print('kkt_0', r0, 'kkt_N', rN, 'N', d['N'], rr['err'])
        bad = 10 * rN > r0 * (1 + 1e-4)
    elif clause == 'power-bound':
        A = SL.mat(inst['Ls'][0])
        op = odl.MatrixOperator(A.copy())
        est = float(odl.power_method_opnorm(op, xstart=op.domain.element(SL.vec(inst['x0'])), maxiter=2 * d['K'],
                                            rtol=0, atol=0))
        true = float(np.linalg.norm(A, 2))
        print('estimate', est, 'true norm', true)
        bad = est > true * (1 + 2e-9)
    elif clause in ('monotone', 'exact-after-dim'):
        r = SL.run_real(inst, 'rn', 'opt', [inst['N']], opts=d.get('opts'))
        sol = inst['solver']
        A = SL.mat(inst['Ls'][0]) if sol != 'kaczmarz' else np.vstack([SL.mat(M) for M in inst['Ls']])
        b = SL.vec(inst['b'][0]) if sol != 'kaczmarz' else np.concatenate([SL.vec(v) for v in inst['b']])
        s = SL.vec(inst['sol']) if inst['sol'] else None
        vals = [quantity(sol, A, b, s, x) for x in [SL.vec(inst['x0'])] + r['its']]
        print('values   :', vals, r['err'])
        if clause == 'exact-after-dim':
            bad = bool(r['err']) or len(r['its']) != inst['N'] or not np.allclose(r['x'], s, rtol=0, atol=2.0 ** -21)
        else:
            bad = bool(r['err']) or any(vals[i + 1] > vals[i] * (1 + 2.0 ** -30) + 1e-10 * vals[0] for i in range(len(vals) - 1))
    else:
        r = SL.run_real(inst, 'rn', 'opt', [inst['N']])
        print('error    :', r['err'])
        bad = bool(r['err'])
    print('REPRODUCED' if bad else 'NOT-REPRODUCED')
    return 1 if bad else 0

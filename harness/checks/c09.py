"""C09 - functional values, gradients and Lipschitz bounds agree with each other.

Pipeline (DESIGN 4/C09):
  1. TLC: on the bounded FuncMachine the stencil gradient of the VALUES (exact central differences inside one
     polynomial piece) is the sub-gradient and is linear in the direction; layer C (FuncRulesImpl!GradImpl /
     LipImpl: gradient and grad_lipschitz rules of every class transcribed as written) against layer A.
  2. TLC exports, per program and lattice point, the value, the stencil gradient (Riesz representative in the
     space's own inner product) and directional derivatives; replayed on real ODL functionals:
     f(x), f.gradient(x), f.gradient(x).inner(d), f.derivative(x)(d); whenever f.grad_lipschitz is finite,
     ||grad f(x) - grad f(y)|| <= L ||x - y|| on all exported point pairs.
  3. Non-polynomial functionals (L2 and group-L1 norms, vector Huber, KL, quotients): the relational
     central-difference clause e(h/2) <= e(h)/3 + floor on quantised numbers; all events (plus an enumeration on
     larger spaces, random points, Rosenbrock and Moreau-envelope recipes) are validated by TLC against
     Trace_FuncMachine (gradient = sub-gradient, value = Val, exact Lipschitz inequality on snapped gradients).
"""
import json
import math
import multiprocessing as mp
import os
import random
from fractions import Fraction

import numpy as np

from .. import funcutil as fu
from ..common import MachineryError
from ..exact import quantise_pair
from .c07 import mkf, _rnd, FINITE_LEAVES

GROUPS = ['norms', 'smooth', 'kl']          # leaves that have a gradient somewhere
ROT = {'rn2': 'norms', 'rnw2': 'smooth', 'discrH': 'kl', 'discr2': 'norms', 'power1': 'smooth', 'pspace1': 'core'}
SLACK = 1e-9


def tlc_jobs(ctx, quick):
    jobs, exports = [], []
    M, X = 'MC_FuncMachine.tla', 'MC_FuncMachine_export.cfg'
    xset = 'quick' if quick else 'full'

    def exp(name, sp, depth, group, deep='all', xs=None):
        out = os.path.join(ctx.work, 'exp_%s.ndjson' % name)
        exports.append(out)
        jobs.append(('export-' + name, M, X,
                     fu.fm_env(sp, depth, group, 'grad', deep=deep, xset=xs or xset, mode='grad', out=out), 1))
    for sp in fu.SPACES_2D:
        jobs.append(('impl-' + sp, 'MC_FuncRulesImpl.tla', 'MC_FuncRulesImpl_Grad.cfg',
                     fu.fm_env(sp, 1 if quick else 2, 'all' if quick else 'core', 'grad', deep='core', xset='quick'), 1))
        jobs.append(('laws-' + sp, M, 'MC_FuncMachine_lawsGrad.cfg',
                     fu.fm_env(sp, 1, 'all', 'prox', xset='quick' if quick else 'full'), 1))
        if quick:
            for g in GROUPS:
                exp('d1-%s-%s' % (sp, g), sp, 1, g)
        else:
            for g in GROUPS:
                exp('d1-%s-%s' % (sp, g), sp, 1, g)
            if sp in ('rn2', 'discr2', 'power1'):
                exp('d2-' + sp, sp, 2, 'core', deep='core', xs='tiny')
                exp('d2b-' + sp, sp, 2, 'core2', deep='core2', xs='tiny')
    # weighted power spaces (component weights enter the inner product AND the point-wise norms): the vector-field
    # leaves (Huber, group-L1 with exponent 2, ...) alone and under one rule
    for sp in fu.SPACES_W:
        exp('d0-' + sp, sp, 0, 'vf', xs='quick')
        if sp != 'wpowerC' or not quick:
            exp('d1-' + sp, sp, 1, 'vf', xs='tiny' if quick else 'quick')
    # a LINEAR base functional under every rule at depth 2 and 3 (is_linear redirects f*s into s*f)
    def explin(name, sp, depth, rules):
        out = os.path.join(ctx.work, 'exp_%s.ndjson' % name)
        exports.append(out)
        jobs.append(('export-' + name, M, X, dict(fu.fm_env(sp, depth, 'lin', rules, deep='lin', xset='tiny', mode='grad',
                                                            out=out)), 1))
    explin('lin2-rn2', 'rn2', 2, 'lin')
    explin('lin3-discr2', 'discr2', 3, 'lin3')
    if not quick:
        explin('lin2-discr2', 'discr2', 2, 'lin')
        explin('lin2-power1', 'power1', 2, 'lin')
        explin('lin3-rnw2', 'rnw2', 3, 'lin3')
    if quick:
        exp('d2-rn2', 'rn2', 2, 'one', deep='one', xs='tiny')
        exp('d2-discr2', 'discr2', 2, 'two', deep='two', xs='tiny')
    else:
        jobs.append(('impl-d1-all', 'MC_FuncRulesImpl.tla', 'MC_FuncRulesImpl_Grad.cfg',
                     fu.fm_env('discr2', 1, 'all', 'grad', xset='quick'), 1))
        for sp in ['rn3', 'discr3', 'power2', 'pspace2']:
            exp('big-' + sp, sp, 1, 'all', xs='quick')
    return jobs, exports


# ------------------------------------------------------------------ observation
def observe_point(B, xq, dqs, res, stage, sp, f, space_name, expected=None, deg=99, want_cd=True, log=2):
    """f(x), gradient, <grad, d>, derivative(x)(d) at one point.  Returns (x element, gradient element or None)."""
    sig = lambda clause, extra=None: fu.signature(sp, f, clause, extra)
    det = lambda **kw: dict({'stage': stage, 'sp': sp, 'f': f, 'x': xq}, **kw)
    func = B.func
    x = B.el(fu.frv(xq))
    try:
        with np.errstate(all='ignore'):
            fx = float(func(x))
    except (NotImplementedError, ZeroDivisionError):
        return x, None, None            # not evaluable / quotient by zero: outside the domain
    except Exception as e:
        res['viol'].append((sig('call-raises', {'error': type(e).__name__}), det(error=str(e)[:200])))
        return x, None, None
    res['counts'].append(([f, space_name, 'value', xq], fx != 0))
    if expected is not None and (fu.known(expected['fx']) or expected['fx'] == [1, 0]):
        if not fu.matches(fx, expected['fx']):
            fx2 = fu.value_near(func, B, fu.frv(xq))[0] if not math.isfinite(fx) else fx
            if not fu.matches(fx2, expected['fx']):
                res['viol'].append((sig('value'), det(expected_from_TLC=expected['fx'], observed=fx)))
    G = B.grad
    interior = expected is None or expected['interior'] or deg == 99
    if G is None or not math.isfinite(fx):
        if log:
            res['events'].append(({'k': 'value', 'sp': sp, 'f': f, 'x': xq, 'fx': fu.snapv(fx)}, det(kind='value')))
        return x, None, fx
    try:
        with np.errstate(all='ignore'):
            g = G(x)
        gf = fu.flat(g)
    except NotImplementedError:
        return x, None, fx              # an inner functional offers no gradient
    except Exception as e:
        if expected is not None and expected['interior'] and all(fu.known(t) for t in expected['g']):
            res['viol'].append((sig('gradient-raises', {'error': type(e).__name__}), det(error=str(e)[:200])))
        return x, None, fx
    if not np.all(np.isfinite(gf)):
        return x, None, fx              # outside the domain of differentiability (e.g. KL at 0)
    gq = fu.snapvec(gf)
    if expected is not None and all(fu.known(t) for t in expected['g']):
        if not all(fu.matches(a, b) for a, b in zip(gf, expected['g'])):
            res['viol'].append((sig('gradient-vs-values'), det(expected_gradient_from_TLC=expected['g'],
                                                               observed=gf.tolist())))
    for di, dq in enumerate(dqs):
        d = B.el(fu.frv(dq))
        gd = float(g.inner(d))
        try:
            dd = float(func.derivative(x)(d))
        except Exception as e:
            res['viol'].append((sig('derivative-raises', {'error': type(e).__name__}), det(d=dq, error=str(e)[:200])))
            continue
        res['counts'].append(([f, space_name, 'grad', xq, dq], any(t[0] != 0 for t in gq)))
        if abs(gd - dd) > SLACK * max(1.0, abs(gd)):
            res['viol'].append((sig('derivative-differs-from-inner(gradient)'), det(d=dq, observed={'<g,d>': gd, 'deriv': dd})))
        if expected is not None:
            e = [t for t in expected['dds'] if t['d'] == dq]
            if e and fu.known(e[0]['dd']) and not fu.matches(gd, e[0]['dd']):
                res['viol'].append((sig('gradient-vs-values'), det(d=dq, expected_dirderiv_from_TLC=e[0]['dd'],
                                                                   observed=gd)))
        q1, q2 = fu.fixq(gd), fu.fixq(dd)
        ev = {'k': 'grad', 'sp': sp, 'f': f, 'x': xq, 'd': dq, 'g': gq, 'gd': fu.snapv(gd), 'dd': fu.snapv(dd),
              'gdq': q1 or 0, 'ddq': q2 if (q1 is not None and q2 is not None) else (q1 or 0),
              'slackq': fu.REL_SLACKQ, 'fx': fu.snapv(fx)}
        if log == 2 or (log == 1 and di == 0):
            res['events'].append((ev, det(kind='grad', d=dq)))
        # relational clause for functionals whose values the specification cannot differentiate exactly
        smooth = None
        noexact = deg == 99 or deg > 4
        if expected is not None:
            e = [t for t in expected['dds'] if t['d'] == dq]
            smooth = bool(e and e[0].get('sm'))
            noexact = noexact or not (e and fu.known(e[0]['dd']))     # no exact expectation from the stencil here
        if want_cd and noexact and di == 0 and smooth is not False:
            errs = []
            try:
                for h in (2.0 ** -7, 2.0 ** -8):
                    with np.errstate(all='ignore'):
                        cd = (float(func(x + h * d)) - float(func(x - h * d))) / (2 * h)
                    errs.append(abs(cd - gd))
            except Exception:
                errs = []
            if len(errs) == 2 and all(math.isfinite(t) for t in errs):
                floor = 1e-9 * max(1.0, abs(gd), abs(fx))
                top = max(errs[0], errs[1], floor)
                qz = lambda v: int(round(v / top * 2 ** 20))
                cev = {'k': 'cdrel', 'e1q': qz(errs[0]), 'e2q': qz(errs[1]), 'floorq': qz(floor), 'opaque': 0,
                       'sp': sp, 'f': f, 'x': xq, 'd': dq}
                res['counts'].append(([f, space_name, 'cdrel', xq, dq], True))
                if smooth and 3 * errs[1] > errs[0] + 3 * floor:
                    res['viol'].append((sig('central-difference-convergence'),
                                        det(d=dq, observed={'e(h)': errs[0], 'e(h/2)': errs[1], '<g,d>': gd})))
                if log:
                    res['events'].append((cev, det(kind='cdrel', d=dq)))
    return x, g, fx


def lipschitz(B, pts, res, stage, sp, f, space_name, cap=12):
    """||g(x) - g(y)|| <= L ||x - y|| on all pairs of observed gradients, when grad_lipschitz is finite."""
    try:
        L = float(B.func.grad_lipschitz)
    except Exception:
        return
    if not math.isfinite(L):
        return
    res['lipclaims'] += 1
    npairs = 0
    for i in range(len(pts)):
        for j in range(i + 1, len(pts)):
            (xq, x, g), (yq, y, h) = pts[i], pts[j]
            lhs = float((g - h).norm())
            rhs = L * float((x - y).norm())
            res['counts'].append(([f, space_name, 'lip', xq, yq], lhs > 0))
            bad = lhs > rhs * (1 + SLACK) + 1e-12
            if bad:
                res['viol'].append((fu.signature(sp, f, 'lipschitz-bound'),
                                    {'stage': stage, 'sp': sp, 'f': f, 'x': xq, 'y': yq,
                                     'observed': {'L': L, '|g(x)-g(y)|': lhs, '|x-y|': float((x - y).norm())}}))
            if npairs < cap or (bad and npairs < cap + 6):
                l2, r2 = fu.fixq(lhs * lhs), fu.fixq(rhs * rhs)
                ok = l2 is not None and r2 is not None
                ev = {'k': 'lip', 'sp': sp, 'x': xq, 'y': yq, 'gx': fu.snapvec(fu.flat(g)), 'gy': fu.snapvec(fu.flat(h)),
                      'L': fu.snapv(L), 'lhsq': l2 if ok else 0, 'rhsq': r2 if ok else 0, 'slackq': fu.REL_SLACKQ}
                res['events'].append((ev, {'stage': stage, 'sp': sp, 'f': f, 'kind': 'lip', 'x': xq, 'y': yq}))
                npairs += 1


def linear_flag(B, rec, res, stage, sp, f, space_name, log=True, opaque=False, pts=None):
    """f.is_linear claims a linear map (and redirects arithmetic, e.g. f*s -> s*f): the values may refute it."""
    try:
        flag = bool(B.func.is_linear)
    except Exception:
        return
    if not flag:
        return
    xq, yq = (rec['linpts'][0], rec['linpts'][1]) if pts is None else pts
    x, y = B.el(fu.frv(xq)), B.el(fu.frv(yq))
    try:
        v = [float(B.func(t)) for t in (x, y, x + y, 2 * x, 0 * x)]
    except Exception:
        return
    res['counts'].append(([f, space_name, 'is_linear', xq, yq], True))
    det = {'stage': stage, 'sp': sp, 'f': f, 'kind': 'lin', 'x': xq, 'y': yq,
           'observed': {'is_linear': True, 'f(x)': v[0], 'f(y)': v[1], 'f(x+y)': v[2], 'f(2x)': v[3], 'f(0)': v[4]}}
    tol = SLACK * max(1.0, max(abs(t) for t in v))
    if abs(v[2] - v[0] - v[1]) > tol or abs(v[3] - 2 * v[0]) > tol or abs(v[4]) > tol:
        res['viol'].append((fu.signature(sp, f, 'is_linear-refuted-by-observed-values'), det))
    if rec is not None and rec.get('linref'):
        res['viol'].append((fu.signature(sp, f, 'is_linear-refuted-by-specification'), det))
    q = [fu.fixq(t) for t in v]
    if log:
        fin = all(t is not None for t in q)
        res['events'].append(({'k': 'lin', 'sp': sp, 'f': f, 'flag': 1, 'x': xq, 'y': yq, 'opaque': 1 if opaque else 0,
                               'fxq': q[0] or 0, 'fyq': q[1] or 0, 'fxyq': q[2] or 0, 'f2xq': q[3] or 0, 'f0q': q[4] or 0,
                               'fin': 1 if fin else 0, 'slackq': fu.REL_SLACKQ}, det))


class GB(fu.Built):
    def __init__(self, sp, f, variant=0, layout=0):
        fu.Built.__init__(self, sp, f, variant, layout=layout)
        try:
            self.grad = self.func.gradient
        except NotImplementedError:
            self.grad = None


def _loglevel(quick, variant, depth, pi):
    """How much of a replayed point is also recorded for the TLC trace validation (the comparison with the exported
    expectation is always complete): 2 = every direction, 1 = first direction, 0 = nothing."""
    if variant:
        return 0
    if quick:
        return 2 if pi % 8 == 0 else (1 if pi % 2 == 0 else 0)
    if depth > 1:
        return 2 if pi % 2 == 0 else 0
    return 2 if pi % 2 == 0 else 1


def _new_res():
    return {'events': [], 'viol': [], 'counts': [], 'classes': set(), 'nograd': 0, 'lipclaims': 0, 'samples': []}


def replay_program(arg):
    rec, seed, quick = arg
    sp, f = rec['sp'], rec['f']
    res = _new_res()
    for variant in ([0] if (quick or rec['k'] > 1) else [0, 1]):
        try:
            B = GB(sp, f, variant, layout=(rec.get('idx', 0) + variant + seed) % 4)
        except (NotImplementedError, fu.Unbuildable):
            return res
        except Exception as e:
            res['viol'].append((fu.signature(sp, f, 'construction-raises', {'error': type(e).__name__}),
                                {'stage': 'replay', 'sp': sp, 'f': f, 'error': str(e)[:200]}))
            return res
        res['classes'] |= fu.class_names(B.func)
        if B.grad is None:
            res['nograd'] += 1
        pts = []
        n0 = len(res['viol'])
        for pi, pt in enumerate(sorted(rec['pts'], key=lambda t: json.dumps(t['x']))):
            dqs = [t['d'] for t in sorted(pt['dds'], key=lambda t: json.dumps(t['d']))]
            x, g, fx = observe_point(B, pt['x'], dqs, res, 'replay', sp, f, rec['space'], expected=pt,
                                     deg=rec['attrs']['deg'], want_cd=True, log=_loglevel(quick, variant, rec['k'], pi))
            if g is not None and any(t.get('sm') for t in pt['dds']):
                pts.append((pt['x'], x, g))            # Lipschitz pairs: points inside the domain of differentiability
            if not res['samples'] and g is not None and all(fu.known(t) for t in pt['g']) and any(t[0] for t in pt['g']):
                res['samples'].append({'space': rec['space'], 'program': fu.shape(f), 'x': pt['x'],
                                       'gradient_expected_from_TLC': pt['g'], 'observed': fu.flat(g).tolist()})
        if B.grad is not None:
            lipschitz(B, pts, res, 'replay', sp, f, rec['space'], cap=(4 if quick else 8) if variant == 0 else 0)
        linear_flag(B, rec, res, 'replay', sp, f, rec['space'], log=variant == 0)
        for s_, d in res['viol'][n0:]:
            d['variant'] = variant
            d['layout'] = B.layout
            s_['layout'] = 'one-axis' if B.layout == 0 else 'multi-axis'
    return res


# ------------------------------------------------------------------ driver beyond the TLC constants
def driver_programs(quick, rnd):
    H = Fraction(1, 2)
    out = []
    spaces = [('rn', 1, 3, [1] * 3), ('rnw', 1, 3, [4] * 3), ('discr', 1, 5, [H] * 5), ('power', 2, 2, [H] * 4),
              ('power', 3, 2, [2] * 6), ('pspace', 2, 2, [4, 4, H, H])]
    for kind, m, n, W in spaces:
        N = m * n
        alt = lambda a, b: [a if i % 2 == 0 else b for i in range(N)]
        leaves = [mkf('L1'), mkf('L2'), mkf('L2sq'), mkf('Const', 0, 3), mkf('Const', 0, 0), mkf('Quad', 0, 1, v=[2] * N, u=alt(1, -H)),
                  mkf('Quad', 0, 1, u=alt(1, -H)), mkf('Quad', 0, 0, u=alt(1, -H)), mkf('Quad', 0, 0, u=alt(2, 3))]
        if kind != 'pspace':
            leaves += [mkf('Huber', (1, 2)), mkf('Huber', 2), mkf('KL', v=alt(1, 2)), mkf('KLcc', v=alt(1, 2)),
                       mkf('KL'), mkf('KLcc')]
        if m == 1:
            leaves += [mkf('Quad', 0, 0, v=alt(1, H))]
        if kind == 'power':
            leaves += [mkf('GroupL1'), mkf('GroupL1', 1)]
        if kind == 'pspace':
            leaves = [mkf('SepSum', args=[a, b]) for a, b in [(mkf('L1'), mkf('L2sq')), (mkf('L2'), mkf('Huber', (1, 2))),
                                                              (mkf('Huber', 1), mkf('Quad', 0, 1, v=[2] * n))]] + leaves[:4]
        rv = lambda: [Fraction(rnd.choice([-2, -1, 1, 1, 2]), rnd.choice([1, 2])) for _ in range(N)]
        smooth2 = [mkf('L2sq'), mkf('Quad', 0, 1, v=[2] * N, u=alt(1, -H))]
        rules = [lambda g: g,
                 lambda g: mkf('Translate', u=rv(), args=[g]),
                 lambda g: mkf('ArgScale', rnd.choice([(2, 1), (-1, 2), (-1, 1)]), args=[g]),
                 lambda g: mkf('LScale', rnd.choice([(2, 1), (-1, 1), (1, 2)]), args=[g]),
                 lambda g: mkf('RVec', v=[Fraction(rnd.choice([-2, 1, 2]), rnd.choice([1, 2])) for _ in range(N)], args=[g]),
                 lambda g: mkf('AddConst', 0, -2, args=[g]),
                 lambda g: mkf('QuadPert', rnd.choice([(1, 2), (1, 1), (2, 1)]), 1, u=rv(), args=[g]),
                 lambda g: mkf('QuadPert', (1, 1), 0, args=[g]),
                 lambda g: mkf('Bregman', v=rv(), u=rv(), args=[g]),
                 lambda g: mkf('Sum', args=[g, rnd.choice(smooth2)]),
                 lambda g: mkf('Prod', args=[g, rnd.choice(smooth2)]),
                 lambda g: mkf('Quot', args=[g, mkf('AddConst', 0, 1, args=[mkf('L2sq')])]),
                 # nonlinear inner operators (domain = range): f o PowerOperator(k), and compositions of them
                 lambda g: mkf('CompPow', 2, args=[g]),
                 lambda g: mkf('CompPow', 3, args=[g]),
                 lambda g: mkf('CompPow', 2, args=[mkf('Translate', u=rv(), args=[g])]),
                 lambda g: mkf('Sum', args=[mkf('CompPow', 2, args=[g]), rnd.choice(smooth2)]),
                 lambda g: mkf('Prod', args=[mkf('CompPow', 2, args=[g]), rnd.choice(smooth2)])]
        for leaf in leaves:
            picks = rules if not quick else [rules[0]] + rnd.sample(rules[1:], 3)
            for rule in picks:
                prog = rule(leaf)
                if prog['op'] == 'RVec' and kind == 'pspace':
                    continue
                if 'CompPow' in fu.ops_of(prog) and m != 1:
                    continue
                out.append(((kind, m, n, W), prog))
    return out


def nonlinear_recipes():
    """FunctionalComp with NONLINEAR inner operators outside the catalogue of the specification (relational):
    ufunc operators, point-wise products, a nonlinear operator into ANOTHER space, compositions of compositions,
    products / quotients with such compositions."""
    import odl
    S = fu.S
    out = []
    spaces = [('rn3', lambda: odl.rn(3)), ('rn3w', lambda: odl.rn(3, weighting=4.0)),
              ('discr(1,3)', lambda: odl.uniform_discr([0, 0], [2, 1.5], (1, 3)))]
    outer = [('L2sq', lambda X: S.L2NormSquared(X)), ('lin', lambda X: S.QuadraticForm(vector=X.one() * 2)),
             ('Huber', lambda X: S.Huber(X, 0.5)), ('L1', lambda X: S.L1Norm(X))]
    inner = [('exp', lambda X: odl.ufunc_ops.exp(X)), ('sin', lambda X: odl.ufunc_ops.sin(X)),
             ('square', lambda X: odl.ufunc_ops.square(X)), ('pow3', lambda X: odl.PowerOperator(X, 3)),
             ('x*x', lambda X: odl.OperatorPointwiseProduct(odl.IdentityOperator(X), odl.IdentityOperator(X))),
             ('pow2(pow3)', lambda X: odl.PowerOperator(X, 2) * odl.PowerOperator(X, 3)),
             ('sin(2x+1)', lambda X: odl.ufunc_ops.sin(X) * (2 * odl.IdentityOperator(X) + X.one()))]
    for snm, mkX in spaces:
        for onm, mko in outer:
            for inm, mki in inner:
                out.append(('%s o %s' % (onm, inm), snm, lambda mkX=mkX, mko=mko, mki=mki: _nl(mkX(), mko, mki, None)))
        # compositions of compositions, products and quotients with compositions
        out.append(('(L2sq o pow3) o sin', snm, lambda mkX=mkX: _nl(mkX(), outer[0][1], inner[3][1], 'comp')))
        out.append(('(L2sq o exp) * L2sq', snm, lambda mkX=mkX: _nl(mkX(), outer[0][1], inner[0][1], 'prod')))
        out.append(('(lin o square) / (L2sq + 1)', snm, lambda mkX=mkX: _nl(mkX(), outer[1][1], inner[2][1], 'quot')))
    # a nonlinear operator into ANOTHER space: point-wise norm of a vector field
    out.append(('L2sq o PointwiseNorm', 'power', lambda: _nl_pw()))
    return out


def _nl(X, mko, mki, mode):
    S = fu.S
    import odl
    f, op = mko(X), mki(X)
    F = f * op
    doc = lambda x: f(op(x))
    if mode == 'comp':
        op2 = odl.ufunc_ops.sin(X)
        F, doc = F * op2, (lambda x: f(op(op2(x))))
    elif mode == 'prod':
        g = S.L2NormSquared(X)
        F, doc = S.FunctionalProduct(F, g), (lambda x: f(op(x)) * g(x))
    elif mode == 'quot':
        g = S.L2NormSquared(X) + 1.0
        F, doc = S.FunctionalQuotient(F, g), (lambda x: f(op(x)) / g(x))
    return X, F, doc


def _nl_pw():
    import odl
    S = fu.S
    X = odl.uniform_discr(0, 1.5, 3)
    V = X ** 2
    pw = odl.PointwiseNorm(V)
    f = S.L2NormSquared(X)
    return V, f * pw, (lambda x: f(pw(x)))


def nonlinear_program(arg):
    idx, seed = arg
    name, snm, mk = nonlinear_recipes()[idx]
    res = _new_res()
    X, F, doc = mk()
    res['classes'] |= {type(F).__name__}
    rnd = _rnd(name + snm, seed)
    N = X.size if not isinstance(X, fu.odl.ProductSpace) else sum(s.size for s in X)
    mkel = lambda v: fu.element(X, None, list(v))
    sigd = {'leaf': 'FunctionalComp', 'ops': name, 'option': snm, 'space': 'opaque'}
    # base points off the kinks of the outer functionals (|op(x)| = 0, 1/2) in generic position
    pts = [[0.75 + 0.5 * i for i in range(N)], [-1.25 + 0.375 * i for i in range(N)]] + \
          [[rnd.choice([-1, 1]) * (rnd.randint(1, 6) / 4.0 + 0.0625) for _ in range(N)] for _ in range(2)]
    dirs = [[1.0] + [0.0] * (N - 1), [(-1.0) ** i * (1 + i % 2) for i in range(N)]]
    G = F.gradient
    for pi, xv in enumerate(pts):
        x = mkel(xv)
        det = {'stage': 'nonlinear', 'recipe': idx, 'name': name, 'option': snm, 'x': xv,
               'sp': {'kind': 'opaque', 'm': 1, 'n': N, 'W': []}, 'f': mkf('FunctionalComp')}
        try:
            fx, dx = float(F(x)), float(doc(x))
            g = G(x)
        except Exception as e:
            res['viol'].append((dict(sigd, clause='call-raises', error=type(e).__name__), dict(det, error=str(e)[:200])))
            break
        res['counts'].append(([name, snm, 'value', pi], True))
        if abs(fx - dx) > SLACK * max(1.0, abs(fx)):
            res['viol'].append((dict(sigd, clause='value'), dict(det, observed={'F(x)': fx, 'f(op(x))': dx})))
        ev = fu.rel_event('value', 'eq', fx, dx)
        if ev:
            res['events'].append((ev, det))
        for dv in dirs:
            d = mkel(dv)
            gd = float(g.inner(d))
            try:
                der = float(F.derivative(x)(d))
            except Exception as e:
                res['viol'].append((dict(sigd, clause='derivative-raises', error=type(e).__name__), dict(det, error=str(e)[:200])))
                continue
            errs = [abs((float(F(x + h * d)) - float(F(x - h * d))) / (2 * h) - gd) for h in (2.0 ** -9, 2.0 ** -10)]
            floor = 1e-8 * max(1.0, abs(gd), abs(fx))
            res['counts'].append(([name, snm, 'cdrel', pi, str(dv)], True))
            dd = dict(det, d=dv, observed={'e(h)': errs[0], 'e(h/2)': errs[1], '<g,d>': gd, 'deriv': der})
            if all(math.isfinite(t) for t in errs) and 3 * errs[1] > errs[0] + 3 * floor:
                res['viol'].append((dict(sigd, clause='central-difference-convergence'), dd))
            if abs(gd - der) > SLACK * max(1.0, abs(gd)):
                res['viol'].append((dict(sigd, clause='derivative-differs-from-inner(gradient)'), dd))
            if all(math.isfinite(t) for t in errs):
                top = max(errs + [floor])
                qz = lambda v: int(round(v / top * 2 ** 20))
                res['events'].append(({'k': 'cdrel', 'e1q': qz(errs[0]), 'e2q': qz(errs[1]), 'floorq': qz(floor), 'opaque': 1}, dd))
            ev = fu.rel_event('derivative-differs-from-inner(gradient)', 'eq', gd, der)
            if ev:
                res['events'].append((ev, dd))
    return res


# ------------------------------------------------------------------ NumericalGradient as the gradient provider
def numgrad_cases():
    """User-defined functionals (odl.solvers.Functional subclasses with exact polynomial values of degree <= 3)
    whose .gradient is NumericalGradient(self, method, step), alone and under translation / scalar multiple / sum,
    on one- and multi-axis tensor spaces incl. weighted ones.  The specification computes the documented difference
    quotients of the VALUES exactly (FuncSem!NumGrad)."""
    H = Fraction(1, 2)
    out = []
    spaces = [(('rn', 1, 3, [1] * 3), 0), (('rn', 1, 6, [1] * 6), 2), (('rnw', 1, 4, [4] * 4), 1),
              (('discr', 1, 4, [2] * 4), 2), (('discr', 1, 3, [H] * 3), 0)]
    for spd, layout in spaces:
        N = spd[1] * spd[2]
        alt = lambda a, b: [a if i % 2 == 0 else b for i in range(N)]
        quad = mkf('Quad', 0, 1, v=[2] * N, u=alt(1, -H))
        lin = mkf('Quad', 0, 0, u=alt(1, -H))
        polys = [mkf('L2sq'), quad, lin, mkf('QuadPert', (1, 2), 1, u=alt(-1, 2), args=[mkf('L2sq')]),
                 mkf('Translate', u=alt(H, -1), args=[mkf('L2sq')]),
                 mkf('Prod', args=[lin, mkf('L2sq')]), mkf('Prod', args=[lin, quad])]        # degree 3
        for pi, prog in enumerate(polys):
            for m in ('forward', 'backward', 'central'):
                for h in (Fraction(1, 8), Fraction(1, 32)):
                    rules = [('none', {})]
                    if pi in (0, 1, 5):
                        rules += [('Translate', {'u': alt(H, -Fraction(1, 4))}), ('LScale', {'s': Fraction(-3, 2)}),
                                  ('Sum', {'g': polys[(pi + 1) % 3]})]
                    for rule, par in rules:
                        out.append((spd, layout, prog, m, h, rule, par))
    return out


def _user_numgrad(space, inner, method, step):
    import odl
    from odl.solvers.functional.derivatives import NumericalGradient

    class UserPolynomial(odl.solvers.Functional):
        """a user-defined functional: values only; the gradient is taken numerically"""

        def __init__(self):
            super(UserPolynomial, self).__init__(space, linear=False)

        def _call(self, x):
            return inner(x)

        @property
        def gradient(self):
            return NumericalGradient(self, method=method, step=step)
    return UserPolynomial()


def numgrad_program(arg):
    i0, i1, seed = arg
    res = _new_res()
    res['classes'] |= {'NumericalGradient'}
    for idx in range(i0, i1):
        spd, layout, prog, m, h, rule, par = numgrad_cases()[idx]
        kind, mm, n, W = spd
        sp = fu.sp_desc(kind, mm, n, W)
        N = mm * n
        try:
            B = fu.Built(sp, prog, 0, layout=layout)
        except fu.Unbuildable:
            continue
        q = lambda vs: [fu.qj(Fraction(v)) for v in vs]
        U = _user_numgrad(B.space, B.func, m, float(h))
        ev = {'k': 'numgrad', 'sp': sp, 'f': prog, 'm': m, 'h': fu.qj(h), 'rule': rule, 'u': [], 's': [0, 1],
              'g': mkf('Const')}
        if rule == 'Translate':
            F = U.translated(B.el(par['u']))
            ev['u'] = q(par['u'])
        elif rule == 'LScale':
            F = float(par['s']) * U
            ev['s'] = fu.qj(par['s'])
        elif rule == 'Sum':
            B2 = fu.Built(sp, par['g'], 0, layout=layout)
            F = U + _user_numgrad(B.space, B2.func, m, float(h))
            ev['g'] = par['g']
        else:
            F = U
        pts = [[Fraction(1, 2) if i % 2 == 0 else Fraction(-1, 4) for i in range(N)], [Fraction(0)] * N,
               [Fraction(-3, 4) + Fraction(i, 4) for i in range(N)]]
        for xv in pts:
            x = B.el(xv)
            det = {'stage': 'numgrad', 'case': idx, 'sp': sp, 'f': prog, 'method': m, 'step': str(h), 'rule': rule,
                   'layout': layout, 'x': q(xv)}
            try:
                g = fu.flat(F.gradient(x))
            except Exception as e:
                res['viol'].append(({'leaf': 'NumericalGradient', 'ops': fu.shape(prog), 'method': m, 'rule': rule,
                                     'space': kind, 'weight': 'unit' if all(w == 1 for w in W) else 'weighted',
                                     'clause': 'gradient-raises', 'error': type(e).__name__}, dict(det, error=str(e)[:200])))
                break
            res['counts'].append(([prog, kind, N, m, str(h), rule, q(xv)], True))
            e2 = dict(ev, x=q(xv), grad=[fu.snapv(v, D=8192, maxden=8192) for v in g])
            res['events'].append((e2, dict(det, observed=g.tolist())))
    return res


def driver_jobs(seed, quick):
    dprogs = driver_programs(quick, random.Random(seed * 7919 + 13))
    nl = list(range(len(nonlinear_recipes())))
    if quick:                       # rotate: a third of the relational nonlinear recipes per seed-independent slice
        nl = [i for i in nl if i % 3 == 0 or i >= len(nl) - 1]
    return [(driver_program, [(spd, f, seed, 2 if quick else 6, i) for i, (spd, f) in enumerate(dprogs)]),
            (special_program, [(i, seed) for i in range(6)]),
            (derived_program, [(i, seed) for i in range(len(derived_recipes()))]),
            (nonlinear_program, [(i, seed) for i in nl]),
            (numgrad_program, [(i, min(i + 40, len(numgrad_cases())), seed) for i in range(0, len(numgrad_cases()), 40)])]


def driver_program(arg):
    spd, f, seed, npts = arg[:4]
    idx = arg[4] if len(arg) > 4 else 0
    kind, m, n, W = spd
    sp = fu.sp_desc(kind, m, n, W)
    N = m * n
    res = _new_res()
    rnd = _rnd(json.dumps(f, sort_keys=True) + kind + str(N), seed)
    try:
        B = GB(sp, f, 0, layout=(idx + seed) % 4)
    except (NotImplementedError, fu.Unbuildable):
        return res
    except Exception as e:
        res['viol'].append((fu.signature(sp, f, 'construction-raises', {'error': type(e).__name__}),
                            {'stage': 'driver', 'sp': sp, 'f': f, 'error': str(e)[:200]}))
        return res
    res['classes'] |= fu.class_names(B.func)
    if B.grad is None:
        res['nograd'] += 1
        return res
    H = Fraction(1, 2)
    ops = fu.ops_of(f)
    # base points in the interior of the pieces: no zero entries, away from the kinks of the catalogue
    # (odd quarters: off the kinks at 0, +-1/2, +-1, +-2 of the catalogue, and narrow enough for 32-bit rationals in TLC)
    fixed = [[Fraction(3) if i % 2 == 0 else Fraction(-4) for i in range(N)], [Fraction(2 * i + 3, 4) for i in range(N)],
             [Fraction(-5, 4) - i for i in range(N)]]
    rand = [[Fraction(rnd.choice([-1, 1]) * (2 * rnd.randint(0, 6) + 1), 4) for _ in range(N)] for _ in range(npts)]
    xs = fixed + rand
    if 'Prod' in ops:      # degree 4: the exact stencil clause of the specification is stated on the half lattice
        xs = [[Fraction(int(2 * v) | 1, 2) for v in x] for x in xs]
    if 'KL' in ops:
        xs = [[abs(v) + Fraction(1, 4) for v in x] for x in xs]
    if 'KLcc' in ops:
        xs = [[-abs(v) for v in x] for x in xs]
    ds = [[Fraction(1)] + [Fraction(0)] * (N - 1), [Fraction((-1) ** i * (1 + i % 2)) for i in range(N)]]
    q = lambda vs: [fu.qj(Fraction(v)) for v in vs]
    poly = all(o in ('L1', 'L2sq', 'Quad', 'Const', 'Translate', 'ArgScale', 'LScale', 'RVec', 'AddConst', 'QuadPert',
                     'Bregman', 'Sum', 'SepSum', 'Prod') or (o == 'Huber' and kind != 'power') for o in ops)
    pts = []
    for x in xs:
        xx, g, fx = observe_point(B, q(x), [q(d) for d in ds], res, 'driver', sp, f, kind + str(N), expected=None,
                                  deg=2 if poly else 99)
        if g is not None:
            pts.append((q(x), xx, g))
    lipschitz(B, pts, res, 'driver', sp, f, kind + str(N))
    linear_flag(B, None, res, 'driver', sp, f, kind + str(N), pts=(q(xs[0]), q(xs[1])))
    return res


def derived_recipes():
    """(name, builder) -> (space, base functional, points, translations) for bases outside the catalogue
    (functionals on the scalar field, Rosenbrock, KL cross entropy) and one linear base inside it."""
    import odl
    S = fu.S
    R = odl.RealNumbers()
    X = odl.rn(3)
    return [('IdentityFunctional', lambda: (R, S.IdentityFunctional(R), [1.5, -2.0, 0.25], [0.5, -1.0])),
            ('ScalingFunctional', lambda: (R, S.ScalingFunctional(R, 3.0), [1.5, -2.0, 0.25], [0.5, -1.0])),
            ('QuadraticForm(vector)', lambda: (X, S.QuadraticForm(vector=X.element([1, -0.5, 2])),
                                               [X.element([1, 2, -1]), X.element([0.5, 0, 3])], [X.element([1, 1, -0.5])])),
            ('RosenbrockFunctional', lambda: (X, S.RosenbrockFunctional(X, scale=2.0),
                                              [X.element([1, 2, -1]), X.element([0.5, 0, 3])], [X.element([1, 1, -0.5])])),
            ('KullbackLeiblerCrossEntropy', lambda: (X, S.KullbackLeiblerCrossEntropy(X, prior=X.element([1, 2, 0.5])),
                                                     [X.element([4, 5, 6]), X.element([3, 2.5, 7])],
                                                     [X.element([1, 1, -0.5])]))]


def derived_program(arg):
    """Derived functionals "take the documented values": a relation between the derived functional and the BASE
    functional evaluated at the transformed argument (both observed), for bases the specification has no values for.
    Also the is_linear flag against observed additivity."""
    idx, seed = arg
    name, mk = derived_recipes()[idx]
    res = _new_res()
    X, f, xs, ts = mk()
    res['classes'] |= {type(f).__name__}
    sigd = {'leaf': name, 'ops': name, 'space': 'field' if not hasattr(X, 'shape') or X.shape == () else 'rn'}

    def emit(rule, lhs, rhs, flag_of=None, **info):
        res['counts'].append(([name, rule, str(info)], True))
        det = {'stage': 'derived', 'recipe': idx, 'name': name, 'rule': rule, 'observed': dict(info, derived=lhs, documented=rhs),
               'sp': {'kind': 'opaque', 'm': 1, 'n': 1, 'W': []}, 'f': mkf(name)}
        if abs(lhs - rhs) > SLACK * max(1.0, abs(lhs), abs(rhs)):
            res['viol'].append((dict(sigd, clause='value', rule=rule), det))
        ev = fu.rel_event('value', 'eq', lhs, rhs)
        if ev is not None:
            res['events'].append((ev, det))
    g = fu.S.L2NormSquared(X) if hasattr(X, 'shape') and X.shape != () else None
    for t in ts:
        for s in (2.0, -0.5):
            isfield = g is None
            cons = [('Translate', lambda: f.translated(t), lambda x: f(x - t)),
                    ('ArgScale', lambda: f * s, lambda x: f(s * x)),
                    ('LScale', lambda: s * f, lambda x: s * f(x)),
                    ('AddConst', lambda: f + 3.0, lambda x: f(x) + 3.0),
                    ('ArgScale(Translate)', lambda: f.translated(t) * s, lambda x: f(s * x - t)),
                    ('Translate(ArgScale)', lambda: (f * s).translated(t), lambda x: f(s * (x - t))),
                    ('LScale(Translate)', lambda: s * f.translated(t), lambda x: s * f(x - t)),
                    ('ArgScale(ArgScale(Translate))', lambda: (f.translated(t) * s) * s, lambda x: f(s * s * x - t)),
                    ('ArgScale(AddConst)', lambda: (f + 3.0) * s, lambda x: f(s * x) + 3.0),
                    # scalar 0 is special-cased by __mul__ / __rmul__ (constant resp. zero functional)
                    ('ArgScale0', lambda: f * 0.0, lambda x: f(0.0 * x)),
                    ('LScale0', lambda: 0.0 * f, lambda x: 0.0 * f(x)),
                    ('ArgScale0(Translate)', lambda: f.translated(t) * 0.0, lambda x: f(0.0 * x - t))]
            if g is not None:
                cons += [('Sum', lambda: f + g, lambda x: f(x) + g(x)),
                         ('ArgScale(Sum(Translate))', lambda: (f.translated(t) + g) * s, lambda x: f(s * x - t) + g(s * x)),
                         ('Prod(Translate)', lambda: fu.S.FunctionalProduct(f.translated(t), g), lambda x: f(x - t) * g(x))]
            progs = []
            for rule, mkD, doc in cons:
                try:
                    progs.append((rule, mkD(), doc))
                except Exception as e:
                    if not isfield:       # (functionals on the scalar field: RealNumbers has no zero(); not pursued)
                        res['viol'].append((dict(sigd, clause='construction-raises', rule=rule, error=type(e).__name__),
                                            {'stage': 'derived', 'recipe': idx, 'error': str(e)[:200]}))
            for rule, D, doc in progs:
                for x in xs:
                    try:
                        lhs, rhs = float(D(x)), float(doc(x))
                    except Exception as e:
                        res['viol'].append((dict(sigd, clause='call-raises', rule=rule, error=type(e).__name__),
                                            {'stage': 'derived', 'recipe': idx, 'error': str(e)[:200]}))
                        break
                    if math.isfinite(lhs) and math.isfinite(rhs):
                        emit(rule, lhs, rhs, x=str(x), t=str(t), s=s)
                # the flag that redirects arithmetic
                try:
                    flag = bool(D.is_linear)
                except Exception:
                    flag = False
                if flag:
                    x, y = xs[0], xs[1]
                    v = [float(D(z)) for z in (x, y, x + y, 2 * x, 0 * x)]
                    res['counts'].append(([name, rule, 'is_linear'], True))
                    det = {'stage': 'derived', 'recipe': idx, 'name': name, 'rule': rule, 'sp': {'kind': 'opaque', 'm': 1, 'n': 1, 'W': []},
                           'f': mkf(name), 'observed': {'is_linear': True, 'values': v}}
                    tol = SLACK * max(1.0, max(abs(z) for z in v))
                    if abs(v[2] - v[0] - v[1]) > tol or abs(v[3] - 2 * v[0]) > tol or abs(v[4]) > tol:
                        res['viol'].append((dict(sigd, clause='is_linear-refuted-by-observed-values', rule=rule), det))
                    q = [fu.fixq(z) for z in v]
                    if all(z is not None for z in q):
                        res['events'].append(({'k': 'lin', 'flag': 1, 'opaque': 1, 'fxq': q[0], 'fyq': q[1], 'fxyq': q[2],
                                               'f2xq': q[3], 'f0q': q[4], 'fin': 1, 'slackq': fu.REL_SLACKQ}, det))
    return res


def special_program(arg):
    """Recipes outside the catalogue: Rosenbrock (values vs gradient, relational) and the Moreau envelope, whose
    gradient (x - prox_{sigma f}(x)) / sigma is judged by TLC through the proximal certificate of f."""
    idx, seed = arg
    import odl
    S = fu.S
    res = _new_res()
    rnd = _rnd('special%d' % idx, seed)
    if idx == 0:
        X = odl.rn(3)
        func = S.RosenbrockFunctional(X, scale=2.0)
        res['classes'] |= {'RosenbrockFunctional'}
        G = func.gradient
        for k in range(6):
            xv = [rnd.randint(-8, 8) / 4.0 for _ in range(3)]
            d = [1.0, -0.5, 2.0]
            x, dd = X.element(xv), X.element(d)
            gd = float(G(x).inner(dd))
            der = float(func.derivative(x)(dd))
            errs = [abs((float(func(x + h * dd)) - float(func(x - h * dd))) / (2 * h) - gd) for h in (2.0 ** -7, 2.0 ** -8)]
            floor = 1e-9 * max(1.0, abs(gd), abs(float(func(x))))
            top = max(errs + [floor])
            qz = lambda v: int(round(v / top * 2 ** 20))
            sigd = {'leaf': 'RosenbrockFunctional', 'ops': 'RosenbrockFunctional', 'space': 'rn'}
            det = {'stage': 'special', 'recipe': 0, 'x': xv, 'observed': {'e(h)': errs[0], 'e(h/2)': errs[1], '<g,d>': gd, 'deriv': der}}
            res['counts'].append((['Rosenbrock', xv], True))
            if 3 * errs[1] > errs[0] + 3 * floor:
                res['viol'].append((dict(sigd, clause='central-difference-convergence'), det))
            if abs(gd - der) > SLACK * max(1.0, abs(gd)):
                res['viol'].append((dict(sigd, clause='derivative-differs-from-inner(gradient)'), det))
            res['events'].append(({'k': 'cdrel', 'e1q': qz(errs[0]), 'e2q': qz(errs[1]), 'floorq': qz(floor), 'opaque': 1},
                                  dict(det, sp={'kind': 'rn', 'm': 1, 'n': 3, 'W': []}, f=mkf('Rosenbrock'), kind='cdrel')))
        return res
    # Moreau envelopes of catalogue functionals
    H = Fraction(1, 2)
    progs = [mkf('L1'), mkf('L2sq'), mkf('IndBox', -1, 2), mkf('Huber', (1, 2)), mkf('LScale', 2, args=[mkf('L1')])]
    f = progs[idx - 1]
    for kind, m, n, W in [('rn', 1, 3, [1] * 3), ('discr', 1, 3, [2] * 3)]:
        sp = fu.sp_desc(kind, m, n, W)
        B = fu.Built(sp, f, 0)
        for sg in (H, Fraction(2)):
            env = S.MoreauEnvelope(B.func, sigma=float(sg))
            res['classes'] |= {'MoreauEnvelope'}
            for k in range(4):
                xv = [Fraction(rnd.randint(-12, 12), 4) for _ in range(3)]
                x = B.el(xv)
                g = env.gradient(x)
                p = x - float(sg) * g            # the proximal point the envelope's gradient stands for
                F = B.prox_objective(x, [fu.qj(sg)] * 3, 's')
                fp, Fp = F(p)
                ev = {'k': 'prox', 'sp': sp, 'f': f, 'sig': [fu.qj(sg)] * 3, 'sk': 's', 'x': [fu.qj(v) for v in xv],
                      'slackq': fu.PROBE_SLACKQ, 'finite': 1 if math.isfinite(fp) else 0, 'Fpq': fu.fixq(Fp) or 0,
                      'p': fu.snapvec(fu.flat(p)), 'probes': [], 'idemq': -1}
                res['counts'].append((['Moreau', f, kind, fu.qj(sg), ev['x']], True))
                res['events'].append((ev, {'stage': 'special', 'recipe': idx, 'sp': sp, 'f': mkf('MoreauEnvelope', args=[f]),
                                           'kind': 'moreau-envelope', 'x': ev['x'], 'sigma': str(sg)}))
    return res


# ------------------------------------------------------------------ check
def run(ctx):
    quick = ctx.tier == 'quick'
    ctx.rule = ('functional programs of the bounded FuncMachine (depth <= 1 on every leaf incl. composition with a matrix, sums, '
                'products, quotients; depth 2 on a core; 6 space kinds) x lattice base points x directions, and all point pairs '
                'for the Lipschitz bound; distinct = hash of (program, space, clause, points); non-trivial = non-zero value / '
                'non-zero gradient / distinct gradients')
    ctx.assumptions += [
        'exact clause: programs that are piecewise polynomial of degree <= 4, base points and stencil inside one piece '
        '(decided by the specification); other functionals: relational central-difference clause only',
        'gradients are compared as Riesz representatives in the inner product of f.domain',
        'the Lipschitz clause is checked only where grad_lipschitz is finite (nan = no claim)',
        'base points on the boundary of a piece (kinks) are not in the domain of differentiability and carry no gradient verdict']
    import time
    t0 = time.time()
    jobs, exports = tlc_jobs(ctx, quick)
    results = fu.run_jobs_allow(ctx, jobs)
    stage = {'tlc_model_export': round(time.time() - t0, 1)}
    design = set()
    for name, res in results.items():
        if name.startswith('impl-'):
            design |= fu.impl_mismatches(res)
    ctx.extra['layerC_vs_layerA_mismatch_cells'] = sorted('%s %s %s' % t for t in design)[:200]
    recs = []
    for path in exports:
        recs += fu.read_export(path)
    if not recs:
        raise MachineryError('empty export')
    seen, progs = set(), []
    for r in recs:
        k = json.dumps(r['f'], sort_keys=True) + r['space']
        if k not in seen:
            seen.add(k)
            progs.append(r)
    ctx.extra['programs_exported'] = len(progs)
    ctx.extra['programs_by_outermost_rule'] = fu.by_rule(progs)       # every action of the machine is exercised
    dprogs = driver_jobs(ctx.seed, quick)[0][1]
    sink = fu.EventSink(ctx, 'c09')
    classes = set()
    tot = {'nograd': 0, 'lipclaims': 0, 'n': 0}

    def absorb(o):
        for sig, det in o['viol']:
            fu.report(ctx, sig, det)
        for key, nt in o['counts']:
            ctx.count(key, nt)
        for ev, det in o['events']:
            sink.add(ev, det)
        classes.update(o['classes'])
        tot['nograd'] += o['nograd']
        tot['lipclaims'] += o['lipclaims']
        tot['n'] += len(o['counts'])
        for s in o['samples']:
            if len(ctx.samples) < 5:
                ctx.sample(s)
    with mp.Pool(min(14, os.cpu_count() or 4)) as pool:
        for i, r in enumerate(progs):
            r['idx'] = i
        for o in pool.imap(replay_program, [(r, ctx.seed, quick) for r in progs], chunksize=4):
            absorb(o)
        for fn, args in driver_jobs(ctx.seed, quick):
            for o in pool.imap(fn, args, chunksize=2):
                absorb(o)
    stage['replay_and_driver'] = round(time.time() - t0 - stage['tlc_model_export'], 1)
    ctx.traces += tot['n']
    ctx.extra['programs_without_gradient'] = tot['nograd']
    ctx.extra['programs_with_finite_grad_lipschitz'] = tot['lipclaims']
    ctx.extra['driver_programs'] = len(dprogs)
    fails = sink.validate()
    stage['tlc_trace_validation'] = round(time.time() - t0 - stage['tlc_model_export'] - stage['replay_and_driver'], 1)
    ctx.extra['stage_wall_s'] = stage
    for eid, clauses in sorted(fails.items()):
        ev, det = sink.get(eid)
        for cl in clauses:
            d = dict(det)
            d['stage'] = 'trace:' + det['stage']
            d['event'] = ev
            d['tlc_clauses'] = clauses
            cl = cl.replace('(q)', '')
            if det['stage'] == 'special':
                cl = 'moreau-envelope-gradient' if det.get('kind') == 'moreau-envelope' else cl
            if det['stage'] == 'numgrad':
                W_ = fu.frv(det['sp']['W'])
                fu.report(ctx, {'leaf': 'NumericalGradient', 'ops': fu.shape(det['f']), 'method': det['method'],
                                'rule': det['rule'], 'space': det['sp']['kind'],
                                'weight': 'unit' if all(w == 1 for w in W_) else 'weighted', 'clause': cl}, d)
                continue
            if det['stage'] == 'nonlinear':
                fu.report(ctx, {'leaf': 'FunctionalComp', 'ops': det['name'], 'option': det['option'], 'space': 'opaque', 'clause': cl}, d)
                continue
            if det['stage'] == 'derived':
                fu.report(ctx, {'leaf': det['name'], 'ops': det['name'], 'space': 'opaque', 'rule': det['rule'], 'clause': cl}, d)
                continue
            fu.report(ctx, fu.signature(det['sp'], det['f'], cl), d)
    ctx.extra['trace_events_validated_by_tlc'] = sink.n
    ctx.extra['trace_events_by_kind'] = sink.kinds
    ctx.extra['trace_events_rejected_by_tlc'] = len(fails)
    fu.design_drift(ctx, design, ctx.extra.get('_ops', []))
    fu.uncovered_report(ctx, classes)
    ctx.exhaustive = True


def replay(body):
    d = body['detail']
    clause = body['signature']['clause']
    if d['stage'].endswith('numgrad'):
        res = numgrad_program((d['case'], d['case'] + 1, body.get('seed', 0)))
        bad = bool(res['viol']) or _tlc_rejects([e for e, _ in res['events']])
        print('REPRODUCED' if bad else 'NOT-REPRODUCED')
        return 1 if bad else 0
    if d['stage'].endswith('nonlinear'):
        res = nonlinear_program((d['recipe'], body.get('seed', 0)))
        hit = [s for s, _ in res['viol'] if s['clause'] == clause]
        for s, dd in hit[:3]:
            print('observed :', s['clause'], s['ops'], dd.get('observed'))
        print('REPRODUCED' if hit else 'NOT-REPRODUCED')
        return 1 if hit else 0
    if d['stage'].endswith('derived'):
        res = derived_program((d['recipe'], body.get('seed', 0)))
        hit = [s for s, _ in res['viol'] if s['clause'] == clause and s.get('rule') == body['signature'].get('rule')]
        for s, dd in hit[:3]:
            print('observed :', s['clause'], s['rule'], dd.get('observed'))
        print('REPRODUCED' if hit else 'NOT-REPRODUCED')
        return 1 if hit else 0
    if d['stage'].endswith('special'):
        res = special_program((d['recipe'], body.get('seed', 0)))
        bad = bool(res['viol'])
        if not bad and res['events']:
            bad = _tlc_rejects([e for e, _ in res['events']])
        print('REPRODUCED' if bad else 'NOT-REPRODUCED')
        return 1 if bad else 0
    sp, f = d['sp'], d['f']
    print('program  :', fu.shape(f), 'on', sp['kind'], 'W =', sp['W'])
    try:
        B = GB(sp, f, d.get('variant', 0), layout=d.get('layout', 0))
    except Exception as e:
        print('construction raises', type(e).__name__, e)
        print('REPRODUCED' if clause == 'construction-raises' else 'NOT-REPRODUCED')
        return 1 if clause == 'construction-raises' else 0
    res = _new_res()
    N = sp['m'] * sp['n']
    if clause.startswith('is_linear'):
        rec = {'linpts': [d['x'], d['y']], 'linref': clause.endswith('specification')}
        linear_flag(B, rec, res, 'replay', sp, f, 'replay')
    elif clause == 'lipschitz-bound' or d.get('kind') == 'lip':
        pts = []
        for xq in (d['x'], d['y']):
            x = B.el(fu.frv(xq))
            pts.append((xq, x, B.grad(x)))
        lipschitz(B, pts, res, 'replay', sp, f, 'replay')
    else:
        dq = d.get('d') or [fu.qj(Fraction(1))] + [fu.qj(Fraction(0))] * (N - 1)
        exp = None
        if 'expected_from_TLC' in d:
            exp = {'fx': d['expected_from_TLC'], 'g': [[0, 0]] * N, 'interior': False, 'dds': []}
        if 'expected_gradient_from_TLC' in d:
            exp = {'fx': [0, 0], 'g': d['expected_gradient_from_TLC'], 'interior': True, 'dds': []}
        if 'expected_dirderiv_from_TLC' in d:
            exp = {'fx': [0, 0], 'g': [[0, 0]] * N, 'interior': True, 'dds': [{'d': dq, 'dd': d['expected_dirderiv_from_TLC']}]}
        observe_point(B, d['x'], [dq], res, 'replay', sp, f, 'replay', expected=exp, deg=99 if clause.startswith('central') else 2)
    for s, dd in res['viol']:
        print('observed :', s['clause'], dd.get('observed'), dd.get('error', ''))
    bad = any(s['clause'] == clause for s, _ in res['viol'])
    if not bad and d['stage'].startswith('trace'):
        bad = _tlc_rejects([e for e, _ in res['events']])
    print('REPRODUCED' if bad else 'NOT-REPRODUCED')
    return 1 if bad else 0


def _tlc_rejects(evs):
    import tempfile
    import shutil

    class C(object):
        pass
    c = C()
    base = os.path.join(os.path.dirname(os.path.dirname(os.path.dirname(__file__))), '.work')
    os.makedirs(base, exist_ok=True)
    c.work = tempfile.mkdtemp(dir=base)
    c.add_tlc = lambda name, r: None
    for i, e in enumerate(evs):
        e['id'] = i
    fails = fu.validate_events(c, evs, 'replay')
    shutil.rmtree(c.work, ignore_errors=True)
    print('TLC clauses now:', fails)
    return bool(fails)
